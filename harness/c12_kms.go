package main

// C12 on the production key stack (gcpkms.Manager + gcpkms.Signer over the in-process Cloud KMS service of
// c10_kms_svc.go, gcsca over testing/storage): the command histories of stream c12 — bootstrap | rotate |
// wipeout ca|keys|all with common names, serial overrides, timestamps, overwrite / keep_going — run at
// library level exactly as the command components do, each command in its own Cloud KMS environment (generation
// delay of the versions it creates, a context that expires while waiting), interleaved with external events
// (pending generations complete, an operator disables a version, destroy-scheduled versions are destroyed).
// After every command the observation of stream c12 (primary names, served root, every recorded certificate field
// by field, the names that can sign) plus the state of every key version goes to the Lean model of the Cloud KMS
// manager (Model/KeyHistoryKms.lean, op=khist), and the direct oracle of stream c12 plus the Cloud-KMS clauses
// below is evaluated on the implementation alone.
//
// Plus one scenario no command history exhibits: a rotation that is killed right after CreateCryptoKeyVersion.

import (
	"context"
	"fmt"
	"io"
	"math/big"
	"runtime"
	"sort"
	"strconv"
	"strings"
	"sync"

	"cloud.google.com/go/kms/apiv1/kmspb"
	"github.com/google/gce-tcb-verifier/cmd/output"
	"github.com/google/gce-tcb-verifier/keys"
	"github.com/google/gce-tcb-verifier/keys/gcpkms"
	"github.com/google/gce-tcb-verifier/sign/gcsca"
	teststorage "github.com/google/gce-tcb-verifier/testing/storage"
)

func init() {
	register("c12kms", "key-management histories of at most 7 steps on gcpkms.Manager + gcpkms.Signer (in-process Cloud KMS service) + gcsca "+
		"over testing/storage: the commands of stream c12, each with a Cloud KMS environment (generation delay 0..2 polls, context "+
		"expiring during the wait), and external events (generation completes, version disabled, destroy-scheduled versions destroyed); "+
		"one case per history prefix: every recorded certificate parsed with crypto/x509, every key version probed (Sign / PublicKey) "+
		"and its state, compared with the Lean model of the Cloud KMS manager; direct oracle of stream c12 plus: a successful rotation "+
		"retires the previous primary and gets a fresh version number, primaries are ENABLED versions, nothing can become usable after "+
		"`wipeout keys`. Plus the rotation killed after CreateCryptoKeyVersion. Non-trivial: at least two steps, one succeeded command.", runC12Kms)
}

// c12Cmd.gen < 0: CreateCryptoKeyVersion creates versions directly in a state (no generation phase) and its
// response says so; version 1 of a new cryptoKey (CreateCryptoKey) still goes through generation (countdown 0)
const (
	c12GenEnabled  = -1 // created ENABLED
	c12GenDisabled = -2 // created DISABLED
)

// c12KmsEnv is the Cloud KMS environment of one command.
func c12KmsEnv(c c12Cmd) k10Env {
	switch c.gen {
	case c12GenEnabled:
		return k10Env{deadline: c.dl, created: ksEnabled}
	case c12GenDisabled:
		return k10Env{deadline: c.dl, created: ksDisabled}
	}
	return k10Env{gen: c.gen, deadline: c.dl}
}

// genField is the <gen> slot of the model's command: a countdown, or the created state.
func (c c12Cmd) genField() string {
	switch c.gen {
	case c12GenEnabled:
		return "cE"
	case c12GenDisabled:
		return "cD"
	}
	return strconv.Itoa(c.gen)
}

type c12Kms struct {
	svc  *k10Svc
	st   c12Mock
	seed uint64
	rng  *Rng
	// what the last command found (for the histogram and the oracle)
	signCountBefore int
	pendingBefore   int
	statesBefore    map[string][]string // cryptoKey name -> state letter of every version, before the command
	rootClass       string
	signClass       string
}

func newC12KmsStack(seed uint64) *c12Kms {
	return &c12Kms{svc: &k10Svc{iam: map[string][]string{}}, st: c12Mock{&teststorage.Mock{}}, seed: seed, rng: &Rng{s: seed}}
}

func (s *c12Kms) caName() string { return "gcsca" }
func (s *c12Kms) kmName() string { return "gcpkms" }
func (s *c12Kms) cli() bool      { return false }
func (s *c12Kms) close()         {}

func (s *c12Kms) ctxOn(base context.Context, c c12Cmd, cl *k10Client) context.Context {
	mgr := cl.manager()
	kc := &keys.Context{Signer: &gcpkms.Signer{Manager: mgr}, CA: c12Gcsca(s.st), Manager: mgr, Random: c12Rand(s.seed + 1)}
	ctx := output.NewContext(base, &output.Options{Quiet: true, Overwrite: c.ow, KeepGoing: c.kg, Out: io.Discard, Err: io.Discard})
	ctx = keys.NewContext(ctx, kc)
	ctx = gcpkms.NewBootstrapContext(ctx, &gcpkms.BootstrapContext{RootKeyID: k10RootID, SigningKeyID: k10SignID,
		SigningKeyOperators: []string{"serviceAccount:signer@example.com"}})
	return gcpkms.NewSigningKeyContext(ctx, &gcpkms.SigningKeyContext{SigningKeyID: k10SignID})
}

func (s *c12Kms) ctx(c c12Cmd, cl *k10Client) context.Context {
	return s.ctxOn(context.Background(), c, cl)
}

// keyClass: what waitForKeyGen will find under a cryptoKey.
func (s *c12Kms) keyClass(name string) string {
	k := s.svc.key(name)
	if k == nil {
		return "absent"
	}
	pend := false
	for _, v := range k.vers {
		if v.state == ksEnabled {
			return "has-enabled"
		}
		pend = pend || v.state == ksPending
	}
	if pend {
		return "has-pending"
	}
	return "none-usable"
}

func (s *c12Kms) exec(c c12Cmd) (bool, string) {
	s.signCountBefore = 0
	if k := s.svc.key(k10Parent); k != nil {
		s.signCountBefore = len(k.vers)
	}
	s.rootClass, s.signClass = s.keyClass(k10Ring+"/cryptoKeys/"+k10RootID), s.keyClass(k10Parent)
	s.pendingBefore = len(s.pending())
	s.statesBefore = map[string][]string{}
	for _, k := range s.svc.keys {
		for _, v := range k.vers {
			s.statesBefore[k.name] = append(s.statesBefore[k.name], k10StateLetter(v))
		}
	}
	if c.kind == 'x' {
		s.applyExt(c)
		return true, ""
	}
	// a fresh client, manager, signer and authority per command, as a new process would have
	base, cancel := context.WithCancel(context.Background())
	defer cancel()
	cl := &k10Client{svc: s.svc, rng: s.rng, env: c12KmsEnv(c), cancel: cancel}
	return c12RunIn(s.ctxOn(base, c, cl), c)
}

// pending lists the versions that are PENDING_GENERATION.
func (s *c12Kms) pending() []string {
	var out []string
	for _, k := range s.svc.keys {
		for _, v := range k.vers {
			if v.state == ksPending {
				out = append(out, v.name)
			}
		}
	}
	return out
}

// applyExt: what happens to Cloud KMS between commands.
func (s *c12Kms) applyExt(c c12Cmd) {
	for _, k := range s.svc.keys {
		for i, v := range k.vers {
			switch {
			case c.ext == "settle" && v.state == ksPending:
				v.state, v.pend = ksEnabled, 0
			case c.ext == "expire" && v.state == ksScheduled:
				v.state = ksDestroyed
			case c.ext == "disable" && v.state == ksEnabled && k.name == k10Ring+"/cryptoKeys/"+c.extKey && i+1 == c.extIdx:
				v.state = ksDisabled
			}
		}
	}
}

func (s *c12Kms) observe(cand map[string]bool) *c12Obs {
	o := &c12Obs{objects: map[string][]byte{}}
	ctx := context.Background()
	for name, r := range s.st.Mock.BucketObjects[c12Bucket] {
		if name != gcsca.ManifestObjectName && r != nil && r.Cell != nil {
			o.objects[name] = append([]byte{}, r.Cell.Data...)
		}
	}
	c12ReadCA(ctx, c12Gcsca(s.st), c12ManifestNames(ctx, s.st), o)
	for _, k := range s.svc.keys {
		for _, v := range k.vers {
			cand[v.name] = true
		}
	}
	c12Probe(ctx, &gcpkms.Signer{Manager: (&k10Client{svc: s.svc, rng: s.rng}).manager()}, cand, o)
	return o
}

// encK is the Cloud KMS form of a command for the model (op=khist).
func (c c12Cmd) encK() string {
	fl := b2s(c.ow) + b2s(c.kg)
	switch c.kind {
	case 'b':
		return fmt.Sprintf("b:%s:%s:%s:%s:%s:%d:%s:%s:%s%s", fl, c.rootCn, c.signCn, c.rootSerial, c.signSerial, c.now, c.genField(), b2s(c.dl), b2s(c.wr), b2s(c.ws))
	case 'r':
		ser := "0"
		if c.signSerial != nil {
			ser = c.signSerial.String()
		}
		return fmt.Sprintf("r:%s:%s:%s:%d:%s:%s", fl, c.signCn, ser, c.now, c.genField(), b2s(c.dl))
	case 'x':
		if c.ext == "disable" {
			return fmt.Sprintf("x:disable:%s:%d", c.extKey, c.extIdx)
		}
		return "x:" + c.ext
	}
	return fmt.Sprintf("w:%s:%s%s", fl, b2s(c.wca), b2s(c.wkeys))
}

func c12EncHistK(h []c12Cmd) string {
	parts := make([]string, len(h))
	for i, c := range h {
		parts[i] = c.encK()
	}
	return strings.Join(parts, ";")
}

func (s *c12Kms) opLine(h []c12Cmd) string {
	return fmt.Sprintf("c12 op=khist ring=%s rk=%s sk=%s cmds=%s", k10Ring, k10RootID, k10SignID, c12EncHistK(h))
}

// versLine prints the state of every version of every cryptoKey, in creation order.
func (s *c12Kms) versLine() string {
	var keys []string
	for _, k := range s.svc.keys {
		var parts []string
		for i, v := range k.vers {
			parts = append(parts, fmt.Sprintf("%d%s", i+1, k10StateLetter(v)))
		}
		keys = append(keys, k.name[strings.LastIndex(k.name, "/")+1:]+":"+strings.Join(parts, ","))
	}
	return "vers=" + strings.Join(keys, ";")
}

// oracle: the Cloud KMS clauses of the property, on the implementation and the service state alone.
func (s *c12Kms) oracle(c c12Cmd, ok bool, prev, cur *c12Obs, find func(sig, what string, k int), k int, counts map[string]int) {
	switch c.kind {
	case 'b':
		counts["kms/bootstrap/root-key="+s.rootClass]++
		counts["kms/bootstrap/signing-key="+s.signClass]++
		counts[fmt.Sprintf("kms/env/bootstrap/gen=%s,deadline=%s", c.genField(), b2s(c.dl))]++
		if s.rootClass == "none-usable" || s.signClass == "none-usable" {
			counts["kms/bootstrap/create-version-path/gen="+c.genField()]++ // waitForKeyGen: ErrNoKeyVersions -> CreateCryptoKeyVersion
		}
	case 'r':
		counts[fmt.Sprintf("kms/env/rotate/gen=%s,deadline=%s", c.genField(), b2s(c.dl))]++
	case 'x':
		counts["kms/ext/"+c.ext]++
	}
	state := func(name string) string {
		if v := s.svc.ver(name); v != nil {
			return k10StateLetter(v)
		}
		return "absent"
	}
	// a successful bootstrap / rotation records ENABLED versions as primaries
	if ok && (c.kind == 'b' || c.kind == 'r') {
		for _, n := range []string{cur.pr, cur.ps} {
			if c.kind == 'r' && n == cur.pr {
				continue
			}
			if state(n) != "E" {
				find("c12/gcpkms/"+c.kindName()+"/primary-not-enabled", fmt.Sprintf("the command succeeded and records %q as a primary key version, whose state is %s", n, state(n)), k)
			}
		}
	}
	// bootstrap adopts, under each cryptoKey, the FIRST version that was ENABLED, else the LAST that was
	// PENDING_GENERATION, else a version with a new number (the selection rule of getEnabledOrPendingKeyVersion)
	if ok && c.kind == 'b' {
		for _, kv := range [][2]string{{k10Ring + "/cryptoKeys/" + k10RootID, cur.pr}, {k10Parent, cur.ps}} {
			before := s.statesBefore[kv[0]]
			want := len(before) + 1
			for i := len(before) - 1; i >= 0; i-- {
				if strings.HasPrefix(before[i], "P") {
					want = i + 1
					break
				}
			}
			for i, l := range before {
				if l == "E" {
					want = i + 1
					break
				}
			}
			if kv[1] != fmt.Sprintf("%s/cryptoKeyVersions/%d", kv[0], want) {
				find("c12/gcpkms/bootstrap/adopted-version", fmt.Sprintf("bootstrap records %q as primary; the versions of the cryptoKey were %v before: "+
					"expected version %d (first ENABLED, else last PENDING_GENERATION, else a new one)", kv[1], before, want), k)
			}
		}
	}
	if ok && c.kind == 'r' {
		// the previous primary is retired: "only the current primary signing key can sign" against DestroyKeyVersion
		if prev.ps != "" && prev.ps != cur.ps && state(prev.ps) != "S" && state(prev.ps) != "X" {
			find("c12/gcpkms/rotate/previous-primary-not-retired", fmt.Sprintf("after a successful rotation the previous primary %q is %s, not DESTROY_SCHEDULED", prev.ps, state(prev.ps)), k)
		}
		// the new version's number exceeds every number handed out before under the cryptoKey
		idx, err := strconv.Atoi(cur.ps[strings.LastIndex(cur.ps, "/")+1:])
		if err != nil || !strings.HasPrefix(cur.ps, k10Parent+"/cryptoKeyVersions/") || idx <= s.signCountBefore {
			find("c12/gcpkms/rotate/version-number-not-fresh", fmt.Sprintf("the rotation's new primary %q does not carry a version number above the %d handed out before", cur.ps, s.signCountBefore), k)
		}
	}
	// a command whose context does not expire waits for every generation it starts or adopts: it leaves no version
	// PENDING_GENERATION behind (that is what keeps `wipeout keys` total: see the next clause)
	if (c.kind == 'b' || c.kind == 'r') && !c.dl && s.pendingBefore == 0 {
		if late := s.pending(); len(late) > 0 {
			find("c12/gcpkms/"+c.kindName()+"/pending-left-without-timeout", "the command ran without an expiring context and leaves a key version PENDING_GENERATION behind (not waited for): "+strings.Join(late, ","), k)
		}
	}
	// a key wipeout leaves no version DISABLED either (an operator could enable it again)
	if ok && c.kind == 'w' && c.wkeys {
		for _, key := range s.svc.keys {
			for _, v := range key.vers {
				if v.state == ksDisabled {
					find("c12/gcpkms/wipeout-total/disabled-version-survives", "a DISABLED key version is left as it is by a successful `wipeout keys`: "+v.name, k)
				}
			}
		}
	}
	// nothing can become usable after a key wipeout: a version that is still PENDING_GENERATION will be generated
	if ok && c.kind == 'w' && c.wkeys {
		late := s.pending()
		if len(late) > 0 {
			find("c12/gcpkms/wipeout-total/pending-version-survives",
				"a key version that is PENDING_GENERATION when `wipeout keys` runs is skipped by the wipeout (not destroyable yet) and becomes ENABLED afterwards: a key can sign after the key wipeout: "+strings.Join(late, ","), k)
		}
	}
	// histogram: ENABLED versions that the authority does not record (leftovers of failed attempts, or versions
	// whose entries a CA wipeout removed)
	left := 0
	for _, n := range cur.live {
		if !c12Has(cur.names, n) {
			left++
		}
	}
	counts[fmt.Sprintf("kms/enabled-unrecorded-versions/%d", left)]++
	for _, key := range s.svc.keys {
		for _, v := range key.vers {
			l := k10StateLetter(v)
			if strings.HasPrefix(l, "P") {
				l = "P"
			}
			counts["kms/version-state-after/"+l]++
		}
	}
}

// c12GenHistoryK: a history of stream c12 with Cloud KMS environments and external events.
func c12GenHistoryK(r *Rng) []c12Cmd {
	base := c12GenHistory(r)
	var h []c12Cmd
	slept := false
	for i, c := range base {
		switch c.kind {
		case 'b':
			if i > 0 && r.Intn(100) < 70 {
				c.kg = true // Cloud KMS: the key ring and the cryptoKeys stay; a later bootstrap needs keep_going
			}
			fallthrough
		case 'r':
			switch k := r.Intn(100); {
			case k < 12:
				c.gen, c.dl = 1+r.Intn(2), true
			case k < 15 && !slept && c.kind == 'r':
				c.gen, slept = 1, true // one real 5 s wait per history at most
			case k < 27:
				c.gen = c12GenEnabled
			case k < 33:
				c.gen = c12GenDisabled
			}
		}
		h = append(h, c)
		if r.Intn(100) < 14 && len(h) < 7 {
			x := c12Cmd{kind: 'x'}
			switch k := r.Intn(10); {
			case k < 5:
				x.ext = "settle"
			case k < 8:
				x.ext, x.extKey, x.extIdx = "disable", []string{k10RootID, k10SignID, k10SignID}[r.Intn(3)], 1+r.Intn(3)
			default:
				x.ext = "expire"
			}
			h = append(h, x)
		}
	}
	return h
}

func c12FixedK() [][]c12Cmd {
	t0 := c12Base.Unix()
	day := int64(86400)
	b := func(ow, kg bool, rcn, scn string, rs, ss int64, now int64, gen int, dl bool) c12Cmd {
		return c12Cmd{kind: 'b', ow: ow, kg: kg, rootCn: rcn, signCn: scn, rootSerial: big.NewInt(rs), signSerial: big.NewInt(ss), now: now, gen: gen, dl: dl}
	}
	r := func(ow, kg bool, cn string, ser int64, now int64, gen int, dl bool) c12Cmd {
		c := c12Cmd{kind: 'r', ow: ow, kg: kg, signCn: cn, now: now, gen: gen, dl: dl}
		if ser != 0 {
			c.signSerial = big.NewInt(ser)
		}
		return c
	}
	w := func(ca, ks bool) c12Cmd { return c12Cmd{kind: 'w', wca: ca, wkeys: ks} }
	x := func(ext, key string, idx int) c12Cmd { return c12Cmd{kind: 'x', ext: ext, extKey: key, extIdx: idx} }
	return [][]c12Cmd{
		// C12-K6 inside a history: a rotation times out, the pending version survives `wipeout keys` and is generated later
		{b(false, false, "rootA", "signA", 1, 2, t0, 0, false), r(false, false, "signA", 0, t0+day, 1, true), w(false, true), x("settle", "", 0)},
		// a pending leftover is adopted by the next bootstrap (last PENDING_GENERATION version, waited for)
		{b(false, false, "rootA", "signA", 1, 2, t0, 0, false), r(false, false, "signA", 0, t0+day, 2, true), r(false, false, "signA", 0, t0+2*day, 1, true), w(true, true),
			b(false, true, "rootB", "signB", 1, 2, t0+3*day, 0, false), x("settle", "", 0), r(false, false, "signB", 0, t0+4*day, 0, false)},
		// an ENABLED leftover of a refused rotation (serial collides with the first signing certificate), then a CA
		// wipeout and a bootstrap: the FIRST enabled version of each cryptoKey is adopted
		{b(false, false, "rootA", "signA", 1, 2, t0, 0, false), r(false, false, "signA", 0, t0+day, 0, false), r(false, false, "signA", 2, t0+2*day, 0, false), w(true, false),
			b(false, true, "rootB", "signB", 1, 2, t0+3*day, 0, false), r(false, false, "signB", 0, t0+4*day, 0, false)},
		// the same leftover, bootstrap with keep_going over the populated store
		{b(false, false, "rootA", "signA", 1, 2, t0, 0, false), r(false, false, "signA", 2, t0+day, 0, false), b(false, true, "rootA", "signA", 1, 2, t0+2*day, 0, false),
			r(false, false, "signA", 0, t0+3*day, 0, false)},
		// generation takes one poll (a real 5 s wait each): a bootstrap that creates both cryptoKeys; a rotation
		{b(false, false, "rootA", "signA", 1, 2, t0, 1, false), r(false, false, "signA", 0, t0+day, 0, false)},
		{b(false, false, "rootA", "signA", 1, 2, t0, 0, false), r(false, false, "signA", 0, t0+day, 1, false), r(false, false, "signA", 0, t0+2*day, 0, false)},
		// disabled versions: a disabled primary is retired by the next rotation, a disabled root stops rotations,
		// a wipeout destroys DISABLED versions, expiry
		{b(false, false, "rootA", "signA", 1, 2, t0, 0, false), x("disable", k10SignID, 1), r(false, false, "signA", 0, t0+day, 0, false), x("disable", k10RootID, 1),
			r(false, false, "signA", 0, t0+2*day, 0, false), w(false, true), x("expire", "", 0)},
		// C12-K7: bootstrap; wipeout keys; bootstrap --keep_going
		{b(false, false, "rootA", "signA", 1, 2, t0, 0, false), w(false, true), b(false, true, "rootA", "signA", 7, 8, t0+day, 0, false), r(false, false, "signA", 0, t0+2*day, 0, false)},
		// versions created without a generation phase: a rotation whose new version is ENABLED at once; one whose new
		// version is created DISABLED (the poll refuses it; the leftover is destroyed by the wipeout); bootstrap
		// --keep_going over cryptoKeys without a usable version: waitForKeyGen creates versions and returns at once
		// when the response says ENABLED (no poll), polls and fails when it says DISABLED; then the retry
		{b(false, false, "rootA", "signA", 1, 2, t0, 0, false), r(false, false, "signA", 0, t0+day, c12GenEnabled, false), r(false, false, "signA", 0, t0+2*day, c12GenDisabled, false),
			w(false, true), b(false, true, "rootA", "signA", 7, 8, t0+3*day, c12GenDisabled, false), b(false, true, "rootA", "signA", 7, 8, t0+4*day, c12GenEnabled, false),
			r(false, false, "signA", 0, t0+5*day, c12GenEnabled, false)},
		{b(false, false, "rootA", "signA", 1, 2, t0, 0, false), w(false, true), b(false, true, "rootA", "signA", 7, 8, t0+day, c12GenEnabled, true),
			r(false, false, "signA", 0, t0+2*day, c12GenDisabled, true), r(false, false, "signA", 0, t0+3*day, 0, false)},
		// a failed bootstrap whose two uploads behave differently (the root certificate is new, the signing certificate's
		// object is recorded for version 1): what stays behind depends on the order of gcsca.Finalize's map
		{b(false, false, "rootA", "signA", 1, 2, t0, 0, false), w(false, true), b(false, true, "rootA", "signA", 9, 2, t0+day, 0, false),
			b(true, true, "rootA", "signA", 9, 3, t0+2*day, 0, false), r(false, false, "signA", 0, t0+3*day, 0, false)},
		// bootstrap without keep_going over an existing key ring; a timeout during bootstrap, then the retry
		{b(false, false, "rootA", "signA", 1, 2, t0, 1, true), b(false, false, "rootA", "signA", 1, 2, t0+day, 0, false), b(false, true, "rootA", "signA", 1, 2, t0+2*day, 0, false),
			r(false, false, "signA", 0, t0+3*day, 0, false), w(true, true), r(false, false, "signA", 0, t0+4*day, 0, false)},
	}
}

func runC12Kms(c *Ctx) {
	seq := c12Sequential()
	hists := append(c12Fixed(), c12FixedK()...)
	for len(hists) < c.N(45, 400) {
		hists = append(hists, c12GenHistoryK(c.Rng))
	}
	results := make([]c12Result, len(hists))
	var wg sync.WaitGroup
	sem := make(chan struct{}, runtime.NumCPU())
	for i := range hists {
		wg.Add(1)
		sem <- struct{}{}
		go func(i int) {
			defer wg.Done()
			defer func() { <-sem }()
			results[i] = c12RunHistory(4, hists[i], uint64(i*7+4)+c.Seed*1000003, seq)
		}(i)
	}
	wg.Wait()
	var sigs []string
	seen := map[string]bool{}
	for i, r := range results {
		for k := range r.ops {
			c.Case(r.ops[k], r.impls[k], r.nontriv[k])
		}
		for k, v := range r.counts {
			c.Hist[k] += v
		}
		for _, f := range r.finds {
			// one defect, one signature: after a bootstrap over a populated store the Cloud KMS root cryptoKey has a
			// new version, and the previous root version's entry (a CA certificate) stays in the manifest; the
			// generic oracle reports its CA profile field by field as a bad "signing" certificate
			if strings.HasPrefix(f.sig, "c12/rebootstrap/signing-profile/") && strings.Contains(f.what, "/cryptoKeys/"+k10RootID+"/cryptoKeyVersions/") {
				f.sig = "c12/rebootstrap/stale-root-entry"
				f.what = "after a bootstrap over a populated store the previous root key version's certificate is still recorded in the manifest beside the new root's: " + f.what
			}
			c.Find(f.sig, f.what, f.replay)
			if !seen[f.sig] {
				seen[f.sig] = true
				sigs = append(sigs, f.sig)
			}
		}
		c.Count(fmt.Sprintf("history-length/%d", len(hists[i])))
		c.Count(fmt.Sprintf("commands-run/%d", len(r.ops)))
	}
	sort.Strings(sigs)
	c.Extra["oracle_signatures_seen"] = sigs

	// ---- a version that is PENDING_GENERATION during `wipeout keys`, left by a KILLED rotation ----
	st := newC12KmsStack(c.Seed*31 + 5)
	t0 := c12Base.Unix()
	boot := c12Cmd{kind: 'b', rootCn: "rootA", signCn: "signA", rootSerial: c12Big(c.Rng), signSerial: c12Big(c.Rng), now: t0}
	if ok, _ := st.exec(boot); !ok {
		c.Find("c12/gcpkms/bootstrap-fails", "bootstrap of an empty Cloud KMS + store failed", "stack=gcpkms+gcsca(mock) cmds="+boot.encK())
		return
	}
	// a rotation that dies right after CreateCryptoKeyVersion returned (first KMS call of the run)
	rot := c12Cmd{kind: 'r', signCn: "signA", now: t0 + 10}
	f := &faultCtl{script: map[int]int{0: fCrash}}
	runGuarded(func() error { c12RunIn(st.ctx(rot, &k10Client{svc: st.svc, f: f, rng: st.rng, env: k10Env{gen: 1}}), rot); return nil })
	c.Count("pending-scenario/after-crashed-rotation/" + st.svc.renderVers(k10Parent))
	wipe := c12Cmd{kind: 'w', wkeys: true}
	ok, _ := st.exec(wipe)
	c.Count(fmt.Sprintf("pending-scenario/wipeout-keys-ok=%s/%s", b2s(ok), st.svc.renderVers(k10Parent)))
	// time passes: Cloud KMS completes the generation on its own (here: the polls of an observer)
	var pending *k10Ver
	for _, v := range st.svc.key(k10Parent).vers {
		if v.state == ksPending {
			pending = v
		}
	}
	if pending != nil {
		obs := &k10Client{svc: st.svc, rng: st.rng}
		for i := 0; i < 3 && pending.state == ksPending; i++ {
			obs.GetCryptoKeyVersion(context.Background(), &kmspb.GetCryptoKeyVersionRequest{Name: pending.name})
		}
		cand := map[string]bool{}
		o := st.observe(cand)
		c.Count("pending-scenario/after-generation/" + st.svc.renderVers(k10Parent))
		if ok && len(o.live) > 0 {
			c.Find("c12/gcpkms/wipeout-total/pending-version-survives",
				"a key version that was PENDING_GENERATION when `wipeout keys` ran is skipped by the wipeout (not destroyable yet) and becomes ENABLED afterwards: a key can sign after the key wipeout: "+strings.Join(o.live, ","),
				"stack=gcpkms+gcsca(mock) cmds="+boot.encK()+";"+rot.encK()+"[killed after CreateCryptoKeyVersion];"+wipe.encK()+";[generation completes]")
		}
	}
}
