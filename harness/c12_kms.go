package main

// C12 on the production key stack (gcpkms.Manager + gcpkms.Signer over the in-process Cloud KMS service of
// c10_kms_svc.go, gcsca over testing/storage): the command histories of stream c12 — bootstrap | rotate |
// wipeout ca|keys|all with common names, serial overrides, timestamps, overwrite / keep_going — run at
// library level exactly as the command components do, and after every command the direct oracle of stream
// c12 (c12RunHistory: root and signing certificate profiles, serial succession, only the primary signs,
// names not reused, no clobbering without overwrite, wipeout leaves nothing usable) is evaluated on the
// implementation alone.  There is no KeyHistory model of the Cloud KMS manager (its bootstrap / wipeout
// semantics — AlreadyExists + keep_going, version listing, DESTROY_SCHEDULED — differ from the nonprod
// managers), so this stream contributes oracle findings and a histogram, no correspondence lines.
//
// Plus one scenario the nonprod managers cannot exhibit: a key version that is still PENDING_GENERATION
// when `wipeout keys` runs (left by a rotation that crashed after CreateCryptoKeyVersion).

import (
	"context"
	"fmt"
	"sort"
	"strings"

	"cloud.google.com/go/kms/apiv1/kmspb"
	"github.com/google/gce-tcb-verifier/keys"
	"github.com/google/gce-tcb-verifier/keys/gcpkms"
	"github.com/google/gce-tcb-verifier/rotate"
	"github.com/google/gce-tcb-verifier/sign/gcsca"
	teststorage "github.com/google/gce-tcb-verifier/testing/storage"
)

func init() {
	register("c12kms", "the command histories of stream c12 on gcpkms.Manager + gcpkms.Signer (in-process Cloud KMS service) + gcsca "+
		"over testing/storage, direct oracle of stream c12 after every command (no model lines: the KeyHistory model does not "+
		"cover the Cloud KMS manager); plus the PENDING_GENERATION-version-during-wipeout scenario. ", runC12Kms)
}

type c12Kms struct {
	svc  *k10Svc
	st   c12Mock
	seed uint64
	rng  *Rng
}

func newC12KmsStack(seed uint64) *c12Kms {
	return &c12Kms{svc: &k10Svc{iam: map[string][]string{}}, st: c12Mock{&teststorage.Mock{}}, seed: seed, rng: &Rng{s: seed}}
}

func (s *c12Kms) caName() string { return "gcsca" }
func (s *c12Kms) kmName() string { return "gcpkms" }
func (s *c12Kms) cli() bool      { return false }
func (s *c12Kms) close()         {}

func (s *c12Kms) ctx(c c12Cmd, cl *k10Client) context.Context {
	mgr := cl.manager()
	kc := &keys.Context{Signer: &gcpkms.Signer{Manager: mgr}, CA: c12Gcsca(s.st), Manager: mgr, Random: c12Rand(s.seed + 1)}
	ctx := keys.NewContext(c12Ctx(c), kc)
	ctx = gcpkms.NewBootstrapContext(ctx, &gcpkms.BootstrapContext{RootKeyID: k10RootID, SigningKeyID: k10SignID,
		SigningKeyOperators: []string{"serviceAccount:signer@example.com"}})
	return gcpkms.NewSigningKeyContext(ctx, &gcpkms.SigningKeyContext{SigningKeyID: k10SignID})
}

func (s *c12Kms) exec(c c12Cmd) (bool, string) {
	// a fresh client, manager, signer and authority per command, as a new process would have
	return c12RunIn(s.ctx(c, &k10Client{svc: s.svc, rng: s.rng}), c)
}

func (s *c12Kms) observe(cand map[string]bool) *c12Obs {
	o := &c12Obs{objects: map[string][]byte{}}
	ctx := context.Background()
	for name, r := range s.st.Mock.BucketObjects[c12Bucket] {
		if name != gcsca.ManifestObjectName && r != nil && r.Cell != nil {
			o.objects[name] = append([]byte{}, r.Cell.Data...)
		}
	}
	c12ReadCA(ctx, c12Gcsca(s.st), c12ManifestNames(ctx, s.st), o)
	for _, k := range s.svc.keys {
		for _, v := range k.vers {
			cand[v.name] = true
		}
	}
	c12Probe(ctx, &gcpkms.Signer{Manager: (&k10Client{svc: s.svc, rng: s.rng}).manager()}, cand, o)
	return o
}

func runC12Kms(c *Ctx) {
	seq := c12Sequential()
	hists := c12Fixed()
	for len(hists) < c.N(25, 300) {
		hists = append(hists, c12GenHistory(c.Rng))
	}
	var sigs []string
	seen := map[string]bool{}
	for i, h := range hists {
		r := c12RunHistory(4, h, uint64(i*7+4)+c.Seed*1000003, seq)
		for k, v := range r.counts {
			c.Hist[k] += v
		}
		for _, f := range r.finds {
			// one defect, one signature: after a bootstrap over a populated store the Cloud KMS root cryptoKey has a
			// new version, and the previous root version's entry (a CA certificate) stays in the manifest; the
			// generic oracle reports its CA profile field by field as a bad "signing" certificate
			if strings.HasPrefix(f.sig, "c12/rebootstrap/signing-profile/") && strings.Contains(f.what, "/cryptoKeys/"+k10RootID+"/cryptoKeyVersions/") {
				f.sig = "c12/rebootstrap/stale-root-entry"
				f.what = "after a bootstrap over a populated store the previous root key version's certificate is still recorded in the manifest beside the new root's: " + f.what
			}
			c.Find(f.sig, f.what, f.replay)
			if !seen[f.sig] {
				seen[f.sig] = true
				sigs = append(sigs, f.sig)
			}
		}
		c.Count(fmt.Sprintf("history-length/%d", len(h)))
		c.Count(fmt.Sprintf("commands-run/%d", len(r.ops)))
	}
	sort.Strings(sigs)
	c.Extra["oracle_signatures_seen"] = sigs

	// ---- a version that is PENDING_GENERATION during `wipeout keys` ----
	st := newC12KmsStack(c.Seed*31 + 5)
	t0 := c12Base.Unix()
	boot := c12Cmd{kind: 'b', rootCn: "rootA", signCn: "signA", rootSerial: c12Big(c.Rng), signSerial: c12Big(c.Rng), now: t0}
	if ok, _ := st.exec(boot); !ok {
		c.Find("c12/gcpkms/bootstrap-fails", "bootstrap of an empty Cloud KMS + store failed", "stack=gcpkms+gcsca(mock) cmds="+boot.enc())
		return
	}
	// a rotation that dies right after CreateCryptoKeyVersion returned (first KMS call of the run)
	rot := c12Cmd{kind: 'r', signCn: "signA", now: t0 + 10}
	f := &faultCtl{script: map[int]int{0: fCrash}}
	runGuarded(func() error { c12RunIn(st.ctx(rot, &k10Client{svc: st.svc, f: f, rng: st.rng, env: k10Env{gen: 1}}), rot); return nil })
	c.Count("pending-scenario/after-crashed-rotation/" + st.svc.renderVers(k10Parent))
	wipe := c12Cmd{kind: 'w', wkeys: true}
	ok, _ := st.exec(wipe)
	c.Count(fmt.Sprintf("pending-scenario/wipeout-keys-ok=%s/%s", b2s(ok), st.svc.renderVers(k10Parent)))
	// time passes: Cloud KMS completes the generation on its own (here: the polls of an observer)
	var pending *k10Ver
	for _, v := range st.svc.key(k10Parent).vers {
		if v.state == ksPending {
			pending = v
		}
	}
	if pending != nil {
		obs := &k10Client{svc: st.svc, rng: st.rng}
		for i := 0; i < 3 && pending.state == ksPending; i++ {
			obs.GetCryptoKeyVersion(context.Background(), &kmspb.GetCryptoKeyVersionRequest{Name: pending.name})
		}
		cand := map[string]bool{}
		o := st.observe(cand)
		c.Count("pending-scenario/after-generation/" + st.svc.renderVers(k10Parent))
		if ok && len(o.live) > 0 {
			c.Find("c12/gcpkms/wipeout-total/pending-version-survives",
				"a key version that was PENDING_GENERATION when `wipeout keys` ran is skipped by the wipeout (not destroyable yet) and becomes ENABLED afterwards: a key can sign after the key wipeout: "+strings.Join(o.live, ","),
				"stack=gcpkms+gcsca(mock) cmds="+boot.enc()+";"+rot.enc()+"[crash after CreateCryptoKeyVersion];"+wipe.enc()+";[generation completes]")
		}
	}
	_ = rotate.Key
}
