package main

// C18 — receivers: every decoder of eventlog/ (and abi.FwGUIDEntry.PopulateFromBytes) decodes INTO a value the caller
// supplies; the Put encoders write INTO a buffer the caller supplies. This stream runs the real code on a receiver
// that already holds earlier decodings (successful and failed ones) and compares, case by case, what the receiver
// holds afterwards — also after a FAILED decode — and what it re-encodes to with the Lean model
// (Model/EventLogRecv.lean, ops rdinto / popinto / putinto of Drive/C18.lean).
//
// Direct oracle (implementation alone): a successful decode of b into a used receiver gives the value and the
// re-encoding that a decode of b into a fresh value gives; a Put writes the same bytes whatever the buffer held and
// touches nothing beyond the documented size.

import (
	"bytes"
	"encoding/binary"
	"errors"
	"fmt"
	"io"
	"strings"

	"github.com/google/gce-tcb-verifier/eventlog"
	"github.com/google/gce-tcb-verifier/ovmf/abi"
	opb "github.com/google/gce-tcb-verifier/proto/ovmf"
	"github.com/google/uuid"
)

func init() {
	register("c18recv", "per decoder with a pointer receiver: the zero value, then the `prev` inputs and the input b decoded "+
		"into that ONE value by the real code → ok/eof/err, the value the receiver holds afterwards (also after a failed "+
		"decode) and its Marshal result, compared with the model's decodeInto. Pairs from a pool with every sized/optional "+
		"field empty and non-empty (all ordered pairs), every truncation and prefix/bit mutations of b after a non-empty "+
		"prev, failed decodes in the middle of a history. Direct oracle on the implementation alone: an accepted b gives "+
		"the value and re-encoding of a fresh decode; Put results do not depend on the buffer's previous contents and "+
		"nothing beyond the documented size changes. Non-trivial: the last decode / the Put succeeded.", runC18Recv)
}

type c18RecvItem struct {
	name     string
	zero     func() any
	dec      func(v any, r c18Reader, b []byte) error
	text     func(v any) string
	withRest bool
	oneKind  bool
}

func c18RecvItems() []c18RecvItem {
	return []c18RecvItem{
		{name: "cstr", zero: func() any { return &eventlog.ByteSizedCStr{} },
			dec:  func(v any, r c18Reader, _ []byte) error { return v.(*eventlog.ByteSizedCStr).Unmarshal(r) },
			text: func(v any) string { return hx([]byte(v.(*eventlog.ByteSizedCStr).Data)) }, withRest: true},
		{name: "u32arr", zero: func() any { return &eventlog.Uint32SizedArray{} },
			dec:  func(v any, r c18Reader, _ []byte) error { return v.(*eventlog.Uint32SizedArray).Unmarshal(r) },
			text: func(v any) string { return hx(v.(*eventlog.Uint32SizedArray).Data) }, withRest: true},
		{name: "guid", zero: func() any { return &eventlog.EfiGUID{} },
			dec: func(v any, r c18Reader, _ []byte) error { return v.(*eventlog.EfiGUID).Unmarshal(r) },
			text: func(v any) string {
				u := v.(*eventlog.EfiGUID).UUID
				return hx(u[:])
			}, withRest: true},
		{name: "digest", zero: func() any { return &eventlog.TaggedDigest{} },
			dec:  func(v any, r c18Reader, _ []byte) error { return v.(*eventlog.TaggedDigest).Unmarshal(r) },
			text: func(v any) string { return c18DigestText(v.(*eventlog.TaggedDigest)) }, withRest: true},
		{name: "event3", zero: func() any { return &eventlog.SP800155Event3{} },
			dec:  func(v any, _ c18Reader, b []byte) error { return v.(*eventlog.SP800155Event3).UnmarshalFromBytes(b) },
			text: func(v any) string { return c18Ev3Text(v.(*eventlog.SP800155Event3)) }, oneKind: true},
		{name: "pcrevent", zero: func() any { return &eventlog.TCGPCClientPCREvent{} },
			dec:  func(v any, r c18Reader, _ []byte) error { return v.(*eventlog.TCGPCClientPCREvent).Unmarshal(r) },
			text: func(v any) string { return c18PcrText(v.(*eventlog.TCGPCClientPCREvent)) }, withRest: true},
		{name: "event2", zero: func() any { return &eventlog.TCGPCREvent2{} },
			dec:  func(v any, r c18Reader, _ []byte) error { return v.(*eventlog.TCGPCREvent2).Unmarshal(r) },
			text: func(v any) string { return c18Ev2Text(v.(*eventlog.TCGPCREvent2)) }, withRest: true},
		{name: "log", zero: func() any { return &eventlog.CryptoAgileLog{} },
			dec:  func(v any, r c18Reader, _ []byte) error { return v.(*eventlog.CryptoAgileLog).Unmarshal(r) },
			text: func(v any) string { return c18LogText(v.(*eventlog.CryptoAgileLog)) }},
	}
}

// one decode of b into recv with the real code: class ("ok", "eof", "err", "panic") and the bytes left in the reader
func (it *c18RecvItem) decodeInto(recv any, kind string, b []byte) (cls string, rest int) {
	b = c18Exact(b)
	r := c18MkReader(kind, b)
	var err error
	p, _, _ := Guard(func() { err = it.dec(recv, r, b) })
	switch {
	case p:
		return "panic", 0
	case err != nil && errors.Is(err, io.EOF):
		return "eof", 0
	case err != nil:
		return "err", 0
	}
	return "ok", r.Len()
}

// the protocol result: class, receiver text, bytes left (successful stream decoders), re-encoding of the receiver
func (it *c18RecvItem) result(recv any, cls string, rest int) (res, enc string) {
	if cls == "panic" {
		return "panic", ""
	}
	enc = "err"
	var e []byte
	var err error
	if p, _, _ := Guard(func() { e, err = c18Encode(recv) }); !p && err == nil {
		enc = hx(e)
	}
	res = cls + ":" + it.text(recv)
	if cls == "ok" && it.withRest {
		res += fmt.Sprintf(" rest=%d", rest)
	}
	return res + " enc=" + enc, enc
}

func c18PrevText(prevs [][]byte) string {
	if len(prevs) == 0 {
		return "-"
	}
	var p []string
	for _, x := range prevs {
		p = append(p, hx(x))
	}
	return strings.Join(p, ",")
}

// c18RecvCase: history `prevs` then b into one value; the case line, the distribution, the direct oracle.
func c18RecvCase(c *Ctx, it *c18RecvItem, kind string, prevs [][]byte, b []byte, class string) {
	for _, p := range append(append([][]byte{}, prevs...), b) {
		if safe, _ := c18Safe(it.name, p); !safe {
			c.Count("rdinto/" + it.name + "/skipped-oversize")
			return
		}
	}
	recv := it.zero()
	hist := ""
	for _, p := range prevs {
		cls, _ := it.decodeInto(recv, kind, p)
		hist += cls[:1]
	}
	cls, rest := it.decodeInto(recv, kind, b)
	res, enc := it.result(recv, cls, rest)
	op := fmt.Sprintf("c18 op=rdinto s=%s kind=%s prev=%s b=%s", it.name, kind, c18PrevText(prevs), hx(b))
	c.Case(op, res, cls == "ok")
	c.Count("rdinto/" + it.name + "/" + class + "/after-" + hist + "/" + cls)
	if cls == "panic" {
		c.Find("c18/eventlog/"+it.name+".Unmarshal/used-receiver/panic", "decoder panicked on a used receiver", op)
		return
	}
	if cls != "ok" {
		// what a failed decode leaves: unchanged / changed (the model says exactly what; here only the distribution)
		fresh := it.zero()
		for _, p := range prevs {
			it.decodeInto(fresh, kind, p)
		}
		if it.text(fresh) == it.text(recv) {
			c.Count("rdinto/" + it.name + "/failed-decode/receiver-unchanged")
		} else {
			c.Count("rdinto/" + it.name + "/failed-decode/receiver-partly-overwritten")
			if enc != "err" {
				c.Count("rdinto/" + it.name + "/failed-decode/receiver-partly-overwritten/re-encodes")
			}
		}
		return
	}
	// direct oracle: the accepted input decoded into a fresh value
	fresh := it.zero()
	fcls, frest := it.decodeInto(fresh, kind, b)
	fres, fenc := it.result(fresh, fcls, frest)
	switch {
	case fcls != "ok" || fres[:strings.Index(fres, " enc=")] != res[:strings.Index(res, " enc=")]:
		c.Find("c18/eventlog/"+it.name+".Unmarshal/used-receiver/result-differs",
			fmt.Sprintf("decoding into a value that was the receiver of %s gives %q, a fresh value gives %q", c18PrevText(prevs), res, fres), op)
	case fenc != enc:
		c.Find("c18/eventlog/"+it.name+".Unmarshal/used-receiver/reencode-differs",
			fmt.Sprintf("decoding into a value that was the receiver of %s re-encodes to %s, a fresh value to %s", c18PrevText(prevs), enc, fenc), op)
	}
}

// ---- pools: every sized / optional field empty and non-empty ----

func c18RecvEv3Pool(c *Ctx) []*eventlog.SP800155Event3 {
	empty := &eventlog.SP800155Event3{}
	full := &eventlog.SP800155Event3{PlatformManufacturerID: 0x2b03, ReferenceManifestGUID: eventlog.EfiGUID{UUID: uuid.MustParse("96b582de-1fb2-45f7-baea-a366c55a082d")},
		PlatformManufacturerStr: eventlog.ByteSizedCStr{Data: "Google"}, PlatformModel: eventlog.ByteSizedCStr{Data: "GCE"},
		PlatformVersion: eventlog.ByteSizedCStr{Data: "v1"}, FirmwareManufacturerStr: eventlog.ByteSizedCStr{Data: "G"},
		FirmwareManufacturerID: 11129, FirmwareVersion: eventlog.ByteSizedCStr{Data: "12"}, RIMLocatorType: 1,
		RIMLocator: eventlog.Uint32SizedArray{Data: []byte("https://x/y")}, PlatformCertLocatorType: 2,
		PlatformCertLocator: eventlog.Uint32SizedArray{Data: []byte{1, 2, 3, 4, 5, 6, 7, 8, 9, 10, 11, 12, 13, 14, 15, 16, 17, 18, 19, 20}}}
	onlyCert := &eventlog.SP800155Event3{PlatformCertLocatorType: 3, PlatformCertLocator: eventlog.Uint32SizedArray{Data: []byte{0xcc}}}
	onlyRim := &eventlog.SP800155Event3{RIMLocator: eventlog.Uint32SizedArray{Data: []byte{0xaa, 0xbb}}, FirmwareVersion: eventlog.ByteSizedCStr{Data: "z"}}
	out := []*eventlog.SP800155Event3{empty, full, onlyCert, onlyRim}
	for i := 0; i < c.N(2, 6); i++ {
		out = append(out, c18Ev3Rand(c))
	}
	return out
}

func c18RecvDataPool(c *Ctx) []eventlog.TCGEventData {
	out := []eventlog.TCGEventData{{}, {Event: &eventlog.UnknownEvent{Data: []byte{7}}},
		{Event: &eventlog.UnknownEvent{Data: c.Rng.Bytes(16)}}, {Event: &eventlog.UnknownEvent{Data: c.Rng.Bytes(33)}}}
	for _, e := range c18RecvEv3Pool(c)[:4] {
		out = append(out, eventlog.TCGEventData{Event: e})
	}
	return out
}

func c18RecvDigests(c *Ctx, n int) []*eventlog.TaggedDigest {
	var out []*eventlog.TaggedDigest
	for i := 0; i < n; i++ {
		a := []uint16{4, 11, 12}[c.Rng.Intn(3)]
		out = append(out, &eventlog.TaggedDigest{AlgID: a, Digest: c.Rng.Bytes(c18AlgSize[a])})
	}
	return out
}

func c18RecvEv2Pool(c *Ctx) []*eventlog.TCGPCREvent2 {
	var out []*eventlog.TCGPCREvent2
	for i, d := range c18RecvDataPool(c) {
		e := &eventlog.TCGPCREvent2{PCRIndex: uint32(i), EventType: c18U32(c), EventData: d}
		e.Digests.Array = c18RecvDigests(c, i%4)
		out = append(out, e)
	}
	return out
}

// encodings of the pool of `item`
func c18RecvPool(c *Ctx, item string) [][]byte {
	var out [][]byte
	add := func(v any) {
		if enc, err := c18Encode(v); err == nil {
			out = append(out, c18Exact(enc))
		}
	}
	switch item {
	case "cstr":
		for _, s := range []string{"", "a", "abc", "a\x00b", c18Str(c), c18Str(c)} {
			add(&eventlog.ByteSizedCStr{Data: s})
		}
	case "u32arr":
		for _, d := range [][]byte{nil, {9}, {1, 2, 3, 4, 5}, c.Rng.Bytes(20), c18Arr(c)} {
			add(&eventlog.Uint32SizedArray{Data: d})
		}
	case "guid":
		for i := 0; i < 3; i++ {
			var u uuid.UUID
			copy(u[:], c.Rng.Bytes(16))
			add(&eventlog.EfiGUID{UUID: u})
		}
	case "digest":
		for _, a := range []uint16{4, 11, 12, 4} {
			add(&eventlog.TaggedDigest{AlgID: a, Digest: c.Rng.Bytes(c18AlgSize[a])})
		}
	case "event3":
		for _, e := range c18RecvEv3Pool(c) {
			if enc, err := e.MarshalToBytes(); err == nil {
				out = append(out, c18Exact(enc[16:]), append(c18Exact(enc[16:]), 0, 0, 0))
			}
		}
	case "pcrevent":
		for i, d := range c18RecvDataPool(c) {
			e := &eventlog.TCGPCClientPCREvent{PCRIndex: uint32(i), EventType: c18U32(c), EventData: d}
			copy(e.SHA1Digest[:], c.Rng.Bytes(20))
			add(e)
		}
	case "event2":
		for _, e := range c18RecvEv2Pool(c) {
			add(e)
		}
	case "log":
		evs := c18RecvEv2Pool(c)
		for i, d := range c18RecvDataPool(c)[:6] {
			l := &eventlog.CryptoAgileLog{Header: eventlog.TCGPCClientPCREvent{EventType: 3, EventData: d}}
			for k := 0; k < i%4; k++ {
				l.Events = append(l.Events, evs[(i+k)%len(evs)])
			}
			add(l)
		}
	}
	return out
}

func c18RecvMutants(c *Ctx, enc []byte) map[string][][]byte {
	out := map[string][][]byte{}
	for n := 0; n < len(enc); n++ {
		out["trunc"] = append(out["trunc"], c18Exact(enc[:n]))
	}
	out["ext"] = [][]byte{append(c18Exact(enc), 0), append(c18Exact(enc), 0xFF)}
	for k := 0; k < 4 && len(enc) > 0; k++ {
		m := c18Exact(enc)
		m[c.Rng.Intn(len(m))] ^= 1 << uint(c.Rng.Intn(8))
		out["bitflip"] = append(out["bitflip"], m)
	}
	// a size prefix somewhere set to 0 / 1: an empty or shorter sized field where the valid encoding had a longer one
	for k := 0; k+4 <= len(enc) && k < 200; k++ {
		if v := binary.LittleEndian.Uint32(enc[k:]); v > 0 && int(v) <= len(enc)-k-4 {
			m := append(c18Exact(enc[:k]), 0, 0, 0, 0)
			m = append(m, enc[k+4+int(v):]...)
			out["field-emptied"] = append(out["field-emptied"], m)
		}
	}
	return out
}

func runC18Recv(c *Ctx) {
	items := c18RecvItems()
	rounds := c.N(6, 24)
	for round := 0; round < rounds; round++ {
		for i := range items {
			it := &items[i]
			kinds := []string{"buffer", "reader"}
			if it.oneKind {
				kinds = kinds[:1]
			}
			pool := c18RecvPool(c, it.name)
			// all ordered pairs (longer/non-empty then empty and the reverse are among them)
			for pi, p := range pool {
				for bi, b := range pool {
					kind := kinds[(pi+bi+round)%len(kinds)]
					c18RecvCase(c, it, kind, [][]byte{p}, b, "valid")
				}
			}
			// after a non-empty prev: every truncation and the mutants of some b
			for k := 0; k < c.N(3, 6) && len(pool) > 1; k++ {
				p := pool[1+c.Rng.Intn(len(pool)-1)]
				b := pool[c.Rng.Intn(len(pool))]
				for class, ms := range c18RecvMutants(c, b) {
					for _, m := range ms {
						c18RecvCase(c, it, kinds[c.Rng.Intn(len(kinds))], [][]byte{p}, m, class)
					}
				}
				c18RecvCase(c, it, kinds[0], nil, b, "fresh")
			}
			// histories with a failed decode in the middle: valid, truncated (leaves a partly written receiver), then b
			for k := 0; k < c.N(12, 60); k++ {
				p1 := pool[c.Rng.Intn(len(pool))]
				p2 := pool[c.Rng.Intn(len(pool))]
				if len(p2) > 1 {
					p2 = p2[:1+c.Rng.Intn(len(p2)-1)]
				}
				if len(p2) == 0 {
					continue
				}
				b := pool[c.Rng.Intn(len(pool))]
				kind := kinds[c.Rng.Intn(len(kinds))]
				c18RecvCase(c, it, kind, [][]byte{p1, p2}, b, "valid")
				if tr := b[:c.Rng.Intn(len(b)+1)]; true {
					c18RecvCase(c, it, kind, [][]byte{p1, p2}, tr, "trunc")
				}
			}
		}
	}
	runC18RecvPopulate(c)
	runC18RecvPut(c)
}

// ---- abi.FwGUIDEntry.PopulateFromBytes: the one ovmf/abi decoder with a pointer receiver ----

func runC18RecvPopulate(c *Ctx) {
	text := func(f *abi.FwGUIDEntry) string { return fmt.Sprintf("size=%d,guid=%s", f.Size, hx(f.GUID[:])) }
	run := func(f *abi.FwGUIDEntry, b []byte) string {
		b = c18Exact(b)
		var err error
		p, _, _ := Guard(func() { err = f.PopulateFromBytes(b) })
		switch {
		case p:
			return "panic"
		case err != nil:
			return "err"
		}
		return "ok"
	}
	for i := 0; i < c.N(300, 6000); i++ {
		var prevs [][]byte
		for k := c.Rng.Intn(3); k > 0; k-- {
			prevs = append(prevs, c.Rng.Bytes(1+c.Rng.Intn(24)))
		}
		b := c.Rng.Bytes(c.Rng.Intn(24))
		if i < 24 {
			b = c.Rng.Bytes(i)
		}
		f := &abi.FwGUIDEntry{}
		for _, p := range prevs {
			run(f, p)
		}
		cls := run(f, b)
		op := fmt.Sprintf("c18 op=popinto prev=%s b=%s", c18PrevText(prevs), hx(b))
		c.Case(op, cls+":"+text(f), cls == "ok")
		c.Count(fmt.Sprintf("popinto/%s/len%s", cls, map[bool]string{true: "<2", false: map[bool]string{true: "2..17", false: ">=18"}[len(b) < 18]}[len(b) < 2]))
		if cls == "ok" {
			g := &abi.FwGUIDEntry{}
			if run(g, b) != "ok" || text(g) != text(f) {
				c.Find("c18/fwentry.PopulateFromBytes/used-receiver/result-differs", "decoding into a used FwGUIDEntry gives "+text(f)+", into a fresh one "+text(g), op)
			}
		}
	}
}

// ---- Put encoders: the bytes written do not depend on what the buffer held; nothing beyond the size changes ----

func runC18RecvPut(c *Ctx) {
	fill := func(n int, mode int) []byte {
		b := make([]byte, n)
		switch mode {
		case 1:
			for i := range b {
				b[i] = 0xFF
			}
		case 2:
			copy(b, c.Rng.Bytes(n))
		}
		return b
	}
	for _, s := range c18FixedTable() {
		for i := 0; i < c.N(40, 1200); i++ {
			fields, put := s.gen(c)
			n := s.size + c.Rng.Intn(6)
			var first []byte
			for mode := 0; mode < 3; mode++ {
				buf := fill(n, mode)
				orig := c18Exact(buf)
				res := c18Call(func() (string, error) {
					err := put(buf)
					return hx(buf), err
				})
				c.Case(fmt.Sprintf("c18 op=put s=%s %s buf=%s", s.name, fields, hx(orig)), res, strings.HasPrefix(res, "ok:"))
				if !strings.HasPrefix(res, "ok:") {
					c.Count("put-used-buffer/" + s.name + "/" + res)
					if !bytes.Equal(buf, orig) {
						c.Count("put-used-buffer/" + s.name + "/refused-but-buffer-changed")
					}
					continue
				}
				c.Count("put-used-buffer/" + s.name + "/ok")
				if !bytes.Equal(buf[s.size:], orig[s.size:]) {
					c.Find("c18/"+s.name+".Put/used-buffer/wrote-beyond-size", fmt.Sprintf("Put changed bytes beyond the documented size %d", s.size), fields+" buf="+hx(orig))
				}
				if first == nil {
					first = c18Exact(buf[:s.size])
				} else if !bytes.Equal(first, buf[:s.size]) {
					c.Find("c18/"+s.name+".Put/used-buffer/bytes-depend-on-buffer", "the bytes Put writes for one value differ with the previous contents of the buffer: a range is left unwritten", fields+" buf="+hx(orig))
				}
			}
		}
	}
	// PutSevEsResetBlock with the buffer on every path (a refused Guid leaves the first six bytes written)
	for i := 0; i < c.N(200, 4000); i++ {
		s := &opb.SevEsResetBlock{Addr: c18U32(c), Size: uint32(c18U16(c)), Guid: c.Rng.Bytes(16)}
		switch c.Rng.Intn(6) {
		case 0:
			s.Guid = c.Rng.Bytes([]int{0, 1, 15, 17, 32}[c.Rng.Intn(5)])
		case 1:
			s.Size = 1<<16 + uint32(c.Rng.Intn(3))
		}
		n := c18SizeReset + c.Rng.Intn(5)
		if c.Rng.Intn(8) == 0 {
			n = c.Rng.Intn(c18SizeReset)
		}
		buf := fill(n, 1+c.Rng.Intn(2))
		orig := c18Exact(buf)
		var err error
		p, _, _ := Guard(func() { err = abi.PutSevEsResetBlock(buf, s) })
		cls := "ok"
		switch {
		case p:
			cls = "panic"
		case err != nil:
			cls = "err"
		}
		op := fmt.Sprintf("c18 op=putinto s=reset addr=%d size=%d guid=%s buf=%s", s.Addr, s.Size, hx(s.Guid), hx(orig))
		c.Case(op, cls+":"+hx(buf), cls == "ok")
		changed := "buffer-unchanged"
		if !bytes.Equal(buf, orig) {
			changed = "buffer-changed"
		}
		c.Count("putinto/reset/" + cls + "/" + changed)
		if cls == "ok" {
			other := fill(n, 0)
			if e2 := abi.PutSevEsResetBlock(other, s); e2 != nil || !bytes.Equal(other[:c18SizeReset], buf[:c18SizeReset]) {
				c.Find("c18/reset.Put/used-buffer/bytes-depend-on-buffer", "PutSevEsResetBlock writes different bytes over a zeroed and a used buffer", op)
			}
			if !bytes.Equal(buf[c18SizeReset:], orig[c18SizeReset:]) {
				c.Find("c18/reset.Put/used-buffer/wrote-beyond-size", "PutSevEsResetBlock changed bytes beyond 22", op)
			}
		}
	}
}
