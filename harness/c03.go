package main

import (
	"encoding/base64"
	"encoding/hex"
	"bytes"
	"context"
	"crypto"
	"crypto/rsa"
	"crypto/sha256"
	"crypto/sha512"
	"crypto/x509"
	"fmt"
	"math/big"
	"os"
	"path/filepath"
	"strings"
	"time"

	"github.com/google/gce-tcb-verifier/endorse"
	"github.com/google/gce-tcb-verifier/gcetcbendorsement"
	"github.com/google/gce-tcb-verifier/keys"
	epb "github.com/google/gce-tcb-verifier/proto/endorsement"
	"github.com/google/gce-tcb-verifier/rotate"
	"github.com/google/gce-tcb-verifier/sev"
	"github.com/google/gce-tcb-verifier/sign/gcsca"
	"github.com/google/gce-tcb-verifier/sign/memca"
	"github.com/google/gce-tcb-verifier/sign/nonprod"
	styp "github.com/google/gce-tcb-verifier/sign/types"
	"github.com/google/gce-tcb-verifier/storage/local"
	"github.com/google/gce-tcb-verifier/tdx"
	"github.com/google/gce-tcb-verifier/testing/nonprod/localkm"
	"github.com/google/gce-tcb-verifier/testing/nonprod/localnonvcs"
	"github.com/google/gce-tcb-verifier/testing/nonprod/memkm"
	teststorage "github.com/google/gce-tcb-verifier/testing/storage"
	"github.com/google/gce-tcb-verifier/verify"
	spb "github.com/google/go-sev-guest/proto/sevsnp"
	tabi "github.com/google/go-tdx-guest/abi"
	tpb "github.com/google/go-tdx-guest/proto/tdx"
	"github.com/google/go-tdx-guest/testing/testdata"
	tpmpb "github.com/google/go-tpm-tools/proto/attest"
	"google.golang.org/protobuf/proto"
	fmpb "google.golang.org/protobuf/types/known/fieldmaskpb"
)

func init() {
	register("c03", "real pipeline: rotate.Bootstrap + 0..n rotate.Key on four stacks (memkm+memca, memkm+gcsca over in-memory storage, "+
		"localkm+gcsca over local disk, gcpkms manager+signer over an in-process Cloud KMS service + gcsca over in-memory storage), endorse.VirtualFirmware of generated images/requests in every state, then verify.Endorsement of every "+
		"endorsement (also those issued before later rotations) at the boundary times of both certificates and with own/foreign/empty/nil root "+
		"pools; every listed SNP measurement and TDX MRTD re-presented for its configuration; inspect output re-verified with an independent "+
		"rsa.VerifyPSS. Non-trivial: the endorsement was issued after at least one rotation or is verified after a later one; distinct by op line.", runC03)
}

type c03Stack struct {
	name   string
	signer *nonprod.Signer
	kc     *keys.Context
	clean  func()
	// wrap adds the stack's own context values (the Cloud KMS stack needs its key ids)
	wrap func(context.Context) context.Context
}

// storeBacked: the authority keeps certificates in named objects (gcsca); memca keys them by key-version name
func (st *c03Stack) storeBacked() bool { return strings.Contains(st.name, "gcsca") }

// c03Kinds is the number of stacks; kind 3 is the production stack of c03_kms.go.
const c03Kinds = 4

func newC03Stack(kind int, r *Rng) *c03Stack {
	s := &nonprod.Signer{Rand: r}
	st := &c03Stack{signer: s, clean: func() {}, wrap: func(ctx context.Context) context.Context { return ctx }}
	switch kind {
	case 3:
		return newC03KmsStack(r)
	case 0:
		st.name = "memkm+memca"
		st.kc = &keys.Context{CA: memca.Create(), Signer: s, Random: r, Manager: &memkm.T{Signer: s}}
	case 1:
		st.name = "memkm+gcsca-mem"
		ca := &gcsca.CertificateAuthority{RootPath: "root.crt", PrivateBucket: "bkt", SigningCertDirInGCS: "certs",
			Storage: &teststorage.Mock{}}
		st.kc = &keys.Context{CA: ca, Signer: s, Random: r, Manager: &memkm.T{Signer: s}}
	default:
		st.name = "localkm+gcsca-local"
		dir, err := os.MkdirTemp("", "verif-c03-")
		if err != nil {
			panic(err)
		}
		st.clean = func() { os.RemoveAll(dir) }
		os.MkdirAll(filepath.Join(dir, "keys"), 0755)
		os.MkdirAll(filepath.Join(dir, "store", "bkt", "certs"), 0755)
		ca := &gcsca.CertificateAuthority{RootPath: "root.crt", PrivateBucket: "bkt", SigningCertDirInGCS: "certs",
			Storage: &local.StorageClient{Root: filepath.Join(dir, "store")}}
		km := &localkm.T{T: memkm.T{Signer: s}, KeyDir: filepath.Join(dir, "keys")}
		st.kc = &keys.Context{CA: ca, Signer: s, Random: r, Manager: km}
	}
	return st
}

type c03End struct {
	issued int
	bytes  []byte
	ts     time.Time
	golden *epb.VMGoldenMeasurement
	cert   *x509.Certificate
}

func parseEnd(b []byte) (*epb.VMLaunchEndorsement, *epb.VMGoldenMeasurement, *x509.Certificate, error) {
	e := &epb.VMLaunchEndorsement{}
	if err := proto.Unmarshal(b, e); err != nil {
		return nil, nil, nil, err
	}
	g := &epb.VMGoldenMeasurement{}
	if err := proto.Unmarshal(e.SerializedUefiGolden, g); err != nil {
		return nil, nil, nil, err
	}
	c, err := x509.ParseCertificate(g.Cert)
	return e, g, c, err
}

type bufWriter struct{ bytes.Buffer }

func (*bufWriter) IsTerminal() bool { return false }

func runC03(c *Ctx) {
	r := c.Rng
	rawQuote, err := tabi.QuoteToProto(testdata.RawQuote)
	if err != nil {
		panic(err)
	}
	quoteV4 := rawQuote.(*tpb.QuoteV4)
	nhist := c.N(3, 12)
	maxRot := c.N(3, 5)
	for kind := 0; kind < c03Kinds; kind++ {
		for h := 0; h < nhist; h++ {
			st := newC03Stack(kind, r)
			func() {
				defer st.clean()
				ctx0 := st.wrap(keys.NewContext(quietCtx(true), st.kc))
				t0 := baseTime.Add(time.Duration(r.Intn(1000)) * time.Hour)
				bctx := rotate.NewBootstrapContext(ctx0, &rotate.BootstrapContext{RootKeyCommonName: "root cn", RootKeySerial: big.NewInt(1),
					SigningKeyCommonName: "signer cn", SigningKeySerial: big.NewInt(2), Now: t0})
				if err := rotate.Bootstrap(bctx); err != nil {
					c.Find("c03/bootstrap/failed/"+st.name, "rotate.Bootstrap failed on a fresh stack: "+err.Error(), st.name)
					return
				}
				nrot := r.Intn(maxRot + 1)
				var rots []time.Time
				var ends []*c03End
				vdir, _ := os.MkdirTemp("", "verif-c03v-")
				defer os.RemoveAll(vdir)
				var primCerts []*x509.Certificate
				var rootCert *x509.Certificate
				// certificate objects the manifest records (<CN>-<subject serial>): the bootstrap's two
				usedObj := map[string]bool{"root cn-1": true, "signer cn-2": true}
				for state := 0; state <= nrot; state++ {
					if state > 0 {
						// rotation times in any order relative to each other, inside the root's validity
						rt := t0.Add(time.Duration(1+r.Intn(20000)) * time.Hour)
						rots = append(rots, rt)
						// common names and serial overrides come from small pools, so that rotations reuse a
						// (CN, serial) pair — and with it a certificate object name — of an earlier key
						cn := []string{"signer cn", "signer cn", "signer cn b", fmt.Sprintf("signer cn %d", state)}[r.Intn(4)]
						serial := int64([]int{2, 3, 3, 2 + state, 2 + state}[r.Intn(5)])
						if r.Intn(6) == 0 {
							// the new signing key named exactly like the root key (same common name and subject serial):
							// a leaf that looks self-issued by name must still be recorded as a signing key, not as the root
							cn, serial = "root cn", 1
						}
						c.Count(fmt.Sprintf("rotate/cn-pool=%v,serial-repeat=%v", cn == "signer cn", serial != int64(2+state)))
						if st.storeBacked() && usedObj[fmt.Sprintf("%s-%d", cn, serial)] {
							// The object name is the one the manifest records for an earlier key version: gcsca.upload
							// (after its "fix:" commit) refuses it even with --overwrite, and nothing may change —
							// the recorded primary must still be the key that signs and verifies below.
							before, _ := st.kc.CA.PrimarySigningKeyVersion(ctx0)
							rctx := rotate.NewSigningKeyContext(ctx0, &rotate.SigningKeyContext{SigningKeyCommonName: cn,
								SigningKeySerial: big.NewInt(serial), Now: rt})
							_, err := rotate.Key(rctx)
							// gcsca.Finalize edits its cached manifest before it uploads; after a failed Finalize the
							// authority object has to re-read the stored manifest, as the next process would
							if g, ok := st.kc.CA.(*gcsca.CertificateAuthority); ok {
								g.Flush()
							}
							after, _ := st.kc.CA.PrimarySigningKeyVersion(ctx0)
							c.Count("rotate/reused-object-refused=" + b2s(err != nil))
							if err == nil || after != before {
								c.Find("c03/rotate/reused-object-accepted/"+st.name, fmt.Sprintf("a rotation whose certificate object is recorded "+
									"for an earlier key version was not refused (err=%v, primary %q -> %q)", err, before, after),
									fmt.Sprintf("%s state=%d cn=%q serial=%d", st.name, state, cn, serial))
								return
							}
							// the rotation of this state proper: a pair nobody used
							cn, serial = fmt.Sprintf("signer cn %d", state), int64(100+state)
						}
						rctx := rotate.NewSigningKeyContext(ctx0, &rotate.SigningKeyContext{SigningKeyCommonName: cn,
							SigningKeySerial: big.NewInt(serial), Now: rt})
						if _, err := rotate.Key(rctx); err != nil {
							c.Find("c03/rotate/failed/"+st.name, "fault-free rotate.Key failed: "+err.Error(), fmt.Sprintf("%s state=%d", st.name, state))
							return
						}
						usedObj[fmt.Sprintf("%s-%d", cn, serial)] = true
					}
					// endorse in this state
					img := cleanFirmware(2*1024*1024, byte(1+r.Intn(200)))
					ts := baseTime.Add(time.Duration(r.Intn(5000)) * time.Hour)
					// an SVSM measurement supplied with the request (48 bytes) in half of the endorsements, whatever
					// VMSA counts the request asks for
					var svsm []byte
					if r.Intn(2) == 0 {
						svsm = r.Bytes(48)
					}
					ec := &endorse.Context{
						SevSnp: &sev.SnpEndorsementRequest{Svn: uint32(r.Intn(4)), Product: spb.SevProduct_SEV_PRODUCT_MILAN,
							LaunchVmsas: uint32([]int{0, 1, 4, 240}[r.Intn(4)])},
						Tdx: &tdx.EndorsementRequest{Svn: 1, IncludeEarlyAccept: r.Intn(3) != 0,
							MachineShapes: [][]string{nil, {"c3-standard-4"}, {"c3-standard-4", "c3-standard-8"}, {"c3-standard-8", "c3-standard-22", "c3-standard-4"}}[r.Intn(4)]},
						Image: img, ClSpec: uint64(1 + r.Intn(9)), Timestamp: ts, SvsmSnpMeasurement: svsm,
						VCS: &localnonvcs.T{Root: vdir}, OutDir: fmt.Sprintf("s%d", state),
					}
					if r.Intn(3) == 0 {
						// the same output file written before by a LONGER endorsement (all VMSA counts, three shapes, another
						// image) and now replaced with permission to overwrite: what is stored afterwards is the new
						// endorsement's bytes and nothing else
						long := *ec
						long.Image = cleanFirmware(2*1024*1024, byte(201+r.Intn(50)))
						long.SevSnp = &sev.SnpEndorsementRequest{Svn: 1, Product: spb.SevProduct_SEV_PRODUCT_MILAN}
						long.Tdx = &tdx.EndorsementRequest{Svn: 1, IncludeEarlyAccept: true, MachineShapes: []string{"c3-standard-8", "c3-standard-22", "c3-standard-4"}}
						long.SvsmSnpMeasurement = r.Bytes(48)
						if err := endorse.VirtualFirmware(endorse.NewContext(ctx0, &long)); err != nil {
							c.Find("c03/endorse/failed/"+st.name, "endorse.VirtualFirmware failed in a reachable key state: "+err.Error(),
								fmt.Sprintf("%s state=%d (first endorsement of a pair)", st.name, state))
							return
						}
						c.Count("endorse/replaces-longer-file")
					}
					if err := endorse.VirtualFirmware(endorse.NewContext(ctx0, ec)); err != nil {
						c.Find("c03/endorse/failed/"+st.name, "endorse.VirtualFirmware failed in a reachable key state: "+err.Error(),
							fmt.Sprintf("%s state=%d", st.name, state))
						return
					}
					eb, err := os.ReadFile(filepath.Join(vdir, fmt.Sprintf("s%d", state), "endorsement.binarypb"))
					if err != nil {
						panic(err)
					}
					_, g, cert, err := parseEnd(eb)
					if err != nil {
						c.Find("c03/endorse/unparseable", "written endorsement does not parse: "+err.Error(), st.name)
						return
					}
					dg := sha512.Sum384(img)
					if !bytes.Equal(g.Digest, dg[:]) {
						c.Find("c03/endorse/digest", "signed digest is not the SHA-384 of the image", st.name)
					}
					ends = append(ends, &c03End{state, eb, ts, g, cert})
					primCerts = append(primCerts, cert)
					// root certificate as the authority serves it now
					kv, _ := st.kc.CA.PrimarySigningKeyVersion(ctx0)
					bundle, err := st.kc.CA.CABundle(ctx0, kv)
					if err != nil {
						c.Find("c03/cabundle/failed", "CABundle failed: "+err.Error(), st.name)
						return
					}
					pool := x509.NewCertPool()
					pool.AppendCertsFromPEM(bundle)
					blk, _ := pemFirst(bundle)
					rootNow, err := x509.ParseCertificate(blk)
					if err != nil {
						panic(err)
					}
					if rootCert == nil {
						rootCert = rootNow
					} else if !bytes.Equal(rootCert.Raw, rootNow.Raw) {
						c.Find("c03/root-changed", "the root certificate changed across a rotation", st.name)
					}
					// verify every endorsement issued so far under the root as served now
					for _, e := range ends {
						c03Verify(c, st, e, state, t0, rots, pool, rootNow)
					}
				}
				// model line for the certificate validity windows
				var rl, pw []string
				for _, t := range rots {
					rl = append(rl, fmt.Sprint(t.Unix()))
				}
				for _, pc := range primCerts {
					pw = append(pw, fmt.Sprintf("%d-%d", pc.NotBefore.Unix(), pc.NotAfter.Unix()))
				}
				c.Case(fmt.Sprintf("c03 op=certs t0=%d rots=%s", t0.Unix(), strings.Join(rl, ",")),
					fmt.Sprintf("root=%d-%d primary=%s", rootCert.NotBefore.Unix(), rootCert.NotAfter.Unix(), strings.Join(pw, ",")), nrot > 0)
				c.Count(fmt.Sprintf("%s/rotations=%d", st.name, nrot))
				// every listed measurement is accepted for its configuration (last endorsement)
				last := ends[len(ends)-1]
				c03Listed(c, st, last, rootCert, quoteV4)
				// raw inspect output re-verifies independently
				c03Inspect(c, st, last)
			}()
		}
	}
}

func pemFirst(b []byte) ([]byte, []byte) {
	blk, rest := pemDecode(b)
	return blk, rest
}

func c03Verify(c *Ctx, st *c03Stack, e *c03End, state int, t0 time.Time, rots []time.Time, pool *x509.CertPool, root *x509.Certificate) {
	var rl []string
	for _, t := range rots {
		rl = append(rl, fmt.Sprint(t.Unix()))
	}
	lo, hi := e.cert.NotBefore, e.cert.NotAfter
	if root.NotBefore.After(lo) {
		lo = root.NotBefore
	}
	if root.NotAfter.Before(hi) {
		hi = root.NotAfter
	}
	times := []time.Time{e.cert.NotBefore.Add(-time.Second), e.cert.NotBefore, lo.Add(hi.Sub(lo) / 2), e.cert.NotAfter,
		e.cert.NotAfter.Add(time.Second), root.NotBefore.Add(-time.Second), root.NotAfter, root.NotAfter.Add(time.Second)}
	foreign := x509.NewCertPool()
	_, fca := memKeys()
	if fb, err := fca.CABundle(context.Background(), memSignKey); err == nil {
		foreign.AppendCertsFromPEM(fb)
	}
	for _, now := range times {
		for _, rk := range []string{"own", "own", "foreign", "empty", "nil"}[c.Rng.Intn(2):] {
			var roots *x509.CertPool
			switch rk {
			case "own":
				roots = pool
			case "foreign":
				roots = foreign
			case "empty":
				roots = x509.NewCertPool()
			}
			var err error
			pan, msg, _ := Guard(func() { err = verify.Endorsement(e.bytes, &verify.Options{RootsOfTrust: roots, Now: now}) })
			op := fmt.Sprintf("c03 op=verify stack=%s t0=%d rots=%s issued=%d state=%d now=%d ts=%d prov=1 roots=%s", tok(st.name), t0.Unix(),
				strings.Join(rl, ","), e.issued, state, now.Unix(), e.ts.Unix(), rk)
			if pan {
				c.Find("c03/verify/panic", "verify.Endorsement panicked: "+msg, op)
			}
			c.Case(op, okrej(err == nil && !pan), e.issued > 0 || state > e.issued)
			inBoth := !now.Before(e.cert.NotBefore) && !now.After(e.cert.NotAfter) && !now.Before(root.NotBefore) && !now.After(root.NotAfter)
			if rk == "own" && inBoth && err != nil {
				c.Find("c03/verify/rejected-own/"+st.name, "an endorsement the pipeline wrote is rejected under its own root inside both validity windows: "+err.Error(), op)
			}
			if err == nil {
				c.Count("verify/ok")
			} else {
				c.Count("verify/reject")
			}
			// the same endorsement through the SEV-SNP validation hook (what go-sev-guest calls back), for a report
			// carrying a listed measurement, with the caller's roots and verification time: it must decide as
			// verify.Endorsement does at that time (in particular accept everywhere inside both validity windows)
			if ms := e.golden.GetSevSnp().GetMeasurements(); len(ms) > 0 && !pan {
				k := sortedKeys(ms)[0]
				var cerr error
				cpan, cmsg, _ := Guard(func() {
					f := verify.SNPValidateFunc(&verify.Options{RootsOfTrust: roots, Now: now, SNP: &verify.SNPOptions{ExpectedLaunchVMSAs: k}})
					cerr = f(&spb.Attestation{Report: &spb.Report{Measurement: ms[k]}}, e.bytes)
				})
				cop := op + " via=closure"
				if cpan {
					c.Find("c03/verify/panic", "the SNP validation hook panicked: "+cmsg, cop)
				}
				c.Case(cop, okrej(cerr == nil && !cpan), e.issued > 0 || state > e.issued)
				if rk == "own" && inBoth && cerr != nil {
					c.Find("c03/verify/closure-rejected-own/"+st.name, "the SNP validation hook rejects a listed measurement of an endorsement the pipeline wrote, under its own root inside both validity windows: "+cerr.Error(), cop)
				}
				if (cerr == nil) != (err == nil) {
					c.Find("c03/verify/closure-differs", "the SNP validation hook and verify.Endorsement decide differently for the same endorsement, roots and verification time", cop)
				}
				c.Count("verify/closure")
			}
			if rk != "own" {
				break
			}
		}
	}
}

func c03Listed(c *Ctx, st *c03Stack, e *c03End, root *x509.Certificate, quoteV4 *tpb.QuoteV4) {
	pool := x509.NewCertPool()
	pool.AddCert(root)
	now := e.cert.NotBefore.Add(time.Hour)
	end := &epb.VMLaunchEndorsement{}
	proto.Unmarshal(e.bytes, end)
	for _, n := range sortedKeys(e.golden.GetSevSnp().GetMeasurements()) {
		m := e.golden.SevSnp.Measurements[n]
		err := verify.EndorsementProto(end, &verify.Options{RootsOfTrust: pool, Now: now,
			SNP: &verify.SNPOptions{Measurement: m, ExpectedLaunchVMSAs: n}})
		op := fmt.Sprintf("c03 op=listed-snp g=%s n=%d m=%s", sevLine(stripBundle(e.golden.SevSnp)), n, hx(m))
		c.Case(op, okrej(err == nil), true)
		c.Count("listed-snp")
		if err != nil {
			c.Find("c03/listed/snp-rejected", "a measurement the endorsement lists is rejected for its own VMSA count: "+err.Error(), op)
		}
	}
	// the SVSM measurement is listed for the single-VMSA (SVSM) launch, whichever other counts are listed
	if sv := e.golden.GetSevSnp().GetSvsmMeasurement(); len(sv) > 0 {
		for _, n := range []uint32{1, 0} {
			err := verify.EndorsementProto(end, &verify.Options{RootsOfTrust: pool, Now: now,
				SNP: &verify.SNPOptions{Measurement: sv, ExpectedLaunchVMSAs: n}})
			op := fmt.Sprintf("c03 op=listed-snp g=%s n=%d m=%s", sevLine(stripBundle(e.golden.SevSnp)), n, hx(sv))
			c.Case(op, okrej(err == nil), true)
			c.Count(fmt.Sprintf("listed-svsm/one-vmsa-entry-listed=%v", e.golden.SevSnp.Measurements[1] != nil))
			if err != nil {
				c.Find("c03/listed/svsm-rejected", fmt.Sprintf("the SVSM measurement the endorsement lists is rejected for expected launch VMSAs %d: %v", n, err), op)
			}
		}
	}
	for _, row := range e.golden.GetTdx().GetMeasurements() {
		q := proto.Clone(quoteV4).(*tpb.QuoteV4)
		q.TdQuoteBody.MrTd = row.Mrtd
		ab, _ := proto.Marshal(&tpmpb.Attestation{TeeAttestation: &tpmpb.Attestation_TdxAttestation{TdxAttestation: q}})
		err := gcetcbendorsement.TdxValidate(quietCtx(false), ab, &gcetcbendorsement.TdxValidateOptions{Endorsement: end,
			RootsOfTrust: pool, Now: now, ExpectedRAMGiB: int(row.RamGib)})
		op := fmt.Sprintf("c03 op=listed-tdx rows=%s mrtd=%s ram=%d", rowsLine(e.golden.Tdx), hx(row.Mrtd), row.RamGib)
		c.Case(op, okrej(err == nil), true)
		c.Count("listed-tdx")
		if err != nil {
			c.Find("c03/listed/mrtd-rejected", "an MRTD the endorsement lists is rejected for its own RAM size: "+err.Error(), op)
		}
	}
}

func stripBundle(s *epb.VMSevSnp) *epb.VMSevSnp {
	q := proto.Clone(s).(*epb.VMSevSnp)
	q.CaBundle = nil
	return q
}

func c03Inspect(c *Ctx, st *c03Stack, e *c03End) {
	end := &epb.VMLaunchEndorsement{}
	proto.Unmarshal(e.bytes, end)
	get := func(f func(ctx context.Context) error) []byte {
		w := &bufWriter{}
		ctx := gcetcbendorsement.WithInspect(context.Background(), &gcetcbendorsement.Inspect{Writer: w, Form: gcetcbendorsement.BytesRaw})
		if err := f(ctx); err != nil {
			c.Find("c03/inspect/error", "inspect failed on a genuine endorsement: "+err.Error(), st.name)
		}
		return w.Bytes()
	}
	// the text forms decode back to the stored bytes (explicit --bytesform hex / base64), for every length class
	for _, fm := range []struct {
		name string
		form gcetcbendorsement.BytesForm
		dec  func([]byte) ([]byte, error)
	}{{"hex", gcetcbendorsement.BytesHex, func(b []byte) ([]byte, error) { return hex.DecodeString(string(b)) }},
		{"base64", gcetcbendorsement.BytesBase64, func(b []byte) ([]byte, error) { return base64.StdEncoding.DecodeString(string(b)) }}} {
		for what, want := range map[string][]byte{"payload": end.SerializedUefiGolden, "signature": end.Signature} {
			w := &bufWriter{}
			ctx := gcetcbendorsement.WithInspect(context.Background(), &gcetcbendorsement.Inspect{Writer: w, Form: fm.form})
			var err error
			if what == "payload" {
				err = gcetcbendorsement.InspectPayload(ctx, end)
			} else {
				err = gcetcbendorsement.InspectSignature(ctx, end)
			}
			got, derr := fm.dec(w.Bytes())
			c.Count("inspect/" + fm.name + "-" + what)
			if err != nil || derr != nil || !bytes.Equal(got, want) {
				c.Find("c03/inspect/"+fm.name+"-not-verbatim", fmt.Sprintf("the %s rendering of the %s (%d bytes) does not decode to the stored bytes (err=%v, decode=%v, %d bytes decoded)",
					fm.name, what, len(want), err, derr, len(got)), st.name)
			}
		}
	}
	payload := get(func(ctx context.Context) error { return gcetcbendorsement.InspectPayload(ctx, end) })
	sig := get(func(ctx context.Context) error { return gcetcbendorsement.InspectSignature(ctx, end) })
	certDER := get(func(ctx context.Context) error {
		return gcetcbendorsement.InspectMask(ctx, end, &fmpb.FieldMask{Paths: []string{"cert"}})
	})
	if !bytes.Equal(payload, end.SerializedUefiGolden) || !bytes.Equal(sig, end.Signature) {
		c.Find("c03/inspect/not-verbatim", "raw inspect output differs from the stored bytes", st.name)
	}
	cert, err := x509.ParseCertificate(certDER)
	if err != nil {
		c.Find("c03/inspect/cert", "raw cert output does not parse: "+err.Error(), st.name)
		return
	}
	d := sha256.Sum256(payload)
	if err := rsa.VerifyPSS(cert.PublicKey.(*rsa.PublicKey), crypto.SHA256, d[:], sig,
		&rsa.PSSOptions{SaltLength: 32, Hash: crypto.SHA256}); err != nil {
		c.Find("c03/inspect/independent-pss", "independent RSA-PSS/SHA-256 (salt 32) check over the emitted payload, signature and certificate fails: "+err.Error(), st.name)
	}
	c.Count("inspect/independent-pss-ok")
	_ = styp.SignValidDays
}
