package main

// C19 — field-path inspection returns exactly the addressed value.
//
// Drives parsepath.ParsePath / parsepath.PathValues, the scanner (through the verif hook) and the
// byte-form writers of gcetcbendorsement in-process. The schema is data: the real descriptors of the
// endorsement messages, the parsepath test message and two well-known types are dumped into the op
// lines, so the Lean model parses paths against exactly the descriptors the Go code sees.
//
// Direct oracle (independent of the model): the harness walks the message itself by protoreflect
// following the parsed path's steps (field by name, list index, map key by equality) and compares every
// value along the path with PathValues' result; any panic is a finding; every non-eof token must advance
// the scanner; raw renderings must equal the field bytes obtained through the generated getters.

import (
	"bytes"
	"context"
	"fmt"
	"math/big"
	"regexp"
	"strconv"
	"strings"
	"unicode/utf8"

	"github.com/google/gce-tcb-verifier/gcetcbendorsement"
	"github.com/google/gce-tcb-verifier/gcetcbendorsement/parsepath"
	tpb "github.com/google/gce-tcb-verifier/gcetcbendorsement/parsepath/testmessage"
	epb "github.com/google/gce-tcb-verifier/proto/endorsement"
	"google.golang.org/protobuf/proto"
	"google.golang.org/protobuf/reflect/protopath"
	"google.golang.org/protobuf/reflect/protoreflect"
	"google.golang.org/protobuf/types/descriptorpb"
	fmpb "google.golang.org/protobuf/types/known/fieldmaskpb"
	"google.golang.org/protobuf/types/known/structpb"
)

func init() {
	register("c19", "sub-streams: (schema) descriptor dumps of 7 root types echoed by the model; (scan) token streams through "+
		"the hook; (parse) ParsePath on grammar-directed, mutated and random paths; (eval) ParsePath+PathValues on "+
		"reflection-filled messages; (bytes) WriteBytesForm/InspectPayload/InspectSignature in 5 forms; (mask) "+
		"InspectMask on golden measurements. Non-trivial: scan with >= 3 tokens; parse that is accepted with >= 2 "+
		"steps after the root or rejected after >= 3 tokens; eval whose path parsed with >= 1 step after the root; "+
		"bytes/mask with non-empty output; distinct by op line.", runC19)
}

type c19Root struct {
	weight int // share of generated messages, in quarters
	name   string
	proto  proto.Message
	md     protoreflect.MessageDescriptor
	schema string
}

func c19Roots() []*c19Root {
	ms := []proto.Message{&tpb.Test{}, &tpb.Test_Nested{}, &epb.VMGoldenMeasurement{}, &epb.VMLaunchEndorsement{},
		&epb.VMTdx{}, &structpb.Struct{}, &descriptorpb.UninterpretedOption{}}
	weights := []int{8, 4, 6, 1, 2, 4, 3} // small roots (two scalar fields) need fewer messages
	var out []*c19Root
	for i, m := range ms {
		md := m.ProtoReflect().Descriptor()
		out = append(out, &c19Root{weight: weights[i], name: string(md.FullName()), proto: m, md: md})
	}
	return out
}

// termBuf is a TerminalWriter over a buffer.
type termBuf struct {
	bytes.Buffer
	term bool
}

func (t *termBuf) IsTerminal() bool { return t.term }

// ---- canonical rendering of parsed paths ---------------------------------------------------------

func c19Path(p protopath.Path) string {
	parts := make([]string, len(p))
	for i, s := range p {
		switch s.Kind() {
		case protopath.RootStep:
			parts[i] = "r:" + string(s.MessageDescriptor().FullName())
		case protopath.FieldAccessStep:
			parts[i] = fmt.Sprintf("f:%d:%s", s.FieldDescriptor().Number(), s.FieldDescriptor().TextName())
		case protopath.ListIndexStep:
			parts[i] = fmt.Sprintf("i:%d", s.ListIndex())
		case protopath.MapIndexStep:
			ks, _ := c19Scalar(s.MapIndex().Value())
			parts[i] = "k:" + ks
		case protopath.AnyExpandStep:
			parts[i] = "a:" + string(s.MessageDescriptor().FullName())
		default:
			parts[i] = "u"
		}
	}
	return strings.Join(parts, "/")
}

func c19Shape(p protopath.Path) string {
	var sb strings.Builder
	for _, s := range p {
		sb.WriteByte("?RFULMA"[int(s.Kind())%7])
	}
	sh := sb.String()
	if len(sh) > 4 {
		sh = ".." + sh[len(sh)-4:]
	}
	return sh
}

// c19Sig2 is the coarse class used in finding signatures: the kinds of the last two steps.
func c19Sig2(p protopath.Path) string {
	sh := c19Shape(p)
	if len(sh) > 2 {
		sh = sh[len(sh)-2:]
	}
	return sh
}

// ---- the direct oracle: an independent walk -------------------------------------------------------

type c19Walk struct {
	vals []protoreflect.Value
	err  string // "" | range | key | shape
}

// c19OracleWalk follows the steps of p through m without consulting any descriptor cursor: a field access
// looks the field up BY NAME in the message value at hand, a list index checks the bounds, a map index
// searches the entries for an equal key.
func c19OracleWalk(p protopath.Path, m proto.Message) (w c19Walk) {
	cur := protoreflect.ValueOfMessage(m.ProtoReflect())
	for i, s := range p {
		switch s.Kind() {
		case protopath.RootStep:
			if i != 0 {
				w.err = "shape"
				return
			}
		case protopath.FieldAccessStep:
			mm, ok := cur.Interface().(protoreflect.Message)
			if !ok {
				w.err = "shape"
				return
			}
			fd := mm.Descriptor().Fields().ByName(s.FieldDescriptor().Name())
			if fd == nil || fd.Number() != s.FieldDescriptor().Number() {
				w.err = "shape"
				return
			}
			cur = mm.Get(fd)
		case protopath.ListIndexStep:
			l, ok := cur.Interface().(protoreflect.List)
			if !ok {
				w.err = "shape"
				return
			}
			if s.ListIndex() < 0 || s.ListIndex() >= l.Len() {
				w.err = "range"
				return
			}
			cur = l.Get(s.ListIndex())
		case protopath.MapIndexStep:
			mp, ok := cur.Interface().(protoreflect.Map)
			if !ok {
				w.err = "shape"
				return
			}
			var found protoreflect.Value
			want := s.MapIndex().Interface()
			mp.Range(func(k protoreflect.MapKey, v protoreflect.Value) bool {
				if k.Interface() == want {
					found = v
					return false
				}
				return true
			})
			if !found.IsValid() {
				w.err = "key"
				return
			}
			cur = found
		default:
			w.err = "shape"
			return
		}
		w.vals = append(w.vals, cur)
	}
	return
}

// c19LastKeyCls gives the key class needed to render a top-level map value addressed by p.
func c19LastKeyCls(p protopath.Path) string {
	if len(p) == 0 {
		return ""
	}
	s := p[len(p)-1]
	if s.Kind() == protopath.FieldAccessStep && s.FieldDescriptor().IsMap() {
		return c19KindCls(s.FieldDescriptor().MapKey().Kind())
	}
	return ""
}

// ---- direct oracle for accepted paths (independent of the model) -----------------------------------------

// token kinds as one character each: ident 0, intlit 1, strlit 2, dot 3, '(' 4, ')' 5, '[' 6, ']' 7, illegal 8, eof 9
var c19ImplicitRe = regexp.MustCompile(`^(0(30|6[012]7)*)?9$`)
var c19ExplicitRe = regexp.MustCompile(`^40(30)*5(30(30|6[012]7)*)?9$`)

// c19ParseOracle checks two clauses on a path ParsePath accepted: (1) the token sequence is a well-formed
// path (optional parenthesised root, then field accesses and bracketed indices, nothing left open);
// (2) every index step carries exactly the value its literal denotes: integers by arbitrary-precision
// evaluation of the literal, strings by the token text, booleans by name — and the steps' field names
// are the identifiers, in order.
func c19ParseOracle(c *Ctx, rt *c19Root, path string, toks []parsepath.VerifToken, p protopath.Path) {
	replay := fmt.Sprintf("root=%s path=%q parsed=%s", rt.name, path, c19Path(p))
	var ks strings.Builder
	for _, t := range toks {
		ks.WriteByte(byte('0' + t.Kind))
	}
	if !c19ImplicitRe.MatchString(ks.String()) && !c19ExplicitRe.MatchString(ks.String()) {
		c.Find("c19/ParsePath/accepts-only-well-formed", "ParsePath accepted a token sequence that is not a well-formed path", replay)
		return
	}
	// pair the steps after the root with the tokens
	si := 1
	for i := 0; i < len(toks); i++ {
		t := toks[i]
		switch t.Kind {
		case 4: // skip the explicit root up to ')'
			for i < len(toks) && toks[i].Kind != 5 {
				i++
			}
		case 0:
			if si >= len(p) || p[si].Kind() != protopath.FieldAccessStep || string(p[si].FieldDescriptor().TextName()) != t.Text {
				c.Find("c19/ParsePath/step-matches-token/field", "a field access step does not carry the identifier that was written", replay)
				return
			}
			si++
		case 6:
			v := toks[i+1]
			i += 2
			if si >= len(p) {
				c.Find("c19/ParsePath/step-matches-token/missing", "fewer steps than tokens", replay)
				return
			}
			st := p[si]
			si++
			okv := false
			switch st.Kind() {
			case protopath.ListIndexStep:
				n, good := new(big.Int).SetString(v.Text, 0)
				okv = v.Kind == 1 && good && n.IsInt64() && n.Int64() == int64(st.ListIndex()) && st.ListIndex() >= 0
			case protopath.MapIndexStep:
				switch k := st.MapIndex().Interface().(type) {
				case bool:
					okv = v.Kind == 0 && v.Text == strconv.FormatBool(k)
				case string:
					okv = v.Kind == 2 && v.Text == k
				case int32, int64:
					n, good := new(big.Int).SetString(v.Text, 0)
					okv = v.Kind == 1 && good && n.IsInt64() && n.Int64() == st.MapIndex().Int()
				case uint32, uint64:
					n, good := new(big.Int).SetString(v.Text, 0)
					okv = v.Kind == 1 && good && n.IsUint64() && n.Uint64() == st.MapIndex().Uint() && !strings.HasPrefix(v.Text, "-")
				}
			}
			if !okv {
				c.Find("c19/ParsePath/step-matches-token/index", "an index step does not carry the value its literal denotes", replay)
				return
			}
		}
	}
	if si != len(p) {
		c.Find("c19/ParsePath/step-matches-token/extra", "more steps than tokens", replay)
	}
}

// ---- one parse / eval case -------------------------------------------------------------------------

// c19Scan runs the scanner through the hook; returns the token stream rendering, the number of tokens and
// whether every non-eof token advanced the position.
func c19Scan(c *Ctx, path string) (string, []parsepath.VerifToken, bool) {
	var toks []parsepath.VerifToken
	pan, msg, _ := Guard(func() { toks = parsepath.VerifScan([]byte(path), len(path)+2) })
	if pan {
		c.Find("c19/scan/no-panic", "the scanner panicked: "+msg, "path="+hx([]byte(path)))
		return "panic", nil, false
	}
	progress := true
	prev := 0
	parts := make([]string, len(toks))
	for i, t := range toks {
		text := ""
		if t.Kind <= 2 {
			text = hx([]byte(t.Text))
		}
		parts[i] = fmt.Sprintf("%d:%d:%d:%s", t.Kind, t.Pos, t.End, text)
		if t.Kind != 9 && (t.End <= prev || t.End > len(path)) {
			progress = false
		}
		// an identifier / integer token carries its source text; a quoted literal without escape sequences
		// carries exactly the bytes between its quotes (independent of the scanner under test)
		if t.Pos >= 0 && t.End <= len(path) && t.Pos < t.End {
			src := path[t.Pos:t.End]
			if (t.Kind == 0 || t.Kind == 1) && t.Text != src {
				c.Find("c19/scan/token-text/"+fmt.Sprint(t.Kind), "an identifier or integer token does not carry the text that was written", "path="+hx([]byte(path))+" token="+hx([]byte(t.Text)))
			}
			if t.Kind == 2 && len(src) >= 2 && !strings.Contains(src, "\\") && (src[0] == '"' || src[0] == '\'') && src[len(src)-1] == src[0] &&
				utf8.ValidString(src) && t.Text != src[1:len(src)-1] {
				c.Find("c19/scan/token-text/string", "a quoted key without escape sequences does not carry the bytes between its quotes", "path="+hx([]byte(path))+" token="+hx([]byte(t.Text)))
			}
		}
		if t.Kind == 9 && (t.End != prev || t.End < len(path)) {
			progress = false
		}
		prev = t.End
	}
	if len(toks) == 0 || toks[len(toks)-1].Kind != 9 {
		progress = false
	}
	if !progress {
		c.Find("c19/scan/progress", "a non-eof token did not advance the scanner position (or eof was returned before the end "+
			"of the input); ParsePath would not terminate", "path="+hx([]byte(path))+" tokens="+strings.Join(parts, ","))
	}
	return "ok toks=" + strings.Join(parts, ","), toks, progress
}

// c19Parse calls ParsePath under Guard. Only called when the scanner shows progress on the input.
func c19Parse(c *Ctx, md protoreflect.MessageDescriptor, path string) (p protopath.Path, ok bool, panicked bool) {
	var err error
	pan, msg, _ := Guard(func() { p, err = parsepath.ParsePath(md, path) })
	if pan {
		c.Find("c19/ParsePath/no-panic", "ParsePath panicked: "+msg, fmt.Sprintf("root=%s path=%s", md.FullName(), hx([]byte(path))))
		return nil, false, true
	}
	// a path handed out earlier stays what it was: the result of ParsePath is the caller's value, a later parse
	// (of another path, possibly of another root) must not reach into it
	if h := c19Held; h != nil {
		if now := c19Path(h.p); now != h.text {
			c.Find("c19/ParsePath/earlier-result-changed", fmt.Sprintf("the path parsed from %q rendered as %s when ParsePath returned it and as %s after the next ParsePath call (on %q)", h.src, h.text, now, path),
				fmt.Sprintf("root=%s first=%s then=%s", md.FullName(), hx([]byte(h.src)), hx([]byte(path))))
		}
		c.Count("parse/held-path-rechecked")
	}
	if err == nil {
		c19Held = &c19HeldPath{src: path, text: c19Path(p), p: p}
	}
	return p, err == nil, false
}

type c19HeldPath struct {
	src, text string
	p         protopath.Path
}

// c19Held is the most recent path ParsePath accepted, re-rendered after the next call.
var c19Held *c19HeldPath

func (rt *c19Root) parseCase(c *Ctx, path string) {
	_, toks, progress := c19Scan(c, path)
	ntok := len(toks)
	op := fmt.Sprintf("c19 op=parse sch=%s root=%s path=%s", rt.schema, rt.name, hx([]byte(path)))
	if !progress {
		c.Case(op, "noprogress", false)
		return
	}
	p, ok, pan := c19Parse(c, rt.md, path)
	switch {
	case pan:
		c.Case(op, "panic", false)
		c.Count("parse/panic")
	case ok:
		c19ParseOracle(c, rt, path, toks, p)
		c.Case(op, "ok path="+c19Path(p), len(p) >= 3)
		c.Count("parse/ok")
		c.Count(fmt.Sprintf("parse/ok-steps%d", minInt(len(p)-1, 6)))
	default:
		c.Case(op, "reject", ntok >= 4)
		c.Count("parse/reject")
	}
}

func (rt *c19Root) evalCase(c *Ctx, m proto.Message, msgText string, path string) {
	_, toks, progress := c19Scan(c, path)
	op := fmt.Sprintf("c19 op=eval sch=%s root=%s path=%s msg=%s", rt.schema, rt.name, hx([]byte(path)), msgText)
	if !progress {
		c.Case(op, "noprogress", false)
		return
	}
	p, ok, pan := c19Parse(c, rt.md, path)
	if pan {
		c.Case(op, "typed=1 panic", false)
		return
	}
	if !ok {
		c.Case(op, "typed=1 reject-parse", false)
		c.Count("eval/parse-reject")
		return
	}
	c19ParseOracle(c, rt, path, toks, p)
	var vs protopath.Values
	var err error
	replay := fmt.Sprintf("root=%s path=%q msg=%s", rt.name, path, msgText)
	pan, pmsg, _ := Guard(func() { vs, err = parsepath.PathValues(p, m) })
	if pan {
		c.Find("c19/PathValues/no-panic/"+c19Sig2(p), "PathValues panicked on a path ParsePath accepted: "+pmsg, replay)
		c.Case(op, "typed=1 panic spec=0", true)
		c.Count("eval/panic")
		return
	}
	w := c19OracleWalk(p, m)
	spec := 1
	switch {
	case err != nil && w.err == "":
		spec = 0
		c.Find("c19/PathValues/exact-value/error-but-present/"+c19Sig2(p),
			"PathValues returned an error although walking the message field by field reaches a value: "+err.Error(), replay)
	case err == nil && w.err != "":
		spec = 0
		c.Find("c19/PathValues/exact-value/value-but-absent/"+w.err,
			"PathValues returned a value although the addressed element is absent ("+w.err+")", replay)
	case err == nil:
		same := len(vs.Values) == len(w.vals) && len(vs.Path) == len(p)
		for i := 0; same && i < len(w.vals); i++ {
			same = vs.Values[i].Equal(w.vals[i])
		}
		if !same {
			spec = 0
			c.Find("c19/PathValues/exact-value/different-value/"+c19Sig2(p),
				"PathValues returned values that differ from the field-by-field walk", replay)
		}
	}
	if err != nil {
		c.Case(op, fmt.Sprintf("typed=1 reject spec=%d", spec), len(p) >= 2)
		c.Count("eval/reject-" + w.err)
		return
	}
	last := vs.Index(-1)
	c.Case(op, fmt.Sprintf("typed=1 ok n=%d v=%s spec=%d", len(vs.Values), c19Value(last.Value, c19LastKeyCls(p)), spec), len(p) >= 2)
	c.Count("eval/ok")
	c.Count("eval/ok-shape/" + c19Shape(p))
	switch last.Value.Interface().(type) {
	case protoreflect.Message:
		c.Count("eval/result/message")
	case protoreflect.List:
		c.Count("eval/result/list")
	case protoreflect.Map:
		c.Count("eval/result/map")
	default:
		c.Count("eval/result/scalar")
	}
}

// ---- byte forms -----------------------------------------------------------------------------------------

var c19Forms = []struct {
	name string
	form gcetcbendorsement.BytesForm
}{{"raw", gcetcbendorsement.BytesRaw}, {"hex", gcetcbendorsement.BytesHex}, {"guid", gcetcbendorsement.BytesHexGuidify},
	{"base64", gcetcbendorsement.BytesBase64}, {"auto", gcetcbendorsement.BytesAuto}}

type c19SharedInsp struct {
	insp *gcetcbendorsement.Inspect
	w    *termBuf
}

var (
	c19SharedEndo    = &epb.VMLaunchEndorsement{}
	c19SharedInspect = map[string]*c19SharedInsp{}
)

func (rt *c19Root) maskCase(c *Ctx, r *Rng, golden *epb.VMGoldenMeasurement, goldenText string, paths []string, direct [][]byte) {
	fi := r.Intn(len(c19Forms))
	if r.Intn(3) == 0 {
		fi = 0
	}
	term := r.Intn(3) == 0
	form := c19Forms[fi]
	ser, err := proto.Marshal(golden)
	if err != nil {
		panic(err)
	}
	// A long-lived caller: ONE endorsement variable refilled from case to case (as a loop over files with
	// proto.Unmarshal into the same message does) and ONE Inspect value per (form, terminal) kept for the whole
	// run — whatever the implementation remembers between calls (decoded payloads, parsed paths) must not leak
	// from one call into the next. Every third case uses fresh objects instead.
	endo := &epb.VMLaunchEndorsement{SerializedUefiGolden: ser, Signature: []byte("sig")}
	w := &termBuf{term: term}
	insp := &gcetcbendorsement.Inspect{Writer: w, Form: form.form}
	if r.Intn(3) != 0 {
		endo = c19SharedEndo
		endo.SerializedUefiGolden, endo.Signature = ser, []byte("sig")
		key := form.name + b2s(term)
		sh, ok := c19SharedInspect[key]
		if !ok {
			sw := &termBuf{term: term}
			sh = &c19SharedInsp{&gcetcbendorsement.Inspect{Writer: sw, Form: form.form}, sw}
			c19SharedInspect[key] = sh
		}
		sh.w.Reset()
		insp, w = sh.insp, sh.w
		c.Count("mask/reused-endorsement-and-inspect")
	}
	ctx := gcetcbendorsement.WithInspect(context.Background(), insp)
	var hs []string
	for _, p := range paths {
		hs = append(hs, "p"+hx([]byte(p)))
	}
	op := fmt.Sprintf("c19 op=mask sch=%s root=%s form=%s term=%s paths=%s msg=%s", rt.schema, rt.name, form.name, b2s(term),
		strings.Join(hs, ","), goldenText)
	pan, pmsg, _ := Guard(func() { err = gcetcbendorsement.InspectMask(ctx, endo, &fmpb.FieldMask{Paths: paths}) })
	if pan {
		c.Find("c19/InspectMask/no-panic", "InspectMask panicked: "+pmsg, op)
		c.Case(op, "panic", true)
		return
	}
	if err != nil {
		c.Case(op, "reject", false)
		c.Count("mask/reject")
		return
	}
	// which renderings are modelled: bytes, string, bool, integers, enum numbers
	modelled := true
	for _, p := range paths {
		pp, perr := parsepath.ParsePath(rt.md, p)
		if perr != nil {
			modelled = false
			break
		}
		vs, verr := parsepath.PathValues(pp, golden)
		if verr != nil {
			modelled = false
			break
		}
		switch vs.Index(-1).Value.Interface().(type) {
		case []byte, string, bool, int32, int64, uint32, uint64, protoreflect.EnumNumber:
		default:
			modelled = false
		}
	}
	if !modelled {
		c.Case(op, "unmodelled", false)
		c.Count("mask/unmodelled(message,list,map,float)")
		return
	}
	c.Case(op, "ok out="+hx(w.Bytes()), w.Len() > 0)
	c.Count("mask/ok-" + form.name)
	// direct oracle: one bytes path, raw form (or auto on a non-terminal) => exactly the field bytes
	if len(paths) == 1 && direct[0] != nil && (form.name == "raw" || (form.name == "auto" && !term)) {
		c.Count("mask/raw-bytes-checked")
		if !bytes.Equal(w.Bytes(), direct[0]) {
			c.Find("c19/InspectMask/raw-bytes", "raw rendering of a bytes field differs from the field bytes",
				fmt.Sprintf("path=%q want=%x got=%x", paths[0], direct[0], w.Bytes()))
		}
	}
}

func runC19(c *Ctx) {
	r := c.Rng
	g := &c19PathGen{r: r, c: c}
	roots := c19Roots()

	// ---- (schema) ----
	for _, rt := range roots {
		enc, nm, nf, unsup := c19SchemaEnc(rt.md)
		rt.schema = enc
		for _, u := range unsup {
			c.Notes = append(c.Notes, "schema feature not represented in the model: "+u)
		}
		c.Case("c19 op=schema sch="+enc, fmt.Sprintf("ok wf=1 msgs=%d fields=%d echo=%s", nm, nf, enc), nf > 0)
		c.Count("schema/root")
	}

	// ---- (scan) token streams: exhaustive short strings over a small alphabet, then generated paths ----
	scanCase := func(s string) {
		out, toks, _ := c19Scan(c, s)
		c.Case("c19 op=scan path="+hx([]byte(s)), out, len(toks) >= 3)
		c.Count("scan/case")
	}
	alpha := []byte("a0-x7.['\"\\u\n\xc3\xa9")
	var rec func(prefix []byte, depth int)
	rec = func(prefix []byte, depth int) {
		scanCase(string(prefix))
		if depth == 0 {
			return
		}
		for _, b := range alpha {
			rec(append(append([]byte{}, prefix...), b), depth-1)
		}
	}
	rec(nil, c.N(3, 4))
	for _, s := range []string{"'\\x41\\101\\u00e9\\U0001F389\\n'", "\"\\UFFFFFFFF\"", "'\\U7FFFFFFF'", "'\\ud800'", "\"\\777\"", "'\\400'",
		"-0x1F", "-017", "-0", "09", "0x", "0xg", "00", "-", "--1", "1a", "a1", "_a.B_2", "'unterminated", "'a\nb'", "'\x00'",
		"'\xe2\x82\xac'", "'\xe2\x82'", "'\xed\xa0\x80'", "\xf0\x9f\x8e\x89", "'\\", "'\\x", "'\\u123'", "'\\U0010FFFF'", "'\\U00110000'", "\"'\"", "'\"'"} {
		scanCase(s)
	}

	// ---- (parse) and (eval) ----
	// exhaustive token sequences (up to 3 / 4 tokens of a 15-token alphabet) against the test message
	tokAlpha := []string{"nested", "repeats", "int32keymap", "strkeymap", ".", "[", "]", "(", ")", "0", "-1", "'k'", "true",
		"testprotopath", "Test"}
	var trec func(prefix string, depth int)
	trec = func(prefix string, depth int) {
		roots[0].parseCase(c, prefix)
		if depth == 0 {
			return
		}
		for _, t := range tokAlpha {
			trec(prefix+t, depth-1)
		}
	}
	trec("", c.N(3, 4))

	nMsgs := c.N(60, 500)
	nPaths := c.N(60, 90)
	nParseOnly := c.N(40, 60)
	for _, rt := range roots {
		for mi := 0; mi < (nMsgs*rt.weight+3)/4; mi++ {
			m := rt.proto.ProtoReflect().New()
			f := &c19Fill{r: r, budget: 60}
			if mi > 0 { // the first message of every root stays empty
				f.fill(m, 0)
			}
			msgText := c19Msg(m)
			c.Count(fmt.Sprintf("msg/size<=%dB", 1<<bitlen(len(msgText))))
			for pi := 0; pi < nPaths; pi++ {
				path := g.path(rt.md, m)
				x := r.Intn(100)
				switch {
				case x < 10:
					path = g.mutate(path)
				case x < 12:
					path = g.mutate(g.mutate(path))
				case x < 14:
					path = g.randomBytes()
					c.Count("path/random-bytes")
				default:
					c.Count("path/grammar")
				}
				rt.evalCase(c, m.Interface(), msgText, path)
			}
			for pi := 0; pi < nParseOnly; pi++ {
				path := g.path(rt.md, m)
				switch x := r.Intn(100); {
				case x < 45:
					path = g.mutate(path)
				case x < 55:
					path = g.mutate(g.mutate(path))
				case x < 70:
					path = g.randomBytes()
				}
				rt.parseCase(c, path)
			}
		}
	}
	// the repository's own interesting literals against the test message
	test := roots[0]
	for _, p := range []string{"", "(testprotopath.Test)", "(testprotopath.Test).nested", "uint64keymap[0xffffffffffffffff]",
		"uint64keymap[0xfffffffffffffffff]", "repeats[-4]", "int32keymap[-0xffffffff]", "int64keymap[-0xffffffffffffffff]",
		`int32keymap[-6].uint64keymap[040000000000].repeats[0].nested.nested.strkeymap["k"].intfield`, "strkeymap.key",
		"strkeymap.value", "strkeymap.nested", "repeats.nested", "int32repeats.x", "(a.1)", "()", "nested(testprotopath.Test)",
		"int32keymap[1].int32repeats", "strkeymap['k'].bytesfield", " ", "nested🎉"} {
		test.parseCase(c, p)
	}

	// ---- (bytes) WriteBytesForm, InspectPayload, InspectSignature ----
	nb := c.N(600, 20000)
	for i := 0; i < nb; i++ {
		n := []int{0, 1, 2, 3, 15, 16, 17, 48, 64, 200}[r.Intn(10)]
		b := r.Bytes(n)
		form := c19Forms[r.Intn(len(c19Forms))]
		term := r.Bool()
		w := &termBuf{term: term}
		var err error
		which := r.Intn(3)
		ctx := gcetcbendorsement.WithInspect(context.Background(), &gcetcbendorsement.Inspect{Writer: w, Form: form.form})
		endo := &epb.VMLaunchEndorsement{SerializedUefiGolden: b, Signature: b}
		pan, pmsg, _ := Guard(func() {
			switch which {
			case 0:
				err = gcetcbendorsement.WriteBytesForm(b, form.form, w)
			case 1:
				endo.Signature = []byte("other")
				err = gcetcbendorsement.InspectPayload(ctx, endo)
			default:
				endo.SerializedUefiGolden = []byte("other")
				err = gcetcbendorsement.InspectSignature(ctx, endo)
			}
		})
		entry := []string{"WriteBytesForm", "InspectPayload", "InspectSignature"}[which]
		op := fmt.Sprintf("c19 op=bytes form=%s term=%s b=%s", form.name, b2s(term), hx(b))
		switch {
		case pan:
			c.Find("c19/"+entry+"/no-panic", entry+" panicked: "+pmsg, op)
			c.Case(op, "panic", true)
		case err != nil:
			c.Case(op, "reject", false)
		default:
			c.Case(op, "ok out="+hx(w.Bytes()), n > 0)
		}
		c.Count("bytes/" + entry + "-" + form.name)
		if !pan && err == nil && (form.name == "raw" || (form.name == "auto" && !term)) && !bytes.Equal(w.Bytes(), b) {
			c.Find("c19/"+entry+"/raw-bytes", "raw rendering differs from the field bytes", op+" got="+hx(w.Bytes()))
		}
	}

	// ---- (cliout) the shipped command: inspect payload|signature|mask --path … --bytesform bin --out FILE ----
	// through the real cobra commands and the real file back end (cmd.OSIO): the file an external tool
	// (openssl) reads must hold exactly the field bytes, whether FILE is new, or existed with longer,
	// equal or shorter contents.
	c19CliOut(c, r)

	golden := roots[2]
	nm := c.N(600, 20000)
	for i := 0; i < nm; i++ {
		m := golden.proto.ProtoReflect().New()
		(&c19Fill{r: r, budget: 30}).fill(m, 0)
		gm := m.Interface().(*epb.VMGoldenMeasurement)
		// (path, field bytes through the generated getters)
		type bp struct {
			path string
			b    []byte
		}
		cands := []bp{{"commit", gm.GetCommit()}, {"cert", gm.GetCert()}, {"digest", gm.GetDigest()}, {"ca_bundle", gm.GetCaBundle()},
			{"sev_snp.family_id", gm.GetSevSnp().GetFamilyId()}, {"sev_snp.image_id", gm.GetSevSnp().GetImageId()},
			{"sev_snp.ca_bundle", gm.GetSevSnp().GetCaBundle()}, {"sev_snp.svsm_measurement", gm.GetSevSnp().GetSvsmMeasurement()},
			{"(cloud_vmm_proto.VMGoldenMeasurement).digest", gm.GetDigest()}}
		for k, v := range gm.GetSevSnp().GetMeasurements() {
			cands = append(cands, bp{fmt.Sprintf("sev_snp.measurements[%d]", k), v}, bp{fmt.Sprintf("sev_snp.measurements[0x%x]", k), v})
		}
		for j, tm := range gm.GetTdx().GetMeasurements() {
			cands = append(cands, bp{fmt.Sprintf("tdx.measurements[%d].mrtd", j), tm.GetMrtd()})
		}
		sortBP := cands // map iteration above is unordered: make the choice depend on the rng only
		for a := 1; a < len(sortBP); a++ {
			for b := a; b > 0 && sortBP[b].path < sortBP[b-1].path; b-- {
				sortBP[b], sortBP[b-1] = sortBP[b-1], sortBP[b]
			}
		}
		np := 1
		if r.Intn(4) == 0 {
			np = 2 + r.Intn(2)
		}
		var paths []string
		var direct [][]byte
		for j := 0; j < np; j++ {
			switch x := r.Intn(10); {
			case x < 6:
				cd := sortBP[r.Intn(len(sortBP))]
				b := cd.b
				if b == nil {
					b = []byte{}
				}
				paths, direct = append(paths, cd.path), append(direct, b)
			case x < 9:
				paths, direct = append(paths, []string{"cl_spec", "sev_snp.svn", "sev_snp.policy", "tdx.svn", "timestamp.seconds",
					"timestamp.nanos", "tdx.measurements[0].ram_gib", "tdx.measurements[0].early_accept", "sev_snp", "tdx.measurements",
					"sev_snp.measurements", "sev_snp.measurements[9]", "tdx.measurements[7].mrtd", "bad_path", "tdx.measurements.mrtd"}[r.Intn(15)]), append(direct, nil)
			default:
				paths, direct = append(paths, g.path(golden.md, m)), append(direct, nil)
			}
		}
		skip := false
		for _, p := range paths {
			if p == "timestamp" { // the RFC3339 PathRenderer is not modelled
				skip = true
			}
		}
		if skip {
			continue
		}
		golden.maskCase(c, r, gm, c19Msg(m), paths, direct)
	}
}

func minInt(a, b int) int {
	if a < b {
		return a
	}
	return b
}

func bitlen(n int) int {
	b := 0
	for n > 0 {
		b++
		n >>= 1
	}
	return b
}
