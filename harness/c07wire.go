package main

// Stream c07wire — C07 (verifier-glue half) with the protobuf unmarshalling of the endorsement INSIDE the
// model: Model/DecWire.lean instantiates the two protobuf parsers of Model/DecTotal.lean with the Lean wire
// codec and maps the decoded records into the model's parse shapes with the nil-ness Go's Unmarshal leaves.
//
//	shape / shapeE   bytes -> proto.Unmarshal (library) -> the struct as the glue sees it: which message
//	                 pointers are nil, whether the map is nil, every value the glue reads; the Lean side prints
//	                 the same from the codec.  Direct checks on the library alone: a zero-length bytes field
//	                 is a nil slice after Unmarshal whether it was absent or present-and-empty; the map is nil
//	                 iff it has no entry; no repeated element is nil.
//	e2e              verify.Endorsement on raw container bytes under recover, a 2 s deadline and an allocation
//	                 meter; the model is endorsementE2E (outcome class).
//	tdxpolicy / sevpolicy   the lookups of TdxPolicy / SevPolicy over the decoded rows / map.
//	meter            (no model line) size-adversarial inputs up to 1 MiB: rows / map entries / unknown fields /
//	                 merged messages / nested groups at the densest encoding; time and allocation per input byte.
//
// Direct oracle: panic, deadline, or allocation above wireAllocPerByte·|input| + 1 MiB.

import (
	"context"
	"crypto/x509"
	"fmt"
	"runtime"
	"sort"
	"strings"
	"time"

	"github.com/google/gce-tcb-verifier/gcetcbendorsement"
	epb "github.com/google/gce-tcb-verifier/proto/endorsement"
	"github.com/google/gce-tcb-verifier/verify"
	sabi "github.com/google/go-sev-guest/abi"
	"google.golang.org/protobuf/proto"
)

// the linear allocation law checked on every evaluation (bytes allocated per input byte, plus 1 MiB): the
// densest object the wire format allows is a TDX row in two bytes (`12 00`), ~100 bytes of struct + slot.
const wireAllocPerByte = 96

func init() {
	register("c07wire", "golden-measurement and container bytes at the wire level (every presence combination of the "+
		"optional fields incl. present-but-empty, the c03proto wire mutators on genuine payloads, the container-level "+
		"cases of c01wire, truncations, random bytes) -> parse shape with nil-ness as proto.Unmarshal leaves it vs the "+
		"Lean codec instance; verify.Endorsement end to end on the container bytes under recover / 2 s / allocation "+
		"meter vs endorsementE2E; TdxPolicy / SevPolicy lookups over decoded rows / map; size-adversarial inputs up to "+
		"1 MiB (meter only). Non-trivial: the input unmarshals (shape) / the evaluation got past both unmarshals (e2e).",
		runC07Wire)
}

func wshowB(b []byte) string {
	if len(b) <= 64 {
		return "x" + hx(b)
	}
	return fmt.Sprintf("#%d.%d.%d", len(b), b[0], b[len(b)-1])
}

func wshowGolden(g *epb.VMGoldenMeasurement) string {
	ts := "nil"
	if g.Timestamp != nil {
		ts = fmt.Sprintf("%d:%d", g.Timestamp.Seconds, g.Timestamp.Nanos)
	}
	snp := "nil"
	if s := g.SevSnp; s != nil {
		m := "nil"
		if s.Measurements != nil {
			keys := make([]int, 0, len(s.Measurements))
			for k := range s.Measurements {
				keys = append(keys, int(k))
			}
			sort.Ints(keys)
			parts := make([]string, 0, len(keys))
			for _, k := range keys {
				parts = append(parts, fmt.Sprintf("%d:%s", k, wshowB(s.Measurements[uint32(k)])))
			}
			m = "[" + strings.Join(parts, ";") + "]"
		}
		snp = fmt.Sprintf("(%d,%d,%s,%s,%s)", s.Policy, s.Svn, m, wshowB(s.SvsmMeasurement), wshowB(s.CaBundle))
	}
	tdx := "nil"
	if t := g.Tdx; t != nil {
		if len(t.Measurements) > 64 {
			tdx = fmt.Sprintf("[#%d]", len(t.Measurements))
		} else {
			parts := make([]string, 0, len(t.Measurements))
			for _, r := range t.Measurements {
				if r == nil {
					parts = append(parts, "nil")
				} else {
					parts = append(parts, fmt.Sprintf("%d:%s", r.RamGib, wshowB(r.Mrtd)))
				}
			}
			tdx = "[" + strings.Join(parts, ";") + "]"
		}
	}
	return fmt.Sprintf("ts=%s cl=%d cm=%s c=%s d=%s snp=%s tdx=%s", ts, g.ClSpec, wshowB(g.Commit), wshowB(g.Cert),
		wshowB(g.Digest), snp, tdx)
}

type c07wEnv struct {
	*c01Env
	m  *wireMaterial
	st *pwState
}

// nilness: what the model assumes of Go's Unmarshal beyond the values (checked on the library alone)
func (w *c07wEnv) nilness(g *epb.VMGoldenMeasurement, replay string) {
	c := w.c
	chk := func(name string, b []byte) {
		if len(b) == 0 {
			if b != nil {
				c.Find("c07wire/shape/empty-bytes-not-nil/"+name, "after proto.Unmarshal a zero-length bytes field is a non-nil slice: empty and absent are distinguishable, the parse shapes conflate them ("+name+")", replay)
			}
			c.Count("nilness/bytes-empty-is-nil")
		}
	}
	chk("commit", g.Commit)
	chk("cert", g.Cert)
	chk("digest", g.Digest)
	chk("ca_bundle", g.CaBundle)
	if s := g.SevSnp; s != nil {
		chk("svsm", s.SvsmMeasurement)
		chk("sev.ca_bundle", s.CaBundle)
		if (s.Measurements == nil) != (len(s.Measurements) == 0) {
			// protobuf-go allocates the map when it meets the field and can leave it empty (an entry of the wrong
			// wire type is skipped as unknown): empty-but-not-nil is reachable.  Every reader in scope treats the
			// two alike (verify.SNP refuses both — "no measurements" vs "no measurement for n" — and ranges over
			// either; the models test emptiness), so this is counted, not a finding; the outcome classes of such
			// inputs are compared with the model by the ops of this stream like any other.
			c.Count("nilness/map-empty-but-not-nil")
		}
		if s.Measurements == nil {
			c.Count("nilness/map-nil")
		} else {
			c.Count("nilness/map-nonnil")
		}
		for _, v := range s.Measurements {
			if len(v) == 0 {
				if v == nil {
					c.Count("nilness/map-value-empty-is-nil(entry-without-value-field)")
				} else {
					c.Count("nilness/map-value-empty-is-non-nil(entry-with-empty-value-field)")
				}
			}
		}
	}
	if t := g.Tdx; t != nil {
		for _, r := range t.Measurements {
			if r == nil {
				c.Find("c07wire/shape/nil-row", "after proto.Unmarshal a repeated element is nil", replay)
			}
		}
	}
}

func (w *c07wEnv) shape(desc string, b []byte) {
	c := w.c
	g := &epb.VMGoldenMeasurement{}
	impl := "reject"
	ok := false
	if p, _, _ := Guard(func() {
		if err := proto.Unmarshal(b, g); err == nil {
			impl = "ok " + wshowGolden(g)
			ok = true
		}
	}); p {
		impl = "panic"
		c.Find("c07wire/shape/panic", "proto.Unmarshal into VMGoldenMeasurement panicked ("+desc+")", "b="+hx(b))
	}
	line := "c07wire op=shape case=" + tok(desc) + " b=" + hx(b)
	if ok {
		w.nilness(g, line)
	}
	c.Count("shape/" + wireFamily(desc) + "/" + strings.SplitN(impl, " ", 2)[0])
	c.Case(line, impl, ok)
	if !ok {
		return
	}
	// the policy lookups over the decoded rows / map (third-party conversion of the result is not involved)
	e := &epb.VMLaunchEndorsement{SerializedUefiGolden: b}
	for _, ram := range []int{0, 16, 1<<32 + 16} {
		impl := "reject"
		pan, msg, _ := Guard(func() {
			pol, err := gcetcbendorsement.TdxPolicy(context.Background(), e, &gcetcbendorsement.TdxPolicyOptions{RAMGiB: ram})
			if err == nil {
				ms := pol.GetTdQuoteBodyPolicy().GetAnyMrTd()
				if len(ms) > 16 {
					impl = fmt.Sprintf("ok mrtds=#%d", len(ms))
				} else {
					parts := make([]string, 0, len(ms))
					for _, m := range ms {
						parts = append(parts, wshowB(m))
					}
					impl = "ok mrtds=" + strings.Join(parts, ",")
				}
			}
		})
		if pan {
			impl = "panic"
			c.Find("c07wire/TdxPolicy/panic", "TdxPolicy panics on an untrusted payload ("+desc+"): "+tok(msg), fmt.Sprintf("ram=%d b=%s", ram, hx(b)))
		}
		c.Count("tdxpolicy/" + strings.SplitN(impl, " ", 2)[0])
		c.Case(fmt.Sprintf("c07wire op=tdxpolicy case=%s ram=%d b=%s", tok(desc), ram, hx(b)), impl, impl != "reject")
	}
	if g.SevSnp == nil || len(g.SevSnp.CaBundle) == 0 {
		for _, vmsas := range []uint32{0, 1, 2} {
			impl := "reject"
			dp := sabi.SnpPolicyToBytes(sabi.SnpPolicy{SMT: true, MigrateMA: true})
			pan, msg, _ := Guard(func() {
				pol, err := gcetcbendorsement.SevPolicy(context.Background(), e, &gcetcbendorsement.SevPolicyOptions{LaunchVmsas: vmsas, AllowUnspecifiedVmsas: true})
				if err == nil {
					// with a VMSA count the measurement is the looked-up map value: a map VALUE is nil when the
					// entry has no value field and a non-nil empty slice when it has an empty one; the glue
					// (and the model) only ever take its length / compare its contents
					m := "nil"
					if vmsas != 0 || pol.Measurement != nil {
						m = wshowB(pol.Measurement)
					}
					impl = fmt.Sprintf("ok pol=%d m=%s", pol.Policy, m)
				}
			})
			if pan {
				impl = "panic"
				c.Find("c07wire/SevPolicy/panic", "SevPolicy panics on an untrusted payload ("+desc+"): "+tok(msg), fmt.Sprintf("vmsas=%d b=%s", vmsas, hx(b)))
			}
			c.Count("sevpolicy/" + strings.SplitN(impl, " ", 2)[0])
			c.Case(fmt.Sprintf("c07wire op=sevpolicy case=%s vmsas=%d dp=%d b=%s", tok(desc), vmsas, dp, hx(b)), impl, impl != "reject")
		}
	}
}

func (w *c07wEnv) shapeE(desc string, b []byte) {
	c := w.c
	e := &epb.VMLaunchEndorsement{}
	impl := "reject"
	ok := false
	if err := proto.Unmarshal(b, e); err == nil {
		ok = true
		impl = "ok p=" + wshowB(e.SerializedUefiGolden) + " s=" + wshowB(e.Signature)
		for name, f := range map[string][]byte{"payload": e.SerializedUefiGolden, "signature": e.Signature} {
			if len(f) == 0 && f != nil {
				c.Find("c07wire/shape/empty-bytes-not-nil/"+name, "after proto.Unmarshal a zero-length bytes field is a non-nil slice ("+name+")", "b="+hx(b))
			}
		}
	}
	c.Count("shapeE/" + strings.SplitN(impl, " ", 2)[0])
	c.Case("c07wire op=shapeE case="+tok(desc)+" b="+hx(b), impl, ok)
}

type wireMeter struct {
	cls     string
	alloc   uint64
	elapsed time.Duration
}

// meter runs f under recover, a 2 s deadline and the allocation meter.
func wireMeasure(f func() error) wireMeter {
	type ret struct {
		err error
		pan bool
	}
	ch := make(chan ret, 1)
	var m0, m1 runtime.MemStats
	runtime.ReadMemStats(&m0)
	t0 := time.Now()
	go func() {
		var r ret
		r.pan, _, _ = Guard(func() { r.err = f() })
		ch <- r
	}()
	var o wireMeter
	select {
	case r := <-ch:
		o.elapsed = time.Since(t0)
		runtime.ReadMemStats(&m1)
		o.alloc = m1.TotalAlloc - m0.TotalAlloc
		switch {
		case r.pan:
			o.cls = "panic"
		case r.err != nil:
			o.cls = "reject"
		default:
			o.cls = "ok"
		}
	case <-time.After(2 * time.Second):
		o.cls, o.elapsed = "timeout", time.Since(t0)
		select {
		case <-ch:
		case <-time.After(20 * time.Second):
		}
	}
	return o
}

func (w *c07wEnv) oracle(ep, desc string, n int, o wireMeter, replay string) {
	c := w.c
	c.Count("outcome/" + ep + "/" + o.cls)
	limit := uint64(wireAllocPerByte*n + 1<<20)
	key := "max-alloc-per-1000-input+16KiB/" + ep
	if per := o.alloc * 1000 / uint64(n+16384); per > c07wMax[key] {
		c07wMax[key] = per
	}
	if us := uint64(o.elapsed / time.Microsecond); us > c07wMax["max-us/"+ep] {
		c07wMax["max-us/"+ep] = us
	}
	switch o.cls {
	case "panic":
		c.Find("c07wire/"+ep+"/panic", ep+" panics on untrusted bytes ("+desc+")", replay)
	case "timeout":
		c.Find("c07wire/"+ep+"/timeout/2s", fmt.Sprintf("%s did not return within 2 s on %d bytes (%s)", ep, n, desc), replay)
	}
	if o.alloc > limit {
		c.Find("c07wire/"+ep+"/alloc/"+fmt.Sprint(wireAllocPerByte)+"n+1MiB", fmt.Sprintf("%s allocated %d bytes for %d input bytes (limit %d) (%s)", ep, o.alloc, n, limit, desc), replay)
	}
}

var c07wMax = map[string]uint64{}

func (w *c07wEnv) e2e(cs wireCase, roots c01Roots, now c01Time) {
	c := w.c
	pool := roots.pool()
	f := wireComputeFacts(cs.cont, pool, now.t)
	so := w.pickSnp(true)
	et, exp := w.pickExp()
	o := wireMeasure(func() error {
		return verify.Endorsement(cs.cont, &verify.Options{RootsOfTrust: pool, Now: now.t, SNP: so.o, ExpectedUefiSha384: exp})
	})
	line := fmt.Sprintf("c07wire op=e2e case=%s cont=%s roots=%s snpo=%s exp=%s", tok(cs.desc), hx(cs.cont), roots.tok(), so.tok, et) + f.line()
	w.oracle("Endorsement", cs.desc, len(cs.cont), o, line)
	c.Count("e2e/" + wireFamily(cs.desc))
	c.Case(line, o.cls, f.nt)
}

// bomb: prefix ++ unit^n ++ suffix wrapped so that it is the payload of a container; the Lean driver expands
// the same term (gen:…), so that large inputs do not travel in hex.
type wireBomb struct {
	desc              string
	pre, unit, suffix []byte
	n                 int
}

func (b wireBomb) bytes() []byte {
	out := append([]byte{}, b.pre...)
	for i := 0; i < b.n; i++ {
		out = append(out, b.unit...)
	}
	return append(out, b.suffix...)
}

func (b wireBomb) term() string {
	return fmt.Sprintf("gen:%s:%s:%d:%s", hx(b.pre), hx(b.unit), b.n, hx(b.suffix))
}

// wireBombs: payloads that make the decoder create as many objects / iterations per byte as the format allows.
func wireBombs(n int) []wireBomb {
	lenPre := func(num int, total int) []byte {
		return protowireAppendLenPrefix(num, total)
	}
	return []wireBomb{
		{"tdx-rows-empty", lenPre(8, 2*n), []byte{0x12, 0x00}, nil, n},
		{"tdx-rows-ram", lenPre(8, 4*n), []byte{0x12, 0x02, 0x08, 0x10}, nil, n},
		{"sev-entries-same-key", lenPre(7, 2*n), []byte{0x12, 0x00}, nil, n},
		{"sev-occurrences-merged", nil, []byte{0x3a, 0x00}, nil, n},
		{"timestamp-occurrences-merged", nil, []byte{0x0a, 0x02, 0x08, 0x01}, nil, n},
		{"tdx-occurrences-one-row-each", nil, []byte{0x42, 0x02, 0x12, 0x00}, nil, n},
		{"unknown-varints", nil, []byte{0x48, 0x01}, nil, n},
		{"unknown-overlong-tags", nil, []byte{0xc8, 0x80, 0x80, 0x80, 0x00, 0x01}, nil, n},
		{"clspec-repeated", nil, []byte{0x10, 0x07}, nil, n},
		{"cert-repeated-empty", nil, []byte{0x22, 0x00}, nil, n},
		{"groups-flat", nil, []byte{0x4b, 0x4c}, nil, n},
	}
}

func protowireAppendLenPrefix(num int, total int) []byte {
	b := []byte{byte(num<<3 | 2)}
	v := uint64(total)
	for v >= 0x80 {
		b = append(b, byte(v)|0x80)
		v >>= 7
	}
	return append(b, byte(v))
}

func runC07Wire(c *Ctx) {
	env := &c01Env{c: c}
	env.setup()
	w := &c07wEnv{c01Env: env, m: wireMaterialFrom(env), st: &pwState{c: c, seen: map[string]string{}, corpus: map[string][][]byte{}}}
	w.st.corpus["end"] = [][]byte{env.base.container}
	w.st.corpus["gold"] = [][]byte{w.m.P, w.m.P2}
	P := w.m.P
	T0 := c01Time{"valid", baseTime.Add(time.Hour)}
	rootsA := c01Roots{desc: "genuine-root", certs: []*x509.Certificate{env.rootA}}
	nilRoots := c01Roots{desc: "nil-pool", nilP: true}

	// ---- shapes: every presence combination of the nil-able / empty-able fields of the golden measurement
	type opt struct {
		name   string
		absent []byte
		forms  [][]byte
	}
	ts := wireLen(1, wireCat(wireVarint(1, 1725148800), wireVarint(2, 5)))
	m48 := c.Rng.Bytes(48)
	optsG := []opt{
		{"ts", nil, [][]byte{wireLen(1, nil), ts}},
		{"cl", nil, [][]byte{wireVarint(2, 0), wireVarint(2, 77)}},
		{"commit", nil, [][]byte{wireLen(3, nil), wireLen(3, []byte("abc"))}},
		{"cert", nil, [][]byte{wireLen(4, nil), wireLen(4, []byte{0x30, 0x03, 1, 2, 3})}},
		{"digest", nil, [][]byte{wireLen(5, nil), wireLen(5, m48)}},
		{"snp", nil, [][]byte{wireLen(7, nil), wireLen(7, wireVarint(1, 3)), wireLen(7, wireLen(2, nil)),
			wireLen(7, wireCat(wireLen(2, wireCat(wireVarint(1, 1), wireLen(2, m48))), wireLen(7, m48), wireVarint(5, 196608)))}},
		{"tdx", nil, [][]byte{wireLen(8, nil), wireLen(8, wireLen(2, nil)), wireLen(8, wireCat(wireLen(2, wireCat(wireVarint(1, 16), wireLen(3, m48))), wireLen(2, wireLen(3, m48[:47]))))}},
	}
	var rec func(i int, acc []byte, desc string)
	rec = func(i int, acc []byte, desc string) {
		if i == len(optsG) {
			w.shape("presence/"+desc, acc)
			return
		}
		rec(i+1, acc, desc+"-")
		for k, f := range optsG[i].forms {
			if c.Quick() && k > 0 && i != 5 && i != 6 && c.Rng.Intn(3) != 0 {
				continue
			}
			rec(i+1, wireCat(acc, f), desc+fmt.Sprint(k))
		}
	}
	rec(0, nil, "")
	// a non-empty value followed by an empty occurrence (last wins: reset) and the reverse
	for _, o := range optsG {
		full := o.forms[len(o.forms)-1]
		w.shape("reset/"+o.name+"/full-then-empty", wireCat(full, o.forms[0]))
		w.shape("reset/"+o.name+"/empty-then-full", wireCat(o.forms[0], full))
		w.shape("reset/"+o.name+"/genuine-then-empty", wireCat(P, o.forms[0]))
	}
	// the wire mutators of stream c03proto on the genuine payload
	for i := 0; i < c.N(400, 6000); i++ {
		k := c.Rng.Intn(len(pwMutNames))
		b := w.st.mutate("gold", append([]byte{}, P...), k, 0)
		if c.Rng.Intn(3) == 0 {
			b = w.st.mutate("gold", b, c.Rng.Intn(len(pwMutNames)), 0)
		}
		w.shape("mutate/"+pwMutNames[k], b)
	}
	for i := 0; i < c.N(40, 400); i++ {
		w.shape("truncate", append([]byte{}, P[:c.Rng.Intn(len(P)+1)]...))
		w.shape("random", c.Rng.Bytes(c.Rng.Intn(48)))
	}
	// ---- containers: shape and end to end
	cases := wireContainerCases(env, w.m)
	cases = append(cases, wirePayloadCases(env, w.m, w.st, c.N(40, 400))...)
	for i, cs := range cases {
		w.shapeE(cs.desc, cs.cont)
		r := rootsA
		if i%7 == 0 {
			r = nilRoots
		}
		w.e2e(cs, r, T0)
	}
	for i := 0; i < c.N(300, 4000); i++ {
		base := cases[c.Rng.Intn(len(cases))]
		b := append([]byte{}, base.cont...)
		desc := "mutate"
		for d := 0; d < 1+c.Rng.Intn(3); d++ {
			k := c.Rng.Intn(len(pwMutNames))
			b = w.st.mutate("end", b, k, 0)
			desc += "/" + pwMutNames[k]
		}
		cs := wireCase{desc + "/of/" + base.desc, b}
		w.shapeE(cs.desc, cs.cont)
		w.e2e(cs, rootsA, T0)
	}
	// ---- size-adversarial payloads.  Small enough for the line protocol: shape (generator term) and e2e.
	for _, n := range []int{1, 64, 1000, c.N(4000, 12000)} {
		for _, bm := range wireBombs(n) {
			b := bm.bytes()
			g := &epb.VMGoldenMeasurement{}
			impl := "reject"
			var o wireMeter
			o = wireMeasure(func() error { return proto.Unmarshal(b, g) })
			if o.cls == "ok" {
				impl = "ok " + wshowGolden(g)
			}
			line := fmt.Sprintf("c07wire op=shape case=bomb/%s/%d b=%s", bm.desc, n, bm.term())
			w.oracle("Unmarshal", "bomb/"+bm.desc, len(b), o, line)
			c.Case(line, impl, o.cls == "ok")
			c.Count("bomb/" + bm.desc)
		}
	}
	// ---- meter only: the same at 64 KiB, 256 KiB and 1 MiB through verify.Endorsement (no model line)
	sizes := []int{64 << 10, 256 << 10}
	if !c.Quick() {
		sizes = append(sizes, 1<<20)
	}
	for _, size := range sizes {
		for _, bm := range wireBombs(1) {
			bm.n = size / len(bm.unit)
			if bm.pre != nil {
				bm.pre = protowireAppendLenPrefix(int(bm.pre[0]>>3), bm.n*len(bm.unit))
			}
			payload := bm.bytes()
			cont := wireCat(wireLen(1, payload), wireLen(2, w.m.S))
			o := wireMeasure(func() error {
				return verify.Endorsement(cont, &verify.Options{RootsOfTrust: rootsA.pool(), Now: T0.t})
			})
			w.oracle("Endorsement", fmt.Sprintf("meter/%s/%d", bm.desc, size), len(cont), o, fmt.Sprintf("container = [1: %s][2: signature]", bm.term()))
			c.Count("meter/" + bm.desc + "/" + o.cls)
			key := fmt.Sprintf("meter-alloc-per-input-byte-x100/%s/%dKiB", bm.desc, size>>10)
			c.Extra[key] = o.alloc * 100 / uint64(len(cont))
			c.Extra[fmt.Sprintf("meter-us/%s/%dKiB", bm.desc, size>>10)] = uint64(o.elapsed / time.Microsecond)
		}
	}
	for k, v := range c07wMax {
		c.Extra[k] = v
	}
}
