package main

// C05 / C08 (TDX half): image builder, error classes, and an INDEPENDENT recomputation of the TD HOB,
// the interval difference and the MRTD record stream written from the specifications (TDX module
// spec TDH.MEM.PAGE.ADD / TDH.MR.EXTEND, PI spec HOB list, TDVF design guide) — used by the direct
// oracles; it shares no code with the repository's tdx / ovmf packages.

import (
	"crypto/sha512"
	"encoding/binary"
	"fmt"
	"sort"
	"strings"

	"github.com/google/gce-tcb-verifier/ovmf"
	"github.com/google/gce-tcb-verifier/ovmf/abi"
)

// tdxSec is one TDVF metadata section entry as written into an image.
type tdxSec struct {
	Off, DSize  uint32
	Base, MSize uint64
	Type, Attr  uint32
}

// efiGUID returns the mixed-endian EFI encoding of a canonical GUID text (independent of abi.PutUUID).
func efiGUID(text string) []byte {
	h := strings.ReplaceAll(text, "-", "")
	u := make([]byte, 16)
	fmt.Sscanf(h, "%32x", &u)
	return []byte{u[3], u[2], u[1], u[0], u[5], u[4], u[7], u[6], u[8], u[9], u[10], u[11], u[12], u[13], u[14], u[15]}
}

const (
	guidFooter    = "96b582de-1fb2-45f7-baea-a366c55a082d"
	guidTdxOffset = "e47a6535-984a-4798-865e-4685a7bf8ec2"
	guidTdxMeta   = "e9eaf9f3-168e-44d5-a8eb-7f4d8738f6ae"
	guidSevOffset = "dc886566-984a-4798-a75e-5585a7bf67cc"
)

// tdxImgSpec describes an image to build; zero values give a well-formed one.
type tdxImgSpec struct {
	Size     int
	MetaAt   int // file offset of the 16-byte metadata GUID (descriptor follows)
	Secs     []tdxSec
	Fill     byte
	Sig      *uint32 // overrides
	Length   *uint32
	Version  *uint32
	Count    *uint32
	OffsetV  *uint32 // value stored in the offset block
	BadGUID  bool    // corrupt the metadata GUID
	NoBlock  bool    // omit the TDX offset block from the GUID table
	ExtraBlk bool    // add an unrelated block below the TDX one
	BlkSize  *uint16 // size field of the TDX offset block entry
	TblSize  *uint16 // size field of the footer
	NoFooter bool
}

func u32p(v uint32) *uint32 { return &v }
func u16p(v uint16) *uint16 { return &v }

// buildTdxImage lays out: fill pattern, metadata (GUID, descriptor, sections) at MetaAt, GUID table at
// the end (…[extra block][TDX offset block 22][footer 18] 0x20 bytes).  Writes that do not fit are clipped.
func buildTdxImage(s tdxImgSpec) []byte {
	fw := make([]byte, s.Size)
	for i := range fw {
		fw[i] = s.Fill + byte(i*131) + byte(i>>8)
	}
	put := func(at int, b []byte) {
		for i, x := range b {
			if at+i >= 0 && at+i < len(fw) {
				fw[at+i] = x
			}
		}
	}
	le32 := func(v uint32) []byte { b := make([]byte, 4); binary.LittleEndian.PutUint32(b, v); return b }
	le16 := func(v uint16) []byte { b := make([]byte, 2); binary.LittleEndian.PutUint16(b, v); return b }
	le64 := func(v uint64) []byte { b := make([]byte, 8); binary.LittleEndian.PutUint64(b, v); return b }
	g := efiGUID(guidTdxMeta)
	if s.BadGUID {
		g[5] ^= 0x40
	}
	put(s.MetaAt, g)
	p := s.MetaAt + 16
	sig, length, version, count := uint32(0x46564454), uint32(16+32*len(s.Secs)), uint32(1), uint32(len(s.Secs))
	if s.Sig != nil {
		sig = *s.Sig
	}
	if s.Length != nil {
		length = *s.Length
	}
	if s.Version != nil {
		version = *s.Version
	}
	if s.Count != nil {
		count = *s.Count
	}
	put(p, le32(sig))
	put(p+4, le32(length))
	put(p+8, le32(version))
	put(p+12, le32(count))
	p += 16
	for _, sec := range s.Secs {
		put(p, le32(sec.Off))
		put(p+4, le32(sec.DSize))
		put(p+8, le64(sec.Base))
		put(p+16, le64(sec.MSize))
		put(p+24, le32(sec.Type))
		put(p+28, le32(sec.Attr))
		p += 32
	}
	// GUID table
	end := s.Size - 0x20
	foot := end - 18
	total := uint16(18)
	pos := foot
	if !s.NoBlock {
		pos -= 22
		off := uint32(s.Size - s.MetaAt - 16)
		if s.OffsetV != nil {
			off = *s.OffsetV
		}
		bs := uint16(22)
		if s.BlkSize != nil {
			bs = *s.BlkSize
		}
		put(pos, le32(off))
		put(pos+4, le16(bs))
		put(pos+6, efiGUID(guidTdxOffset))
		total += 22
	}
	if s.ExtraBlk {
		pos -= 24
		put(pos, []byte{1, 2, 3, 4, 5, 6})
		put(pos+6, le16(24))
		put(pos+8, efiGUID(guidSevOffset))
		total += 24
	}
	if s.TblSize != nil {
		total = *s.TblSize
	}
	if !s.NoFooter {
		put(foot, le16(total))
		put(foot+2, efiGUID(guidFooter))
	}
	for i := end; i < s.Size; i++ {
		if i >= 0 {
			fw[i] = 0
		}
	}
	return fw
}

// tdxErrClass maps an error of the TDX firmware analysis to the coarse class the model uses.
// The substrings are the ones the repository's tests pin.
func tdxErrClass(err error) string {
	if err == nil {
		return "ok"
	}
	m := err.Error()
	has := func(s string) bool { return strings.Contains(m, s) }
	switch {
	case has("failed to get GUID block map"):
		return "guidtable"
	case has("TDX metadata offset GUID block not found"):
		return "noblock"
	case has("GUID block size too small"):
		return "blocksmall"
	case has("unexpected TDX metadata offset"):
		return "offset"
	case has("TDX metadata GUID mismatch"):
		return "guid"
	case has("could not parse TDX metadata descriptor"), has("data too small for expected section count"):
		return "short"
	case has("descriptor signature mismatch"):
		return "sig"
	case has("descriptor version mismatch"):
		return "version"
	case has("descriptor length mismatch"):
		return "length"
	case has("invalid memory range"):
		return "memrange"
	case has("invalid image offset/raw data size"):
		return "fvrange"
	case has("mismatch with raw data size"):
		return "fvmem"
	case has("multiple TD HOB"):
		return "multihob"
	case has("unsupported metadata section type"):
		return "type"
	case has("doesn't contain section for Trust Domain"), has("don't contain section for TD HOB"):
		return "nohob"
	case has("doesn't contain section for boot firmware volume"):
		return "nobfv"
	case has("doesn't add up to the fw size"):
		return "fvsum"
	case has("overlapping with other section"):
		return "overlap"
	case has("TD HOB buffer is overflowing"):
		return "hoboverflow"
	case has("does not match source data size"):
		return "datasize"
	case has("gpr.Start") && has("not page-aligned"):
		return "alignstart"
	case has("gpr.Length") && has("not page-aligned"):
		return "alignlen"
	case has("is not divisible by MR.EXTEND"):
		return "chunk"
	case has("unsupported machine type"):
		return "shape"
	}
	return "other:" + tok(m)
}

func fnv1a(b []byte) uint64 {
	h := uint64(14695981039346656037)
	for _, x := range b {
		h = (h ^ uint64(x)) * 1099511628211
	}
	return h
}

func showGprs(l []ovmf.GuestPhysicalRegion) string {
	if len(l) == 0 {
		return "-"
	}
	parts := make([]string, len(l))
	for i, g := range l {
		parts[i] = fmt.Sprintf("%d:%d", uint64(g.Start), g.Length)
	}
	return strings.Join(parts, ";")
}

func trimZeros(b []byte) []byte {
	n := len(b)
	for n > 0 && b[n-1] == 0 {
		n--
	}
	return b[:n]
}

// ---- independent specification code (direct oracle) ----

type iv struct{ lo, hi uint64 } // half-open, no wrap (callers check)

// gprsNoOverflow reports whether every region ends strictly below 2^64.
func gprsNoOverflow(l []ovmf.GuestPhysicalRegion) bool {
	for _, g := range l {
		if uint64(g.Start) > ^uint64(0)-g.Length {
			return false
		}
	}
	return true
}

// gprsDisjoint reports whether no two non-empty regions share an address (regions do not overflow).
func gprsDisjoint(l []ovmf.GuestPhysicalRegion) bool {
	for i := range l {
		for j := i + 1; j < len(l); j++ {
			a, b := l[i], l[j]
			if a.Length == 0 || b.Length == 0 {
				continue
			}
			if !(uint64(a.Start)+a.Length <= uint64(b.Start) || uint64(b.Start)+b.Length <= uint64(a.Start)) {
				return false
			}
		}
	}
	return true
}

// specDifference: for each non-empty bank ascending, the maximal sub-intervals not covered by any
// private range — by successive cutting, no sorting of the private ranges.
func specDifference(ram, priv []ovmf.GuestPhysicalRegion) []ovmf.GuestPhysicalRegion {
	var banks []iv
	for _, r := range ram {
		if r.Length != 0 {
			banks = append(banks, iv{uint64(r.Start), uint64(r.Start) + r.Length})
		}
	}
	sort.SliceStable(banks, func(i, j int) bool { return banks[i].lo < banks[j].lo })
	var out []ovmf.GuestPhysicalRegion
	for _, b := range banks {
		pieces := []iv{b}
		for _, p := range priv {
			plo, phi := uint64(p.Start), uint64(p.Start)+p.Length
			if phi <= plo {
				continue
			}
			var next []iv
			for _, q := range pieces {
				if phi <= q.lo || q.hi <= plo {
					next = append(next, q)
					continue
				}
				if q.lo < plo {
					next = append(next, iv{q.lo, plo})
				}
				if phi < q.hi {
					next = append(next, iv{phi, q.hi})
				}
			}
			pieces = next
		}
		for _, q := range pieces {
			out = append(out, ovmf.GuestPhysicalRegion{Start: abi.EFIPhysicalAddress(q.lo), Length: q.hi - q.lo})
		}
	}
	return out
}

func gprsEqual(a, b []ovmf.GuestPhysicalRegion) bool {
	if len(a) != len(b) {
		return false
	}
	for i := range a {
		if a[i] != b[i] {
			return false
		}
	}
	return true
}

// specHob builds the TD HOB of the PI specification / TDVF design guide; ok=false when it does not fit.
func specHob(base, size uint64, secs []tdxSec, unaccepted []ovmf.GuestPhysicalRegion, disableEarlyAccept bool) ([]byte, bool) {
	var b []byte
	u16 := func(v uint16) { b = binary.LittleEndian.AppendUint16(b, v) }
	u32 := func(v uint32) { b = binary.LittleEndian.AppendUint32(b, v) }
	u64 := func(v uint64) { b = binary.LittleEndian.AppendUint64(b, v) }
	hdr := func(t, l uint16) { u16(t); u16(l); u32(0) }
	n := uint64(len(secs) + len(unaccepted))
	hdr(1, 56)
	u32(9)
	u32(0)
	u64(0)
	u64(0)
	u64(0)
	u64(0)
	u64(base + 56 + 48*n)
	res := func(rt, attr uint32, start, length uint64) {
		hdr(3, 48)
		b = append(b, make([]byte, 16)...)
		u32(rt)
		u32(attr)
		u64(start)
		u64(length)
	}
	for _, s := range secs {
		res(0, 7, s.Base, s.MSize)
	}
	for _, u := range unaccepted {
		attr := uint32(7)
		if uint64(u.Start)+u.Length <= 4<<30 || !disableEarlyAccept {
			attr |= 0x10000000
		}
		res(7, attr, uint64(u.Start), u.Length)
	}
	hdr(0xFFFF, 8)
	if uint64(len(b)) > size {
		return nil, false
	}
	return append(b, make([]byte, size-uint64(len(b)))...), true
}

// specMode: 0 default, 1 legacy measure-all, 2 legacy measure-all with early accept.
// specMrtd recomputes the record stream and its SHA-384 for well-formed, page-aligned sections.
// ok=false when the HOB does not fit.
func specMrtd(mode int, image []byte, banks []ovmf.GuestPhysicalRegion, secs []tdxSec) (digest [48]byte, regions [][]byte, ok bool) {
	measureAll := mode != 0
	disableEarly := mode != 2
	var priv []ovmf.GuestPhysicalRegion
	for _, s := range secs {
		priv = append(priv, ovmf.GuestPhysicalRegion{Start: abi.EFIPhysicalAddress(s.Base), Length: s.MSize})
	}
	var unaccepted []ovmf.GuestPhysicalRegion
	if mode != 0 {
		unaccepted = specDifference(banks, priv)
	}
	h := sha512.New384()
	rec := func(name string, gpa uint64) {
		var buf [128]byte
		copy(buf[:], name)
		binary.LittleEndian.PutUint64(buf[16:], gpa)
		h.Write(buf[:])
	}
	for _, s := range secs {
		var content []byte
		switch s.Type {
		case 0, 1:
			content = image[s.Off : uint64(s.Off)+s.MSize]
		case 2:
			c, fits := specHob(s.Base, s.MSize, secs, unaccepted, disableEarly)
			if !fits {
				return digest, nil, false
			}
			content = c
		default:
			content = make([]byte, s.MSize)
		}
		regions = append(regions, content)
		extend := s.Attr&1 == 1 || measureAll
		for page := uint64(0); page < s.MSize/4096; page++ {
			gpa := s.Base + page*4096
			rec("MEM.PAGE.ADD", gpa)
			if extend {
				for j := uint64(0); j < 16; j++ {
					rec("MR.EXTEND", gpa+j*256)
					h.Write(content[page*4096+j*256 : page*4096+(j+1)*256])
				}
			}
		}
	}
	copy(digest[:], h.Sum(nil))
	return digest, regions, true
}
