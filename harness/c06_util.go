package main

import (
	"github.com/google/gce-tcb-verifier/ovmf/abi"
	"github.com/google/gce-tcb-verifier/testing/fakeovmf"
)

// c06Firmware builds a small firmware image (size a multiple of 0x1000, at least 0x2000) with the
// requested metadata: SEV (ES reset block + SNP sections) and/or TDX (BFV over everything above the
// first page, CFV in the first page, TD HOB, temp memory; nTemp extra temp-memory sections make the
// TD HOB list longer, so that with enough of them the HOB overflows its 4 KiB region once a machine
// shape contributes unaccepted-memory ranges). tag varies the content.
func c06Firmware(size int, tag byte, withSev, withTdx bool, nTemp int) []byte {
	fw := make([]byte, size)
	for i := 0xa00; i < 0xa40; i++ {
		fw[i] = tag
	}
	copy(fw[0xc00:], []byte("VERIF C06 IMAGE"))
	var sizes []uint16
	var fns []func(uint16) error
	if withSev {
		sizes = append(sizes, abi.SizeofSevEsResetBlock, abi.SizeofMetadataOffset)
		fns = append(fns, fakeovmf.InitializeSevGUIDTableFns(fw, fakeovmf.SevEsAddrVal, fakeovmf.DefaultSnpSections())...)
	}
	if withTdx {
		bfv := uint32(size - 0x1000)
		secs := []*abi.TDXMetadataSection{
			{DataOffset: 0x1000, DataSize: bfv, MemoryBase: abi.EFIPhysicalAddress(0x100000000 - uint64(bfv)), MemorySize: uint64(bfv),
				SectionType: abi.TDXMetadataSectionTypeBFV, Attributes: 1},
			{DataOffset: 0, DataSize: 0x1000, MemoryBase: abi.EFIPhysicalAddress(0x100000000 - uint64(size)), MemorySize: 0x1000,
				SectionType: abi.TDXMetadataSectionTypeCFV},
			{MemoryBase: 0x810000, MemorySize: 0x2000, SectionType: abi.TDXMetadataSectionTypeTempMem},
			{MemoryBase: 0x809000, MemorySize: 0x1000, SectionType: abi.TDXMetadataSectionTypeTDHOB},
			{MemoryBase: 0x800000, MemorySize: 0x2000, SectionType: abi.TDXMetadataSectionTypeTempMem},
		}
		for i := 0; i < nTemp; i++ {
			secs = append(secs, &abi.TDXMetadataSection{MemoryBase: abi.EFIPhysicalAddress(0x900000 + 0x1000*i), MemorySize: 0x1000,
				SectionType: abi.TDXMetadataSectionTypeTempMem})
		}
		md := &abi.TDXMetadata{
			Header: &abi.TDXMetadataDescriptor{Signature: abi.TDXMetadataDescriptorMagic,
				Length:  uint32(abi.SizeofTDXMetadataDescriptor + abi.SizeofTDXMetdataSection*len(secs)),
				Version: abi.TDXMetadataVersion, SectionCount: uint32(len(secs))},
			Sections: secs,
		}
		sizes = append(sizes, abi.SizeofMetadataOffset)
		fns = append(fns, fakeovmf.InitializeTdxGUIDTableFns(fw, 0x100, md)...)
	}
	if len(fns) > 0 {
		if err := fakeovmf.InitializeGUIDTable(fw, abi.FwGUIDTableEndOffset, sizes, fns); err != nil {
			panic(err)
		}
	}
	return fw
}
