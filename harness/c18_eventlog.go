package main

// C18 — event-log half: values, canonical text, generators, the size-safety walker.

import (
	"bytes"
	"encoding/binary"
	"errors"
	"fmt"
	"io"
	"strings"
	"time"

	"github.com/google/gce-tcb-verifier/eventlog"
	"github.com/google/uuid"
)

func timeAfterMs(ms int) <-chan time.Time { return time.After(time.Duration(ms) * time.Millisecond) }

var c18Sig = eventlog.TcgSP800155Event3Signature[:]

var c18AlgSize = map[uint16]int{4: 20, 11: 32, 12: 48} // TCG algorithm registry: SHA1, SHA256, SHA384

// ---- canonical text (mirrors lean/GceTcb/Drive/C18.lean) ----

func c18Ev3Text(e *eventlog.SP800155Event3) string {
	return strings.Join([]string{fmt.Sprint(e.PlatformManufacturerID), hx(e.ReferenceManifestGUID.UUID[:]),
		hx([]byte(e.PlatformManufacturerStr.Data)), hx([]byte(e.PlatformModel.Data)), hx([]byte(e.PlatformVersion.Data)),
		hx([]byte(e.FirmwareManufacturerStr.Data)), fmt.Sprint(e.FirmwareManufacturerID), hx([]byte(e.FirmwareVersion.Data)),
		fmt.Sprint(e.RIMLocatorType), hx(e.RIMLocator.Data), fmt.Sprint(e.PlatformCertLocatorType), hx(e.PlatformCertLocator.Data)}, "/")
}

func c18DataText(d *eventlog.TCGEventData) string {
	switch e := d.Event.(type) {
	case nil:
		return "raw:"
	case *eventlog.UnknownEvent:
		return "raw:" + hx(e.Data)
	case *eventlog.SP800155Event3:
		return "ev3:" + c18Ev3Text(e)
	}
	return "other"
}

func c18DigestText(d *eventlog.TaggedDigest) string {
	return fmt.Sprintf("%d:%s", d.AlgID, hx(d.Digest))
}

func c18DigestsText(ds []*eventlog.TaggedDigest) string {
	if len(ds) == 0 {
		return "-"
	}
	var p []string
	for _, d := range ds {
		p = append(p, c18DigestText(d))
	}
	return strings.Join(p, "+")
}

func c18PcrText(e *eventlog.TCGPCClientPCREvent) string {
	return fmt.Sprintf("%d|%d|%s|%s", e.PCRIndex, e.EventType, hx(e.SHA1Digest[:]), c18DataText(&e.EventData))
}

func c18Ev2Text(e *eventlog.TCGPCREvent2) string {
	return fmt.Sprintf("%d|%d|%s|%s", e.PCRIndex, e.EventType, c18DigestsText(e.Digests.Array), c18DataText(&e.EventData))
}

func c18LogText(l *eventlog.CryptoAgileLog) string {
	var p []string
	for _, e := range l.Events {
		p = append(p, c18Ev2Text(e))
	}
	return c18PcrText(&l.Header) + "#" + strings.Join(p, ";")
}

// ---- generators ----

func c18Str(c *Ctx) string {
	n := c.Rng.Intn(12)
	switch c.Rng.Intn(12) {
	case 0:
		n = 0
	case 1:
		n = 254
	case 2:
		n = 253
	}
	b := c.Rng.Bytes(n)
	if c.Rng.Intn(3) != 0 { // mostly printable, sometimes with embedded NUL / high bytes
		for i := range b {
			b[i] = 'a' + b[i]%26
		}
	}
	return string(b)
}

func c18Arr(c *Ctx) []byte {
	switch c.Rng.Intn(6) {
	case 0:
		return nil
	case 1:
		return c.Rng.Bytes(1)
	}
	return c.Rng.Bytes(c.Rng.Intn(40))
}

func c18Ev3Rand(c *Ctx) *eventlog.SP800155Event3 {
	var u uuid.UUID
	copy(u[:], c.Rng.Bytes(16))
	return &eventlog.SP800155Event3{PlatformManufacturerID: c18U32(c), ReferenceManifestGUID: eventlog.EfiGUID{UUID: u},
		PlatformManufacturerStr: eventlog.ByteSizedCStr{Data: c18Str(c)}, PlatformModel: eventlog.ByteSizedCStr{Data: c18Str(c)},
		PlatformVersion: eventlog.ByteSizedCStr{Data: c18Str(c)}, FirmwareManufacturerStr: eventlog.ByteSizedCStr{Data: c18Str(c)},
		FirmwareManufacturerID: c18U32(c), FirmwareVersion: eventlog.ByteSizedCStr{Data: c18Str(c)},
		RIMLocatorType: uint32(c.Rng.Intn(5)), RIMLocator: eventlog.Uint32SizedArray{Data: c18Arr(c)},
		PlatformCertLocatorType: uint32(c.Rng.Intn(5)), PlatformCertLocator: eventlog.Uint32SizedArray{Data: c18Arr(c)}}
}

func c18DataRand(c *Ctx) eventlog.TCGEventData {
	switch c.Rng.Intn(8) {
	case 0:
		return eventlog.TCGEventData{}
	case 1:
		return eventlog.TCGEventData{Event: &eventlog.UnknownEvent{Data: []byte{}}}
	case 2, 3:
		return eventlog.TCGEventData{Event: c18Ev3Rand(c)}
	case 4: // exactly at / around the 16-byte signature threshold
		return eventlog.TCGEventData{Event: &eventlog.UnknownEvent{Data: c.Rng.Bytes(15 + c.Rng.Intn(3))}}
	}
	return eventlog.TCGEventData{Event: &eventlog.UnknownEvent{Data: c.Rng.Bytes(c.Rng.Intn(40))}}
}

func c18DigestRand(c *Ctx) *eventlog.TaggedDigest {
	algs := []uint16{4, 11, 12}
	a := algs[c.Rng.Intn(3)]
	d := &eventlog.TaggedDigest{AlgID: a, Digest: c.Rng.Bytes(c18AlgSize[a])}
	switch c.Rng.Intn(12) {
	case 0:
		d.AlgID = []uint16{0, 13, 18, 0xdec0}[c.Rng.Intn(4)] // unsupported algorithm
	case 1:
		d.Digest = c.Rng.Bytes(c18AlgSize[a] - 1)
	case 2:
		d.Digest = c.Rng.Bytes(c18AlgSize[a] + 1)
	}
	return d
}

func c18DigestOK(d *eventlog.TaggedDigest) bool {
	n, ok := c18AlgSize[d.AlgID]
	return ok && len(d.Digest) == n
}

func c18Ev2Rand(c *Ctx) *eventlog.TCGPCREvent2 {
	e := &eventlog.TCGPCREvent2{PCRIndex: uint32(c.Rng.Intn(24)), EventType: c18U32(c), EventData: c18DataRand(c)}
	for i, n := 0, c.Rng.Intn(4); i < n; i++ {
		e.Digests.Array = append(e.Digests.Array, c18DigestRand(c))
	}
	return e
}

func c18PcrRand(c *Ctx) *eventlog.TCGPCClientPCREvent {
	e := &eventlog.TCGPCClientPCREvent{PCRIndex: uint32(c.Rng.Intn(24)), EventType: c18U32(c), EventData: c18DataRand(c)}
	copy(e.SHA1Digest[:], c.Rng.Bytes(20))
	return e
}

// ---- the size-safety walker ----
// The current decoders allocate the declared size before reading. The walker follows the wire format
// over the bytes that are really there and reports whether any declared size it meets exceeds `limit`
// (such inputs are skipped, they are C07's subject), and whether a size-prefixed string/array body was
// cut short by the end of the input (the input class of the short-read defect).

const c18Limit = 1 << 16

type c18Walk struct {
	b         []byte
	p         int
	big       bool // a declared size above the limit
	shortBody bool // a ByteSizedCStr / Uint32SizedArray body longer than what remains
	stop      bool
}

func (w *c18Walk) take(n int) []byte {
	if w.stop || w.p+n > len(w.b) {
		w.stop = true
		return nil
	}
	r := w.b[w.p : w.p+n]
	w.p += n
	return r
}

func (w *c18Walk) sized(prefix int, isArray bool) []byte {
	s := w.take(prefix)
	if s == nil {
		return nil
	}
	n := int(s[0])
	if prefix == 4 {
		v := binary.LittleEndian.Uint32(s)
		if v > c18Limit {
			w.big, w.stop = true, true
			return nil
		}
		n = int(v)
	}
	if w.p+n > len(w.b) {
		if isArray {
			w.shortBody = true
		}
		w.stop = true
		return nil
	}
	return w.take(n)
}

func (w *c18Walk) event3() {
	w.take(4)
	w.take(16)
	for i := 0; i < 4; i++ {
		w.sized(1, true)
	}
	w.take(4)
	w.sized(1, true)
	w.take(4)
	w.sized(4, true)
	w.take(4)
	w.sized(4, true)
}

func (w *c18Walk) eventData() {
	chunk := w.sized(4, false)
	if chunk != nil && len(chunk) >= 16 && bytes.Equal(chunk[:16], c18Sig) {
		in := &c18Walk{b: chunk[16:]}
		in.event3()
		w.big = w.big || in.big
		w.shortBody = w.shortBody || in.shortBody
	}
}

func (w *c18Walk) digests() {
	s := w.take(4)
	if s == nil {
		return
	}
	n := binary.LittleEndian.Uint32(s)
	if n > c18Limit {
		w.big, w.stop = true, true
		return
	}
	for i := uint32(0); i < n && !w.stop; i++ {
		a := w.take(2)
		if a == nil {
			return
		}
		sz, ok := c18AlgSize[binary.LittleEndian.Uint16(a)]
		if !ok {
			w.stop = true
			return
		}
		w.take(sz)
	}
}

func (w *c18Walk) item(kind string) {
	switch kind {
	case "cstr":
		w.sized(1, true)
	case "u32arr":
		w.sized(4, true)
	case "event3":
		w.event3()
	case "pcrevent":
		w.take(28)
		w.eventData()
	case "event2":
		w.take(8)
		w.digests()
		w.eventData()
	case "log":
		w.take(28)
		w.eventData()
		for !w.stop && w.p < len(w.b) {
			w.take(8)
			w.digests()
			w.eventData()
		}
	}
}

func c18Safe(kind string, b []byte) (safe bool, shortBody bool) {
	w := &c18Walk{b: b}
	w.item(kind)
	return !w.big, w.shortBody
}

// ---- decoding through the real code ----

type c18Reader interface {
	io.Reader
	Len() int
}

func c18MkReader(kind string, b []byte) c18Reader {
	if kind == "reader" {
		return bytes.NewReader(b)
	}
	return bytes.NewBuffer(b)
}

// c18Decode runs the real decoder of `item` over b with the given reader kind. It returns the protocol
// result, the decoded value (for the oracle) and the number of bytes consumed.
func c18Decode(item, kind string, b []byte) (res string, val any, consumed int) {
	return c18DecodeInto(item, kind, b, nil)
}

// c18Recv returns the receiver to decode into: a fresh value, or the used one handed in.
func c18Recv[T any](used any) *T {
	if u, ok := used.(*T); ok && u != nil {
		return u
	}
	return new(T)
}

// c18DecodeInto is c18Decode with a receiver that already holds an earlier decoding (used != nil): a decoder
// must leave the receiver describing the bytes it accepted, whatever the receiver held before.
func c18DecodeInto(item, kind string, b []byte, used any) (res string, val any, consumed int) {
	b = c18Exact(b)
	r := c18MkReader(kind, b)
	var err error
	var text func() string
	withRest := true
	p, _, _ := Guard(func() {
		switch item {
		case "cstr":
			v := c18Recv[eventlog.ByteSizedCStr](used)
			err = v.Unmarshal(r)
			text, val = func() string { return hx([]byte(v.Data)) }, v
		case "u32arr":
			v := c18Recv[eventlog.Uint32SizedArray](used)
			err = v.Unmarshal(r)
			text, val = func() string { return hx(v.Data) }, v
		case "guid":
			v := c18Recv[eventlog.EfiGUID](used)
			err = v.Unmarshal(r)
			text, val = func() string { return hx(v.UUID[:]) }, v
		case "digest":
			v := c18Recv[eventlog.TaggedDigest](used)
			err = v.Unmarshal(r)
			text, val = func() string { return c18DigestText(v) }, v
		case "pcrevent":
			v := c18Recv[eventlog.TCGPCClientPCREvent](used)
			err = v.Unmarshal(r)
			text, val = func() string { return c18PcrText(v) }, v
		case "event2":
			v := c18Recv[eventlog.TCGPCREvent2](used)
			err = v.Unmarshal(r)
			text, val = func() string { return c18Ev2Text(v) }, v
		case "log":
			v := c18Recv[eventlog.CryptoAgileLog](used)
			err = v.Unmarshal(r)
			text, val = func() string { return c18LogText(v) }, v
			withRest = false
		case "event3":
			v := c18Recv[eventlog.SP800155Event3](used)
			err = v.UnmarshalFromBytes(b)
			text, val = func() string { return c18Ev3Text(v) }, v
			withRest = false
		}
	})
	switch {
	case p:
		return "panic", nil, 0
	case err != nil && errors.Is(err, io.EOF):
		return "eof", nil, 0
	case err != nil:
		return "err", nil, 0
	}
	consumed = len(b) - r.Len()
	if !withRest {
		consumed = len(b)
		return "ok:" + text(), val, consumed
	}
	return fmt.Sprintf("ok:%s rest=%d", text(), r.Len()), val, consumed
}

type c18Marshaller interface{ Marshal(io.Writer) error }

func c18Encode(v any) ([]byte, error) {
	if e, ok := v.(*eventlog.SP800155Event3); ok {
		return e.MarshalToBytes()
	}
	var w bytes.Buffer
	err := v.(c18Marshaller).Marshal(&w)
	return w.Bytes(), err
}
