package main

// Stream c08sev (SEV half of C08): ovmf.GetFwGUIDToBlockMap, SevData.ExtractFromFirmware,
// sev.LaunchDigest and sev.UnsignedSnp on boundary-directed and arbitrary byte strings, every case
// under recover, a deadline and an allocation meter.  Outcome (ok + parsed values / reject class /
// panic function / timeout) is compared with the Lean model; the direct oracle fires on a panic, a
// timeout, an allocation above 64*|input| + 8 KiB*vcpus + 4 MiB, or a running time above
// 50 ms + 2 us*|input| + 100 us*vcpus (minimum of three runs).

import (
	"encoding/binary"
	"fmt"
	"runtime"
	"sort"
	"strings"
	"time"

	"github.com/google/gce-tcb-verifier/ovmf"
	"github.com/google/gce-tcb-verifier/ovmf/abi"
	"github.com/google/gce-tcb-verifier/sev"
	sgpb "github.com/google/go-sev-guest/proto/sevsnp"
)

func init() {
	register("c08sev", "non-trivial = the GUIDed table footer was found and the table walk started (the case exercises a check beyond the footer lookup)", runC08Sev)
}

const c08Deadline = 20 * time.Second

type c08Res struct {
	impl     string
	panicked bool
	timeout  bool
	alloc    uint64
	dur      time.Duration
}

// c08Run runs f (which returns the canonical ok/reject line) under recover, a deadline and the meter.
func c08Run(f func() string) c08Res {
	var ms0, ms1 runtime.MemStats
	done := make(chan c08Res, 1)
	runtime.ReadMemStats(&ms0)
	t0 := time.Now()
	go func() {
		var res c08Res
		p, msg, stack := Guard(func() { res.impl = f() })
		if p {
			res.panicked = true
			res.impl = "panic=" + c04PanicFunc(stack) + " " + tok(msg)
		}
		done <- res
	}()
	select {
	case res := <-done:
		res.dur = time.Since(t0)
		runtime.ReadMemStats(&ms1)
		res.alloc = ms1.TotalAlloc - ms0.TotalAlloc
		return res
	case <-time.After(c08Deadline):
		return c08Res{impl: "timeout", timeout: true, dur: c08Deadline}
	}
}

func c08Budget(n, vcpus int) (time.Duration, uint64) {
	return 50*time.Millisecond + time.Duration(n)*2*time.Microsecond + time.Duration(vcpus)*100*time.Microsecond,
		64*uint64(n) + 8192*uint64(vcpus) + 4<<20
}

// c08Check applies the direct oracle to one measured run. rerun repeats the call for the time check.
func c08Check(c *Ctx, entry string, res c08Res, n, vcpus int, replay string, rerun func() c08Res) {
	tb, ab := c08Budget(n, vcpus)
	switch {
	case res.panicked:
		fn := strings.SplitN(strings.TrimPrefix(res.impl, "panic="), " ", 2)[0]
		c.Find("c08/"+entry+"/panic/"+fn, entry+" panicked: "+res.impl, replay)
		c.Count("oracle:panic")
	case res.timeout:
		c.Find("c08/"+entry+"/timeout", fmt.Sprintf("%s did not return within %v on a %d-byte image", entry, c08Deadline, n), replay)
		c.Count("oracle:timeout")
	default:
		if res.alloc > ab {
			// allocation is deterministic up to runtime noise; confirm once
			if r2 := rerun(); r2.alloc > ab {
				c.Find("c08/"+entry+"/allocation-unrelated-to-input-size",
					fmt.Sprintf("%s allocated %d bytes on a %d-byte image with %d vcpus (budget %d)", entry, r2.alloc, n, vcpus, ab), replay)
				c.Count("oracle:over-allocation")
			}
		}
		if res.dur > tb {
			best := res.dur
			for i := 0; i < 2; i++ {
				if r2 := rerun(); r2.dur < best {
					best = r2.dur
				}
			}
			if best > tb {
				c.Find("c08/"+entry+"/time-unrelated-to-input-size",
					fmt.Sprintf("%s ran %v on a %d-byte image with %d vcpus (budget %v)", entry, best.Round(time.Millisecond), n, vcpus, tb), replay)
				c.Count("oracle:over-time")
			}
		}
	}
}

func c08Replay(op string, fw []byte) string {
	if len(op) > 3000 {
		return op[:1500] + fmt.Sprintf("…<%d-byte image>", len(fw))
	}
	return op
}

func c08Map(c *Ctx, fw []byte) bool {
	op := "c08sev op=map fw=" + c04Encode(fw)
	walked := false
	call := func() string {
		m, err := ovmf.GetFwGUIDToBlockMap(fw)
		if err != nil {
			cls := c04Classify(err)
			walked = cls != "fw-small" && cls != "no-footer" && cls != "table-size"
			return "reject=" + cls
		}
		walked = true
		ents := make([]string, 0, len(m))
		for k, v := range m {
			g := strings.ReplaceAll(k, "-", "")
			n := len(v)
			if n > 24 {
				n = 24
			}
			ents = append(ents, fmt.Sprintf("%s:%d:%s", g, len(v), hx(v[:n])))
		}
		sort.Strings(ents)
		return fmt.Sprintf("ok n=%d %s", len(m), strings.Join(ents, ","))
	}
	res := c08Run(call)
	c08Check(c, "ovmf.GetFwGUIDToBlockMap", res, len(fw), 0, c08Replay(op, fw), func() c08Res { return c08Run(call) })
	c.Count("map:" + strings.SplitN(res.impl, " ", 2)[0])
	c.Case(op, c08Canon(res.impl), walked)
	return walked
}

// c08Canon drops the panic message (only the function is compared with the model).
func c08Canon(impl string) string {
	if strings.HasPrefix(impl, "panic=") {
		return strings.SplitN(impl, " ", 2)[0]
	}
	return impl
}

func c08Extract(c *Ctx, fw []byte, es, snp bool, nontrivial bool) {
	op := fmt.Sprintf("c08sev op=extract es=%s snp=%s fw=%s", b2s(es), b2s(snp), c04Encode(fw))
	call := func() string {
		d := &ovmf.SevData{SevEs: es, SevSnp: snp}
		if err := d.ExtractFromFirmware(fw); err != nil {
			return "reject=" + c04Classify(err)
		}
		reset := "none"
		if rb, err := d.SevEsResetBlock(); err == nil {
			reset = fmt.Sprintf("%d:%d:%s", rb.Addr, rb.Size, hx(rb.Guid))
		}
		secs := "none"
		if ss := d.VerifC08SevSections(); ss != nil {
			p := make([]string, len(ss))
			for i, s := range ss {
				p[i] = fmt.Sprintf("%d:%d:%d", s.Address, s.Length, s.Kind)
			}
			secs = strings.Join(p, ",")
		} else if snp {
			secs = "empty" // zero descriptors: the Go slice stays nil
		}
		return "ok reset=" + reset + " secs=" + secs
	}
	res := c08Run(call)
	c08Check(c, "ovmf.SevData.ExtractFromFirmware", res, len(fw), 0, c08Replay(op, fw), func() c08Res { return c08Run(call) })
	c.Count("extract:" + strings.SplitN(res.impl, " ", 2)[0])
	c.Case(op, c08Canon(res.impl), nontrivial)
}

// c08LDClass: sev.LaunchDigest, outcome class only (the model runs with a trivial hash), for inputs on
// which computing the digest in Lean would dominate the run (many declared pages, many vCPUs).
func c08LDClass(c *Ctx, fw []byte, vcpus, product int, nontrivial bool) {
	op := fmt.Sprintf("c08sev op=ldclass vcpus=%d product=%d fw=%s", vcpus, product, c04Encode(fw))
	call := func() string {
		_, err := sev.LaunchDigest(&sev.LaunchOptions{Vcpus: vcpus, Product: sgpb.SevProduct_SevProductName(product)}, fw)
		if err != nil {
			return "reject=" + c04Classify(err)
		}
		return "ok"
	}
	res := c08Run(call)
	v := vcpus
	if v < 0 {
		v = 0
	}
	c08Check(c, "sev.LaunchDigest", res, len(fw), v, c08Replay(op, fw), func() c08Res { return c08Run(call) })
	c.Count("ldclass:" + strings.SplitN(res.impl, " ", 2)[0])
	c.Case(op, c08Canon(res.impl), nontrivial)
}

func c08LD(c *Ctx, fw []byte, vcpus, product int) {
	call := func() string {
		_, err := sev.LaunchDigest(&sev.LaunchOptions{Vcpus: vcpus, Product: sgpb.SevProduct_SevProductName(product)}, fw)
		if err != nil {
			return "reject"
		}
		return "ok"
	}
	res := c08Run(call)
	op := fmt.Sprintf("c08sev op=ld vcpus=%d product=%d fw=%s", vcpus, product, c04Encode(fw))
	c08Check(c, "sev.LaunchDigest", res, len(fw), vcpus, c08Replay(op, fw), func() c08Res { return c08Run(call) })
	if !res.panicked && !res.timeout {
		c04LD(c, "c08sev", fw, vcpus, product, nil, "c08sev") // the compared case (with digests)
	} else {
		c.Case(op, c08Canon(res.impl), true)
	}
}

func c08SNP(c *Ctx, fw []byte, vmsas uint32, product int) {
	call := func() string {
		_, err := sev.UnsignedSnp(fw, &sev.SnpEndorsementRequest{LaunchVmsas: vmsas, Product: sgpb.SevProduct_SevProductName(product)})
		if err != nil {
			return "reject"
		}
		return "ok"
	}
	res := c08Run(call)
	v := int(vmsas)
	if vmsas == 0 {
		v = 1079 // sum of sev.AllSupportedVmsaCounts
	}
	op := fmt.Sprintf("c08sev op=snp vmsas=%d product=%d fw=%s", vmsas, product, c04Encode(fw))
	c08Check(c, "sev.UnsignedSnp", res, 15*len(fw), v, c08Replay(op, fw), func() c08Res { return c08Run(call) })
	if !res.panicked && !res.timeout {
		c04SNP(c, "c08sev", fw, "", "", true, true, vmsas, product)
	} else {
		c.Case(op, c08Canon(res.impl), true)
	}
}

// c08All runs every entry point on one image.
func c08All(c *Ctx, fw []byte, full bool) {
	walked := c08Map(c, fw)
	c08Extract(c, fw, true, true, walked)
	if full {
		c08Extract(c, fw, true, false, walked)
		c08Extract(c, fw, false, true, false)
		c08Extract(c, fw, false, false, false)
	}
	// every product value: Milan / Genoa mostly, one call in six with a value that has no address width
	// (UNKNOWN 0, Turin 3, 7, 255), which sev.LaunchDigest refuses before it looks at the image
	prod := 1 + c.Rng.Intn(2)
	if c.Rng.Intn(6) == 0 {
		prod = []int{0, 3, 7, 255}[c.Rng.Intn(4)]
		c.Count("gen:unsupported-product")
	}
	c08LD(c, fw, 1+c.Rng.Intn(2), prod)
	if full {
		sp := 1
		if c.Rng.Intn(4) == 0 {
			sp = []int{0, 3}[c.Rng.Intn(2)]
		}
		c08SNP(c, fw, 1+uint32(c.Rng.Intn(3)), sp)
	}
}

var c08DefSecs = []c04Sec{{0x800000, 0x3000, 1}, {0x803000, 0x1000, 2}, {0x804000, 0x1000, 3}}

func runC08Sev(c *Ctx) {
	r := c.Rng
	std := func(size, metaPos int) *c04Spec {
		s := c04Standard(size, 0x80b004, c08DefSecs, metaPos)
		s.fill, s.fillSeed = r.Intn(4), r.Intn(256)
		return s
	}
	// (0) a clean image through every entry point
	c08All(c, std(0x2000, 0x80).build(), true)
	c.Count("gen:clean")

	// (1) metadata offset boundaries (the offset block's payload)
	size := 0x1000
	for _, off := range []uint32{0, 1, 2, 3, 4, 5, 6, 7, 8, 9, 10, 11, 12, 13, 14, 15, 16, 17, 27, 28, 51, 52, 53,
		uint32(size - 1), uint32(size), uint32(size + 1), 0x7fffffff, 0x80000000, 0xffffffff} {
		s := std(size, 0x100)
		s.blocks[1].payload = c04U32(off)
		fw := s.build()
		// put a metadata header where the offset points, when it fits, so that later checks are reached
		if int(off) <= size && off >= 16 {
			copy(fw[size-int(off):], c04MetaBytes(abi.SevSnpMetadataSignature, 16, 1, 0, nil))
		}
		c08All(c, fw, off%7 == 0)
		c.Count("gen:meta-offset")
	}

	// (2) Sections / Length combinations around the 32-bit wrap of Sections*12+16
	type sl struct{ sections, length uint32 }
	for _, x := range []sl{{0x15555556, 24}, {0x2aaaaaab, 20}, {0x40000000, 16}, {0x55555556, 24 + 0}, {0x15555555, 12}, {0x15555557, 36},
		{0, 16}, {0, 15}, {0, 17}, {1, 28}, {1, 27}, {1, 29}, {3, 52}, {3, 51}, {3, 53}, {4, 52}, {2, 52}, {3, 0}, {3, 0xffffffff},
		{0xffffffff, 4}, {0x80000000, 16}, {340, 16 + 12*340}, {341, 16 + 12*341}, {330, 16 + 12*330}} {
		for _, metaPos := range []int{0, 0x100, 0x1000 - 100} {
			s := std(0x1000, metaPos)
			s.meta = c04MetaBytes(abi.SevSnpMetadataSignature, x.length, 1, x.sections, c08DefSecs)
			c08All(c, s.build(), false)
			c.Count("gen:sections-length")
		}
	}
	// wrong signature / version
	for _, sig := range []uint32{0, 0x56455340, 0x41534556} {
		s := std(0x1000, 0x40)
		s.meta = c04MetaBytes(sig, 52, 1, 3, c08DefSecs)
		c08All(c, s.build(), false)
		c.Count("gen:signature")
	}

	// (3) GUID entry sizes
	for blk := 0; blk < 2; blk++ {
		for _, sz := range []int{0, 1, 17, 18, 19, 21, 22, 23, 40, 43, 44, 45, 62, 0x7fff, 0xffff} {
			s := std(0x1000, 0x40)
			s.blocks[blk].size = sz
			c08All(c, s.build(), false)
			c.Count("gen:entry-size")
		}
	}
	// extra blocks of every small payload size, duplicate GUIDs
	for n := 0; n <= 6; n++ {
		s := std(0x1000, 0x40)
		s.blocks = append(s.blocks, c04Block{guid: r.Bytes(16), payload: r.Bytes(n * 7), size: -1})
		c08All(c, s.build(), false)
		c.Count("gen:extra-block")
	}
	for _, dup := range [][2]int{{0, 0}, {1, 1}, {0, 1}} {
		s := std(0x1000, 0x40)
		s.blocks = append(s.blocks, s.blocks[dup[0]])
		if dup[0] != dup[1] {
			s.blocks = append(s.blocks, s.blocks[dup[1]])
		}
		c08All(c, s.build(), false)
		c.Count("gen:dup-guid")
	}

	// (4) footer sizes and GUID
	tbl := 18 + 22 + 22
	for _, fs := range []int{0, 1, 17, 18, 19, 39, 40, 41, tbl - 1, tbl, tbl + 1, 0x1000 - 33, 0x1000 - 32, 0x1000 - 31, 0x1000, 0x7fff, 0xffff} {
		s := std(0x1000, 0x40)
		s.footerSize = fs
		c08All(c, s.build(), false)
		c.Count("gen:footer-size")
	}
	{
		s := std(0x1000, 0x40)
		s.footerGUID = r.Bytes(16)
		c08All(c, s.build(), false)
		s = std(0x1000, 0x40)
		s.tail = make([]byte, 31) // table ends 31 bytes from the end
		c08All(c, s.build(), false)
		c.Count("gen:footer-guid")
	}

	// (5) truncations: the last n bytes of a valid image
	full := std(0x1000, 0x1000-200).build()
	for _, n := range []int{0, 1, 17, 18, 31, 32, 33, 49, 50, 51, 67, 68, 71, 72, 73, 93, 94, 95, 111, 112, 113, 150, 199, 200, 201, 300, 2048} {
		c08All(c, append([]byte(nil), full[len(full)-n:]...), false)
		c.Count("gen:truncated")
	}

	// (6) section lists from the C04 generator through the totality checks
	for i := 0; i < c.N(40, 600); i++ {
		secs := c04ValidSecs(r)
		if r.Intn(2) == 0 {
			secs = c04Mutate(r, secs, c04Mutations[r.Intn(len(c04Mutations))])
		}
		s := c04Standard(0x1000*(1+r.Intn(3)), uint32(r.Next()), secs, 0x20*r.Intn(8))
		c08All(c, s.build(), false)
		c.Count("gen:section-lists")
	}

	// (7) random bytes, random bytes under a valid footer, bit flips near the table
	for i := 0; i < c.N(60, 1500); i++ {
		n := []int{0, 1, 49, 50, 51, 64, 100, 200, 300, 1000, 4096, 8192}[r.Intn(12)]
		fw := r.Bytes(n)
		switch r.Intn(3) {
		case 1:
			if n >= 50 {
				fs := 18 + r.Intn(n-49)
				copy(fw[n-50:], c04Entry(fs, c04FooterGUID))
			}
			c.Count("gen:random-with-footer")
		case 2:
			fw = std(0x1000, 0x40).build()
			for k := 0; k < 1+r.Intn(3); k++ {
				pos := len(fw) - 1 - r.Intn(120)
				if r.Bool() {
					pos = 0x40 + r.Intn(60)
				}
				fw[pos] ^= 1 << uint(r.Intn(8))
			}
			c.Count("gen:bitflip")
		default:
			c.Count("gen:random")
		}
		c08All(c, fw, false)
	}

	// (8) resource-directed: many declared pages, many vCPUs, many table entries, many descriptors
	huge := [][]c04Sec{
		{{0x0, 0xffffd000, 1}, {0xffffd000, 0x1000, 2}, {0xffffe000, 0x1000, 3}},
		{{0x0, 0xfffff000, 1}, {0xfffff000, 0xfffff000, 1}, {0x80000000, 0x1000, 2}, {0x90000000, 0x1000, 3}}, // overlaps: rejected
		{{0x10000000, 0x4000000, 1}, {0x20000000, 0x1000, 2}, {0x20001000, 0x1000, 3}},                        // 64 MiB = 16384 pages
	}
	for _, secs := range huge {
		s := c04Standard(0x1000, 0x80b004, secs, 0x40)
		c08LDClass(c, s.build(), 1, 1, true)
		c.Count("gen:huge-sections")
		// the same declarations under Turin, in a one-page and in a two-page ROM: refused for the product before any
		// page is hashed (before the product-check fix the two-page image hashed the 2^20 declared pages first)
		c08LDClass(c, s.build(), 1, 3, true)
		c08LDClass(c, c04Standard(0x2000, 0x80b004, secs, 0x40).build(), 2, 3, true)
		c.Count("gen:huge-sections-unsupported-product")
	}
	for _, v := range []int{-1 << 31, -1, 0, 255, 1000, 5000} {
		c08LDClass(c, std(0x1000, 0x40).build(), v, 1, true)
		c.Count("gen:vcpus")
	}
	{ // a table of ~3000 minimal entries (18 bytes each) in a 64 KiB image
		s := std(0x10000, 0x40)
		for k := 0; k < 3000; k++ {
			g := make([]byte, 16)
			binary.LittleEndian.PutUint32(g, uint32(k))
			g[15] = 0x77
			s.blocks = append(s.blocks, c04Block{guid: g, size: -1})
		}
		fw := s.build()
		c08Map(c, fw)
		c08LDClass(c, fw, 1, 1, true)
		c.Count("gen:many-entries")
		// descriptors filling the image: 5000 one-page sections (60 KiB of descriptors)
		var secs []c04Sec
		for k := 0; k < 5000; k++ {
			kind := uint32(1)
			if k == 0 {
				kind = 2
			} else if k == 1 {
				kind = 3
			}
			secs = append(secs, c04Sec{uint32(0x1000 * k), 0x1000, kind})
		}
		s2 := c04Standard(0x10000, 1, secs, 0)
		c08LDClass(c, s2.build(), 1, 1, true)
		c.Count("gen:many-descriptors")
	}
}
