package main

// Stream c03tools — the shipped command-line tools end to end over ONE shared directory tree per history.
//
//   key management   the shipped non-production root command (testing/nonprod, hook VerifNewRootCmd):
//                    bootstrap / rotate / wipeout, command lines built, run and encoded by the c12cli helpers
//   endorse          the SAME root command: `endorse --add_snp/--add_tdx --uefi <tree>/fw.fd --out_root <tree>/out …`
//   relying party    `gcetcbendorsement verify --root_cert R E`, `sev validate`, `tdx validate` (rpcli_run.go) with the
//                    files read from the shared tree and the clock of the Backend
//
// One protocol line per history (`c03tools op=hist seq=… steps=…`), one class per step.  The direct oracle states the
// end-to-end clauses on what the tools wrote and answered, without any model.

import (
	"bytes"
	"context"
	"crypto"
	"crypto/rsa"
	"crypto/sha256"
	"crypto/x509"
	"encoding/pem"
	"fmt"
	"io"
	"os"
	"path"
	"path/filepath"
	"runtime"
	"strings"
	"sync"
	"time"

	epb "github.com/google/gce-tcb-verifier/proto/endorsement"
	nonprodcli "github.com/google/gce-tcb-verifier/testing/nonprod"
	"github.com/spf13/cobra"
	"google.golang.org/protobuf/proto"
)

func init() {
	register("c03tools", "histories over one shared directory tree driven through the REAL shipped command lines: nonprod bootstrap, 0-3 rotate, export of the CA's "+
		"root object, endorse (generated flags, generated firmware image the measurement code accepts), 0-2 rotate, optional wipeout (all / ca / keys), optional "+
		"re-bootstrap, then 1-4 relying-party command lines (gcetcbendorsement verify / sev validate / tdx validate) at boundary times of the embedded signing "+
		"certificate and of the root (notBefore-1, notBefore, middle, notAfter, notAfter+1) with the root taken from the exported file, the CA directory, a missing "+
		"file or a foreign CA, and the endorsement written by endorse, a missing path or a junk file. One class per step is compared with the Lean model; the direct "+
		"oracle reads the real certificates and files. Non-trivial: a relying-party step exits 0 and another is refused, or one exits 0 after a later rotation / wipeout.", runC03Tools)
}

// ---------------------------------------------------------------------------------------------
// steps

type ctEnd struct {
	snp, tdx, dry, mo, ow, early, img bool
	vmsas                             uint32
	shapes                            []string
	outDir, cand                      *string
	tsText                            string
	tsUnix                            int64
}

type ctVer struct {
	tool    string // verify | sev | tdx
	end     string // last | missing | junk
	root    string // x | ca | missing | foreign
	xname   string
	timeSel int
	n       int    // launch_vmsas / ram_gib
	att     string // listed | unlisted | -
	t       int64  // resolved when the step runs
}

type ctStep struct {
	kind byte // 'K', 'X', 'E', 'V'
	l    ccLine
	dst  string
	e    ctEnd
	v    ctVer
}

var ctTimeSelNames = []string{"sign-notBefore-1", "sign-notBefore", "middle", "sign-notAfter", "sign-notAfter+1", "root-notAfter-1", "root-notAfter", "root-notAfter+1",
	"root-notBefore-1", "root-notBefore"}

var ctShapeRAM = map[string]int{"c3-standard-4": 16, "c3-standard-8": 32, "c3-standard-22": 88, "c3-standard-44": 176}

func ctHex(s string) string { return hx([]byte(s)) }

func ctOpt(p *string) string {
	if p == nil {
		return "~"
	}
	return ctHex(*p)
}

func (e ctEnd) enc() string {
	var sh []string
	for _, s := range e.shapes {
		sh = append(sh, ctHex(s))
	}
	return fmt.Sprintf("E|%s%s%s%s%s%s%s|%d|%s|%s|%s|%s|%d", b2s(e.snp), b2s(e.tdx), b2s(e.dry), b2s(e.mo), b2s(e.ow), b2s(e.early), b2s(e.img), e.vmsas,
		strings.Join(sh, ","), ctOpt(e.outDir), ctOpt(e.cand), ctHex(e.tsText), e.tsUnix)
}

func (v ctVer) enc() string {
	root := v.root
	if v.root == "x" {
		root = "x:" + ctHex(v.xname)
	}
	return fmt.Sprintf("V|%s|%s|%s|%d|%d|%s", v.tool, v.end, root, v.t, v.n, v.att)
}

// ---------------------------------------------------------------------------------------------
// cobra.EnableTraverseRunHooks is process-wide: the key-management binary runs with it off, gcetcbendorsement's MakeRoot
// switches it on. Key-management / endorse runs share the lock; relying-party runs take it exclusively.

var ctMode sync.RWMutex

type ctResult struct {
	op, impl string
	nontriv  bool
	counts   []string
	finds    []c12Finding
}

type ctWorld struct {
	foreignPEM []byte
	seq        bool
	fw         []byte
}

func ctParseRoot(pemBytes []byte) *x509.Certificate {
	blk, _ := pem.Decode(pemBytes)
	if blk == nil {
		return nil
	}
	c, err := x509.ParseCertificate(blk.Bytes)
	if err != nil {
		return nil
	}
	return c
}

func ctRunEndorse(argv []string) (err error, panicked bool, msg string) {
	ctMode.RLock()
	defer ctMode.RUnlock()
	root := nonprodcli.VerifNewRootCmd()
	root.SetArgs(argv)
	root.SetOut(io.Discard)
	root.SetErr(io.Discard)
	root.SilenceErrors = true
	root.SilenceUsage = true
	panicked, msg, _ = Guard(func() { err = root.Execute() })
	return
}

func ctRunRP(cs *rpCase) rpResult {
	ctMode.Lock()
	defer ctMode.Unlock()
	defer func() { cobra.EnableTraverseRunHooks = false }()
	return rpRun(cs)
}

func (e ctEnd) argv(st *ccStack) []string {
	b, c, r := st.site.bucket, st.site.certDir, st.site.rootPath
	a := []string{"endorse", "--quiet", "--key_dir", filepath.Join(st.dir, "keys"), "--bucket_root", filepath.Join(st.dir, "store"), "--bucket", b, "--cert_dir", c,
		"--root_path", r, "--uefi", filepath.Join(st.dir, "fw.fd"), "--out_root", filepath.Join(st.dir, "out"), "--timestamp", e.tsText}
	if e.outDir != nil {
		a = append(a, "--out_dir", *e.outDir)
	}
	if e.cand != nil {
		a = append(a, "--candidate_name="+*e.cand)
	}
	if e.snp {
		a = append(a, "--add_snp")
	}
	if e.tdx {
		a = append(a, "--add_tdx")
	}
	if e.vmsas != 0 {
		a = append(a, "--snp_launch_vmsas", fmt.Sprint(e.vmsas))
	}
	if len(e.shapes) > 0 {
		a = append(a, "--tdx_machine_shapes", strings.Join(e.shapes, ","))
	}
	if e.early {
		a = append(a, "--tdx_include_early_accept")
	}
	if e.dry {
		a = append(a, "--dry_run")
	}
	if e.mo {
		a = append(a, "--measurement_only")
	}
	if e.ow {
		a = append(a, "--overwrite")
	}
	return a
}

// valid: the flag values alone allow an endorsement (what the documentation of the flags says).
func (e ctEnd) valid() bool {
	if !e.img || !(e.snp || e.tdx) {
		return false
	}
	if e.tdx {
		for _, s := range e.shapes {
			if _, ok := ctShapeRAM[s]; !ok {
				return false
			}
		}
	}
	if e.cand != nil {
		bn := path.Clean(*e.cand + ".binarypb")
		if path.IsAbs(bn) || strings.HasPrefix(bn, "../") || *e.cand == "" {
			return false
		}
	}
	return true
}

func (e ctEnd) file(st *ccStack) string {
	name := "endorsement"
	if e.cand != nil {
		name = *e.cand
	}
	od := ""
	if e.outDir != nil {
		od = *e.outDir
	}
	return path.Join(st.dir, "out", od, name+".binarypb")
}

// ---------------------------------------------------------------------------------------------
// one history

func ctRunHistory(w *ctWorld, steps []ctStep, seed uint64) (res ctResult) {
	site := ccSite{"bkt", "certs", "root.crt"}
	st := ccNewStack(0, seed, site)
	defer os.RemoveAll(st.dir)
	for _, d := range []string{"out", "rp"} {
		if err := os.MkdirAll(filepath.Join(st.dir, d), 0755); err != nil {
			panic(err)
		}
	}
	count := func(k string) { res.counts = append(res.counts, k) }
	var encs, classes, replay []string
	// a bootstrap that ran although the CA's root object existed (the class the tool-level theorems exclude with
	// CliCleanRun; known findings C12-K1..K4): what goes wrong afterwards is reported under its own signature
	overPopulated := false
	find := func(sig, what string) {
		if overPopulated && !strings.HasSuffix(sig, "/panic") {
			sig += "/after-bootstrap-over-populated-store"
		}
		res.finds = append(res.finds, c12Finding{sig, what, st.canon(strings.Join(replay, " ; "))})
	}
	rootObj := filepath.Join(st.dir, "store", site.bucket, site.rootPath)
	readRoot := func() []byte {
		b, err := os.ReadFile(rootObj)
		if err != nil {
			return nil
		}
		return b
	}
	primaryCert := func() []byte {
		ca := st.gcsca()
		name, err := ca.PrimarySigningKeyVersion(context.Background())
		if err != nil || name == "" {
			return nil
		}
		der, err := ca.Certificate(context.Background(), name)
		if err != nil {
			return nil
		}
		return der
	}
	junk := filepath.Join(st.dir, "rp", "junk.binarypb")
	os.WriteFile(junk, []byte{0xff}, 0644)

	kIdx := 0
	healthy := false // a bootstrap succeeded and every key-management line since succeeded, no wipeout
	var baseTs int64 // creation time of the last successful bootstrap
	rotBefore, rotAfter, wipe := 0, 0, "none"
	rebooted := false
	// the endorsement the last successful (writing) endorse produced
	var endPath string
	var endRoot []byte // the CA's root object when it was made
	var endSign, endRootCert *x509.Certificate
	var endGolden *epb.VMGoldenMeasurement
	lastE := (*ctEnd)(nil)
	vOk, vErr, laterK := 0, 0, 0

	for i := range steps {
		s := &steps[i]
		switch s.kind {
		case 'K':
			l := s.l
			replay = append(replay, strings.Join(st.argv(l), " "))
			before := readRoot()
			ctMode.RLock()
			r := st.run(l)
			ctMode.RUnlock()
			cls := "ok"
			if r.panicked {
				cls = "err"
				find("c03tools/"+l.subName()+"/panic", "the command panicked: "+r.panicMsg+" "+c12FirstRepoFrame(r.stack))
			} else if r.err != nil {
				cls = "err"
			}
			encs = append(encs, "K|"+st.enc(l, kIdx))
			classes = append(classes, cls)
			kIdx++
			count("K/" + l.subName() + "/" + cls)
			after := readRoot()
			switch l.sub {
			case 'b':
				if before != nil {
					overPopulated = true
					count("K/bootstrap/over-populated-store/" + cls)
				}
				healthy = cls == "ok"
				if cls == "ok" {
					if t, err := time.Parse(time.RFC3339, l.ts[len(l.ts)-1]); err == nil {
						baseTs = t.Unix()
					}
					if lastE != nil {
						rebooted = true
					}
				}
			case 'r':
				if cls != "ok" {
					healthy = false
				} else if lastE == nil {
					rotBefore++
				} else {
					rotAfter++
				}
				if !bytes.Equal(before, after) {
					find("c03tools/rotate/root-changed", "the CA's root object differs before and after a rotate")
				}
			default:
				healthy = false
				wipe = "all"
				if len(l.args) > 0 {
					wipe = l.args[0]
				}
				wipe += "/" + cls
			}
			if lastE != nil {
				laterK++
			}
		case 'X':
			replay = append(replay, "export-root "+s.dst)
			cls := "none"
			if b := readRoot(); b != nil {
				if err := os.WriteFile(filepath.Join(st.dir, "rp", s.dst), b, 0644); err != nil {
					panic(err)
				}
				cls = "ok"
			}
			encs = append(encs, "X|"+ctHex(s.dst))
			classes = append(classes, cls)
			count("X/" + cls)
		case 'E':
			e := s.e
			fwPath := filepath.Join(st.dir, "fw.fd")
			os.Remove(fwPath)
			if e.img {
				if err := os.WriteFile(fwPath, w.fw, 0644); err != nil {
					panic(err)
				}
			}
			av := e.argv(st)
			replay = append(replay, strings.Join(av, " "))
			file := e.file(st)
			_, statErr := os.Stat(file)
			existed := statErr == nil
			rootAt, primAt := readRoot(), primaryCert()
			err, panicked, msg := ctRunEndorse(av)
			cls := "ok"
			if panicked {
				cls = "err"
				find("c03tools/endorse/panic", "the command panicked: "+msg)
			} else if err != nil {
				cls = "err"
			}
			encs = append(encs, e.enc())
			classes = append(classes, cls)
			lastE = &s.e
			count(fmt.Sprintf("E/%s/snp=%s,tdx=%s,dry=%s,mo=%s,ow=%s,early=%s,img=%s", cls, b2s(e.snp), b2s(e.tdx), b2s(e.dry), b2s(e.mo), b2s(e.ow), b2s(e.early), b2s(e.img)))
			count(fmt.Sprintf("E/vmsas=%d/shapes=%d/out_dir=%s/candidate=%s", e.vmsas, len(e.shapes), b2s(e.outDir != nil), b2s(e.cand != nil)))
			count(fmt.Sprintf("E/valid=%s,healthy=%s/%s", b2s(e.valid()), b2s(healthy), cls))
			data, rerr := os.ReadFile(file)
			wrote := rerr == nil && !existed
			switch {
			case e.dry || e.mo:
				if wrote {
					find("c03tools/endorse/dry-run-wrote", "endorse with --dry_run / --measurement_only wrote the endorsement file")
				}
			case cls == "err":
				if e.valid() && healthy {
					find("c03tools/endorse/accepted-line-failed", "a well-formed endorse command line after a successful bootstrap (and rotations) failed: "+fmt.Sprint(err))
				}
			case rerr != nil:
				find("c03tools/endorse/no-file-written", "endorse returned success but "+st.canon(file)+" is absent")
			default:
				end := &epb.VMLaunchEndorsement{}
				golden := &epb.VMGoldenMeasurement{}
				if proto.Unmarshal(data, end) != nil || proto.Unmarshal(end.SerializedUefiGolden, golden) != nil {
					find("c03tools/endorse/file-unreadable", "the file endorse wrote is not a VMLaunchEndorsement holding a VMGoldenMeasurement")
					break
				}
				endPath, endRoot, endGolden = file, rootAt, golden
				endRootCert = ctParseRoot(rootAt)
				endSign, _ = x509.ParseCertificate(golden.Cert)
				if primAt == nil || !bytes.Equal(golden.Cert, primAt) {
					find("c03tools/endorse/embedded-cert-not-primary", "the certificate embedded in the endorsement is not the CA's certificate of the primary signing key version")
				}
				ok := false
				if endSign != nil {
					if pub, isRSA := endSign.PublicKey.(*rsa.PublicKey); isRSA {
						d := sha256.Sum256(end.SerializedUefiGolden)
						ok = rsa.VerifyPSS(pub, crypto.SHA256, d[:], end.Signature, &rsa.PSSOptions{SaltLength: rsa.PSSSaltLengthEqualsHash, Hash: crypto.SHA256}) == nil
					}
				}
				if !ok {
					find("c03tools/endorse/signature-not-by-embedded-cert", "RSA-PSS (SHA-256, salt 32) verification of the stored signature over the stored payload under the embedded certificate's key fails")
				}
			}
		case 'V':
			v := &s.v
			// --- the files of the relying party ---
			cs := &rpCase{getterNil: true, getterTok: "-"}
			endArg := filepath.Join(st.dir, "rp", "no-such-endorsement.binarypb")
			switch v.end {
			case "last":
				if endPath != "" {
					endArg = endPath
				} else if lastE != nil {
					endArg = lastE.file(st)
				}
			case "junk":
				endArg = junk
			}
			var endBytes []byte
			if endPath != "" {
				endBytes, _ = os.ReadFile(endPath) // what the attestation's certificate table carries
			}
			if b, err := os.ReadFile(endArg); err == nil {
				cs.put(endArg, "E", b)
			}
			rootArg := filepath.Join(st.dir, "rp", "no-such-root.pem")
			var rootBytes []byte
			switch v.root {
			case "x":
				rootArg = filepath.Join(st.dir, "rp", v.xname)
				rootBytes, _ = os.ReadFile(rootArg)
			case "ca":
				rootArg = rootObj
				rootBytes = readRoot()
			case "foreign":
				rootArg = filepath.Join(st.dir, "rp", "foreign-root.pem")
				rootBytes = w.foreignPEM
			}
			if rootBytes != nil {
				cs.put(rootArg, "R", rootBytes)
			}
			// --- the time ---
			sign, rootC := endSign, endRootCert
			if sign == nil {
				if der := primaryCert(); der != nil {
					sign, _ = x509.ParseCertificate(der)
				}
			}
			if rc := ctParseRoot(rootBytes); rc != nil && (rootC == nil || v.root != "foreign") {
				rootC = rc
			}
			snb, sna := baseTs, baseTs+int64(c12SignLife/time.Second)
			rnb, rna := baseTs, baseTs+int64(c12RootLife/time.Second)
			if sign != nil {
				snb, sna = sign.NotBefore.Unix(), sign.NotAfter.Unix()
			}
			if rootC != nil {
				rnb, rna = rootC.NotBefore.Unix(), rootC.NotAfter.Unix()
			}
			lo, hi := snb, sna
			if rnb > lo {
				lo = rnb
			}
			if rna < hi {
				hi = rna
			}
			v.t = []int64{snb - 1, snb, lo + (hi-lo)/2, sna, sna + 1, rna - 1, rna, rna + 1, rnb - 1, rnb}[v.timeSel]
			cs.now = time.Unix(v.t, 0).UTC()
			// --- the command line ---
			contractExtra := true
			switch v.tool {
			case "verify":
				cs.cmd = "verify"
				cs.args = []string{endArg}
				cs.flag("root_cert", rootArg)
			default:
				attPath := filepath.Join(st.dir, "rp", "attestation.bin")
				ab, listed := ctAttestation(v, endGolden, endBytes, cs.now)
				cs.put(attPath, "A", ab)
				cs.cmd = v.tool + " validate"
				cs.args = []string{attPath}
				if v.tool == "sev" {
					cs.flag("launch_vmsas", fmt.Sprint(v.n))
				} else {
					cs.flag("ram_gib", fmt.Sprint(v.n))
				}
				cs.flag("endorsement", endArg)
				cs.flag("root_cert", rootArg)
				contractExtra = listed
				if listed {
					v.att = "listed" // the measurement IS one the written endorsement lists for n
				} else {
					v.att = "unlisted"
				}
			}
			r := ctRunRP(cs)
			replay = append(replay, fmt.Sprintf("[now=%d] gcetcbendorsement %s", v.t, strings.Join(r.argv, " ")))
			cls := "err"
			if r.res == "accept" {
				cls = "ok"
				vOk++
			} else {
				vErr++
			}
			if r.res == "panic" {
				find("c03tools/"+v.tool+"/panic", "the relying-party command panicked")
			}
			encs = append(encs, v.enc())
			classes = append(classes, cls)
			// --- the contract, on the real certificates ---
			own := v.end == "last" && endPath != "" && rootBytes != nil && endRoot != nil && bytes.Equal(rootBytes, endRoot)
			inWin := endSign != nil && endRootCert != nil && endSign.NotBefore.Unix() <= v.t && v.t <= endSign.NotAfter.Unix() &&
				endRootCert.NotBefore.Unix() <= v.t && v.t <= endRootCert.NotAfter.Unix()
			why := "-"
			switch {
			case v.end != "last" || endPath == "":
				why = "no-endorsement"
			case rootBytes == nil:
				why = "no-root"
			case !own:
				why = "other-root"
			case !inWin:
				why = "outside-validity"
			case !contractExtra:
				why = "unlisted"
			}
			count(fmt.Sprintf("V/%s/end=%s/root=%s/%s", v.tool, v.end, v.root, cls))
			count(fmt.Sprintf("V/time=%s/%s", ctTimeSelNames[v.timeSel], cls))
			count(fmt.Sprintf("V/%s/contract=%s/%s", v.tool, why, cls))
			if own && inWin {
				count(fmt.Sprintf("V/own-root-in-validity/%s/%s/rotations-after-endorse=%d/wipeout=%s/rebootstrapped=%s/%s", v.tool, v.att, rotAfter, wipe, b2s(rebooted), cls))
			}
			switch v.tool {
			case "verify":
				if why == "-" && cls != "ok" {
					find("c03tools/verify/own-root-in-validity-rejected", "verify refused the endorsement written by endorse under the root of the CA that signed it, at a time inside both "+
						"the signing certificate's and the root's validity: "+r.errText)
				}
				if why != "-" && cls == "ok" {
					find("c03tools/verify/accepted-outside-contract", "verify exited 0 although: "+why)
				}
			default:
				if why == "-" && cls != "ok" {
					find("c03tools/"+v.tool+"/listed-rejected", v.tool+" validate refused an attestation whose measurement the endorsement lists for the configuration named: "+r.errText)
				}
				if why == "unlisted" && cls == "ok" {
					find("c03tools/"+v.tool+"/unlisted-accepted", v.tool+" validate exited 0 for a measurement the endorsement does not list for the configuration named")
				}
				if why != "-" && why != "unlisted" && cls == "ok" {
					find("c03tools/"+v.tool+"/accepted-outside-contract", v.tool+" validate exited 0 although: "+why)
				}
			}
		}
	}
	count(fmt.Sprintf("history/rotations-before-endorse=%d/after=%d", rotBefore, rotAfter))
	count("history/wipeout=" + wipe)
	count("history/rebootstrapped=" + b2s(rebooted))
	res.op = fmt.Sprintf("c03tools op=hist seq=%s steps=%s", b2s(w.seq), strings.Join(encs, ";"))
	res.impl = "cls=" + strings.Join(classes, ",")
	res.nontriv = vOk > 0 && (vErr > 0 || laterK > 0)
	return
}

// ---------------------------------------------------------------------------------------------
// generator

type ctGen struct {
	r   *Rng
	day int
}

func (g *ctGen) stamp(adv int) string {
	g.day += adv
	t := time.Date(2024, 9, 1, 0, 0, 0, 0, time.UTC).Add(time.Duration(g.day) * 24 * time.Hour).Add(time.Duration(g.r.Intn(86400)) * time.Second)
	switch g.r.Intn(4) {
	case 0:
		return t.In(c12DST).Format(time.RFC3339)
	case 1:
		return t.In(time.FixedZone("", -8*3600)).Format(time.RFC3339)
	}
	return t.Format(time.RFC3339)
}

func (g *ctGen) pick(p []string) string { return p[g.r.Intn(len(p))] }

func (g *ctGen) boot() ctStep {
	r := g.r
	l := ccLine{sub: 'b', kd: 'd', style: r.Intn(12), tag: "tools", ts: []string{g.stamp(r.Intn(400))}}
	if r.Intn(3) == 0 {
		l.rootCn = ccStr(g.pick([]string{"rootA", "rootB", "a/b"}))
	}
	if r.Intn(3) == 0 {
		l.signCn = ccStr(g.pick([]string{"signA", "signB", "ключ-é"}))
	}
	if r.Intn(3) == 0 {
		l.rootSer = []string{g.pick([]string{"1", "7", "0", "18446744073709551616"})}
	}
	if r.Intn(3) == 0 {
		l.signSer = []string{g.pick([]string{"2", "3", "10", "9223372036854775808"})}
	}
	return ctStep{kind: 'K', l: l}
}

func (g *ctGen) rot(late bool) ctStep {
	r := g.r
	adv := 1 + r.Intn(400)
	if late {
		adv = 7400 + r.Intn(1800) // the rotated certificate's validity then reaches past the root's
	}
	l := ccLine{sub: 'r', kd: 'd', style: r.Intn(12), tag: "tools", ts: []string{g.stamp(adv)}}
	if r.Intn(3) == 0 {
		l.signCn = ccStr(g.pick([]string{"signA", "signB", "GCE-cc-tcb-root"}))
	}
	if r.Intn(100) < 35 {
		l.override = []string{g.pick([]string{"2", "3", "4", "5", "7", "100", "0", "18446744073709551616", "9223372036854775808"})}
	}
	return ctStep{kind: 'K', l: l}
}

func (g *ctGen) endorse() ctStep {
	r := g.r
	e := ctEnd{img: true}
	switch k := r.Intn(20); {
	case k < 8:
		e.snp = true
	case k < 14:
		e.tdx = true
	case k < 19:
		e.snp, e.tdx = true, true
	}
	if r.Intn(2) == 0 {
		e.vmsas = []uint32{1, 2, 4, 8}[r.Intn(4)]
	}
	if r.Intn(2) == 0 {
		all := []string{"c3-standard-4", "c3-standard-8", "c3-standard-22", "c3-standard-44"}
		n := 1 + r.Intn(2)
		for i := 0; i < n; i++ {
			e.shapes = append(e.shapes, all[r.Intn(len(all))])
		}
		if e.tdx && r.Intn(12) == 0 {
			e.shapes = append(e.shapes, "n2d-standard-2")
		}
		e.early = r.Intn(3) == 0
	}
	e.dry = r.Intn(20) == 0
	e.mo = r.Intn(20) == 0
	e.ow = r.Intn(4) == 0
	if r.Intn(25) == 0 {
		e.img = false
	}
	if r.Intn(2) == 0 {
		e.outDir = ccStr(g.pick([]string{"rel", "a/b", "endorsements"}))
	}
	if r.Intn(2) == 0 {
		e.cand = ccStr(g.pick([]string{"rc0", "2024-09-26-T20-00-RC00", "x/../rc1", "sub/rc2", "../up"}))
		if *e.cand == "../up" && r.Intn(3) > 0 {
			e.cand = ccStr("rc3")
		}
	}
	e.tsText = g.stamp(1 + r.Intn(200))
	t, err := time.Parse(time.RFC3339, e.tsText)
	if err != nil {
		panic(err)
	}
	e.tsUnix = t.Unix()
	return ctStep{kind: 'E', e: e}
}

func (g *ctGen) verify(xs []string, tools bool, e ctEnd) ctStep {
	r := g.r
	v := ctVer{tool: "verify", end: "last", att: "-"}
	switch k := r.Intn(20); {
	case k == 0:
		v.end = "missing"
	case k == 1:
		v.end = "junk"
	}
	switch k := r.Intn(20); {
	case k < 9 && len(xs) > 0:
		v.root, v.xname = "x", xs[r.Intn(len(xs))]
	case k < 15:
		v.root = "ca"
	case k < 17:
		v.root = "missing"
	default:
		v.root = "foreign"
	}
	v.timeSel = r.Intn(5)
	if r.Intn(4) == 0 {
		v.timeSel = 5 + r.Intn(len(ctTimeSelNames)-5)
	}
	if r.Intn(5) == 0 {
		v.timeSel = 2
	}
	if tools && r.Intn(3) == 0 {
		if e.snp && (!e.tdx || r.Bool()) {
			v.tool = "sev"
			v.n = int(e.vmsas)
			if v.n == 0 || r.Intn(5) == 0 {
				v.n = []int{1, 2, 4, 8}[r.Intn(4)]
			}
		} else if e.tdx {
			v.tool = "tdx"
			v.n = 0
			if len(e.shapes) > 0 && r.Intn(4) > 0 {
				v.n = ctShapeRAM[e.shapes[r.Intn(len(e.shapes))]]
			} else if r.Intn(3) == 0 {
				v.n = 16
			}
		}
		if v.tool != "verify" {
			v.att = "listed"
			if r.Intn(4) == 0 {
				v.att = "unlisted"
			}
		}
	}
	return ctStep{kind: 'V', v: v}
}

func (g *ctGen) history(tools bool) []ctStep {
	r := g.r
	g.day = 0
	var h []ctStep
	var xs []string
	late := r.Intn(4) == 0
	h = append(h, g.boot())
	n1 := r.Intn(4)
	for i := 0; i < n1; i++ {
		h = append(h, g.rot(late && i == n1-1))
	}
	if r.Intn(10) > 0 {
		h = append(h, ctStep{kind: 'X', dst: "root0.pem"})
		xs = append(xs, "root0.pem")
	}
	es := g.endorse()
	h = append(h, es)
	n2 := r.Intn(3)
	for i := 0; i < n2; i++ {
		h = append(h, g.rot(late && n1 == 0 && i == 0))
	}
	if r.Intn(4) == 0 {
		h = append(h, ctStep{kind: 'X', dst: "root1.pem"})
		xs = append(xs, "root1.pem")
	}
	if r.Intn(100) < 40 {
		args := [][]string{nil, nil, {"ca"}, {"keys"}}[r.Intn(4)]
		h = append(h, ctStep{kind: 'K', l: ccLine{sub: 'w', kd: 'd', style: r.Intn(12), args: args, force: r.Intn(4) == 0, tag: "tools"}})
		if (args == nil && r.Bool()) || (args != nil && r.Intn(4) == 0) {
			g.day += 1 + r.Intn(300)
			h = append(h, g.boot())
			if r.Bool() {
				h = append(h, ctStep{kind: 'X', dst: "root2.pem"})
				xs = append(xs, "root2.pem")
			}
		}
	}
	nv := 1 + r.Intn(4)
	for i := 0; i < nv; i++ {
		h = append(h, g.verify(xs, tools, es.e))
	}
	return h
}

func ctFixed() [][]ctStep {
	t0, t1, t2, t3, t4 := "2024-09-01T00:00:00Z", "2024-10-01T12:00:00+02:00", "2025-01-01T00:00:00-08:00", "2025-02-01T00:00:00Z", "2046-03-01T00:00:00Z"
	b := func(ts string) ctStep {
		return ctStep{kind: 'K', l: ccLine{sub: 'b', kd: 'd', ts: []string{ts}, tag: "tools-fixed"}}
	}
	bf := func(ts string, ow, kg bool) ctStep {
		return ctStep{kind: 'K', l: ccLine{sub: 'b', kd: 'd', ow: ow, kg: kg, ts: []string{ts}, tag: "tools-fixed"}}
	}
	r := func(ts string) ctStep {
		return ctStep{kind: 'K', l: ccLine{sub: 'r', kd: 'd', ts: []string{ts}, tag: "tools-fixed"}}
	}
	w := func(args ...string) ctStep {
		return ctStep{kind: 'K', l: ccLine{sub: 'w', kd: 'd', args: args, tag: "tools-fixed"}}
	}
	x := func(d string) ctStep { return ctStep{kind: 'X', dst: d} }
	e := func(ts string, mod func(*ctEnd)) ctStep {
		t, _ := time.Parse(time.RFC3339, ts)
		en := ctEnd{snp: true, img: true, vmsas: 2, tsText: ts, tsUnix: t.Unix()}
		if mod != nil {
			mod(&en)
		}
		return ctStep{kind: 'E', e: en}
	}
	v := func(end, root, xn string, sel int) ctStep {
		return ctStep{kind: 'V', v: ctVer{tool: "verify", end: end, root: root, xname: xn, timeSel: sel, att: "-"}}
	}
	vt := func(tool string, n int, att, root string, sel int) ctStep {
		return ctStep{kind: 'V', v: ctVer{tool: tool, end: "last", root: root, xname: "root0.pem", timeSel: sel, n: n, att: att}}
	}
	vx := func(sel int) ctStep { return v("last", "x", "root0.pem", sel) }
	return [][]ctStep{
		// the signing certificate's validity, both edges and one second beyond, under the exported root
		{b(t0), x("root0.pem"), e(t1, nil), vx(0), vx(1), vx(2), vx(3)},
		{b(t0), x("root0.pem"), e(t1, nil), vx(4), v("last", "ca", "", 2), v("last", "foreign", "", 2), v("last", "missing", "", 2)},
		// rotations before and after; the exported root keeps verifying, also after the wipeout
		{b(t0), r(t1), r(t2), x("root0.pem"), e(t3, func(en *ctEnd) { en.tdx = true; en.shapes = []string{"c3-standard-4"} }), r(t3), w(), vx(2), v("last", "ca", "", 2), vx(0), vx(1)},
		// the root's notAfter inside the rotated certificate's validity
		{b(t0), r(t4), x("root0.pem"), e(t4, nil), vx(5), vx(6), vx(7), vx(1)},
		{b(t0), x("root0.pem"), e(t1, nil), vx(8), vx(9), v("junk", "x", "root0.pem", 2), v("missing", "x", "root0.pem", 2)},
		// wipeout and re-bootstrap: the new CA's root must not verify the old endorsement, the kept file must
		{b(t0), x("root0.pem"), e(t1, nil), w(), b(t2), x("root2.pem"), v("last", "x", "root2.pem", 2), v("last", "ca", "", 2), vx(2)},
		// dry run / measurement only / no image / no technology: nothing to verify
		{b(t0), x("root0.pem"), e(t1, func(en *ctEnd) { en.dry = true }), vx(2)},
		{b(t0), x("root0.pem"), e(t1, func(en *ctEnd) { en.mo = true }), vx(2)},
		{b(t0), x("root0.pem"), e(t1, func(en *ctEnd) { en.img = false }), vx(2), v("last", "ca", "", 2)},
		{b(t0), e(t1, func(en *ctEnd) { en.snp = false }), v("last", "ca", "", 2)},
		// endorse before any bootstrap, export without a root
		{x("root0.pem"), e(t1, nil), b(t0), vx(2), v("last", "ca", "", 2)},
		// sev validate / tdx validate on the written endorsement: listed, unlisted, a count / size without a row, outside the validity
		{b(t0), r(t1), x("root0.pem"), e(t2, nil), r(t3), vt("sev", 2, "listed", "x", 2), vt("sev", 2, "unlisted", "x", 2), vt("sev", 4, "listed", "x", 2), vt("sev", 2, "listed", "x", 0)},
		{b(t0), x("root0.pem"), e(t1, func(en *ctEnd) { en.vmsas = 0 }), vt("sev", 16, "listed", "ca", 1), vt("sev", 240, "listed", "x", 3), vt("sev", 3, "listed", "x", 2), vt("sev", 1, "listed", "foreign", 2)},
		{b(t0), x("root0.pem"), e(t1, func(en *ctEnd) {
			en.snp = false
			en.tdx = true
			en.shapes = []string{"c3-standard-4", "c3-standard-8"}
			en.early = true
		}),
			vt("tdx", 16, "listed", "x", 2), vt("tdx", 16, "unlisted", "x", 2), vt("tdx", 0, "listed", "x", 3), vt("tdx", 88, "listed", "x", 2)},
		{b(t0), x("root0.pem"), e(t1, func(en *ctEnd) { en.tdx = true }), w(), vt("tdx", 0, "listed", "x", 1), vt("sev", 2, "listed", "x", 4), vt("tdx", 0, "listed", "ca", 2), vt("sev", 2, "listed", "x", 2)},
		// bootstrap over a populated store (excluded by the tool-level theorems: CliCleanRun): --overwrite alone renews
		// everything; --overwrite --keep_going regenerates the keys but keeps the recorded signing certificate
		{b(t0), bf(t1, true, false), x("root0.pem"), e(t2, nil), vx(2)},
		{b(t0), bf(t1, true, true), x("root0.pem"), e(t2, nil), vx(2), v("last", "ca", "", 2)},
		// partial wipeouts
		{b(t0), x("root0.pem"), e(t1, nil), w("keys"), vx(2), v("last", "ca", "", 2)},
		{b(t0), x("root0.pem"), e(t1, nil), w("ca"), vx(2), v("last", "ca", "", 2)},
	}
}

// ctAttestation is replaced when the sev / tdx relying-party steps are generated (see c03_tools_att.go if present).
var ctAttestation = func(v *ctVer, golden *epb.VMGoldenMeasurement, endBytes []byte, now time.Time) ([]byte, bool) {
	return nil, false
}
var ctToolsEnabled = false

func runC03Tools(c *Ctx) {
	defer func(v bool) { cobra.EnableTraverseRunHooks = v }(cobra.EnableTraverseRunHooks)
	cobra.EnableTraverseRunHooks = false
	// --measurement_only prints the measurements with fmt.Printf
	if devnull, err := os.OpenFile(os.DevNull, os.O_WRONLY, 0); err == nil {
		defer func(f *os.File) { os.Stdout = f; devnull.Close() }(os.Stdout)
		os.Stdout = devnull
	}
	w := &ctWorld{seq: c12Sequential(), fw: c06Firmware(0x2000, 0x5a, true, true, 0)}
	// the foreign CA: a second, independent bootstrap in another directory
	{
		fs := ccNewStack(0, c.Seed+77, ccSite{"bkt", "certs", "root.crt"})
		r := fs.run(ccLine{sub: 'b', kd: 'd', ts: []string{"2024-09-01T00:00:00Z"}})
		b, err := os.ReadFile(filepath.Join(fs.dir, "store", "bkt", "root.crt"))
		os.RemoveAll(fs.dir)
		if r.err != nil || err != nil {
			panic(fmt.Sprint("foreign CA bootstrap failed: ", r.err, err))
		}
		w.foreignPEM = b
	}
	var hs [][]ctStep
	hs = append(hs, ctFixed()...)
	g := &ctGen{r: c.Rng}
	for i := 0; i < c.N(40, 400); i++ {
		hs = append(hs, g.history(ctToolsEnabled))
	}
	results := make([]ctResult, len(hs))
	var wg sync.WaitGroup
	nw := runtime.NumCPU()
	if nw > 8 {
		nw = 8
	}
	sem := make(chan struct{}, nw)
	for i := range hs {
		wg.Add(1)
		sem <- struct{}{}
		go func(i int) {
			defer wg.Done()
			defer func() { <-sem }()
			results[i] = ctRunHistory(w, hs[i], uint64(i)*13+c.Seed*1000003)
		}(i)
	}
	wg.Wait()
	for _, r := range results {
		c.Case(r.op, r.impl, r.nontriv)
		for _, k := range r.counts {
			c.Count(k)
		}
		for _, f := range r.finds {
			c.Find(f.sig, f.what, f.replay)
		}
	}
}
