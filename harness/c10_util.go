package main

// Shared plumbing of the C10 / C11 streams: fault-injecting decorators around the real key
// managers, signer, certificate authorities and storage clients, stack construction from
// snapshots, and a canonical rendering of the durable state.

import (
	"bytes"
	"context"
	"crypto/rsa"
	"crypto/x509"
	"encoding/pem"
	"errors"
	"fmt"
	"github.com/google/gce-tcb-verifier/cmd/output"
	"io"
	"math/big"
	"os"
	"path/filepath"
	"sort"
	"strings"

	"crypto"

	"github.com/google/gce-tcb-verifier/keys"
	cpb "github.com/google/gce-tcb-verifier/proto/certificates"
	"github.com/google/gce-tcb-verifier/rotate"
	"github.com/google/gce-tcb-verifier/sign/gcsca"
	"github.com/google/gce-tcb-verifier/sign/memca"
	"github.com/google/gce-tcb-verifier/sign/nonprod"
	sops "github.com/google/gce-tcb-verifier/sign/ops"
	styp "github.com/google/gce-tcb-verifier/sign/types"
	"github.com/google/gce-tcb-verifier/storage/local"
	"github.com/google/gce-tcb-verifier/storage/storagei"
	"github.com/google/gce-tcb-verifier/testing/nonprod/localkm"
	"github.com/google/gce-tcb-verifier/testing/nonprod/memkm"
	tstorage "github.com/google/gce-tcb-verifier/testing/storage"
	"google.golang.org/protobuf/encoding/prototext"
)

const (
	e1Bucket   = "b"
	e1RootPath = "root.crt"
	e1CertDir  = "certs"
	e1RootKey  = "root"
	e1FirstKey = "sk"
	e1RootCN   = "rootcn"
	e1SignCN   = "sigcn"
)

const (
	fOK    = 0
	fFail  = 1
	fCrash = 2
)

var errInjected = errors.New("verif: injected fault")

type crashSentinel struct{}

// faultCtl numbers the external calls of one run and decides each call's outcome from a script.
type faultCtl struct {
	script map[int]int
	pos    int
	log    []string
	// onDestroy is evaluated just before a DestroyKeyVersion is passed to the real manager.
	onDestroy func(name string)
}

func (f *faultCtl) enter(label string) int {
	o := f.script[f.pos]
	f.pos++
	switch o {
	case fFail:
		f.log = append(f.log, label+"!")
	case fCrash:
		f.log = append(f.log, label+"#")
	default:
		f.log = append(f.log, label)
	}
	return o
}

func (f *faultCtl) leave(o int) {
	if o == fCrash {
		panic(crashSentinel{})
	}
}

// ---- key manager decorator ----

type faultKM struct {
	inner keys.ManagerInterface
	f     *faultCtl
}

func (d *faultKM) CreateFirstSigningKey(ctx context.Context) (string, error) {
	return d.inner.CreateFirstSigningKey(ctx)
}
func (d *faultKM) CreateNewRootKey(ctx context.Context) (string, error) {
	return d.inner.CreateNewRootKey(ctx)
}
func (d *faultKM) CertificateTemplate(ctx context.Context, issuer *x509.Certificate, pub any) (*x509.Certificate, error) {
	return d.inner.CertificateTemplate(ctx, issuer, pub)
}
func (d *faultKM) Wipeout(ctx context.Context) error { return d.inner.Wipeout(ctx) }
func (d *faultKM) CreateNewSigningKeyVersion(ctx context.Context) (string, error) {
	o := d.f.enter("km.create")
	if o == fFail {
		return "", errInjected
	}
	r, err := d.inner.CreateNewSigningKeyVersion(ctx)
	d.f.leave(o)
	return r, err
}
func (d *faultKM) DestroyKeyVersion(ctx context.Context, name string) error {
	o := d.f.enter("km.destroy." + name)
	if o == fFail {
		return errInjected
	}
	if d.f.onDestroy != nil {
		d.f.onDestroy(name)
	}
	err := d.inner.DestroyKeyVersion(ctx, name)
	d.f.leave(o)
	return err
}

// ---- signer decorator ----

type faultSigner struct {
	inner styp.Signer
	f     *faultCtl
}

func (d *faultSigner) Sign(ctx context.Context, name string, digest styp.Digest, opts crypto.SignerOpts) ([]byte, error) {
	o := d.f.enter("sg.sign." + name)
	if o == fFail {
		return nil, errInjected
	}
	r, err := d.inner.Sign(ctx, name, digest, opts)
	d.f.leave(o)
	return r, err
}
func (d *faultSigner) PublicKey(ctx context.Context, name string) ([]byte, error) {
	o := d.f.enter("sg.pub." + name)
	if o == fFail {
		return nil, errInjected
	}
	r, err := d.inner.PublicKey(ctx, name)
	d.f.leave(o)
	return r, err
}

// ---- certificate authority decorator ----

type faultCA struct {
	inner styp.CertificateAuthority
	f     *faultCtl
}

func (d *faultCA) Certificate(ctx context.Context, name string) ([]byte, error) {
	o := d.f.enter("ca.cert." + name)
	if o == fFail {
		return nil, errInjected
	}
	r, err := d.inner.Certificate(ctx, name)
	d.f.leave(o)
	return r, err
}
func (d *faultCA) CABundle(ctx context.Context, name string) ([]byte, error) {
	o := d.f.enter("ca.bundle")
	if o == fFail {
		return nil, errInjected
	}
	r, err := d.inner.CABundle(ctx, name)
	d.f.leave(o)
	return r, err
}
func (d *faultCA) PrimaryRootKeyVersion(ctx context.Context) (string, error) {
	o := d.f.enter("ca.prk")
	if o == fFail {
		return "", errInjected
	}
	r, err := d.inner.PrimaryRootKeyVersion(ctx)
	d.f.leave(o)
	return r, err
}
func (d *faultCA) PrimarySigningKeyVersion(ctx context.Context) (string, error) {
	o := d.f.enter("ca.psk")
	if o == fFail {
		return "", errInjected
	}
	r, err := d.inner.PrimarySigningKeyVersion(ctx)
	d.f.leave(o)
	return r, err
}
func (d *faultCA) NewMutation() styp.CertificateAuthorityMutation { return d.inner.NewMutation() }
func (d *faultCA) Finalize(ctx context.Context, m styp.CertificateAuthorityMutation) error {
	o := d.f.enter("ca.fin")
	if o == fFail {
		return errInjected
	}
	err := d.inner.Finalize(ctx, m)
	d.f.leave(o)
	return err
}
func (d *faultCA) PrepareResources(ctx context.Context) error { return d.inner.PrepareResources(ctx) }
func (d *faultCA) Wipeout(ctx context.Context) error          { return d.inner.Wipeout(ctx) }

// ---- storage decorator ----
// Writes are object-granular: the object changes when Close of its writer completes (the real
// client underneath then receives Writer+Write+Close at once). A failed Write abandons the object.

type faultStore struct {
	inner storagei.Client
	f     *faultCtl
	rec   *[]string // when non-nil: object-level record "e:<obj>" / "w:<obj>" (C11)
	onW   func(obj string, data []byte)
}

type faultWriter struct {
	s      *faultStore
	ctx    context.Context
	bucket string
	obj    string
	buf    bytes.Buffer
	broken bool
}

func (w *faultWriter) Write(b []byte) (int, error) {
	o := w.s.f.enter("st.wr." + w.obj)
	if o == fFail {
		w.broken = true
		return 0, errInjected
	}
	w.buf.Write(b)
	w.s.f.leave(o)
	return len(b), nil
}

func (w *faultWriter) Close() error {
	o := w.s.f.enter("st.c." + w.obj)
	if o == fFail {
		return errInjected
	}
	var err error
	if !w.broken {
		err = w.s.commit(w.ctx, w.bucket, w.obj, w.buf.Bytes())
	}
	w.s.f.leave(o)
	return err
}

func (s *faultStore) commit(ctx context.Context, bucket, obj string, data []byte) error {
	iw, err := s.inner.Writer(ctx, bucket, obj)
	if err != nil {
		return err
	}
	n, err := iw.Write(data)
	if err != nil || n != len(data) {
		iw.Close()
		return fmt.Errorf("inner write failed: %v", err)
	}
	if err := iw.Close(); err != nil {
		return err
	}
	if s.rec != nil {
		*s.rec = append(*s.rec, "w:"+obj)
	}
	if s.onW != nil {
		s.onW(obj, append([]byte(nil), data...))
	}
	return nil
}

func (s *faultStore) Reader(ctx context.Context, bucket, obj string) (io.ReadCloser, error) {
	o := s.f.enter("st.r." + obj)
	if o == fFail {
		return nil, errInjected
	}
	r, err := s.inner.Reader(ctx, bucket, obj)
	s.f.leave(o)
	return r, err
}
func (s *faultStore) Exists(ctx context.Context, bucket, obj string) (bool, error) {
	o := s.f.enter("st.e." + obj)
	if o == fFail {
		return false, errInjected
	}
	r, err := s.inner.Exists(ctx, bucket, obj)
	if s.rec != nil {
		*s.rec = append(*s.rec, "e:"+obj)
	}
	s.f.leave(o)
	return r, err
}
func (s *faultStore) Writer(ctx context.Context, bucket, obj string) (io.WriteCloser, error) {
	o := s.f.enter("st.w." + obj)
	if o == fFail {
		return nil, errInjected
	}
	w := &faultWriter{s: s, ctx: ctx, bucket: bucket, obj: obj}
	s.f.leave(o)
	return w, nil
}
func (s *faultStore) IsNotExists(err error) bool { return s.inner.IsNotExists(err) }
func (s *faultStore) EnsureBucketExists(ctx context.Context, bucket string) error {
	return s.inner.EnsureBucketExists(ctx, bucket)
}
func (s *faultStore) Wipeout(ctx context.Context, bucket string) error {
	return s.inner.Wipeout(ctx, bucket)
}

// ---- stacks ----

// e1Snap is the durable state of one stack: live private keys, stored objects (gcsca) or the
// in-memory authority's contents (memca).
type e1Snap struct {
	keys    map[string]*rsa.PrivateKey
	objs    map[string][]byte
	memCert map[string]*x509.Certificate
	memRoot string
	memPrim string
}

type e1Inst struct {
	keepGoing bool   // run the commands with --keep_going (C11: same writes expected on fault-free runs)
	km, ca    string // km: memkm|localkm ; ca: memca|gcsmem|gcslocal
	signer    *nonprod.Signer
	mgr       keys.ManagerInterface
	mem       *memca.CertificateAuthority
	store     storagei.Client
	mock      *tstorage.Mock
	dir       string // scratch root (key dir and bucket root live below it)
	f         *faultCtl
	rng       *Rng
	rec       *[]string
	onW       func(obj string, data []byte)
	lastGcs   *gcsca.CertificateAuthority
	// expectKey is the key version the next rotation is expected to certify (C11 bookkeeping)
	expectKey string
}

func memkmBump(name string) string { return memkm.BumpName(name) }

func (in *e1Inst) keyDir() string     { return filepath.Join(in.dir, "keys") }
func (in *e1Inst) bucketRoot() string { return filepath.Join(in.dir, "bkt") }

func marshalKeyPEM(k *rsa.PrivateKey) []byte {
	der, err := x509.MarshalPKCS8PrivateKey(k)
	if err != nil {
		panic(err)
	}
	return pem.EncodeToMemory(&pem.Block{Type: "PRIVATE KEY", Bytes: der})
}

// newInst materialises a snapshot as live objects of the given stack. dir is a fresh scratch
// directory owned by the instance (only used by localkm / gcslocal).
func newInst(km, ca string, snap *e1Snap, dir string, rng *Rng) *e1Inst {
	in := &e1Inst{km: km, ca: ca, dir: dir, f: &faultCtl{script: map[int]int{}}, rng: rng}
	in.signer = &nonprod.Signer{Rand: rng, Keys: map[string]*rsa.PrivateKey{}}
	switch km {
	case "memkm":
		for n, k := range snap.keys {
			in.signer.Keys[n] = k
		}
		in.mgr = &memkm.T{Signer: in.signer, RootKeyName: e1RootKey, PrimarySigningKeyName: e1FirstKey}
	case "localkm":
		must(os.MkdirAll(in.keyDir(), 0755))
		for n, k := range snap.keys {
			must(os.WriteFile(filepath.Join(in.keyDir(), n+".pem"), marshalKeyPEM(k), 0600))
		}
		in.reloadKM()
	}
	switch ca {
	case "memca":
		in.mem = memca.Create()
		for n, c := range snap.memCert {
			in.mem.Certs[n] = c
		}
		in.mem.RootName, in.mem.PrimarySigningKey = snap.memRoot, snap.memPrim
	case "gcsmem":
		cp := map[string][]byte{}
		for n, b := range snap.objs {
			cp[n] = append([]byte(nil), b...)
		}
		in.mock = tstorage.WithInitialContents(cp, e1Bucket)
		in.store = in.mock
	case "gcslocal":
		must(os.MkdirAll(filepath.Join(in.bucketRoot(), e1Bucket), 0755))
		for n, b := range snap.objs {
			p := filepath.Join(in.bucketRoot(), e1Bucket, n)
			must(os.MkdirAll(filepath.Dir(p), 0755))
			must(os.WriteFile(p, b, 0644))
		}
		in.store = &local.StorageClient{Root: in.bucketRoot()}
	}
	return in
}

func must(err error) {
	if err != nil {
		panic(err)
	}
}

// reloadKM rebuilds the key manager from its durable state (localkm: the key directory through
// the real Init; memkm: the signer object plays the role of the external key service and stays).
func (in *e1Inst) reloadKM() {
	if in.km != "localkm" {
		return
	}
	in.signer = &nonprod.Signer{Rand: in.rng, Keys: map[string]*rsa.PrivateKey{}}
	m := &localkm.T{T: memkm.T{Signer: in.signer, RootKeyName: e1RootKey, PrimarySigningKeyName: e1FirstKey}, KeyDir: in.keyDir()}
	must(m.Init(context.Background()))
	in.mgr = m
}

// freshCA returns a new authority instance over the same durable state (no cached manifest),
// undecorated when f is nil.
func (in *e1Inst) freshCA(f *faultCtl) styp.CertificateAuthority {
	if in.ca == "memca" {
		if f == nil {
			return in.mem
		}
		return &faultCA{inner: in.mem, f: f}
	}
	var st storagei.Client = in.store
	if f != nil {
		st = &faultStore{inner: in.store, f: f, rec: in.rec, onW: in.onW}
	}
	g := &gcsca.CertificateAuthority{RootPath: e1RootPath, PrivateBucket: e1Bucket, SigningCertDirInGCS: e1CertDir, Storage: st}
	in.lastGcs = g
	if f == nil {
		return g
	}
	return &faultCA{inner: g, f: f}
}

// ctx builds the keys.Context of one operation with decorated components driven by a new fault
// controller carrying the given script.
func (in *e1Inst) ctx(overwrite bool, script map[int]int) context.Context {
	in.f = &faultCtl{script: script}
	c := &keys.Context{
		CA:      in.freshCA(in.f),
		Signer:  &faultSigner{inner: in.signer, f: in.f},
		Random:  in.rng,
		Manager: &faultKM{inner: in.mgr, f: in.f},
	}
	if in.keepGoing {
		// --keep_going: recoverable errors are tolerated; a fault-free run must write exactly what it writes without the flag
		return keys.NewContext(output.NewContext(context.Background(), &output.Options{Quiet: true, Overwrite: overwrite, KeepGoing: true,
			Out: io.Discard, Err: io.Discard}), c)
	}
	return keys.NewContext(quietCtx(overwrite), c)
}

// nextSerial is the serial number the rotate command would choose by default: the repository's own
// sops.NextSigningKeySerial over a fresh, undecorated authority.
func (in *e1Inst) nextSerial() int64 {
	ctx := keys.NewContext(quietCtx(false), &keys.Context{CA: in.freshCA(nil)})
	z, err := sops.NextSigningKeySerial(ctx)
	if err != nil {
		return 999 // no readable primary certificate: an arbitrary fresh number
	}
	return z.Int64()
}

func rotateCtx(ctx context.Context, cn string, serial int64) context.Context {
	return rotate.NewSigningKeyContext(ctx, &rotate.SigningKeyContext{SigningKeyCommonName: cn,
		SigningKeySerial: big.NewInt(serial), Now: baseTime})
}

func bootstrapCtx(ctx context.Context) context.Context {
	return rotate.NewBootstrapContext(ctx, &rotate.BootstrapContext{RootKeyCommonName: e1RootCN,
		RootKeySerial: big.NewInt(1), SigningKeyCommonName: e1SignCN, SigningKeySerial: big.NewInt(2), Now: baseTime})
}

// runGuarded runs op; a crash injected by a decorator unwinds to here.
func runGuarded(op func() error) (res string, err error) {
	defer func() {
		if r := recover(); r != nil {
			if _, ok := r.(crashSentinel); ok {
				res = "crash"
				return
			}
			panic(r)
		}
	}()
	if err = op(); err != nil {
		return "err", err
	}
	return "ok", nil
}

// objects returns the stored objects of a gcsca stack.
func (in *e1Inst) objects() map[string][]byte {
	out := map[string][]byte{}
	switch in.ca {
	case "gcsmem":
		for n, r := range in.mock.BucketObjects[e1Bucket] {
			if r != nil && r.Cell != nil {
				out[n] = append([]byte(nil), r.Cell.Data...)
			}
		}
	case "gcslocal":
		root := filepath.Join(in.bucketRoot(), e1Bucket)
		filepath.Walk(root, func(p string, fi os.FileInfo, err error) error {
			if err == nil && !fi.IsDir() {
				rel, _ := filepath.Rel(root, p)
				b, _ := os.ReadFile(p)
				out[filepath.ToSlash(rel)] = b
			}
			return nil
		})
	}
	return out
}

// snapshot captures the durable state (after reloading the key manager from its durable state).
func (in *e1Inst) snapshot() *e1Snap {
	in.reloadKM()
	s := &e1Snap{keys: map[string]*rsa.PrivateKey{}, objs: in.objects()}
	for n, k := range in.signer.Keys {
		s.keys[n] = k
	}
	if in.mem != nil {
		s.memCert = map[string]*x509.Certificate{}
		for n, c := range in.mem.Certs {
			s.memCert[n] = c
		}
		s.memRoot, s.memPrim = in.mem.RootName, in.mem.PrimarySigningKey
	}
	return s
}

func parseManifest(b []byte) (*cpb.GCECertificateManifest, bool) {
	m := &cpb.GCECertificateManifest{}
	if err := prototext.Unmarshal(b, m); err != nil {
		return nil, false
	}
	return m, true
}

func parsePEMCert(b []byte) *x509.Certificate {
	blk, rest := pem.Decode(b)
	if blk == nil || len(bytes.TrimSpace(rest)) != 0 || blk.Type != "CERTIFICATE" {
		return nil
	}
	c, err := x509.ParseCertificate(blk.Bytes)
	if err != nil {
		return nil
	}
	return c
}

// renderState prints the durable state canonically:
//
//	live=<sorted key names> man=<root>|<primary>|<kvn>path,...> objs=<path~kind~subject~chains,...>
//
// kind: d = parses as DER certificate, p = parses as PEM certificate, x = neither;
// subject = name of the live key whose public key the certificate carries ("-" if none);
// chains = 1 iff the certificate's signature verifies under the stored root certificate.
func renderState(s *e1Snap, memca bool) string {
	var live []string
	for n := range s.keys {
		live = append(live, n)
	}
	sort.Strings(live)
	subject := func(c *x509.Certificate) string {
		pk, ok := c.PublicKey.(*rsa.PublicKey)
		if !ok {
			return "-"
		}
		for _, n := range live {
			if s.keys[n].PublicKey.Equal(pk) {
				return n
			}
		}
		return "-"
	}
	var root *x509.Certificate
	var man string
	var objs []string
	if memca {
		root = s.memCert[s.memRoot]
		var names []string
		for n := range s.memCert {
			names = append(names, n)
		}
		sort.Strings(names)
		var ents []string
		for _, n := range names {
			ents = append(ents, n+">"+n)
			c := s.memCert[n]
			objs = append(objs, n+"~d~"+subject(c)+"~"+b2s(root != nil && c.CheckSignatureFrom(root) == nil))
		}
		man = s.memRoot + "|" + s.memPrim + "|" + strings.Join(ents, ",")
	} else {
		root = parsePEMCert(s.objs[e1RootPath])
		man = "none"
		if mb, ok := s.objs[gcsca.ManifestObjectName]; ok {
			if m, ok := parseManifest(mb); ok {
				var ents []string
				for _, e := range m.GetEntries() {
					ents = append(ents, e.GetKeyVersionName()+">"+e.GetObjectPath())
				}
				man = m.GetPrimaryRootKeyVersionName() + "|" + m.GetPrimarySigningKeyVersionName() + "|" + strings.Join(ents, ",")
			} else {
				man = "bad"
			}
		}
		var names []string
		for n := range s.objs {
			if n != gcsca.ManifestObjectName {
				names = append(names, n)
			}
		}
		sort.Strings(names)
		for _, n := range names {
			b := s.objs[n]
			if c, err := x509.ParseCertificate(b); err == nil {
				objs = append(objs, n+"~d~"+subject(c)+"~"+b2s(root != nil && c.CheckSignatureFrom(root) == nil))
			} else if c := parsePEMCert(b); c != nil {
				objs = append(objs, n+"~p~"+subject(c)+"~"+b2s(root != nil && c.CheckSignatureFrom(root) == nil))
			} else {
				objs = append(objs, n+"~x~-~0")
			}
		}
	}
	return "live=" + strings.Join(live, ",") + " man=" + man + " objs=" + strings.Join(objs, ",")
}

func scriptString(script map[int]int) string {
	if len(script) == 0 {
		return "-"
	}
	var ks []int
	for k := range script {
		ks = append(ks, k)
	}
	sort.Ints(ks)
	var parts []string
	for _, k := range ks {
		parts = append(parts, fmt.Sprintf("%d%s", k, map[int]string{fFail: "f", fCrash: "c"}[script[k]]))
	}
	return strings.Join(parts, ",")
}
