package main

import (
	"context"
	"encoding/pem"
	"fmt"
	"strings"

	"github.com/google/gce-tcb-verifier/gcetcbendorsement"
	epb "github.com/google/gce-tcb-verifier/proto/endorsement"
	cpb "github.com/google/go-sev-guest/proto/check"
	tcpb "github.com/google/go-tdx-guest/proto/checkconfig"
	"google.golang.org/protobuf/proto"
	"google.golang.org/protobuf/reflect/protoreflect"
)

func init() {
	register("c17", "SevPolicy/TdxPolicy on generated (base policy, endorsement, options): base nil or with every modelled field "+
		"independently unset / agreeing / conflicting and all other fields filled by reflection; endorsements with every "+
		"subset shape of the measurement table and CA bundles of 0-3 PEM blocks incl. wrong types and trailing garbage. "+
		"Non-trivial: a base policy is present and the golden has the technology section; distinct by op line.", runC17)
}

// randFill sets every field of m not listed in skip to a random value with probability 1/2.
func randFill(r *Rng, m protoreflect.Message, skip map[string]bool, depth int) {
	fds := m.Descriptor().Fields()
	for i := 0; i < fds.Len(); i++ {
		fd := fds.Get(i)
		if skip[string(fd.Name())] || r.Intn(2) == 0 {
			continue
		}
		if fd.IsList() {
			l := m.Mutable(fd).List()
			for k := r.Intn(3); k > 0; k-- {
				if v, ok := randScalar(r, fd); ok {
					l.Append(v)
				} else if fd.Message() != nil && depth > 0 {
					e := l.NewElement()
					randFill(r, e.Message(), nil, depth-1)
					l.Append(e)
				}
			}
			continue
		}
		if fd.IsMap() {
			continue
		}
		if fd.Message() != nil {
			if depth > 0 {
				randFill(r, m.Mutable(fd).Message(), skip, depth-1)
			}
			continue
		}
		if v, ok := randScalar(r, fd); ok {
			m.Set(fd, v)
		}
	}
}

func randScalar(r *Rng, fd protoreflect.FieldDescriptor) (protoreflect.Value, bool) {
	switch fd.Kind() {
	case protoreflect.BoolKind:
		return protoreflect.ValueOfBool(true), true
	case protoreflect.Uint32Kind, protoreflect.Fixed32Kind:
		return protoreflect.ValueOfUint32(uint32(1 + r.Intn(7))), true
	case protoreflect.Uint64Kind, protoreflect.Fixed64Kind:
		return protoreflect.ValueOfUint64(uint64(1 + r.Intn(7))), true
	case protoreflect.Int32Kind, protoreflect.Sint32Kind, protoreflect.Sfixed32Kind:
		return protoreflect.ValueOfInt32(int32(1 + r.Intn(7))), true
	case protoreflect.Int64Kind, protoreflect.Sint64Kind, protoreflect.Sfixed64Kind:
		return protoreflect.ValueOfInt64(int64(1 + r.Intn(7))), true
	case protoreflect.StringKind:
		return protoreflect.ValueOfString(fmt.Sprintf("%d.%d", r.Intn(3), r.Intn(9))), true
	case protoreflect.BytesKind:
		return protoreflect.ValueOfBytes(r.Bytes(1 + r.Intn(8))), true
	case protoreflect.EnumKind:
		vs := fd.Enum().Values()
		return protoreflect.ValueOfEnum(vs.Get(r.Intn(vs.Len())).Number()), true
	}
	return protoreflect.Value{}, false
}

// measPool gives a few fixed 48-byte values so that agreement between base and endorsement happens.
func measPool(i int) []byte {
	b := make([]byte, 48)
	for k := range b {
		b[k] = byte(i*17 + k)
	}
	return b
}

func hexList(l [][]byte) string {
	var p []string
	for _, b := range l {
		p = append(p, hx(b))
	}
	return strings.Join(p, ",")
}

type genSev struct {
	snp  *epb.VMSevSnp
	line string
}

func sevLine(s *epb.VMSevSnp) string {
	if s == nil {
		return "none"
	}
	var ms []string
	for _, k := range sortedKeys(s.Measurements) {
		ms = append(ms, fmt.Sprintf("%d-%s", k, hx(s.Measurements[k])))
	}
	return fmt.Sprintf("%d/%d/%s/%s/%s", s.Policy, s.Svn, strings.Join(ms, ","), hx(s.SvsmMeasurement), hx(s.CaBundle))
}

func sortedKeys(m map[uint32][]byte) []uint32 {
	var ks []uint32
	for k := range m {
		ks = append(ks, k)
	}
	for i := range ks {
		for j := i + 1; j < len(ks); j++ {
			if ks[j] < ks[i] {
				ks[i], ks[j] = ks[j], ks[i]
			}
		}
	}
	return ks
}

// pemFacts returns the decode facts (input/type/bytes/rest) the model needs for a bundle: the
// decoding of the bundle and of the remainder after the first block, computed with encoding/pem.
func pemFacts(bundle []byte) string {
	var facts []string
	in := bundle
	for i := 0; i < 2 && len(in) > 0; i++ {
		blk, rest := pem.Decode(in)
		if blk == nil {
			break
		}
		facts = append(facts, fmt.Sprintf("%s/%s/%s/%s", hx(in), tok(blk.Type), hx(blk.Bytes), hx(rest)))
		in = rest
	}
	return strings.Join(facts, ";")
}

func genBundle(r *Rng) []byte {
	blk := func(t string) []byte {
		return pem.EncodeToMemory(&pem.Block{Type: t, Bytes: r.Bytes(4 + r.Intn(6))})
	}
	switch r.Intn(16) {
	case 0, 1, 10, 11:
		return nil
	case 2, 3, 12, 13:
		return blk("CERTIFICATE")
	case 4, 5, 14, 15:
		return append(blk("CERTIFICATE"), blk("CERTIFICATE")...)
	case 6:
		return append(append(blk("CERTIFICATE"), blk("CERTIFICATE")...), blk("CERTIFICATE")...)
	case 7:
		return blk("PUBLIC_KEY")
	case 8:
		return append(blk("CERTIFICATE"), blk("PUBLIC_KEY")...)
	default:
		if r.Bool() {
			return append(blk("CERTIFICATE"), []byte("trailing garbage")...)
		}
		return []byte("not pem at all")
	}
}

func genSevSnp(r *Rng) *epb.VMSevSnp {
	s := &epb.VMSevSnp{}
	s.Policy = []uint64{0, 0x30000, 0x70000, 0x70000}[r.Intn(4)]
	s.Svn = uint32([]int{0, 1, 5}[r.Intn(3)])
	if r.Intn(8) != 0 {
		s.Measurements = map[uint32][]byte{}
		for _, n := range []uint32{1, 4, 8, 16} {
			if r.Bool() {
				s.Measurements[n] = measPool(r.Intn(4))
			}
		}
		if len(s.Measurements) == 0 {
			s.Measurements = nil
		}
	}
	if r.Intn(3) == 0 {
		s.SvsmMeasurement = measPool(r.Intn(5))
	}
	s.CaBundle = genBundle(r)
	return s
}

var sevModelled = map[string]bool{"policy": true, "measurement": true, "minimum_guest_svn": true,
	"trusted_id_keys": true, "trusted_author_keys": true, "trusted_id_key_hashes": true, "trusted_author_key_hashes": true}

func sevPolicyLine(p *cpb.Policy) string {
	if p == nil {
		return "none"
	}
	return fmt.Sprintf("%d/%s/%d/%s/%s", p.Policy, hx(p.Measurement), p.MinimumGuestSvn, hexList(p.TrustedIdKeys), hexList(p.TrustedAuthorKeys))
}

func clearSevModelled(p *cpb.Policy) *cpb.Policy {
	q := proto.Clone(p).(*cpb.Policy)
	q.Policy, q.Measurement, q.TrustedIdKeys, q.TrustedAuthorKeys = 0, nil, nil, nil
	return q
}

func isPrefix(a, b [][]byte) bool {
	if len(a) > len(b) {
		return false
	}
	for i := range a {
		if string(a[i]) != string(b[i]) {
			return false
		}
	}
	return true
}

func runC17(c *Ctx) {
	ctx := quietCtx(false)
	r := c.Rng
	n := c.N(6000, 150000)
	// The default guest policy SevPolicy uses without a base, observed from the implementation
	// (overwrite keeps a non-zero existing policy; the endorsement below carries policy 0).
	dfltPolicy := uint64(0)
	{
		gb, _ := proto.Marshal(&epb.VMGoldenMeasurement{SevSnp: &epb.VMSevSnp{}})
		if p, err := gcetcbendorsement.SevPolicy(ctx, &epb.VMLaunchEndorsement{SerializedUefiGolden: gb},
			&gcetcbendorsement.SevPolicyOptions{Overwrite: true, AllowUnspecifiedVmsas: true}); err == nil {
			dfltPolicy = p.Policy
		}
	}
	c.Extra["default_guest_policy"] = dfltPolicy
	for i := 0; i < n; i++ {
		// ---------- SEV ----------
		var golden *epb.VMGoldenMeasurement
		var snp *epb.VMSevSnp
		switch r.Intn(12) {
		case 0:
			golden = &epb.VMGoldenMeasurement{Digest: r.Bytes(4)} // no sev_snp
		default:
			snp = genSevSnp(r)
			golden = &epb.VMGoldenMeasurement{SevSnp: snp}
		}
		gb, _ := proto.Marshal(golden)
		end := &epb.VMLaunchEndorsement{SerializedUefiGolden: gb}
		var base *cpb.Policy
		if r.Intn(5) != 0 {
			base = &cpb.Policy{}
			randFill(r, base.ProtoReflect(), sevModelled, 1)
			if snp != nil {
				base.Policy = []uint64{0, snp.Policy, snp.Policy, snp.Policy, 0x30000}[r.Intn(5)]
			}
			switch r.Intn(6) {
			case 1:
				base.Measurement = measPool(r.Intn(4))
			case 2, 3:
				if snp != nil {
					for _, k := range sortedKeys(snp.Measurements) {
						base.Measurement = snp.Measurements[k]
						if r.Bool() {
							break
						}
					}
				}
			}
			base.MinimumGuestSvn = uint32([]int{0, 0, 1, 5, 6}[r.Intn(5)])
			for k := r.Intn(3); k > 0; k-- {
				base.TrustedIdKeys = append(base.TrustedIdKeys, r.Bytes(3))
			}
			for k := r.Intn(2); k > 0; k-- {
				base.TrustedAuthorKeys = append(base.TrustedAuthorKeys, r.Bytes(3))
			}
		}
		opts := &gcetcbendorsement.SevPolicyOptions{Base: base, Overwrite: r.Intn(3) == 0,
			LaunchVmsas: uint32([]int{0, 0, 1, 4, 8, 16, 32}[r.Intn(7)]), AllowUnspecifiedVmsas: r.Intn(5) != 0}
		if snp != nil && len(snp.Measurements) > 0 && r.Bool() {
			ks := sortedKeys(snp.Measurements)
			opts.LaunchVmsas = ks[r.Intn(len(ks))]
		}
		var snapshot *cpb.Policy
		if base != nil {
			snapshot = proto.Clone(base).(*cpb.Policy)
		}
		var res *cpb.Policy
		var err error
		pan, msg, _ := Guard(func() { res, err = gcetcbendorsement.SevPolicy(ctx, end, opts) })
		op := fmt.Sprintf("c17 op=sev dflt=%d base=%s e=%s pem=%s vmsas=%d ow=%s allow=%s", dfltPolicy, sevPolicyLine(base), sevLine(snp),
			pemFacts(snp.GetCaBundle()), opts.LaunchVmsas, b2s(opts.Overwrite), b2s(opts.AllowUnspecifiedVmsas))
		impl := "reject"
		if pan {
			impl = "panic"
			c.Find("c17/SevPolicy/panic", "SevPolicy panicked: "+msg, op)
		} else if err == nil {
			impl = fmt.Sprintf("ok policy=%d meas=%s minsvn=%d id=%s auth=%s", res.Policy, hx(res.Measurement), res.MinimumGuestSvn,
				hexList(res.TrustedIdKeys), hexList(res.TrustedAuthorKeys))
		}
		c.Case(op, impl, base != nil && snp != nil)
		if err == nil {
			c.Count("sev/ok")
		} else {
			c.Count("sev/reject")
		}
		// direct oracle
		if base != nil && !proto.Equal(base, snapshot) {
			c.Find("c17/SevPolicy/base-mutated", "SevPolicy changed the caller's base policy", op)
		}
		if err == nil && !pan {
			eff := base
			if eff == nil {
				eff = &cpb.Policy{MinimumVersion: "0.0", Policy: dfltPolicy}
			} else if res == base {
				c.Find("c17/SevPolicy/aliased", "SevPolicy returned the base policy object itself", op)
			}
			if !proto.Equal(clearSevModelled(res), clearSevModelled(eff)) {
				c.Find("c17/SevPolicy/rest-changed", "a base field unrelated to the endorsement changed", op)
			}
			if !opts.Overwrite && base != nil {
				if base.Policy != 0 && res.Policy != base.Policy {
					c.Find("c17/SevPolicy/weaken-policy", "guest policy bits replaced without overwrite", op)
				}
				if len(base.Measurement) != 0 && string(res.Measurement) != string(base.Measurement) {
					c.Find("c17/SevPolicy/weaken-measurement", "measurement replaced without overwrite", op)
				}
				if base.MinimumGuestSvn != 0 && snp.Svn < base.MinimumGuestSvn {
					c.Find("c17/SevPolicy/weaken-svn", "endorsed SVN below the base minimum accepted without overwrite", op)
				}
			}
			if !isPrefix(eff.TrustedIdKeys, res.TrustedIdKeys) || !isPrefix(eff.TrustedAuthorKeys, res.TrustedAuthorKeys) {
				c.Find("c17/SevPolicy/keys-dropped", "trusted key list lost an entry", op)
			}
			if opts.LaunchVmsas != 0 && string(res.Measurement) != string(snp.Measurements[opts.LaunchVmsas]) {
				c.Find("c17/SevPolicy/measurement-not-endorsed", "result measurement is not the endorsement's for the named count", op)
			}
			if (!opts.Overwrite || eff.Policy == 0) && res.Policy != snp.Policy {
				c.Find("c17/SevPolicy/policy-not-endorsed", "result guest policy is not the endorsement's", op)
			}
			// bundle strictness, decoded independently
			var blocks []*pem.Block
			in := snp.CaBundle
			for len(in) > 0 {
				b, rest := pem.Decode(in)
				if b == nil {
					blocks = append(blocks, &pem.Block{Type: "<garbage>"})
					break
				}
				blocks = append(blocks, b)
				in = rest
			}
			bad := len(blocks) > 2
			for _, b := range blocks {
				if b.Type != "CERTIFICATE" {
					bad = true
				}
			}
			if bad {
				c.Find("c17/SevPolicy/bundle-lax", "a CA bundle that is not 1 or 2 CERTIFICATE blocks was accepted", op)
			} else {
				wantID, wantAuth := eff.TrustedIdKeys, eff.TrustedAuthorKeys
				if len(blocks) >= 1 {
					wantID = append(append([][]byte{}, wantID...), blocks[0].Bytes)
				}
				if len(blocks) == 2 {
					wantAuth = append(append([][]byte{}, wantAuth...), blocks[1].Bytes)
				}
				if hexList(wantID) != hexList(res.TrustedIdKeys) || hexList(wantAuth) != hexList(res.TrustedAuthorKeys) {
					c.Find("c17/SevPolicy/keys-not-endorsed", "trusted keys appended are not exactly the bundle's blocks", op)
				}
			}
		}

		// ---------- TDX ----------
		runC17Tdx(c, ctx, r)
	}
}

func genRows(r *Rng) []*epb.VMTdx_Measurement {
	var rows []*epb.VMTdx_Measurement
	for k := r.Intn(5); k > 0; k-- {
		m := measPool(r.Intn(6))
		switch r.Intn(24) {
		case 0:
			m = nil
		case 1:
			m = m[:47]
		}
		rows = append(rows, &epb.VMTdx_Measurement{RamGib: uint32([]int{0, 16, 16, 32, 64}[r.Intn(5)]), EarlyAccept: r.Bool(), Mrtd: m})
	}
	return rows
}

func rowsLine(t *epb.VMTdx) string {
	if t == nil {
		return "none"
	}
	var p []string
	for _, m := range t.Measurements {
		p = append(p, fmt.Sprintf("%d-%s-%s", m.RamGib, b2s(m.EarlyAccept), hx(m.Mrtd)))
	}
	return strings.Join(p, ";")
}

func tdxBaseLine(b *tcpb.Policy) string {
	if b == nil {
		return "none"
	}
	if b.TdQuoteBodyPolicy == nil {
		return "nobody"
	}
	return "body/" + hexList(b.TdQuoteBodyPolicy.AnyMrTd)
}

func runC17Tdx(c *Ctx, ctx context.Context, r *Rng) {
	var tdx *epb.VMTdx
	golden := &epb.VMGoldenMeasurement{}
	if r.Intn(12) != 0 {
		tdx = &epb.VMTdx{Svn: 1, Measurements: genRows(r)}
		golden.Tdx = tdx
	}
	gb, _ := proto.Marshal(golden)
	end := &epb.VMLaunchEndorsement{SerializedUefiGolden: gb}
	var base *tcpb.Policy
	if r.Intn(4) != 0 {
		base = &tcpb.Policy{}
		randFill(r, base.ProtoReflect(), map[string]bool{"any_mr_td": true}, 2)
		if base.TdQuoteBodyPolicy != nil && r.Intn(3) == 0 {
			for k := 1 + r.Intn(2); k > 0; k-- {
				base.TdQuoteBodyPolicy.AnyMrTd = append(base.TdQuoteBodyPolicy.AnyMrTd, measPool(r.Intn(6)))
			}
		}
	}
	ram := []int{0, 0, 16, 32, 64, 128, -1, 1<<32 + 16}[r.Intn(8)]
	if ms := tdx.GetMeasurements(); len(ms) > 0 && r.Bool() {
		ram = int(ms[r.Intn(len(ms))].RamGib)
	}
	opts := &gcetcbendorsement.TdxPolicyOptions{Base: base, RAMGiB: ram, Overwrite: r.Intn(3) == 0}
	var snapshot *tcpb.Policy
	if base != nil {
		snapshot = proto.Clone(base).(*tcpb.Policy)
	}
	var res *tcpb.Policy
	var err error
	pan, msg, _ := Guard(func() { res, err = gcetcbendorsement.TdxPolicy(ctx, end, opts) })
	op := fmt.Sprintf("c17 op=tdx base=%s rows=%s ram=%d ow=%s", tdxBaseLine(base), rowsLine(tdx), ram, b2s(opts.Overwrite))
	impl := "reject"
	if pan {
		impl = "panic"
		c.Find("c17/TdxPolicy/panic", "TdxPolicy panicked: "+msg, op)
	} else if err == nil {
		impl = "ok mrtds=" + hexList(res.GetTdQuoteBodyPolicy().GetAnyMrTd())
	}
	c.Case(op, impl, base != nil && tdx != nil)
	if err == nil {
		c.Count("tdx/ok")
	} else {
		c.Count("tdx/reject")
	}
	if base != nil && !proto.Equal(base, snapshot) {
		c.Find("c17/TdxPolicy/base-mutated", "TdxPolicy changed the caller's base policy", op)
	}
	if err == nil && !pan {
		eff := base
		if eff == nil {
			eff = &tcpb.Policy{}
		} else if res == base {
			c.Find("c17/TdxPolicy/aliased", "TdxPolicy returned the base policy object itself", op)
		}
		clr := func(p *tcpb.Policy) *tcpb.Policy {
			q := proto.Clone(p).(*tcpb.Policy)
			if q.TdQuoteBodyPolicy == nil {
				q.TdQuoteBodyPolicy = &tcpb.TDQuoteBodyPolicy{}
			}
			q.TdQuoteBodyPolicy.AnyMrTd = nil
			return q
		}
		if !proto.Equal(clr(res), clr(eff)) {
			c.Find("c17/TdxPolicy/rest-changed", "a base field unrelated to the endorsement changed", op)
		}
		if !opts.Overwrite && len(eff.GetTdQuoteBodyPolicy().GetAnyMrTd()) != 0 {
			c.Find("c17/TdxPolicy/weaken-mrtd", "existing MRTD allow-list replaced without overwrite", op)
		}
		var want [][]byte
		for _, m := range tdx.Measurements {
			if ram == 0 || m.RamGib == uint32(ram) {
				want = append(want, m.Mrtd)
			}
		}
		if hexList(want) != hexList(res.GetTdQuoteBodyPolicy().GetAnyMrTd()) {
			c.Find("c17/TdxPolicy/mrtd-not-endorsed", "allow-list is not the endorsement's MRTDs for the requested size", op)
		}
	}
}
