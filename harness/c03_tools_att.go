package main

// The attestations of the `sev validate` / `tdx validate` steps of stream c03tools: a report (quote) whose third-party
// checks pass the way stream c02cli's do, carrying a measurement the endorsement lists for the configuration named on the
// command line — or one it does not.

import (
	"bytes"
	"crypto/sha512"
	"fmt"
	"sync"
	"time"

	epb "github.com/google/gce-tcb-verifier/proto/endorsement"
	"github.com/google/gce-tcb-verifier/sev"
	spb "github.com/google/go-sev-guest/proto/sevsnp"
	sevtest "github.com/google/go-sev-guest/testing"
	tabi "github.com/google/go-tdx-guest/abi"
	tpb "github.com/google/go-tdx-guest/proto/tdx"
	"github.com/google/go-tdx-guest/testing/testdata"
	tpmpb "github.com/google/go-tpm-tools/proto/attest"
	"google.golang.org/protobuf/proto"
)

var (
	ctAttOnce sync.Once
	ctVcek    []byte
	ctQuote   *tpb.QuoteV4
)

func ctAttSetup() {
	ctAttOnce.Do(func() {
		amd, err := sevtest.DefaultTestOnlyCertChain("Milan", time.Date(2024, 9, 1, 0, 0, 0, 0, time.UTC))
		if err != nil {
			panic(err)
		}
		ctVcek = amd.Vcek.Raw
		q, err := tabi.QuoteToProto(testdata.RawQuote)
		if err != nil {
			panic(err)
		}
		ctQuote = q.(*tpb.QuoteV4)
	})
}

// ctUnlisted: 48 bytes no table lists.
func ctUnlisted(tag string) []byte {
	d := sha512.Sum384([]byte("verif c03tools unlisted " + tag))
	return d[:]
}

func init() {
	ctToolsEnabled = true
	ctAttestation = func(v *ctVer, golden *epb.VMGoldenMeasurement, endBytes []byte, now time.Time) ([]byte, bool) {
		ctAttSetup()
		switch v.tool {
		case "sev":
			var meas []byte
			listed := false
			snp := golden.GetSevSnp()
			if v.att == "listed" {
				if m, ok := snp.GetMeasurements()[uint32(v.n)]; ok && v.n != 0 {
					meas, listed = m, true
				}
			}
			if meas == nil {
				// a measurement the endorsement lists for another VMSA count when it has one, else one nobody lists
				for _, n := range []uint32{1, 16, 2} {
					m := snp.GetMeasurements()[n]
					if m != nil && int(n) != v.n && !bytes.Equal(m, snp.GetMeasurements()[uint32(v.n)]) && v.att == "unlisted" && v.n%2 == 0 {
						meas = m
						break
					}
				}
				if meas == nil {
					meas = ctUnlisted(fmt.Sprint("sev", v.n))
				}
			}
			att := &spb.Attestation{Report: snpReport(meas), CertificateChain: &spb.CertificateChain{VcekCert: ctVcek, Extras: map[string][]byte{}}}
			if endBytes != nil {
				att.CertificateChain.Extras[sev.GCEFwCertGUID] = endBytes
			}
			ab, err := proto.Marshal(&tpmpb.Attestation{TeeAttestation: &tpmpb.Attestation_SevSnpAttestation{SevSnpAttestation: att}})
			if err != nil {
				panic(err)
			}
			return ab, listed
		default:
			var mrtd []byte
			listed := false
			if v.att == "listed" {
				for _, r := range golden.GetTdx().GetMeasurements() {
					if v.n == 0 || r.RamGib == uint32(v.n) {
						mrtd, listed = r.Mrtd, true
						break
					}
				}
			}
			if mrtd == nil {
				// a row of another RAM size when there is one, else an MRTD nobody lists
				for _, r := range golden.GetTdx().GetMeasurements() {
					if v.att == "unlisted" && v.n != 0 && r.RamGib != uint32(v.n) {
						other := true
						for _, r2 := range golden.GetTdx().GetMeasurements() {
							if r2.RamGib == uint32(v.n) && bytes.Equal(r2.Mrtd, r.Mrtd) {
								other = false
							}
						}
						if other {
							mrtd = r.Mrtd
							break
						}
					}
				}
				if mrtd == nil {
					mrtd = ctUnlisted(fmt.Sprint("tdx", v.n))
				}
			}
			q := proto.Clone(ctQuote).(*tpb.QuoteV4)
			q.TdQuoteBody.MrTd = mrtd
			ab, err := proto.Marshal(&tpmpb.Attestation{TeeAttestation: &tpmpb.Attestation_TdxAttestation{TdxAttestation: q}})
			if err != nil {
				panic(err)
			}
			return ab, listed
		}
	}
}
