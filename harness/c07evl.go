package main

// C07 (event-log half) — stream c07evl: totality of the event-log / SP800-155 / locator decoders on
// untrusted bytes: no panic, termination, allocation in proportion to the input.
//
// Inputs: genuine objects (event logs carrying the events endorse.makeEvents emits, with every locator type;
// SP800-155 events; locators), every truncation of each, every length prefix / digest count / algorithm id
// set to 0, remaining-1, remaining, remaining+1, 2^31-1, 2^31, 2^32-1 (width permitting), boundary inputs
// from each guard of the model, random bytes; three reader kinds (bytes.Buffer, bytes.Reader, os.File).
// Cases run in worker processes (c07evl_worker.go) under recover, a 2 s deadline, an address-space limit
// and an allocation meter. Direct oracle (implementation alone): panic, timeout, crash, allocation above
// 64*|input| + 1 MiB, disagreement between reader kinds.

import (
	"bufio"
	"bytes"
	"encoding/binary"
	"fmt"
	"io"
	"os"
	"os/exec"
	"runtime"
	"strconv"
	"strings"
	"sync"
	"time"

	"github.com/google/gce-tcb-verifier/endorse"
	"github.com/google/gce-tcb-verifier/eventlog"
	epb "github.com/google/gce-tcb-verifier/proto/endorsement"
	evpb "github.com/google/gce-tcb-verifier/proto/events"
	"github.com/google/uuid"
	"google.golang.org/protobuf/proto"
)

func init() {
	register("c07evl", "non-trivial = the decoder accepted the input (ok:…) or the input is a mutation/truncation of a genuine object", runC07Evl)
}

type c07evlCase struct {
	op, kind string
	b, aux   []byte
	class    string
	derived  bool // truncation / mutation of a genuine object
}

type c07evlResult struct {
	res   string
	alloc uint64
	us    int64
	pmsg  string
}

// ---- annotated genuine objects ----

type c07evlPos struct {
	off, width int
	kind       string // evsize count alg cstr u32arr loctype
	end        int    // end of the enclosing buffer (what "remaining" is measured against)
}

type c07evlObj struct {
	name string
	op   string
	b    []byte
	pos  []c07evlPos
}

var le = binary.LittleEndian

// c07evlEv3Pos annotates an SP800-155 payload (after the 16-byte signature) that starts at base and ends at end.
func c07evlEv3Pos(b []byte, base, end int) []c07evlPos {
	var ps []c07evlPos
	p := base + 4 + 16
	cstr := func() bool {
		if p >= end {
			return false
		}
		ps = append(ps, c07evlPos{p, 1, "cstr", end})
		p += 1 + int(b[p])
		return p <= end
	}
	arr := func() bool {
		if p+4 > end {
			return false
		}
		ps = append(ps, c07evlPos{p, 4, "u32arr", end})
		p += 4 + int(le.Uint32(b[p:]))
		return p <= end
	}
	for i := 0; i < 4; i++ {
		if !cstr() {
			return ps
		}
	}
	p += 4
	if !cstr() {
		return ps
	}
	if p+4 <= end {
		ps = append(ps, c07evlPos{p, 4, "loctype", end})
	}
	p += 4
	if !arr() {
		return ps
	}
	p += 4
	arr()
	return ps
}

type c07evlEvent struct {
	pcr, typ uint32
	algs     []uint16
	data     []byte
}

// c07evlLog encodes a crypto-agile log by hand (so that raw event data can be placed in it) and annotates it.
func c07evlLog(name string, hdrData []byte, evs []c07evlEvent) c07evlObj {
	var b []byte
	var ps []c07evlPos
	b = le.AppendUint32(b, 0)
	b = le.AppendUint32(b, eventlog.EvNoAction)
	b = append(b, make([]byte, 20)...)
	ps = append(ps, c07evlPos{len(b), 4, "evsize", -1})
	b = le.AppendUint32(b, uint32(len(hdrData)))
	b = append(b, hdrData...)
	for _, e := range evs {
		b = le.AppendUint32(b, e.pcr)
		b = le.AppendUint32(b, e.typ)
		ps = append(ps, c07evlPos{len(b), 4, "count", -1})
		b = le.AppendUint32(b, uint32(len(e.algs)))
		for _, a := range e.algs {
			ps = append(ps, c07evlPos{len(b), 2, "alg", -1})
			b = le.AppendUint16(b, a)
			b = append(b, bytes.Repeat([]byte{byte(a)}, c18AlgSize[a])...)
		}
		ps = append(ps, c07evlPos{len(b), 4, "evsize", -1})
		b = le.AppendUint32(b, uint32(len(e.data)))
		start := len(b)
		b = append(b, e.data...)
		if len(e.data) >= 16 && bytes.Equal(e.data[:16], c18Sig) {
			ps = append(ps, c07evlEv3Pos(b, start+16, len(b))...)
		}
	}
	for i := range ps {
		if ps[i].end < 0 {
			ps[i].end = len(b)
		}
	}
	return c07evlObj{name, "log", b, ps}
}

func c07evlMustEv3(e *eventlog.SP800155Event3) []byte {
	b, err := e.MarshalToBytes()
	if err != nil {
		panic(err)
	}
	return b
}

func c07evlObjects(c *Ctx) []c07evlObj {
	// the two events the signer emits (UEFI-variable locator, URI locator)
	golden, _ := proto.Marshal(&epb.VMGoldenMeasurement{Digest: c.Rng.Bytes(48)})
	blob, err := endorse.VerifMakeEvents(bytes.NewReader(c.Rng.Bytes(16)), &epb.VMLaunchEndorsement{SerializedUefiGolden: golden})
	if err != nil {
		panic(err)
	}
	evs := &evpb.Sp800155Events{}
	if err := proto.Unmarshal(blob, evs); err != nil || len(evs.Events) != 2 {
		panic(fmt.Sprint("makeEvents: ", err, len(evs.GetEvents())))
	}
	varEv, uriEv := evs.Events[0], evs.Events[1]
	var u uuid.UUID
	copy(u[:], c.Rng.Bytes(16))
	mk := func(locType uint32, loc []byte, mfr string) []byte {
		return c07evlMustEv3(&eventlog.SP800155Event3{PlatformManufacturerID: 11129, ReferenceManifestGUID: eventlog.EfiGUID{UUID: u},
			PlatformManufacturerStr: eventlog.ByteSizedCStr{Data: "Google"}, PlatformModel: eventlog.ByteSizedCStr{Data: "M"},
			FirmwareManufacturerStr: eventlog.ByteSizedCStr{Data: mfr}, FirmwareVersion: eventlog.ByteSizedCStr{Data: "1"},
			RIMLocatorType: locType, RIMLocator: eventlog.Uint32SizedArray{Data: loc}})
	}
	rawEv := mk(eventlog.RIMLocationRaw, []byte("endorsement bytes"), "Google, Inc.")
	localEv := mk(eventlog.RIMLocationLocal, []byte("PciRoot(0)/Pci(1,0)"), "Google, Inc.")
	otherEv := mk(7, []byte{1, 2, 3}, "Else")
	badVarEv := mk(eventlog.RIMLocationVariable, append(u[:], 'V', 0, 0xd8, 0xd8, 0, 0), "Google, Inc.") // lone surrogate in the name
	padded := append(append([]byte{}, varEv...), make([]byte, 7)...)                                     // HOB padding
	// empty locators of each type (a zero-length Uint32SizedArray leaves Data nil): whatever looks at the first
	// byte of a locator without a length check meets them here
	emptyRaw := mk(eventlog.RIMLocationRaw, nil, "Google, Inc.")
	emptyVar := mk(eventlog.RIMLocationVariable, nil, "nobody")
	emptyURI := mk(eventlog.RIMLocationURI, nil, "Else")
	specID := append([]byte("Spec ID Event03\x00"), 0, 0, 0, 0, 0, 2, 0, 2, 3, 0, 0, 0, 4, 0, 20, 0, 11, 0, 32, 0, 12, 0, 48, 0, 0)
	all := []uint16{4, 11, 12}
	noAct := func(d []byte) c07evlEvent { return c07evlEvent{0, eventlog.EvNoAction, all, d} }
	objs := []c07evlObj{
		c07evlLog("signer-var+uri", specID, []c07evlEvent{noAct(varEv), noAct(uriEv), {7, 0x80000001, all, []byte("boot variable")}}),
		c07evlLog("uri-only", specID, []c07evlEvent{{4, 13, all, []byte("action")}, noAct(uriEv)}),
		c07evlLog("raw+local+other", specID, []c07evlEvent{noAct(otherEv), noAct(localEv), noAct(rawEv), noAct(padded)}),
		c07evlLog("bad-variable-name", nil, []c07evlEvent{noAct(badVarEv), {0, eventlog.EvNoAction, []uint16{11}, nil}}),
		c07evlLog("ev3-wrong-type", specID, []c07evlEvent{{0, 5, []uint16{4}, varEv}, {0, eventlog.EvNoAction, nil, nil}}),
		c07evlLog("header-only", specID, nil),
		c07evlLog("empty-locators", specID, []c07evlEvent{noAct(emptyURI), noAct(emptyVar), noAct(emptyRaw)}),
	}
	for _, e := range [][]byte{varEv, uriEv, rawEv, padded} {
		objs = append(objs, c07evlObj{"event3", "event3", e[16:], c07evlEv3Pos(e, 16, len(e))})
		for i := range objs[len(objs)-1].pos {
			objs[len(objs)-1].pos[i].off -= 16
			objs[len(objs)-1].pos[i].end -= 16
		}
		d := le.AppendUint32(nil, uint32(len(e)))
		d = append(d, e...)
		ps := append([]c07evlPos{{0, 4, "evsize", len(d)}}, c07evlEv3Pos(d, 20, len(d))...)
		objs = append(objs, c07evlObj{"eventdata", "eventdata", d, ps})
	}
	return objs
}

// values a length / count field is set to; rem = bytes between the end of the field and the end of its buffer
func c07evlFieldValues(width, rem int) []uint64 {
	v := []uint64{0, uint64(c07evlMax(rem-1, 0)), uint64(rem), uint64(rem + 1), 1, 15, 16, 17, 4095, 4096, 4097, 8192, 8193}
	switch width {
	case 1:
		v = append(v, 254, 255)
	case 2:
		v = append(v, 0, 4, 5, 11, 12, 13, 0xdec0, 0xffff)
	default:
		v = append(v, 0x7fffffff, 0x80000000, 0xffffffff, 0xfffffffe, 65536)
	}
	return v
}

func c07evlPut(b []byte, off, width int, v uint64) []byte {
	o := append([]byte{}, b...)
	switch width {
	case 1:
		o[off] = byte(v)
	case 2:
		le.PutUint16(o[off:], uint16(v))
	default:
		le.PutUint32(o[off:], uint32(v))
	}
	return o
}

func c07evlGenerate(c *Ctx) []c07evlCase {
	var cs []c07evlCase
	kinds3 := []string{"buffer", "reader", "file"}
	add := func(op, class string, b, aux []byte, derived bool, kinds []string) {
		for _, k := range kinds {
			cs = append(cs, c07evlCase{op, k, b, aux, class, derived})
		}
	}
	one := []string{"-"}
	objs := c07evlObjects(c)
	mfrs := [][]byte{nil, []byte("Google, Inc."), []byte("Else"), []byte("nobody")}
	for _, o := range objs {
		kinds := kinds3
		if o.op == "event3" {
			kinds = one
		}
		add(o.op, "genuine/"+o.name, o.b, nil, true, kinds)
		if o.op == "log" {
			add("rims", "genuine/"+o.name, o.b, nil, true, kinds3[:2])
			for _, m := range mfrs {
				add("from", "genuine/"+o.name, o.b, m, true, one)
			}
		}
		// every truncation
		step := 1
		if !c.Quick() || len(o.b) < 400 {
			step = 1
		}
		for n := 0; n < len(o.b); n += step {
			add(o.op, "truncated/"+o.op, o.b[:n], nil, true, kinds[:c07evlMin(len(kinds), 2)])
			if o.op == "log" && (n%3 == 0 || !c.Quick()) {
				add("from", "truncated/from", o.b[:n], mfrs[n%len(mfrs)], true, one)
				if n%5 == 0 {
					add("log", "truncated/log-file", o.b[:n], nil, true, kinds3[2:])
				}
			}
		}
		// every length prefix / count / algorithm id
		for _, p := range o.pos {
			for _, v := range c07evlFieldValues(p.width, p.end-p.off-p.width) {
				m := c07evlPut(o.b, p.off, p.width, v)
				add(o.op, "field/"+p.kind, m, nil, true, kinds)
				if o.op == "log" {
					add("from", "field/from/"+p.kind, m, nil, true, one)
					add("rims", "field/rims/"+p.kind, m, nil, true, kinds3[:1])
				}
			}
		}
	}
	// boundary inputs from the guards of the model
	for _, size := range []int{0, 1, 15, 16, 17, 36, 4095, 4096, 4097, 8191, 8192, 8193, 12288, 20000} {
		for _, have := range []int{size, size - 1, size + 1, 0, 1, size / 2, 4096, 4097} {
			if have < 0 {
				continue
			}
			body := c.Rng.Bytes(have)
			if have >= 16 && size%2 == 0 {
				copy(body, c18Sig) // an SP800-155 payload of every size
			}
			d := append(le.AppendUint32(nil, uint32(size)), body...)
			add("eventdata", "boundary/eventdata", d, nil, false, kinds3)
			add("u32arr", "boundary/u32arr", d, nil, false, kinds3[:2])
			hdr := append(make([]byte, 28), d...)
			hdr[4] = 3
			add("log", "boundary/log-header", hdr, nil, false, kinds3[:2])
			add("pcrevent", "boundary/pcrevent", hdr, nil, false, kinds3[:1])
		}
	}
	// over-declared sizes with enough bytes delivered to pass one or more buffer-growth steps: a reader that
	// trusts the declared size once the first chunk (or the first k chunks) arrived allocates far beyond
	// the input here, while "huge prefix then EOF" probes stay cheap
	for _, size := range []uint32{1 << 20, 1 << 24, 1 << 27, 1 << 30, 0x7fffffff, 0xfffffffe} {
		for _, have := range []int{4095, 4096, 4097, 5000, 8192, 8193, 16385, 40000} {
			body := c.Rng.Bytes(have)
			d := append(le.AppendUint32(nil, size), body...)
			add("eventdata", "overdeclared/eventdata", d, nil, false, kinds3[:2])
			add("u32arr", "overdeclared/u32arr", d, nil, false, kinds3[:1])
			hdr := append(make([]byte, 28), d...)
			hdr[4] = 3
			add("log", "overdeclared/log-header", hdr, nil, false, kinds3[:2])
		}
	}
	for size := 0; size < 8; size++ {
		for have := 0; have <= size+1; have++ {
			body := c.Rng.Bytes(have)
			if have > 0 && c.Rng.Bool() {
				body[have-1] = 0
			}
			add("cstr", "boundary/cstr", append([]byte{byte(size)}, body...), nil, false, kinds3[:2])
		}
	}
	for _, count := range []uint32{0, 1, 2, 3, 4, 100, 0x7fffffff, 0x80000000, 0xffffffff} {
		for have := 0; have <= 4; have++ {
			d := le.AppendUint32(nil, count)
			for i := 0; i < have; i++ {
				a := []uint16{4, 11, 12, 4}[i]
				d = le.AppendUint16(d, a)
				d = append(d, c.Rng.Bytes(c18AlgSize[a])...)
			}
			add("digests", "boundary/digests", d, nil, false, kinds3)
			ev := append([]byte{1, 0, 0, 0, 2, 0, 0, 0}, d...)
			add("event2", "boundary/event2", ev, nil, false, kinds3[:2])
			add("event2", "boundary/event2", append(append([]byte{}, ev...), 0, 0, 0, 0), nil, false, kinds3[:2])
			hdr := make([]byte, 32)
			hdr[4] = 3
			add("log", "boundary/log-digest-count", append(hdr, ev...), nil, false, kinds3) // the 44-byte log of D4 among them
		}
	}
	for _, alg := range []uint16{0, 3, 4, 5, 10, 11, 12, 13, 0xdec0, 0xffff} {
		for _, have := range []int{0, 1, 19, 20, 21, 31, 32, 33, 47, 48, 49} {
			add("digest", "boundary/digest", append(le.AppendUint16(nil, alg), c.Rng.Bytes(have)...), nil, false, kinds3[:2])
		}
	}
	for n := 0; n <= 17; n++ {
		add("guid", "boundary/guid", c.Rng.Bytes(n), nil, false, kinds3[:2])
	}
	// locators
	nameOf := func(n int) []byte {
		var b []byte
		for i := 0; i < n; i++ {
			switch c.Rng.Intn(8) {
			case 0:
				b = append(b, byte(c.Rng.Next()), 0xd8+byte(c.Rng.Intn(8))) // surrogate
			case 1:
				b = append(b, 0, 0)
			default:
				b = append(b, 'A'+byte(c.Rng.Intn(26)), 0)
			}
		}
		return b
	}
	for n := 0; n <= 26; n++ {
		for rep := 0; rep < 6; rep++ {
			loc := c.Rng.Bytes(n)
			if n > 18 && rep%2 == 0 {
				loc[n-1], loc[n-2] = 0, 0
			}
			if n > 18 && rep == 4 {
				loc[n-1], loc[n-2] = 0, 1
			}
			add("varloc", "varloc/len", loc, nil, false, one)
		}
	}
	for i := 0; i < c.N(1500, 40000); i++ {
		name := nameOf(c.Rng.Intn(8))
		switch c.Rng.Intn(6) {
		case 0:
			name = append(name, 0, 0)
		case 1:
			name = append(name, byte(c.Rng.Next())) // odd
		case 2:
			name = append(name, 0, 0, 0, 0)
		}
		add("ucs2", "ucs2/structured", name, nil, false, one)
		var g [16]byte
		copy(g[:], c.Rng.Bytes(16))
		add("varloc", "varloc/structured", append(g[:], name...), nil, false, one)
	}
	for i := 0; i < c.N(1500, 30000); i++ {
		add("ucs2", "ucs2/random", c.Rng.Bytes(c.Rng.Intn(12)), nil, false, one)
	}
	for n := 0; n <= 9; n++ {
		add("efivar", "efivar/len", c.Rng.Bytes(n), nil, false, one)
	}
	add("efivar", "efivar/large", c.Rng.Bytes(70000), nil, false, one)
	// random bytes and random mutations of genuine objects
	ops := []string{"log", "log", "log", "event2", "pcrevent", "eventdata", "event3", "digests", "cstr", "u32arr", "from", "rims"}
	for i := 0; i < c.N(5000, 150000); i++ {
		op := ops[c.Rng.Intn(len(ops))]
		n := c.Rng.Intn(90)
		b := c.Rng.Bytes(n)
		if c.Rng.Intn(3) == 0 { // low-entropy: small fields, so that more than the first guard is reached
			for j := range b {
				b[j] &= 3
			}
		}
		ki := c.Rng.Intn(3)
		k := kinds3[ki : ki+1]
		if op == "event3" || op == "from" {
			k = one
		}
		add(op, "random/"+op, b, nil, false, k)
	}
	for i := 0; i < c.N(6000, 330000); i++ {
		o := objs[c.Rng.Intn(len(objs))]
		m := append([]byte{}, o.b...)
		for j := 0; j <= c.Rng.Intn(3) && len(m) > 0; j++ {
			switch c.Rng.Intn(4) {
			case 0:
				m[c.Rng.Intn(len(m))] ^= 1 << c.Rng.Intn(8)
			case 1:
				m[c.Rng.Intn(len(m))] = byte(c.Rng.Next())
			case 2: // a random value in a random length field
				if len(o.pos) > 0 {
					p := o.pos[c.Rng.Intn(len(o.pos))]
					vs := c07evlFieldValues(p.width, p.end-p.off-p.width)
					if p.off+p.width <= len(m) {
						m = c07evlPut(m, p.off, p.width, vs[c.Rng.Intn(len(vs))])
					}
				}
			case 3:
				m = m[:c.Rng.Intn(len(m)+1)]
			}
		}
		ki := c.Rng.Intn(3)
		k := kinds3[ki : ki+1]
		op := o.op
		if op == "event3" {
			k = one
		} else if op == "log" && c.Rng.Intn(4) == 0 {
			op, k = "from", one
		}
		var aux []byte
		if op == "from" {
			aux = mfrs[c.Rng.Intn(len(mfrs))]
		}
		add(op, "mutated/"+op, m, aux, true, k)
	}
	// the runtime laws the allocation theorem assumes, measured on this toolchain
	for _, n := range []int{0, 1, 2, 3, 5, 8, 9, 17, 100, 255, 256, 257, 300, 511, 512, 513, 600, 1000, 1300, 5000, 20000, 100000, 300000, 1000000} {
		cs = append(cs, c07evlCase{"rtlaw", "append", nil, []byte(strconv.Itoa(n)), "rtlaw/append", false})
		cs = append(cs, c07evlCase{"rtlaw", "readall", nil, []byte(strconv.Itoa(n)), "rtlaw/readall", false})
	}
	return cs
}

// ---- worker pool ----

type c07evlWorker struct {
	cmd *exec.Cmd
	in  io.WriteCloser
	out *bufio.Reader
}

func c07evlStart() *c07evlWorker {
	cmd := exec.Command(os.Args[0])
	cmd.Env = append(os.Environ(), "C07EVL_WORKER=1", "GOMEMLIMIT=off", "GOTRACEBACK=none")
	in, _ := cmd.StdinPipe()
	out, _ := cmd.StdoutPipe()
	cmd.Stderr = nil
	if err := cmd.Start(); err != nil {
		panic(err)
	}
	return &c07evlWorker{cmd, in, bufio.NewReaderSize(out, 1<<20)}
}

func (w *c07evlWorker) stop() {
	w.in.Close()
	done := make(chan struct{})
	go func() { w.cmd.Wait(); close(done) }()
	select {
	case <-done:
	case <-time.After(3 * time.Second):
		w.cmd.Process.Kill()
		<-done
	}
}

func (w *c07evlWorker) run(i int, cs c07evlCase) (c07evlResult, bool) {
	aux := "-"
	if len(cs.aux) > 0 {
		aux = hx(cs.aux)
	}
	b := hx(cs.b)
	if b == "" {
		b = "-"
	}
	if _, err := fmt.Fprintf(w.in, "%d %s %s %s %s\n", i, cs.op, cs.kind, b, aux); err != nil {
		return c07evlResult{res: "crash"}, false
	}
	type rd struct {
		line string
		err  error
	}
	ch := make(chan rd, 1)
	go func() {
		for { // lines that are not answers (a library logging to stdout at start-up) are skipped
			l, err := w.out.ReadString('\n')
			if err != nil || strings.HasPrefix(l, "R\t") {
				ch <- rd{strings.TrimPrefix(l, "R\t"), err}
				return
			}
		}
	}()
	select {
	case r := <-ch:
		if r.err != nil {
			return c07evlResult{res: "crash"}, false
		}
		p := strings.Split(strings.TrimRight(r.line, "\n"), "\t")
		if len(p) != 5 || p[0] != strconv.Itoa(i) {
			return c07evlResult{res: "crash"}, false
		}
		a, _ := strconv.ParseUint(p[2], 10, 64)
		us, _ := strconv.ParseInt(p[3], 10, 64)
		// a worker that has just allocated far beyond the threshold is retired: its bloated heap under the
		// address-space limit must not be blamed on the cases that follow
		alive := p[1] != "timeout" && (cs.op == "rtlaw" || a <= c07evlThreshold(len(cs.b)))
		return c07evlResult{p[1], a, us, p[4]}, alive
	case <-time.After(c07evlDeadline + 3*time.Second):
		w.cmd.Process.Kill()
		return c07evlResult{res: "timeout"}, false
	}
}

func c07evlRunAll(cs []c07evlCase, workers int) []c07evlResult {
	res := make([]c07evlResult, len(cs))
	var wg sync.WaitGroup
	next := make(chan int, 1024)
	go func() {
		for i := range cs {
			next <- i
		}
		close(next)
	}()
	for k := 0; k < workers; k++ {
		wg.Add(1)
		go func() {
			defer wg.Done()
			w := c07evlStart()
			for i := range next {
				r, alive := w.run(i, cs[i])
				res[i] = r
				if !alive {
					w.stop()
					w = c07evlStart()
				}
			}
			w.stop()
		}()
	}
	wg.Wait()
	return res
}

var c07evlEntry = map[string]string{
	"log": "CryptoAgileLog.Unmarshal", "pcrevent": "TCGPCClientPCREvent.Unmarshal", "event2": "TCGPCREvent2.Unmarshal",
	"eventdata": "TCGEventData.Unmarshal", "digests": "Uint32SizedArrayT.Unmarshal", "digest": "TaggedDigest.Unmarshal",
	"cstr": "ByteSizedCStr.Unmarshal", "u32arr": "Uint32SizedArray.Unmarshal", "guid": "EfiGUID.Unmarshal",
	"event3": "SP800155Event3.UnmarshalFromBytes", "varloc": "variableLocatorDecode", "ucs2": "ucs2toUTF8",
	"efivar": "EfiVarFSReader.ReadVariable", "rims": "RIMEventsFromEventLog", "from": "extract.Endorsement-eventlog",
}

func runC07Evl(c *Ctx) {
	cs := c07evlGenerate(c)
	workers := c07evlMin(c07evlMax(runtime.NumCPU()/2, 2), 6)
	t0 := time.Now()
	res := c07evlRunAll(cs, workers)
	c.Extra["workers"] = workers
	c.Extra["exec_seconds"] = time.Since(t0).Seconds()
	var maxRatio float64
	var maxAlloc uint64
	byInput := map[string]string{} // op + input -> result of the first reader kind
	for i, cse := range cs {
		r := res[i]
		b := hx(cse.b)
		var op string
		switch cse.op {
		case "rtlaw":
			op = fmt.Sprintf("c07evl op=rtlaw what=%s n=%s", cse.kind, cse.aux)
		case "from":
			op = fmt.Sprintf("c07evl op=from mfr=%s b=%s", hx(cse.aux), b)
		default:
			op = fmt.Sprintf("c07evl op=%s kind=%s b=%s", cse.op, cse.kind, b)
		}
		entry := c07evlEntry[cse.op]
		cls := r.res
		if strings.HasPrefix(cls, "ok:") {
			cls = "ok"
		}
		if strings.HasPrefix(cls, "panic=") {
			cls = "panic"
		}
		c.Count(cse.class + "/" + cls)
		c.Count("kind/" + cse.kind)
		if cse.op == "rtlaw" {
			n, _ := strconv.Atoi(string(cse.aux))
			bound := uint64(64 * n)
			if cse.kind == "readall" {
				bound = uint64(8*n + 1024)
			}
			c.Case(op, r.res, true)
			// 128 bytes of slack: the meter's own bookkeeping (closure, interface boxing)
			if r.alloc > bound+128 {
				c.Find("c07evl/runtime-law/"+cse.kind, fmt.Sprintf("the Go runtime allocated %d bytes for n=%d, above the law %d the allocation theorem assumes (Runtime.Lawful)", r.alloc, n, bound), op)
			}
			c.Count(fmt.Sprintf("rtlaw/%s/measured<=bound:%v", cse.kind, r.alloc <= bound+128))
			continue
		}
		// the allocation verdict is part of the compared line
		ab := "ok"
		thr := c07evlThreshold(len(cse.b))
		if r.alloc > thr {
			ab = "over"
		}
		line := r.res
		if cse.op != "varloc" && cse.op != "ucs2" && cse.op != "efivar" && cse.op != "rims" && cse.op != "from" {
			line += " ab=" + ab
		}
		c.Case(op, line, strings.HasPrefix(r.res, "ok:") || cse.derived)
		if len(cse.b) > 0 {
			if q := float64(r.alloc) / float64(len(cse.b)); r.alloc > 4096 && q > maxRatio {
				maxRatio = q
			}
		}
		if r.alloc > maxAlloc {
			maxAlloc = r.alloc
		}
		// ---- direct oracle: the property's clauses on the implementation alone ----
		switch {
		case r.res == "timeout":
			c.Find("c07evl/"+entry+"/terminates", "no result within the 2 s deadline", op)
		case r.res == "crash":
			c.Find("c07evl/"+entry+"/alloc-bound/worker-died", "the worker process died while decoding this input (runtime fatal error: out of memory under the address-space limit, or a crash that recover cannot intercept)", op)
		case strings.HasPrefix(r.res, "panic="):
			if cse.op == "ucs2" && len(cse.b) == 0 {
				// ucs2toUTF8 is applied only to names variableLocatorDecode returned (at least 4 bytes); the empty
				// name is outside that domain (direct misuse of ReadVariable) — counted, not a finding
				c.Count("ucs2/empty-name-panics(outside Locate's domain)")
			} else {
				c.Find("c07evl/"+entry+"/no-panic/"+strings.TrimPrefix(r.res, "panic="), "panic on untrusted bytes: "+r.pmsg, op)
			}
		}
		if r.alloc > thr {
			c.Find("c07evl/"+entry+"/alloc-bound/over-threshold", fmt.Sprintf("decoding %d bytes allocated %d bytes (threshold 64*n + 1 MiB = %d)", len(cse.b), r.alloc, thr), op)
		}
		if cse.kind != "-" {
			key := cse.op + ":" + b
			if first, ok := byInput[key]; !ok {
				byInput[key] = r.res
			} else if first != r.res && r.res != "timeout" && r.res != "crash" && first != "timeout" && first != "crash" {
				c.Find("c07evl/"+entry+"/reader-kinds-disagree", "bytes.Buffer, bytes.Reader and os.File give different results for the same bytes: "+tok(first)[:c07evlMin(len(tok(first)), 60)]+" vs "+tok(r.res)[:c07evlMin(len(tok(r.res)), 60)], op)
			}
		}
	}
	c.Extra["max_alloc_bytes"] = maxAlloc
	c.Extra["max_alloc_per_input_byte(alloc>4096)"] = maxRatio
	c.Extra["threshold"] = "64*n + 1 MiB"
}

func c07evlMin(a, b int) int {
	if a < b {
		return a
	}
	return b
}

func c07evlMax(a, b int) int {
	if a > b {
		return a
	}
	return b
}
