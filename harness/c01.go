package main

// Stream c01 — accepted endorsements are authentic.
//
// Genuine endorsements come out of the real endorse pipeline (endorse.VirtualFirmware with the
// process-wide in-memory CA) and out of three further CAs made with crypto/x509 (a foreign one and two
// with nested / overlapping validity windows).  Mutation operators then break exactly one thing at a
// time (payload, signature, certificate, key, padding, hash, salt, provenance, timestamp, encoding),
// and every mutant is presented under several root pools and verification times to every entry point.
//
// For each case the primitive facts (unmarshal / certificate parse / chain at the caller's time against
// the caller's roots / PSS-SHA256-salt32 signature over the carried bytes) are computed with the
// standard library only.  The op line carries the facts and the plumbing; the Lean model instantiated
// with them must predict the entry point's accept / reject / panic.  Direct oracle: accepted and not
// independently authentic.

import (
	"context"
	"crypto"
	"crypto/rsa"
	"crypto/x509"
	"encoding/pem"
	"fmt"
	"google.golang.org/protobuf/encoding/protowire"
	"io"
	"os"
	"path/filepath"
	"strings"
	"time"

	"github.com/google/gce-tcb-verifier/endorse"
	"github.com/google/gce-tcb-verifier/extract"
	"github.com/google/gce-tcb-verifier/gcetcbendorsement"
	gcmd "github.com/google/gce-tcb-verifier/gcetcbendorsement/cmd"
	epb "github.com/google/gce-tcb-verifier/proto/endorsement"
	"github.com/google/gce-tcb-verifier/sev"
	"github.com/google/gce-tcb-verifier/sign/ops"
	"github.com/google/gce-tcb-verifier/tdx"
	"github.com/google/gce-tcb-verifier/testing/nonprod/localnonvcs"
	"github.com/google/gce-tcb-verifier/timeproto"
	"github.com/google/gce-tcb-verifier/verify"
	sabi "github.com/google/go-sev-guest/abi"
	spb "github.com/google/go-sev-guest/proto/sevsnp"
	stest "github.com/google/go-sev-guest/testing"
	svalidate "github.com/google/go-sev-guest/validate"
	tabi "github.com/google/go-tdx-guest/abi"
	tpb "github.com/google/go-tdx-guest/proto/tdx"
	"github.com/google/go-tdx-guest/testing/testdata"
	tvalidate "github.com/google/go-tdx-guest/validate"
	tpmpb "github.com/google/go-tpm-tools/proto/attest"
	"google.golang.org/protobuf/proto"
	tspb "google.golang.org/protobuf/types/known/timestamppb"
)

func init() {
	register("c01", "mutants of genuine endorsements (real endorse pipeline + 3 extra CAs) x root pools x verification "+
		"times x 9 entry points (verify.Endorsement, verify.EndorsementProto, SNP validator closure with serialized / "+
		"pre-supplied / fetched endorsement, SevValidate, TdxValidate, CLI verify / sev validate / tdx validate) plus "+
		"sign/ops.VerifySignatureFromCA. Non-trivial: the endorsement the entry point decides about unmarshals and "+
		"carries a certificate (the outcome hinges on certificate parse / chain / time / signature / later checks, "+
		"not on an early structural reject); distinct by op line.", runC01)
}

type c01Roots struct {
	desc  string
	nilP  bool
	certs []*x509.Certificate
}

// c01Pools keeps ONE pool object per root set for the whole run, as a long-running verifier does: an
// implementation that remembers earlier verdicts per pool (or per certificate) is then exercised with the
// history the sweeps create (a valid time first, then times outside either certificate's validity).
var c01Pools = map[string]*x509.CertPool{}

func (r c01Roots) pool() *x509.CertPool {
	if r.nilP {
		return nil
	}
	key := r.desc
	for _, c := range r.certs {
		key += "/" + hx(c.Raw[len(c.Raw)-8:])
	}
	if p, ok := c01Pools[key]; ok {
		return p
	}
	p := x509.NewCertPool()
	for _, c := range r.certs {
		p.AddCert(c)
	}
	c01Pools[key] = p
	return p
}

func (r c01Roots) tok() string {
	if r.nilP {
		return "nil"
	}
	return "R"
}

type c01Time struct {
	desc string
	t    time.Time
}

type c01Mutant struct {
	desc string
	e    *c01Endo
}

type c01Env struct {
	c *Ctx
	// crng feeds key generation, certificate creation and PSS salts.  crypto/rsa reads a random extra
	// byte now and then (randutil.MaybeReadByte), so these operations get their own stream and every
	// CHOICE of the run (mutation positions, pools, times, variants) stays a function of the seed.
	crng  *Rng
	ctx   context.Context
	nilts string
	// CA A: the in-memory CA of the real pipeline
	keyA                             *rsa.PrivateKey
	leafA, rootA                     *x509.Certificate
	caB, caC, caD                    *miniCA
	base                             *c01Endo // genuine, real pipeline
	baseG                            *epb.VMGoldenMeasurement
	meas1, unendorsed                []byte
	mrtd                             []byte
	digest, badDigest                []byte
	vcek                             []byte
	quoteGood, quoteBad, sevAttBytes []byte
	quoteGoodProto, quoteBadProto    *tpb.QuoteV4
}

const c01GCEBucket = "https://storage.googleapis.com/gce_tcb_integrity/"

type c01Getter struct{ m map[string][]byte }

func (g *c01Getter) Get(url string) ([]byte, error) {
	if b, ok := g.m[url]; ok && b != nil {
		return b, nil
	}
	return nil, fmt.Errorf("404")
}

func c01SnpURL(prefix string, meas []byte) string {
	return c01GCEBucket + prefix + "/sevsnp/" + hx(meas) + ".binarypb"
}

func c01Classify(f func() error) string {
	var err error
	if p, _, _ := Guard(func() { err = f() }); p {
		return "panic"
	}
	if err == nil {
		return "accept"
	}
	return "reject"
}

func c01PEM(certs ...*x509.Certificate) []byte {
	var out []byte
	for _, c := range certs {
		out = append(out, pem.EncodeToMemory(&pem.Block{Type: "CERTIFICATE", Bytes: c.Raw})...)
	}
	return out
}

func (env *c01Env) setup() {
	c := env.c
	env.crng = &Rng{s: c.Rng.Next()}
	env.ctx = quietCtx(true)
	// what does timeproto.From do with a nil timestamp?  (a primitive fact of the model)
	env.nilts = "zero"
	if p, _, _ := Guard(func() { _ = timeproto.From(nil) }); p {
		env.nilts = "panic"
	}
	s, ca := memKeys()
	env.keyA = s.Keys[memSignKey]
	env.leafA = ca.Certs[memSignKey]
	env.rootA = ca.Certs[memRootKey]
	day := 24 * time.Hour
	env.caB = newMiniCA(env.crng, "foreign", baseTime, baseTime.Add(9000*day), baseTime, baseTime.Add(1800*day))
	// C: leaf window strictly inside the root window; D: leaf window sticks out of the root window on both sides
	env.caC = newMiniCA(env.crng, "nested", baseTime.Add(-10*day), baseTime.Add(400*day), baseTime.Add(5*day), baseTime.Add(100*day))
	env.caD = newMiniCA(env.crng, "overlap", baseTime.Add(5*day), baseTime.Add(100*day), baseTime.Add(-10*day), baseTime.Add(400*day))

	// genuine endorsement through the real pipeline
	dir, err := os.MkdirTemp("", "verif-c01-")
	if err != nil {
		panic(err)
	}
	defer os.RemoveAll(dir)
	ec := &endorse.Context{
		SevSnp:    &sev.SnpEndorsementRequest{Svn: 2, LaunchVmsas: 1, Product: spb.SevProduct_SEV_PRODUCT_MILAN, FamilyID: sev.GCEUefiFamilyID},
		Tdx:       &tdx.EndorsementRequest{Svn: 1},
		Image:     cleanFirmware(2*1024*1024, 7),
		ClSpec:    1234,
		Timestamp: baseTime,
		VCS:       &localnonvcs.T{Root: dir},
		OutDir:    "out",
	}
	if err := endorse.VirtualFirmware(endorse.NewContext(keysCtx(env.ctx, &Rng{s: 11}), ec)); err != nil {
		panic(err)
	}
	eb, err := os.ReadFile(filepath.Join(dir, "out", "endorsement.binarypb"))
	if err != nil {
		panic(err)
	}
	env.base = c01FromContainer(eb)
	env.baseG = &epb.VMGoldenMeasurement{}
	if err := proto.Unmarshal(env.base.msg.SerializedUefiGolden, env.baseG); err != nil {
		panic(err)
	}
	env.meas1 = env.baseG.SevSnp.Measurements[1]
	if len(env.meas1) != 48 || env.baseG.Tdx == nil || len(env.baseG.Tdx.Measurements) == 0 {
		panic("unexpected golden measurement shape")
	}
	env.mrtd = env.baseG.Tdx.Measurements[0].Mrtd
	env.unendorsed = c.Rng.Bytes(48)
	env.digest = env.baseG.Digest
	env.badDigest = c01FlipBit(env.digest, 5)

	// SEV-SNP attestation material as in gcetcbendorsement/sevvalidate_test.go
	chain, err := stest.DefaultTestOnlyCertChain("Milan", baseTime)
	if err != nil {
		panic(err)
	}
	env.vcek = chain.Vcek.Raw

	// TDX quotes: go-tdx-guest's sample quote with the MRTD overwritten, wrapped in a go-tpm-tools attestation
	mk := func(mrtd []byte) ([]byte, *tpb.QuoteV4) {
		qa, err := tabi.QuoteToProto(testdata.RawQuote)
		if err != nil {
			panic(err)
		}
		q := qa.(*tpb.QuoteV4)
		q.TdQuoteBody.MrTd = mrtd
		b, err := proto.Marshal(&tpmpb.Attestation{TeeAttestation: &tpmpb.Attestation_TdxAttestation{TdxAttestation: q}})
		if err != nil {
			panic(err)
		}
		return b, q
	}
	env.quoteGood, env.quoteGoodProto = mk(env.mrtd)
	env.quoteBad, env.quoteBadProto = mk(c.Rng.Bytes(48))
	sb, err := proto.Marshal(&tpmpb.Attestation{TeeAttestation: &tpmpb.Attestation_SevSnpAttestation{SevSnpAttestation: env.sevAtt(env.meas1, nil)}})
	if err != nil {
		panic(err)
	}
	env.sevAttBytes = sb
}

func (env *c01Env) sevAtt(meas []byte, extras map[string][]byte) *spb.Attestation {
	return &spb.Attestation{
		Report: &spb.Report{
			Signature: []byte("signature"), Version: 2, GuestSvn: 2,
			ReportData: make([]byte, sabi.ReportSize), FamilyId: make([]byte, sabi.FamilyIDSize),
			ImageId: make([]byte, sabi.ImageIDSize), Measurement: meas,
			IdKeyDigest: make([]byte, sabi.IDKeyDigestSize), AuthorKeyDigest: make([]byte, sabi.AuthorKeyDigestSize),
			HostData: make([]byte, sabi.HostDataSize), ReportId: make([]byte, sabi.ReportIDSize),
			ReportIdMa: make([]byte, sabi.ReportIDMASize), ChipId: make([]byte, sabi.ChipIDSize),
			Policy: sabi.SnpPolicyToBytes(sabi.SnpPolicy{}),
		},
		CertificateChain: &spb.CertificateChain{VcekCert: env.vcek, Extras: extras},
	}
}

// goldenOf returns a fresh copy of the genuine golden measurement with CA ca's signing certificate.
func (env *c01Env) goldenFor(leaf *x509.Certificate) *epb.VMGoldenMeasurement {
	g := c01Clone(env.baseG)
	g.Cert = leaf.Raw
	return g
}

// mutants derives the forged / altered endorsements from the genuine one.  rnd positions come from c.Rng.
func (env *c01Env) mutants(full bool) []c01Mutant {
	c := env.c
	rng := c.Rng
	crng := env.crng
	base := env.base
	payload := base.msg.SerializedUefiGolden
	sig := base.msg.Signature
	var out []c01Mutant
	add := func(desc string, e *c01Endo) { out = append(out, c01Mutant{desc, e}) }
	add("genuine", base)
	// ---- bit flips
	nflip := 2
	if full {
		nflip = 6
	}
	for i := 0; i < nflip; i++ {
		add("flip-payload", c01FromParts(c01FlipBit(payload, rng.Intn(len(payload)*8)), sig))
		add("flip-signature", c01FromParts(payload, c01FlipBit(sig, rng.Intn(len(sig)*8))))
	}
	add("flip-signature-lastbit", c01FromParts(payload, c01FlipBit(sig, len(sig)*8-8)))
	// flips inside the embedded certificate (located by content; the golden is re-marshalled so that the
	// flip lands in the certificate whatever the field order)
	certOff := strings.Index(string(payload), string(env.baseG.Cert))
	if certOff >= 0 {
		n := len(env.baseG.Cert)
		pos := []int{certOff*8 + rng.Intn(n*8), (certOff+n-1)*8 + rng.Intn(8), (certOff+n/2)*8 + rng.Intn(8)}
		for _, p := range pos {
			add("flip-certificate", c01FromParts(c01FlipBit(payload, p), sig))
		}
		// a flipped certificate that is re-signed with the genuine key: signature fine, certificate broken
		g := c01Clone(env.baseG)
		g.Cert = c01FlipBit(g.Cert, (n-3)*8+rng.Intn(8))
		add("flip-certificate-resigned", c01Resign(crng, g, env.keyA))
	}
	// ---- certificate swaps and foreign keys
	gB := env.goldenFor(env.caB.leaf)
	pB, _ := proto.Marshal(gB)
	add("cert-swapped-foreign-keep-signature", c01FromParts(pB, sig))
	add("cert-swapped-foreign-resigned-foreign-key", c01Resign(crng, gB, env.caB.leafKey))
	add("resigned-foreign-key-genuine-cert", c01FromParts(payload, c01SignPSS(crng, env.caB.leafKey, payload, crypto.SHA256, 32)))
	add("cert-swapped-foreign-signed-genuine-key", c01FromParts(pB, c01SignPSS(crng, env.keyA, pB, crypto.SHA256, 32)))
	gRoot := env.goldenFor(env.rootA)
	add("cert-is-root-signed-by-leaf-key", c01Resign(crng, gRoot, env.keyA))
	// ---- signer certificates for the genuine key issued by the genuine root under ANOTHER algorithm
	// (the algorithm a certificate was signed with says nothing about the subject key's endorsements:
	// only RSA-PSS/SHA-256/salt 32 over the payload is authentic, whatever the issuer used)
	if ms, _ := memKeys(); ms.Keys[memRootKey] != nil {
		for _, alt := range []struct {
			name string
			alg  x509.SignatureAlgorithm
			sign func([]byte) []byte
		}{
			{"sha256rsa-pkcs1", x509.SHA256WithRSA, func(p []byte) []byte { return c01SignPKCS1(env.keyA, p) }},
			{"sha384pss", x509.SHA384WithRSAPSS, func(p []byte) []byte { return c01SignPSS(crng, env.keyA, p, crypto.SHA384, 48) }},
			{"sha512pss", x509.SHA512WithRSAPSS, func(p []byte) []byte { return c01SignPSS(crng, env.keyA, p, crypto.SHA512, 64) }},
		} {
			tpl := &x509.Certificate{Subject: env.leafA.Subject, SerialNumber: env.leafA.SerialNumber,
				NotBefore: env.leafA.NotBefore, NotAfter: env.leafA.NotAfter, KeyUsage: env.leafA.KeyUsage,
				ExtKeyUsage: env.leafA.ExtKeyUsage, SignatureAlgorithm: alt.alg}
			lb, err := x509.CreateCertificate(crng, tpl, env.rootA, env.keyA.Public(), ms.Keys[memRootKey])
			if err != nil {
				panic(err)
			}
			leaf, err := x509.ParseCertificate(lb)
			if err != nil {
				panic(err)
			}
			gAlt := env.goldenFor(leaf)
			pAlt, _ := proto.Marshal(gAlt)
			add("cert-issued-"+alt.name+"-signed-pss-sha256", c01FromParts(pAlt, c01SignPSS(crng, env.keyA, pAlt, crypto.SHA256, 32)))
			add("cert-issued-"+alt.name+"-signed-like-the-cert", c01FromParts(pAlt, alt.sign(pAlt)))
		}
	}
	// ---- padding / hash / salt with the genuine key
	add("pkcs1v15-genuine-key", c01FromParts(payload, c01SignPKCS1(env.keyA, payload)))
	add("pss-sha384-genuine-key", c01FromParts(payload, c01SignPSS(crng, env.keyA, payload, crypto.SHA384, 48)))
	for _, salt := range []int{0, 20, 31, 33, rsa.PSSSaltLengthAuto} {
		add(fmt.Sprintf("pss-sha256-salt%d-genuine-key", salt), c01FromParts(payload, c01SignPSS(crng, env.keyA, payload, crypto.SHA256, salt)))
	}
	add("pss-sha256-salt32-resigned-genuine-key", c01FromParts(payload, c01SignPSS(crng, env.keyA, payload, crypto.SHA256, 32)))
	add("signature-zeroed", c01FromParts(payload, make([]byte, len(sig))))
	add("signature-empty", c01FromParts(payload, nil))
	add("signature-truncated", c01FromParts(payload, sig[:len(sig)-1]))
	add("signature-of-other-payload", c01FromParts(payload, c01SignPSS(crng, env.keyA, append([]byte{0}, payload...), crypto.SHA256, 32)))
	// ---- the (payload, signature) boundary moved: payload cut at a top-level field boundary, the cut-off tail
	// prepended to the signature (the concatenation cert‖payload‖signature is unchanged — whatever identifies a
	// checked triple by that concatenation, or by less than all three parts, is fooled after the genuine one)
	for rest, off := payload, 0; len(rest) > 0; {
		_, _, n := protowire.ConsumeField(rest)
		if n <= 0 {
			break
		}
		off += n
		rest = rest[n:]
		if off < len(payload) {
			add("payload-tail-moved-into-signature", c01FromParts(append([]byte(nil), payload[:off]...), append(append([]byte(nil), payload[off:]...), sig...)))
		}
	}
	add("signature-head-moved-into-payload", c01FromParts(append(append([]byte(nil), payload...), sig[:7]...), append([]byte(nil), sig[7:]...)))
	// ---- same message, different bytes
	if re, ok := c01Reorder(payload); ok {
		add("payload-reencoded-field-order", c01FromParts(re, sig))
	}
	add("payload-unknown-field-appended", c01FromParts(append(append([]byte(nil), payload...), 0xf8, 0x7f, 0x01), sig))
	add("payload-truncated", c01FromParts(payload[:len(payload)-7], sig))
	add("payload-garbage", c01FromParts(rng.Bytes(64), sig))
	add("payload-empty", c01FromParts(nil, sig))
	// ---- provenance and timestamp (re-signed with the genuine key)
	change := time.Date(2024, time.August, 2, 0, 0, 0, 0, time.UTC)
	prov := func(desc string, ts *tspb.Timestamp, cl uint64, commit []byte) {
		g := c01Clone(env.baseG)
		g.Timestamp, g.ClSpec, g.Commit = ts, cl, commit
		add(desc, c01Resign(crng, g, env.keyA))
	}
	prov("no-timestamp", nil, 1234, nil)
	prov("no-timestamp-no-provenance", nil, 0, nil)
	prov("no-provenance-after-change-date", timeproto.To(baseTime), 0, nil)
	prov("no-provenance-before-change-date", timeproto.To(change.Add(-time.Hour)), 0, nil)
	prov("no-provenance-at-change-date", timeproto.To(change), 0, nil)
	prov("no-provenance-1ns-after-change-date", &tspb.Timestamp{Seconds: change.Unix(), Nanos: 1}, 0, nil)
	prov("no-provenance-1s-after-minus-1ns", &tspb.Timestamp{Seconds: change.Unix() + 1, Nanos: -1000000000}, 0, nil)
	prov("commit-only-after-change-date", timeproto.To(baseTime), 0, []byte("988881adc9fc3655077dc2d4d757d480b5ea0e11"))
	prov("clspec-only-after-change-date", timeproto.To(baseTime), 77, nil)
	// ---- certificate missing
	gNo := c01Clone(env.baseG)
	gNo.Cert = nil
	add("no-certificate", c01Resign(crng, gNo, env.keyA))
	gJunk := c01Clone(env.baseG)
	gJunk.Cert = rng.Bytes(300)
	add("certificate-garbage", c01Resign(crng, gJunk, env.keyA))
	// ---- contents altered and re-signed by the genuine key (authentic, later checks decide)
	gM := c01Clone(env.baseG)
	gM.SevSnp.Measurements = map[uint32][]byte{2: env.meas1}
	add("genuine-key-measurement-moved-to-2-vmsas", c01Resign(crng, gM, env.keyA))
	gS := c01Clone(env.baseG)
	gS.SevSnp.SvsmMeasurement = env.meas1
	add("genuine-key-svsm-measurement", c01Resign(crng, gS, env.keyA))
	gN := c01Clone(env.baseG)
	gN.SevSnp = nil
	gN.Tdx = nil
	add("genuine-key-no-technology", c01Resign(crng, gN, env.keyA))
	// ---- container level
	add("container-garbage", &c01Endo{container: append([]byte{0xff, 0xff, 0xff}, rng.Bytes(20)...)})
	add("container-empty-message", c01FromParts(nil, nil))
	return out
}

// scenario: one endorsement (the one under test) with a second, genuine one for the two-endorsement
// plumbing variants, under one root pool and one time.
type c01Scenario struct {
	mut   c01Mutant
	roots c01Roots
	now   c01Time
}

func (env *c01Env) prefix(ep, variant string, sc c01Scenario, endos []*c01Facts) string {
	var sb strings.Builder
	fmt.Fprintf(&sb, "c01 op=run ep=%s var=%s mut=%s rootsd=%s nowd=%s nilts=%s roots=%s ne=%d",
		ep, variant, tok(sc.mut.desc), tok(sc.roots.desc), tok(sc.now.desc), env.nilts, sc.roots.tok(), len(endos))
	for i, f := range endos {
		sb.WriteString(f.line(i))
	}
	return sb.String()
}

// record writes the case and evaluates the direct oracle: accepted and the endorsement that was decided
// about is not authentic by the independent facts.
func (env *c01Env) record(ep, line, cls string, used *c01Facts, sc c01Scenario) {
	c := env.c
	nontrivial := used != nil && used.g && used.c
	c.Case(line, cls, nontrivial)
	c.Count("ep/" + ep + "/" + cls)
	ok, clause := used.authentic(sc.roots.nilP)
	if ok {
		c.Count("used/authentic/" + cls)
	} else {
		c.Count("used/not-authentic:" + clause + "/" + cls)
	}
	if cls == "accept" && !ok {
		c.Find("c01/"+ep+"/accepted-not-authentic/"+clause,
			"entry point "+ep+" accepted an endorsement that is not authentic for the caller's roots and time: "+clause+" ("+sc.mut.desc+", roots "+sc.roots.desc+", now "+sc.now.desc+")",
			line)
	}
}

type c01SnpOpt struct {
	tok string
	o   *verify.SNPOptions
}

func (env *c01Env) snpOpts() []c01SnpOpt {
	return []c01SnpOpt{
		{"-", nil},
		{"0:nil", &verify.SNPOptions{}},
		{"0:" + hx(env.meas1), &verify.SNPOptions{Measurement: env.meas1}},
		{"0:" + hx(env.unendorsed), &verify.SNPOptions{Measurement: env.unendorsed}},
		{"0:", &verify.SNPOptions{Measurement: []byte{}}},
		{"1:" + hx(env.meas1), &verify.SNPOptions{Measurement: env.meas1, ExpectedLaunchVMSAs: 1}},
		{"2:" + hx(env.meas1), &verify.SNPOptions{Measurement: env.meas1, ExpectedLaunchVMSAs: 2}},
		{"2:nil", &verify.SNPOptions{ExpectedLaunchVMSAs: 2}},
	}
}

func (env *c01Env) pickSnp(lib bool) c01SnpOpt {
	os := env.snpOpts()
	r := env.c.Rng.Intn(10)
	if r < 4 {
		return os[0]
	}
	if r < 6 {
		return os[2]
	}
	return os[env.c.Rng.Intn(len(os))]
}

func (env *c01Env) pickExp() (string, []byte) {
	switch env.c.Rng.Intn(6) {
	case 0:
		return hx(env.digest), env.digest
	case 1:
		return hx(env.badDigest), env.badDigest
	}
	return "", nil
}

// sevFacts fills the SEV-specific facts of f for (att, vmsas): SevPolicy + PolicyToOptions, then
// go-sev-guest's report validation without any certificate-table validator.
func (env *c01Env) sevFacts(f *c01Facts, e *epb.VMLaunchEndorsement, att *spb.Attestation, vmsas uint32, overwrite bool) {
	if e == nil {
		return
	}
	Guard(func() {
		pol, err := gcetcbendorsement.SevPolicy(env.ctx, e, &gcetcbendorsement.SevPolicyOptions{LaunchVmsas: vmsas, AllowUnspecifiedVmsas: true, Overwrite: overwrite})
		if err != nil {
			return
		}
		vo, err := svalidate.PolicyToOptions(pol)
		if err != nil {
			return
		}
		f.pol = true
		f.base = svalidate.SnpAttestation(att, vo) == nil
	})
}

func (env *c01Env) tdxFacts(f *c01Facts, e *epb.VMLaunchEndorsement, q *tpb.QuoteV4, overwrite bool) {
	if e == nil {
		return
	}
	Guard(func() {
		pol, err := gcetcbendorsement.TdxPolicy(env.ctx, e, &gcetcbendorsement.TdxPolicyOptions{Overwrite: overwrite})
		if err != nil {
			return
		}
		vo, err := tvalidate.PolicyToOptions(pol)
		if err != nil {
			return
		}
		f.tpol = true
		f.quote = q != nil && tvalidate.TdxQuote(q, vo) == nil
	})
}

type c01IO struct{ files map[string][]byte }

type c01Writer struct{}

func (c01Writer) Write(b []byte) (int, error) { return len(b), nil }
func (c01Writer) IsTerminal() bool            { return false }

func (c01IO) Create(string) (gcetcbendorsement.TerminalWriter, func(), error) {
	return c01Writer{}, func() {}, nil
}
func (i c01IO) ReadFile(p string) ([]byte, error) {
	if b, ok := i.files[p]; ok {
		return b, nil
	}
	return nil, fmt.Errorf("file %q not found", p)
}

func (env *c01Env) runCLI(b *gcmd.Backend, args []string) string {
	return c01Classify(func() error {
		root := gcmd.MakeRoot(gcmd.VerifWithBackend(context.Background(), b))
		root.SetArgs(args)
		root.SetOut(io.Discard)
		root.SetErr(io.Discard)
		root.SilenceUsage = true
		root.SilenceErrors = true
		return root.Execute()
	})
}

// cliRoot chooses how the CLI gets its root certificate and returns the line tokens, the files and
// getter entries; the pool the command builds equals sc.roots.pool() exactly when ok.
func (env *c01Env) cliRoot(sc c01Scenario, files map[string][]byte, getm map[string][]byte) (toks string, args []string, getterNil bool) {
	rng := env.c.Rng
	pemBytes := c01PEM(sc.roots.certs...)
	okBytes := pemBytes
	if len(sc.roots.certs) == 1 && rng.Bool() {
		okBytes = sc.roots.certs[0].Raw // DER
	}
	mode := rng.Intn(10)
	switch {
	case mode < 5: // --root_cert file
		files["root"] = okBytes
		return " rootarg=1 rootfile=ok rootget=nil", []string{"--root_cert", "root"}, true
	case mode < 7: // default root URL served by the getter
		getm[gcetcbendorsement.DefaultRootURL] = okBytes
		return " rootarg=0 rootfile=missing rootget=ok", nil, false
	case mode == 7:
		files["root"] = []byte("-----BEGIN CERTIFICATE-----\nbm9wZQ==\n-----END CERTIFICATE-----\n")
		return " rootarg=1 rootfile=bad rootget=nil", []string{"--root_cert", "root"}, true
	case mode == 8:
		return " rootarg=1 rootfile=missing rootget=nil", []string{"--root_cert", "root"}, true
	default:
		if rng.Bool() {
			getm[gcetcbendorsement.DefaultRootURL] = []byte("junk")
			return " rootarg=0 rootfile=missing rootget=bad", nil, false
		}
		return " rootarg=0 rootfile=missing rootget=nil", nil, true
	}
}

func (env *c01Env) runScenario(sc c01Scenario, heavy bool) {
	c := env.c
	rng := c.Rng
	roots := sc.roots.pool()
	now := sc.now.t
	e := sc.mut.e
	f0 := c01IndependentFacts(e, roots, now)
	f1 := c01IndependentFacts(env.base, roots, now) // the genuine companion
	c.Count("mutant/" + sc.mut.desc)
	c.Count("roots/" + sc.roots.desc)
	c.Count("time/" + sc.now.desc)
	libOpts := func(snp *verify.SNPOptions, exp []byte) *verify.Options {
		return &verify.Options{RootsOfTrust: roots, Now: now, SNP: snp, ExpectedUefiSha384: exp}
	}

	// ---- verify.Endorsement
	{
		so := env.pickSnp(true)
		et, exp := env.pickExp()
		cls := c01Classify(func() error { return verify.Endorsement(e.container, libOpts(so.o, exp)) })
		line := env.prefix("endorsement", "bytes", sc, []*c01Facts{f0}) + fmt.Sprintf(" ser=0 snpo=%s exp=%s", so.tok, et)
		env.record("endorsement", line, cls, f0, sc)
	}
	// ---- verify.EndorsementProto
	if e.msg != nil {
		so := env.pickSnp(true)
		et, exp := env.pickExp()
		cls := c01Classify(func() error { return verify.EndorsementProto(e.msg, libOpts(so.o, exp)) })
		line := env.prefix("proto", "msg", sc, []*c01Facts{f0}) + fmt.Sprintf(" e=0 snpo=%s exp=%s", so.tok, et)
		env.record("proto", line, cls, f0, sc)
	}
	// ---- the SNP validator closure
	env.closureCases(sc, roots, now, e, f0, f1, heavy)
	// ---- SevValidate and `sev validate`
	env.sevCases(sc, roots, now, e, f0, f1, heavy)
	// ---- TdxValidate and `tdx validate`
	env.tdxCases(sc, roots, now, e, f0, heavy)
	// ---- `verify`
	if !sc.roots.nilP && len(sc.roots.certs) > 0 {
		files := map[string][]byte{"endorsement": e.container}
		getm := map[string][]byte{}
		rt, rargs, gnil := env.cliRoot(sc, files, getm)
		var getter verify.HTTPSGetter
		if !gnil {
			getter = &c01Getter{getm}
		}
		b := &gcmd.Backend{Getter: getter, Now: now, IO: c01IO{files}}
		efile := "0"
		if rng.Intn(12) == 0 {
			delete(files, "endorsement")
			efile = "-"
		}
		cls := env.runCLI(b, append([]string{"verify", "endorsement"}, rargs...))
		used := f0
		if efile == "-" {
			used = nil
		}
		line := env.prefix("cliverify", "cli", sc, []*c01Facts{f0}) + " efile=" + efile + rt + " getter=nil"
		env.record("cliverify", line, cls, used, sc)
	}
}

func (env *c01Env) closureCases(sc c01Scenario, roots *x509.CertPool, now time.Time, e *c01Endo, f0, f1 *c01Facts, heavy bool) {
	rng := env.c.Rng
	type variant struct {
		name     string
		ser      []byte
		serTok   string
		optE     *epb.VMLaunchEndorsement
		optTok   string
		getter   string // nil | fail | 0 | empty
		getMeas  []byte // which measurement's object the getter serves
		att      *spb.Attestation
		attTok   string
		used     *c01Facts
		fam      string
		needsMsg bool
	}
	good := &spb.Attestation{Report: &spb.Report{Measurement: env.meas1}}
	unend := &spb.Attestation{Report: &spb.Report{Measurement: env.unendorsed}}
	short := &spb.Attestation{Report: &spb.Report{Measurement: env.meas1[:47]}}
	noReport := &spb.Attestation{}
	vs := []variant{
		{name: "ser", ser: e.container, serTok: "0", optTok: "-", getter: "nil", att: good, attTok: hx(env.meas1), used: f0},
		{name: "opt", serTok: "-", optE: e.msg, optTok: "0", getter: "nil", att: good, attTok: hx(env.meas1), used: f0, needsMsg: true},
		{name: "get", serTok: "-", optTok: "-", getter: "0", getMeas: env.meas1, att: good, attTok: hx(env.meas1), used: f0},
	}
	if heavy {
		vs = append(vs,
			variant{name: "both-opt-wins-mutant", ser: env.base.container, serTok: "1", optE: e.msg, optTok: "0", getter: "nil", att: good, attTok: hx(env.meas1), used: f0, needsMsg: true},
			variant{name: "both-opt-wins-genuine", ser: e.container, serTok: "0", optE: env.base.msg, optTok: "1", getter: "nil", att: good, attTok: hx(env.meas1), used: f1},
			variant{name: "ser-unendorsed", ser: e.container, serTok: "0", optTok: "-", getter: "nil", att: unend, attTok: hx(env.unendorsed), used: f0},
			variant{name: "opt-unendorsed", serTok: "-", optE: e.msg, optTok: "0", getter: "nil", att: unend, attTok: hx(env.unendorsed), used: f0, needsMsg: true},
			variant{name: "get-other-object", serTok: "-", optTok: "-", getter: "0", getMeas: env.unendorsed, att: good, attTok: hx(env.meas1), used: nil},
			variant{name: "get-fail", serTok: "-", optTok: "-", getter: "fail", getMeas: env.meas1, att: good, attTok: hx(env.meas1), used: nil},
			variant{name: "no-getter", serTok: "-", optTok: "-", getter: "nil", att: good, attTok: hx(env.meas1), used: nil},
			variant{name: "nil-attestation", ser: e.container, serTok: "0", optTok: "-", getter: "nil", att: nil, attTok: "nil", used: nil},
			variant{name: "short-measurement", ser: e.container, serTok: "0", optTok: "-", getter: "nil", att: short, attTok: hx(env.meas1[:47]), used: nil},
			variant{name: "no-report", ser: e.container, serTok: "0", optTok: "-", getter: "nil", att: noReport, attTok: "", used: nil},
			variant{name: "ser-empty-bytes", ser: []byte{}, serTok: "empty", optTok: "-", getter: "nil", att: good, attTok: hx(env.meas1), used: nil},
			variant{name: "get-other-family", serTok: "-", optTok: "-", getter: "0", getMeas: env.meas1, att: good, attTok: hx(env.meas1), used: f0, fam: "11111111-2222-3333-4444-555555555555"},
		)
	}
	for _, v := range vs {
		if v.needsMsg && e.msg == nil {
			continue
		}
		fam := v.fam
		if fam == "" {
			fam = sev.GCEUefiFamilyID
		}
		var getter verify.HTTPSGetter
		getTok := v.getter
		geturl := "-"
		if v.getter != "nil" {
			prefix := "ovmf_x64_csm"
			if v.fam != "" {
				prefix = "unknown"
			}
			m := map[string][]byte{}
			if v.getter == "0" {
				m[c01SnpURL(prefix, v.getMeas)] = e.container
			}
			getter = &c01Getter{m}
			geturl = fam + ":" + hx(v.getMeas)
		}
		// the closure's own SNP options: nil, or a VMSA count
		var snp *verify.SNPOptions
		snpTok := "-"
		switch rng.Intn(5) {
		case 0:
			snp, snpTok = &verify.SNPOptions{}, "0:nil"
		case 1:
			snp, snpTok = &verify.SNPOptions{ExpectedLaunchVMSAs: 1}, "1:nil"
		case 2:
			// a stale measurement left in the options must not matter: the closure uses the report's
			snp, snpTok = &verify.SNPOptions{Measurement: env.meas1}, "0:"+hx(env.meas1)
		}
		opts := &verify.Options{RootsOfTrust: roots, Now: now, SNP: snp, Endorsement: v.optE, Getter: getter}
		var fn func(*spb.Attestation, []byte) error
		if v.fam == "" && rng.Bool() {
			fn = verify.SNPValidateFunc(opts)
		} else {
			fn = verify.SNPFamilyValidateFunc(fam, opts)
		}
		cls := c01Classify(func() error { return fn(v.att, v.ser) })
		endos := []*c01Facts{f0}
		if v.serTok == "1" || v.optTok == "1" {
			endos = append(endos, f1)
		}
		line := env.prefix("closure", v.name, sc, endos) + fmt.Sprintf(" fam=%s att=%s ser=%s optE=%s getter=%s geturl=%s snpo=%s",
			fam, v.attTok, v.serTok, v.optTok, getTok, geturl, snpTok)
		env.record("closure", line, cls, v.used, sc)
	}
}

func (env *c01Env) sevCases(sc c01Scenario, roots *x509.CertPool, now time.Time, e *c01Endo, f0in, f1in *c01Facts, heavy bool) {
	rng := env.c.Rng
	type variant struct {
		name    string
		meas    []byte
		extras  map[string][]byte
		extTok  string
		optE    *epb.VMLaunchEndorsement
		optTok  string
		getter  string
		vmsas   uint32
		force   bool
		used    int // 0, 1, or -1 (none / the empty endorsement)
		needMsg bool
		cli     bool
		nilAtt  bool
	}
	g := sev.GCEFwCertGUID
	other := "00000000-1111-2222-3333-444444444444"
	vs := []variant{
		{name: "extras", meas: env.meas1, extras: map[string][]byte{g: e.container}, extTok: g + ":0", optTok: "-", getter: "nil", used: 0, cli: true},
		{name: "opt", meas: env.meas1, extTok: "-", optE: e.msg, optTok: "0", getter: "nil", used: 0, needMsg: true, cli: true},
	}
	if heavy {
		vs = append(vs,
			variant{name: "get", meas: env.meas1, extTok: "-", optTok: "-", getter: "0", used: 0},
			variant{name: "opt-over-genuine-extras", meas: env.meas1, extras: map[string][]byte{g: env.base.container}, extTok: g + ":1", optE: e.msg, optTok: "0", getter: "nil", used: 0, needMsg: true, cli: true},
			variant{name: "genuine-opt-over-extras", meas: env.meas1, extras: map[string][]byte{g: e.container}, extTok: g + ":0", optE: env.base.msg, optTok: "1", getter: "nil", used: 1},
			variant{name: "extras-unendorsed-report", meas: env.unendorsed, extras: map[string][]byte{g: e.container}, extTok: g + ":0", optTok: "-", getter: "nil", used: 0},
			variant{name: "other-guid-only", meas: env.meas1, extras: map[string][]byte{other: e.container}, extTok: other + ":0", optTok: "-", getter: "nil", used: -1},
			variant{name: "no-endorsement", meas: env.meas1, extTok: "-", optTok: "-", getter: "nil", used: -1},
			variant{name: "extras-force-gcs", meas: env.meas1, extras: map[string][]byte{g: e.container}, extTok: g + ":0", optTok: "-", getter: "nil", force: true, used: 0, cli: true},
			variant{name: "extras-vmsas1", meas: env.meas1, extras: map[string][]byte{g: e.container}, extTok: g + ":0", optTok: "-", getter: "nil", vmsas: 1, used: 0},
			variant{name: "nil-attestation-opt", meas: env.meas1, extTok: "-", optE: e.msg, optTok: "0", getter: "nil", used: 0, needMsg: true, nilAtt: true},
			variant{name: "garbage-extras-then-get", meas: env.meas1, extras: map[string][]byte{g: {0xff, 0xff, 0xff, 0x01}}, extTok: g + ":garbage", optTok: "-", getter: "0", used: 0},
			variant{name: "extras-vmsas2", meas: env.meas1, extras: map[string][]byte{g: e.container}, extTok: g + ":0", optTok: "-", getter: "nil", vmsas: 2, used: 0},
		)
	}
	for _, v := range vs {
		if v.needMsg && e.msg == nil {
			continue
		}
		att := env.sevAtt(v.meas, v.extras)
		attTok := hx(v.meas)
		if v.nilAtt {
			att, attTok = nil, "nil"
		}
		overwrite := rng.Intn(4) == 0
		f0, f1 := *f0in, *f1in
		env.sevFacts(&f0, e.msg, att, v.vmsas, overwrite)
		env.sevFacts(&f1, env.base.msg, att, v.vmsas, overwrite)
		endos := []*c01Facts{&f0}
		if v.optTok == "1" || strings.HasSuffix(v.extTok, ":1") {
			endos = append(endos, &f1)
		}
		var used *c01Facts
		switch v.used {
		case 0:
			used = &f0
		case 1:
			used = &f1
		}
		var getter verify.HTTPSGetter
		geturl := "-"
		if v.getter != "nil" {
			getter = &c01Getter{map[string][]byte{c01SnpURL("ovmf_x64_csm", v.meas): e.container}}
			geturl = sev.GCEUefiFamilyID + ":" + hx(v.meas)
		}
		tail := fmt.Sprintf(" att=%s extras=%s optE=%s getter=%s geturl=%s vmsas=%d overwrite=%s force=%s",
			attTok, v.extTok, v.optTok, v.getter, geturl, v.vmsas, b2s(overwrite), b2s(v.force))
		cls := c01Classify(func() error {
			return gcetcbendorsement.SevValidate(env.ctx, att, &gcetcbendorsement.SevValidateOptions{
				Endorsement: v.optE, RootsOfTrust: roots, Now: now, Getter: getter, Overwrite: overwrite,
				ExpectedLaunchVmsas: v.vmsas, TestonlyForceGCS: v.force})
		})
		env.record("sev", env.prefix("sev", v.name, sc, endos)+tail, cls, used, sc)

		// the same through `gcetcbendorsement sev validate` (the CLI forwards neither --launch_vmsas nor a getter-less backend)
		if v.cli && !v.nilAtt && v.vmsas == 0 && !sc.roots.nilP && len(sc.roots.certs) > 0 && (heavy || rng.Intn(2) == 0) {
			ab, err := proto.Marshal(&tpmpb.Attestation{TeeAttestation: &tpmpb.Attestation_SevSnpAttestation{SevSnpAttestation: att}})
			if err != nil {
				panic(err)
			}
			files := map[string][]byte{"att": ab}
			getm := map[string][]byte{}
			args := []string{"sev"}
			if overwrite {
				args = append(args, "--overwrite")
			}
			args = append(args, "validate", "att")
			efile := "-"
			if v.optE != nil {
				// the pre-supplied endorsement travels as a file: the container bytes of the same endorsement
				if v.optTok == "0" {
					files["endorsement"] = e.container
				} else {
					files["endorsement"] = env.base.container
				}
				efile = v.optTok
				args = append(args, "--endorsement", "endorsement")
			}
			rt, rargs, gnil := env.cliRoot(sc, files, getm)
			args = append(args, rargs...)
			if v.force {
				args = append(args, "--testonly_force_gcs")
			}
			attfile, attparse := "ok", "sev"
			switch rng.Intn(14) {
			case 0:
				delete(files, "att")
				attfile = "missing"
			case 1:
				files["att"] = env.quoteGood
				attparse = "tdx"
			}
			var bg verify.HTTPSGetter
			if !gnil {
				bg = &c01Getter{getm}
			}
			b := &gcmd.Backend{Getter: bg, Now: now, IO: c01IO{files}}
			cls := env.runCLI(b, args)
			u := used
			if attfile != "ok" || attparse != "sev" {
				u = nil
			}
			line := env.prefix("clisev", v.name, sc, endos) + fmt.Sprintf(" att=%s extras=%s efile=%s getter=nil geturl=- vmsas=0 overwrite=%s force=%s attfile=%s attparse=%s",
				hx(v.meas), v.extTok, efile, b2s(overwrite), b2s(v.force), attfile, attparse) + rt
			env.record("clisev", line, cls, u, sc)
		}
	}
}

func (env *c01Env) tdxCases(sc c01Scenario, roots *x509.CertPool, now time.Time, e *c01Endo, f0in *c01Facts, heavy bool) {
	rng := env.c.Rng
	if e.msg == nil {
		return // without a pre-supplied endorsement TdxValidate goes to the event log and the network (2 min timeout)
	}
	type variant struct {
		name     string
		att      []byte
		q        *tpb.QuoteV4
		attparse string
	}
	vs := []variant{{"endorsed-mrtd", env.quoteGood, env.quoteGoodProto, "tdx"}}
	if heavy {
		vs = append(vs,
			variant{"unendorsed-mrtd", env.quoteBad, env.quoteBadProto, "tdx"},
			variant{"sev-attestation", env.sevAttBytes, nil, "sev"},
			variant{"empty-tpm-attestation", []byte{0x0a, 0x00}, nil, "other"},
		)
	}
	for _, v := range vs {
		// attparse is a fact about extract.Attestation (format detection), probed directly
		if ta, err := extract.Attestation(v.att); err != nil {
			v.attparse = "bad"
		} else {
			switch ta.TeeAttestation.(type) {
			case *tpmpb.Attestation_TdxAttestation:
				v.attparse = "tdx"
			case *tpmpb.Attestation_SevSnpAttestation:
				v.attparse = "sev"
			default:
				v.attparse = "other"
			}
		}
		overwrite := rng.Intn(4) == 0
		f0 := *f0in
		env.tdxFacts(&f0, e.msg, v.q, overwrite)
		used := &f0
		if v.attparse != "tdx" {
			used = nil
		}
		cls := c01Classify(func() error {
			return gcetcbendorsement.TdxValidate(env.ctx, v.att, &gcetcbendorsement.TdxValidateOptions{
				Endorsement: e.msg, RootsOfTrust: roots, Now: now, Overwrite: overwrite})
		})
		tail := fmt.Sprintf(" attparse=%s optE=0 overwrite=%s", v.attparse, b2s(overwrite))
		env.record("tdx", env.prefix("tdx", v.name, sc, []*c01Facts{&f0})+tail, cls, used, sc)

		if !sc.roots.nilP && len(sc.roots.certs) > 0 && (heavy || rng.Intn(2) == 0) {
			files := map[string][]byte{"att": v.att, "endorsement": e.container}
			getm := map[string][]byte{}
			rt, rargs, gnil := env.cliRoot(sc, files, getm)
			args := []string{"tdx"}
			if overwrite {
				args = append(args, "--overwrite")
			}
			args = append(append(args, "validate", "att", "--endorsement", "endorsement"), rargs...)
			attfile := "ok"
			if rng.Intn(14) == 0 {
				delete(files, "att")
				attfile = "missing"
			}
			var bg verify.HTTPSGetter
			if !gnil {
				bg = &c01Getter{getm}
			}
			b := &gcmd.Backend{Getter: bg, Now: now, IO: c01IO{files}}
			cls := env.runCLI(b, args)
			u := used
			if attfile != "ok" {
				u = nil
			}
			line := env.prefix("clitdx", v.name, sc, []*c01Facts{&f0}) + fmt.Sprintf(" attparse=%s efile=0 overwrite=%s getter=nil attfile=%s", v.attparse, b2s(overwrite), attfile) + rt
			env.record("clitdx", line, cls, u, sc)
		}
	}
}

// opsCases: sign/ops.VerifySignatureFromCA, the signer-side check of a fresh signature against the CA's
// own bundle (code-signing key usage required).
func (env *c01Env) opsCases(times []c01Time) {
	c := env.c
	rng := c.Rng
	crng := env.crng
	_, ca := memKeys()
	ctx := context.Background()
	msg := env.base.msg.SerializedUefiGolden
	good := env.base.msg.Signature
	type sv struct {
		desc string
		key  string
		msg  []byte
		sig  []byte
	}
	sigs := []sv{
		{"genuine", memSignKey, msg, good},
		{"flip-signature", memSignKey, msg, c01FlipBit(good, rng.Intn(len(good)*8))},
		{"flip-message", memSignKey, c01FlipBit(msg, rng.Intn(len(msg)*8)), good},
		{"pkcs1v15", memSignKey, msg, c01SignPKCS1(env.keyA, msg)},
		{"pss-salt20", memSignKey, msg, c01SignPSS(crng, env.keyA, msg, crypto.SHA256, 20)},
		{"pss-sha384", memSignKey, msg, c01SignPSS(crng, env.keyA, msg, crypto.SHA384, 48)},
		{"foreign-key", memSignKey, msg, c01SignPSS(crng, env.caB.leafKey, msg, crypto.SHA256, 32)},
		{"unknown-key-name", "no-such-key", msg, good},
		{"root-key-name", memRootKey, msg, good},
	}
	for _, s := range sigs {
		for _, t := range times {
			// independent facts
			var certOK, poolOK, ch, sg bool
			cert := ca.Certs[s.key]
			certOK = cert != nil
			bundle, err := ca.CABundle(ctx, s.key)
			pool := x509.NewCertPool()
			poolOK = err == nil && pool.AppendCertsFromPEM(bundle)
			if certOK && poolOK {
				_, err := cert.Verify(x509.VerifyOptions{Roots: pool, CurrentTime: t.t, KeyUsages: []x509.ExtKeyUsage{x509.ExtKeyUsageCodeSigning}})
				ch = err == nil
				if pub, ok := cert.PublicKey.(*rsa.PublicKey); ok && cert.SignatureAlgorithm == x509.SHA256WithRSAPSS && cert.PublicKeyAlgorithm == x509.RSA {
					sg = c01VerifyPSS32(pub, s.msg, s.sig)
				}
			}
			cls := c01Classify(func() error { return ops.VerifySignatureFromCA(ctx, ca, s.key, t.t, s.msg, s.sig) })
			line := fmt.Sprintf("c01 op=run ep=ops mut=%s nowd=%s nilts=%s ne=1 cert=%s pool=%s e0.ser=1 e0.g=0 e0.ch=%s e0.s=%s",
				tok(s.desc), tok(t.desc), env.nilts, b2s(certOK), b2s(poolOK), b2s(ch), b2s(sg))
			c.Case(line, cls, certOK)
			c.Count("ep/ops/" + cls)
			if cls == "accept" && !(certOK && poolOK && ch && sg) {
				c.Find("c01/ops/accepted-not-authentic", "ops.VerifySignatureFromCA accepted a signature that the independent check rejects ("+s.desc+", now "+t.desc+")", line)
			}
		}
	}
}

func runC01(c *Ctx) {
	env := &c01Env{c: c}
	env.setup()
	c.Extra["timeproto.From(nil)"] = env.nilts
	T0 := c01Time{"valid", baseTime.Add(time.Hour)}
	rootsA := c01Roots{desc: "genuine-root", certs: []*x509.Certificate{env.rootA}}
	allRoots := []c01Roots{
		rootsA,
		{desc: "nil-pool", nilP: true},
		{desc: "empty-pool"},
		{desc: "foreign-root", certs: []*x509.Certificate{env.caB.root}},
		{desc: "foreign+genuine-roots", certs: []*x509.Certificate{env.caB.root, env.rootA}},
		{desc: "three-roots", certs: []*x509.Certificate{env.caC.root, env.caB.root, env.rootA}},
		{desc: "signer-cert-as-root", certs: []*x509.Certificate{env.leafA}},
		{desc: "foreign-signer-cert-as-root", certs: []*x509.Certificate{env.caB.leaf}},
	}
	sec := time.Second
	window := func(name string, cert *x509.Certificate) []c01Time {
		return []c01Time{
			{name + "-notBefore-1s", cert.NotBefore.Add(-sec)},
			{name + "-notBefore", cert.NotBefore},
			{name + "-notBefore+1s", cert.NotBefore.Add(sec)},
			{name + "-notAfter-1s", cert.NotAfter.Add(-sec)},
			{name + "-notAfter", cert.NotAfter},
			{name + "-notAfter+1s", cert.NotAfter.Add(sec)},
		}
	}
	timesA := append([]c01Time{T0, {"zero-time-means-wall-clock", time.Time{}}, {"year-1999", time.Date(1999, 1, 1, 0, 0, 0, 0, time.UTC)}, {"year-2100", time.Date(2100, 1, 1, 0, 0, 0, 0, time.UTC)}},
		append(window("signer", env.leafA), window("root", env.rootA)...)...)

	muts := env.mutants(!c.Quick())
	// (1) every mutant under the genuine roots at a valid time, all plumbing variants
	for _, m := range muts {
		env.runScenario(c01Scenario{m, rootsA, T0}, true)
		c.Count("scenario/mutant-sweep")
	}
	// (2) the genuine endorsement and the self-consistent foreign one under every pool
	var foreignSelf c01Mutant
	for _, m := range muts {
		if m.desc == "cert-swapped-foreign-resigned-foreign-key" {
			foreignSelf = m
		}
	}
	for _, r := range allRoots {
		env.runScenario(c01Scenario{muts[0], r, T0}, true)
		env.runScenario(c01Scenario{foreignSelf, r, T0}, false)
		c.Count("scenario/roots-sweep")
	}
	// (3) time boundaries of either certificate: pipeline CA, nested windows, overlapping windows
	for _, t := range timesA {
		env.runScenario(c01Scenario{muts[0], rootsA, t}, false)
		c.Count("scenario/time-sweep")
	}
	for _, ca := range []*miniCA{env.caC, env.caD} {
		gen := c01Mutant{"genuine-" + ca.name + "-ca", c01Resign(env.crng, env.goldenFor(ca.leaf), ca.leafKey)}
		r := c01Roots{desc: ca.name + "-root", certs: []*x509.Certificate{ca.root}}
		// a time inside both windows first (and again between the boundary times): verdicts must not carry over
		mid := c01Time{"mid-window", baseTime.Add(50 * 24 * time.Hour)}
		ts := []c01Time{mid}
		for _, t := range append(window("signer", ca.leaf), window("root", ca.root)...) {
			ts = append(ts, t, mid)
		}
		for _, t := range ts {
			env.runScenario(c01Scenario{gen, r, t}, false)
			c.Count("scenario/time-sweep")
		}
	}
	// (4) sign/ops.VerifySignatureFromCA
	env.opsCases(append([]c01Time{T0}, window("signer", env.leafA)...))
	// (5) random combinations: mutant x pool x time
	n := c.N(1200, 12000)
	for i := 0; i < n; i++ {
		if i%40 == 0 {
			muts = env.mutants(false) // fresh random flip positions and salts
		}
		m := muts[c.Rng.Intn(len(muts))]
		r := allRoots[c.Rng.Intn(len(allRoots))]
		if c.Rng.Intn(3) > 0 {
			r = rootsA
		}
		t := T0
		if c.Rng.Intn(3) == 0 {
			t = timesA[c.Rng.Intn(len(timesA))]
		}
		env.runScenario(c01Scenario{m, r, t}, c.Rng.Intn(4) == 0)
		c.Count("scenario/random")
	}
}
