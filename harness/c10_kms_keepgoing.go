package main

// The general form of the repaired finding C12-K5 on the stack where it bites: a rotation on Cloud KMS that
// died after the certificate upload and before the manifest write leaves the object certs/<cn>-<serial>.crt
// behind, certifying version N+1. The retry creates version N+2 (Cloud KMS never reuses a version), derives
// the same serial and so the same object name. Run with --keep_going and WITHOUT --overwrite, gcsca.upload
// used to leave the object alone and record it for N+2 all the same: the new primary's certificate was then
// the one of N+1. Since the second "fix:" commit to gcsca.upload the existing object is an error also under
// --keep_going. --keep_going is outside the C10 model (direct oracle only): the retry must either be refused
// and leave every C10 clause intact, or succeed with every clause intact; a later retry with --overwrite
// must succeed.

import (
	"fmt"
	"os"

	"github.com/google/gce-tcb-verifier/rotate"
)

func runC10KmsKeepGoing(c *Ctx, snaps map[string]*k10Snap) {
	for _, ca := range []string{"gcsmem", "gcslocal"} {
		for _, hist := range []string{"0", "1"} {
			snap, ok := snaps[hist]
			if !ok {
				continue
			}
			// position of the call that opens the manifest's writer, measured on a fault-free run
			pos := -1
			{
				dir, err := os.MkdirTemp("", "verif-c10kg-")
				must(err)
				k := newK10Inst(ca, snap, dir, &Rng{s: c.Rng.Next()})
				ctx := rotateCtx(k.ctx(false, nil, k10Env{}), "sig", k.in.nextSerial())
				runGuarded(func() error { _, err := rotate.Key(ctx); return err })
				k.cl.cancel()
				for i, l := range k.f.log {
					if l == "st.w.keyManifest.textproto" {
						pos = i
					}
				}
				os.RemoveAll(dir)
			}
			if pos < 0 {
				c.Find("c10/gcpkms/keep-going/no-manifest-write", "a fault-free rotation did not open the manifest for writing", "stack=gcpkms+"+ca)
				continue
			}
			for _, o := range []int{fFail, fCrash} {
				dir, err := os.MkdirTemp("", "verif-c10kg-")
				must(err)
				k := newK10Inst(ca, snap, dir, &Rng{s: c.Rng.Next()})
				old := k.primary()
				serial := k.in.nextSerial()
				// attempt 1: dies at / right after opening the manifest's writer: the certificate object is written
				ctx := rotateCtx(k.ctx(false, map[int]int{pos: o}, k10Env{}), "sig", serial)
				res1, _ := runGuarded(func() error { _, err := rotate.Key(ctx); return err })
				k.cl.cancel()
				obj := fmt.Sprintf("%s/sig-%d.crt", e1CertDir, serial)
				replay := fmt.Sprintf("stack=gcpkms+%s hist=%s attempt1=%s@%d(%s) leftover=%s attempt2=keep_going,no-overwrite serial=%d",
					ca, hist, map[int]string{fFail: "fail", fCrash: "crash"}[o], pos, res1, obj, serial)
				if _, ok := k.in.objects()[obj]; !ok || k.primary() != old {
					c.Find("c10/gcpkms/keep-going/setup", "the faulted attempt did not leave the certificate object behind with the old primary recorded", replay)
					os.RemoveAll(dir)
					continue
				}
				// attempt 2: --keep_going, no --overwrite, same serial (the CLI's default: primary's + 1)
				k.keepGoing = true
				ctx2 := rotateCtx(k.ctx(false, nil, k10Env{}), "sig", k.in.nextSerial())
				res2, err2 := runGuarded(func() error { _, err := rotate.Key(ctx2); return err })
				k.cl.cancel()
				k.keepGoing = false
				c.Count("keep-going-over-leftover/" + ca + "/res-" + res2)
				if cl, d := k10Oracle(k); cl != "" {
					c.Find("c10/gcpkms/"+cl+"/keep-going-retry-over-leftover",
						fmt.Sprintf("after a --keep_going rotation (no --overwrite) over the certificate object a failed attempt left behind (result %s, %v): %s", res2, err2, d), replay)
				}
				if res2 == "ok" {
					// the recorded entry of the new primary must name an object written by THIS attempt
					if p := k.primary(); p == old {
						c.Find("c10/gcpkms/keep-going/ok-without-new-primary", "rotate.Key returned success but the primary did not change", replay)
					}
				} else if k.primary() != old {
					c.Find("c10/gcpkms/keep-going/refused-but-primary-changed", "the rotation failed but the stored manifest names a new primary", replay)
				}
				// attempt 3: --overwrite replaces the leftover
				ctx3 := rotateCtx(k.ctx(true, nil, k10Env{}), "sig", k.in.nextSerial())
				res3, err3 := runGuarded(func() error { _, err := rotate.Key(ctx3); return err })
				k.cl.cancel()
				if res3 != "ok" {
					c.Find("c10/gcpkms/retry-fails/keep-going-retry-over-leftover", fmt.Sprintf("fault-free rotation with overwrite failed: %v", err3), replay)
				} else if cl, d := k10Oracle(k); cl != "" {
					c.Find("c10/gcpkms/retry-"+cl+"/keep-going-retry-over-leftover", "after the retry with overwrite: "+d, replay)
				}
				os.RemoveAll(dir)
			}
		}
	}
}
