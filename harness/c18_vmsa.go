package main

import (
	"bytes"
	"crypto/sha512"
	"fmt"
	"reflect"
	"strings"

	spb "github.com/google/gce-tcb-verifier/proto/sev"
	"github.com/google/gce-tcb-verifier/sev"
	"google.golang.org/protobuf/encoding/prototext"
)

// c18Vmsa: strictness of sev.PutVmsa (the only VMSA codec in the repository): every reserved field of the
// save area — byte-array fields and 64-bit fields alike — must be refused when non-zero (or of the wrong
// size) and accepted when all zero and of the ABI size; the architected fields PutVmsa does not write
// (VALID_BITMAP, X87_STATE_GPA) must be refused when non-zero rather than dropped; every out-of-range segment
// selector / attribute and CPL must be refused, and in-range values are written. Each case takes the GCE reset state, overrides ONE field found by reflection on the proto struct
// (so a new field cannot be forgotten) and is compared with the Lean interpreter of the regenerated PutVmsa
// statement table (`c04 op=vmsax`, model of C04); the direct oracle states the strictness clause itself.
func c18Vmsa(c *Ctx) {
	base := func() *spb.VmcbSaveArea {
		v := &spb.VmcbSaveArea{}
		if err := (prototext.UnmarshalOptions{}).Unmarshal([]byte(sev.VmsaV1), v); err != nil {
			panic(err)
		}
		return v
	}
	// ABI sizes of the byte-array fields (APM vol. 2 table B-4 / the comments of proto/sev: reserved ranges
	// 0xA0-0xCA, 0xCC-0xCF, 0xD8-0x13F, 0x180-0x1D7, 0x1E0-0x1F7, 0x248-0x267, 0x298-0x2E7, 0x2EC-0x2FF,
	// 0x380-0x38F, 0x3B8-0x3E7, VALID_BITMAP 0x3F0-0x3FF, 0x408-0x7FF), written here independently of sev/abi.go
	abiSize := map[string]int{"Reserved_1": 43, "Reserved_2": 4, "Reserved_3": 104, "Reserved_4": 88, "Reserved_5": 24,
		"Reserved_6": 32, "Reserved_7": 80, "Reserved_7A": 20, "Reserved_10": 16, "Reserved_11": 48, "Reserved_12": 1016,
		"ValidBitmap": 16}
	// architected fields PutVmsa does not write (zero at launch): a non-zero value must be refused, not dropped
	notWritten := map[string]bool{"ValidBitmap": true, "X87StateGpa": true}
	var mustAccept bool
	run := func(v *spb.VmcbSaveArea, set, rset, what string, mustRefuse bool) {
		accept := mustAccept
		mustAccept = false
		op := "c04 op=vmsax set=" + set + " rset=" + rset
		page := make([]byte, 4096)
		var err error
		pan, msg, _ := Guard(func() { err = sev.PutVmsa(v, page) })
		switch {
		case pan:
			c.Find("c18/PutVmsa/panic", "sev.PutVmsa panicked: "+msg, op)
			c.Case(op, "panic", true)
		case err != nil:
			c.Case(op, "reject", true)
			c.Count("vmsa/" + what + "/reject")
			if accept {
				c.Find("c18/PutVmsa/strict/"+what+"-refused", "sev.PutVmsa refused a save area whose "+what+" ("+set+rset+") is an in-range value: "+err.Error(), op)
			}
		default:
			h := sha512.Sum384(page)
			c.Case(op, "ok "+hx(h[:]), true)
			c.Count("vmsa/" + what + "/ok")
			// the encoding is a function of the value alone: the same save area written over a buffer that
			// held something else (a page that staged firmware before) gives the same SizeofVmsa bytes
			dirty := bytes.Repeat([]byte{0xa5}, 4096)
			var derr error
			if dp, _, _ := Guard(func() { derr = sev.PutVmsa(v, dirty) }); dp || derr != nil {
				c.Find("c18/PutVmsa/encoding-depends-on-buffer/outcome", "sev.PutVmsa succeeds on a zeroed buffer and fails on a used one for the same save area", op)
			} else if !bytes.Equal(dirty[:sev.SizeofVmsa], page[:sev.SizeofVmsa]) {
				i := 0
				for dirty[i] == page[i] {
					i++
				}
				c.Find("c18/PutVmsa/encoding-depends-on-buffer/bytes", fmt.Sprintf("the VMSA bytes depend on what the output buffer held before (first difference at offset %#x): reserved or unwritten ranges are not set", i), op)
			}
			c.Count("vmsa/dirty-buffer-compared")
			if mustRefuse {
				c.Find("c18/PutVmsa/strict/"+what+"-accepted", "sev.PutVmsa accepted a save area whose "+what+" ("+set+rset+") must be refused", op)
			}
		}
	}
	t := reflect.TypeOf(spb.VmcbSaveArea{})
	for i := 0; i < t.NumField(); i++ {
		f := t.Field(i)
		if !f.IsExported() {
			continue
		}
		lower := strings.ToLower(f.Name)
		switch {
		case strings.HasPrefix(lower, "reserved") && f.Type.Kind() == reflect.Uint64:
			for _, x := range []uint64{1, 0x100, 1 << 63} {
				v := base()
				reflect.ValueOf(v).Elem().Field(i).SetUint(x)
				run(v, fmt.Sprintf("%s:%d", f.Name, x), "", "reserved64-nonzero", true)
			}
			run(base(), f.Name+":0", "", "reserved64-zero", false)
		case notWritten[f.Name] && f.Type.Kind() == reflect.Uint64:
			for _, x := range []uint64{1, 5, 0x1000, 1 << 63} {
				v := base()
				reflect.ValueOf(v).Elem().Field(i).SetUint(x)
				run(v, fmt.Sprintf("%s:%d", f.Name, x), "", "value-not-written", true)
			}
			mustAccept = true
			run(base(), f.Name+":0", "", "value-not-written-zero", false)
		case (strings.HasPrefix(lower, "reserved") || notWritten[f.Name]) && f.Type.Kind() == reflect.Slice:
			what := "reserved-bytes-nonzero"
			if notWritten[f.Name] {
				what = "value-not-written"
			}
			size, known := abiSize[f.Name]
			if !known {
				c.Find("c18/PutVmsa/strict/byte-field-without-abi-size", "VmcbSaveArea has a reserved byte field the harness has no ABI size for: "+f.Name, f.Name)
			}
			// the ABI size must be accepted when all zero and refused with any byte set; other sizes are refused
			for _, n := range []int{1, 4, 16, 20, 24, 32, 43, 48, 56, 80, 88, 104, 1016} {
				for _, pos := range []int{0, n - 1} {
					b := make([]byte, n)
					b[pos] = 0x80
					v := base()
					reflect.ValueOf(v).Elem().Field(i).SetBytes(b)
					run(v, "", f.Name+":"+hx(b), what, true)
				}
				v := base()
				reflect.ValueOf(v).Elem().Field(i).SetBytes(make([]byte, n))
				if known && n == size {
					mustAccept = true
					run(v, "", f.Name+":"+hx(make([]byte, n)), "in-range-value", false)
				} else {
					run(v, "", f.Name+":"+hx(make([]byte, n)), "reserved-bytes-zero-wrong-size", known)
				}
			}
		case f.Type == reflect.TypeOf((*spb.VmcbSeg)(nil)):
			for _, sub := range []string{"Selector", "Attrib"} {
				for _, x := range []uint32{0xffff, 0x10000, 0xffffffff} {
					v := base()
					seg := &spb.VmcbSeg{}
					if cur := reflect.ValueOf(v).Elem().Field(i).Interface().(*spb.VmcbSeg); cur != nil {
						seg = cur
					}
					reflect.ValueOf(seg).Elem().FieldByName(sub).SetUint(uint64(x))
					reflect.ValueOf(v).Elem().Field(i).Set(reflect.ValueOf(seg))
					run(v, fmt.Sprintf("%s.%s:%d", f.Name, sub, x), "", "segment-"+strings.ToLower(sub)+"-range", x > 0xffff)
				}
			}
		case f.Name == "Cpl":
			for _, x := range []uint32{0, 3, 255, 256, 0xffffffff} {
				v := base()
				reflect.ValueOf(v).Elem().Field(i).SetUint(uint64(x))
				run(v, fmt.Sprintf("Cpl:%d", x), "", "cpl-range", x > 255)
			}
		case f.Type.Kind() == reflect.Uint64:
			v := base()
			x := c.Rng.Next() | 1
			reflect.ValueOf(v).Elem().Field(i).SetUint(x)
			run(v, fmt.Sprintf("%s:%d", f.Name, x), "", "plain-field", false)
		}
	}
}
