package main

import (
	"fmt"
	"strings"
)

// Stream c06cli: the signed document of a REAL run of the shipped command line (cmd.MakeApp … endorse --uefi fw.fd
// --add_snp/--add_tdx …) is decoded from the file the run writes and held against this property's document oracle
// (c06OracleGolden + timestamp): digest, SVN of the S_CRTM side file in EVERY endorsed technology, measurements for the
// named counts / product / shapes, ids, provenance, timestamp.  Every command line is also a `cli op=run` protocol
// line: the Lean model of the command (Model/EndorseCli.lean — flag parsing, PersistentPreRunE, InitContext, hand-over
// to the pipeline model) must yield the same endorse.Context field by field, the same result and the same effect log.
func init() {
	register("c06cli", "real `endorse` command (cobra wiring of cmd/endorse.go, cmd/flags.go) over recording doubles, every command line compared with the Lean "+
		"model of the command: technology subsets x S_CRTM side file {absent, <stem>_scrtm_ver.pb, <image>.scrtm.pb, both} x SVN values x snapshot/manifest mode x "+
		"images, with product, VMSA count, ids, machine shapes, early accept, clspec, commit, timestamp (flag / wall clock) drawn per case; the written endorsement is "+
		"decoded and held against the document oracle of C06; plus `--snp_product Turin` (no address width: the run must fail, write / sign / print nothing) next to "+
		"the same flags with Milan and Genoa. Non-trivial: the run wrote a document, or the command line was refused.", runC06CLI)
}

func runC06CLI(c *Ctx) {
	images := cliImages(31)
	pick := func(n int) int { return c.Rng.Intn(n) }
	svns := []uint32{1, 5, 0x7fffffff}
	if c.Tier == "thorough" {
		svns = append(svns, 2, 3, 255, 65536, 0x80000000, 0xffffffff)
	}
	cliWithDir(func(dir string) {
		for _, im := range images {
			for _, tech := range cliTechs[1:] {
				for _, st := range []string{"absent", "stem", "image", "both"} {
					for _, svn := range svns {
						if st == "absent" && svn != svns[0] {
							continue
						}
						for _, snap := range []bool{false, true} {
							cs := cliCase{im: im, uefi: []string{"fw.fd", "build/ovmf_x64.fd"}[pick(2)], addSnp: tech[0], addTdx: tech[1], outDir: "out",
								ow: true, rndSeed: uint64(5 + pick(4)), mread: []byte{'N', 'M'}[pick(2)], tag: "doc/" + st, files: map[string][]byte{}}
							p1, p2 := cliSidePaths(cs.uefi)
							switch st {
							case "stem":
								cs.files[p1] = cliSideFile(svn)
							case "image":
								cs.files[p2] = cliSideFile(svn)
							case "both":
								cs.files[p1] = cliSideFile(svn)
								cs.files[p2] = cliSideFile(svn + 1)
							}
							if snap {
								cs.snap, cs.cand = "snap", "rc3"
							}
							// the valued flags of a technology are sometimes given although the technology is not added: they must be dropped
							if tech[0] || pick(3) == 0 {
								cs.vm = []string{"", "1", "2", "4", "0"}[pick(5)]
								cs.prod = [][]string{nil, {"Milan"}, {"Genoa"}, {"Milan", "", "Genoa"}}[pick(4)]
								cs.iid = []string{"", cliIID}[pick(2)]
								cs.fam = []string{"", cliFAM}[pick(2)]
							}
							if tech[1] || pick(3) == 0 {
								cs.shapes = [][]string{nil, {"c3-standard-4"}, {"c3-standard-44", "c3-standard-4"}, {"c3-standard-8", "c3-standard-8"}}[pick(4)]
								cs.early = pick(2) == 0
							}
							cs.ts = [][]string{{cliT1}, nil, {cliT2}, {"1969-12-31T23:59:59.75Z"}}[pick(4)]
							if pick(2) == 0 {
								h := cliHex20
								cs.commit = &h
							}
							cs.cl = []string{"", "77", "123456789"}[pick(3)]
							cs.retries = []string{"", "2"}[pick(2)]
							if pick(5) == 0 {
								cs.svsmM = "svsm_meas.txt"
								cs.files["svsm_meas.txt"] = []byte(strings.Repeat("5c", 48) + "\n")
							}
							_, wrote := cliOne(c, "c06/cli", dir, cs)
							c.Count(fmt.Sprintf("doc-written/%s/%s", st, b2s(wrote)))
							// the same command line as a dry run: no document is written, but the request handed to the pipeline (and signed)
							// must name the same things
							if pick(3) == 0 {
								cs.dry, cs.tag = true, "dry/"+st
								cliOne(c, "c06/cli", dir, cs)
							}
						}
					}
				}
			}
		}

		// ---- `--snp_product Turin` ------------------------------------------------------------------------------
		// kds.ParseProductLine accepts "Turin" (enum value 3), for which sev.bitWidth has no entry.  Before the product-check
		// fix the command measured an image whose ROM and SNP metadata ranges all have two pages or more with the VMSA pages
		// at guest-physical address 0 and signed / printed that — the launch digest of no AMD product.  Clause of C06 ("a
		// failing constituent measurement fails the request; no document") at the seam with C04: the run must fail, write no
		// file, sign nothing and (--measurement_only) print no measurement; the same flags with Milan / Genoa complete.
		wide := &c06Image{name: "wide-8k", ld: map[string][]byte{}, mr: map[string][]byte{},
			fw: c04Standard(0x2000, 0x80b004, []c04Sec{{0x80D000, 0x2000, 2}, {0x800000, 0x9000, 1}, {0x80F000, 0x2000, 3}, {0x80B000, 0x2000, 4}}, 0x1000).build()}
		for _, im := range []*c06Image{wide, images[0]} {
			for _, prod := range []string{"Turin", "Milan", "Genoa"} {
				for _, vm := range []string{"1", "4", ""} {
					for _, mo := range []bool{false, true} {
						if vm == "" && (prod != "Turin" || !mo) && c.Quick() {
							continue
						}
						cs := cliCase{im: im, uefi: "fw.fd", addSnp: true, outDir: "out", ow: true, rndSeed: 5, mread: 'M', tag: "product-" + prod + "/" + im.name,
							vm: vm, prod: []string{prod}, iid: cliIID, cl: "77", retries: "2", ts: []string{cliT1}, mo: mo,
							files: map[string][]byte{"fw_scrtm_ver.pb": cliSideFile(5)}}
						res, line := cliRun(cs, dir)
						cliOracle(c, "c06/cli", cs, res, line)
						short := cliShortLine(line)
						find := func(clause, what string) { c.Find("c06/cli/"+clause, what, short) }
						files, printed := len(res.v0.files), 0
						for _, e := range res.effs {
							if strings.HasPrefix(e, "out:") {
								printed++
							}
						}
						if prod == "Turin" {
							if res.res == "ok" {
								find("unsupported-product/completes", "`endorse --add_snp --snp_product Turin` completed although Turin has no known address width (no launch digest is defined for it)")
							}
							if files > 0 {
								find("unsupported-product/document-written", fmt.Sprintf("`endorse --snp_product Turin` wrote %d file(s)", files))
							}
							if len(res.signed) > 0 {
								find("unsupported-product/signed", "`endorse --snp_product Turin` asked the signer for a signature")
							}
							if printed > 0 {
								find("unsupported-product/measurement-printed", fmt.Sprintf("`endorse --measurement_only --snp_product Turin` printed %d measurement line(s)", printed))
							}
						} else if res.res != "ok" || (!mo && files == 0) || (mo && printed == 0) {
							find("does-not-complete", "the control run (same flags, --snp_product "+prod+") did not complete ("+res.res+")")
						}
						c.Case(line, res.impl(), true)
						c.Count(fmt.Sprintf("product-%s/%s/vm%s/mo%s/%s", prod, im.name, vm, b2s(mo), res.res))
					}
				}
			}
		}
	})
}
