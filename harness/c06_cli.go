package main

import (
	"bytes"
	"fmt"
	"os"
	"strings"

	epb "github.com/google/gce-tcb-verifier/proto/endorsement"
	"google.golang.org/protobuf/proto"
)

// Stream c06cli: the signed document of a REAL run of the shipped command line
// (cmd.MakeApp … endorse --uefi fw.fd --add_snp/--add_tdx …, SVN taken from the S_CRTM side file in both of its
// spellings) is decoded from the file the run writes and checked against this property's document oracle
// (c06OracleGolden): digest, SVNs of every endorsed technology, measurements, ids, provenance, timestamp.
// The flag/side-file wiring of cmd/endorse.go is glue the endorse.Context-level stream c06 cannot see.
// The protocol line is the c15 line (same model: Drive/C15), so the run is also compared with the Lean model.
func init() {
	register("c06cli", "real `endorse` command (cobra wiring of cmd/endorse.go, cmd/flags.go) over recording doubles: technology subsets x "+
		"S_CRTM side file absent/present in both spellings x snapshot/manifest mode x images; the written endorsement is decoded and held "+
		"against the document oracle of C06; plus `--snp_product Turin` (no address width: the run must fail, write / sign / print nothing) next to the same flags with Milan; "+
		"non-trivial = the run wrote a document, or is one of the product cases.", runC06CLI)
}

func runC06CLI(c *Ctx) {
	mk := func(name string, size int, tag byte, s, t bool, nTemp int) *c06Image {
		return &c06Image{name: name, fw: c06Firmware(size, tag, s, t, nTemp), ld: map[string][]byte{}, mr: map[string][]byte{}}
	}
	images := []*c06Image{mk("both-8k-c", 0x2000, 31, true, true, 0), mk("both-12k-c", 0x3000, 33, true, true, 2)}
	base := c06Req{svn: 7, tsvn: 9, cl: 123456789, commit: bytes.Repeat([]byte{0xcd}, 20), ts: baseTime, keysMode: "full", caErr: "none",
		iid: "87654321-dead-beef-c0de-123456789abc", rndSeed: 5, prod: 1}
	cliDir, err := os.MkdirTemp("", "verif-c06cli-")
	if err != nil {
		panic(err)
	}
	defer os.RemoveAll(cliDir)
	svns := []uint32{0, 1, 5, 0x7fffffff}
	if c.Tier == "thorough" {
		svns = append(svns, 2, 3, 255, 65536)
	}
	for _, im := range images {
		for _, tech := range [][2]bool{{true, false}, {false, true}, {true, true}} {
			for _, svn := range svns {
				for _, alt := range []bool{false, true} {
					if svn == 0 && alt {
						continue
					}
					for _, snap := range []bool{false, true} {
						r := base
						r.im, r.snp, r.tdx, r.vm, r.svn, r.tsvn = im, tech[0], tech[1], 2, svn, svn
						r.cl, r.commit = 77, nil
						if !tech[0] {
							r.vm = 0
						}
						if tech[1] {
							r.shapes, r.early = []string{"c3-standard-4"}, snap
						}
						cs := c15Case{r: r, snap: snap, ow: true, cand: map[bool]string{false: "", true: "rc3"}[snap],
							budget: 2, vcsMode: "one", mread: 'M', cli: true, cliDir: cliDir, sideAlt: alt}
						res, line := c15Run(cs)
						short := c15ShortLine(line) + fmt.Sprintf(" sidefile=%s", map[bool]string{false: "fw_scrtm_ver.pb", true: "fw.fd.scrtm.pb"}[alt])
						find := func(clause, what string) { c.Find("c06/cli/"+clause, what, short) }
						wrote := false
						if res.res != "ok" {
							find("does-not-complete", "a real run of the endorse command failed ("+res.res+") although measuring, signing and the back end succeed")
						}
						for _, v := range res.vcss {
							for p, b := range v.files {
								if strings.HasSuffix(p, ".binarypb") || strings.HasSuffix(p, ".signed") {
									e := &epb.VMLaunchEndorsement{}
									g := &epb.VMGoldenMeasurement{}
									if proto.Unmarshal(b, e) != nil || proto.Unmarshal(e.SerializedUefiGolden, g) != nil {
										find("written-endorsement-undecodable", "the endorsement file does not decode")
										continue
									}
									wrote = true
									c06OracleGolden(c, cs.r, g, c06ExpectedRandomUUID(cs.r.rndSeed), func(entry, clause, what string) {
										find("written-document/"+clause, what)
									}, "endorse-command")
								}
							}
						}
						if res.res == "ok" && !wrote {
							find("no-document-written", "the run succeeded but no endorsement file was written")
						}
						c.Case(line, fmt.Sprintf("res=%s eff=%s", res.res, strings.Join(res.effs, ",")), wrote)
						c.Count(fmt.Sprintf("cli/snp%s-tdx%s/svn%d/alt%s/%s", b2s(tech[0]), b2s(tech[1]), svn, b2s(alt), res.res))
					}
				}
			}
		}
	}

	// ---- `--snp_product Turin` ----------------------------------------------------------------------------------
	// kds.ParseProductLine accepts "Turin" (enum value 3), for which sev.bitWidth has no entry.  Before the product-check fix the
	// command measured an image whose ROM and SNP metadata ranges all have two pages or more with the VMSA pages at
	// guest-physical address 0 and signed / printed that — the launch digest of no AMD product.  Clause of C06
	// ("a failing constituent measurement fails the request; no document") at the seam with C04: the run must fail,
	// write no file, sign nothing and (--measurement_only) print no measurement; the same flags with Milan complete.
	wide := &c06Image{name: "wide-8k", ld: map[string][]byte{}, mr: map[string][]byte{},
		fw: c04Standard(0x2000, 0x80b004, []c04Sec{{0x80D000, 0x2000, 2}, {0x800000, 0x9000, 1}, {0x80F000, 0x2000, 3}, {0x80B000, 0x2000, 4}}, 0x1000).build()}
	for _, im := range []*c06Image{wide, images[0]} {
		for _, prod := range []int{3, 1} {
			for _, vm := range []uint32{1, 4, 0} {
				for _, mo := range []bool{false, true} {
					if vm == 0 && (prod == 1 || !mo) && c.Quick() {
						continue
					}
					r := base
					r.im, r.snp, r.tdx, r.vm, r.svn, r.prod = im, true, false, vm, 5, prod
					r.cl, r.commit = 77, nil
					cs := c15Case{r: r, mo: mo, ow: true, budget: 2, vcsMode: "one", mread: 'M', cli: true, cliDir: cliDir}
					res, line := c15Run(cs)
					short := c15ShortLine(line) + " snp_product=" + []string{"", "Milan", "Genoa", "Turin"}[prod]
					find := func(clause, what string) { c.Find("c06/cli/"+clause, what, short) }
					files, printed := 0, 0
					for _, v := range res.vcss {
						files += len(v.files)
					}
					for _, e := range res.effs {
						if strings.HasPrefix(e, "out:") {
							printed++
						}
					}
					if prod == 3 {
						if res.res == "ok" {
							find("unsupported-product/completes", "`endorse --add_snp --snp_product Turin` completed although Turin has no known address width (no launch digest is defined for it)")
						}
						if files > 0 {
							find("unsupported-product/document-written", fmt.Sprintf("`endorse --snp_product Turin` wrote %d file(s)", files))
						}
						if len(res.signed) > 0 {
							find("unsupported-product/signed", "`endorse --snp_product Turin` asked the signer for a signature")
						}
						if printed > 0 {
							find("unsupported-product/measurement-printed", fmt.Sprintf("`endorse --measurement_only --snp_product Turin` printed %d measurement line(s)", printed))
						}
					} else if res.res != "ok" || (!mo && files == 0) || (mo && printed == 0) {
						find("does-not-complete", "the control run (same flags, --snp_product Milan) did not complete ("+res.res+")")
					}
					c.Case(line, fmt.Sprintf("res=%s eff=%s", res.res, strings.Join(res.effs, ",")), true)
					c.Count(fmt.Sprintf("cli/product-%s/%s/vm%d/mo%s/%s", []string{"", "Milan", "Genoa", "Turin"}[prod], im.name, vm, b2s(mo), res.res))
				}
			}
		}
	}
}
