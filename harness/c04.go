package main

// Stream c04: sev.LaunchDigest / sev.UnsignedSnp / sev.PutVmsa on generated OVMF images versus the
// Lean model (outcome class + digest) and the Lean specification digest.
//
// Direct oracle (implementation alone):
//   * the Go digest differs from the digest recomputed independently from the AMD ABI definition
//     (c04RefDigest) for the sections / reset vector / vCPU count / product the generator put in;
//   * Go accepts an image whose SNP metadata is malformed in one of the ways the property names;
//   * Go returns a digest (LaunchDigest) or a Measurements map (UnsignedSnp) for a product value outside
//     {Milan, Genoa} — a product without a known address width has no launch digest (the product-check fix);
//     conversely a supported product with >= 1 vCPU is never refused for its product;
//   * two calls on the same input differ, or the image bytes change;
//   * a repository-pinned vector is not reproduced; a panic.

import (
	"bytes"
	"crypto/sha256"
	"crypto/sha512"
	"encoding/hex"
	"fmt"
	"regexp"
	"sort"
	"strings"

	spb "github.com/google/gce-tcb-verifier/proto/sev"
	"github.com/google/gce-tcb-verifier/sev"
	"github.com/google/gce-tcb-verifier/testing/fakeovmf"
	sgpb "github.com/google/go-sev-guest/proto/sevsnp"
	"google.golang.org/protobuf/encoding/prototext"
)

func init() {
	register("c04", "non-trivial = the implementation computed a digest (image accepted) or rejected it at the SNP metadata validation / measurement stage (after the GUID table, reset block and metadata header were parsed)", runC04)
}

var c04Widths = map[int]uint{1: 48, 2: 52}

// what the generator knows about an image it built (nil for images it did not lay out itself)
type c04Known struct {
	secs      []c04Sec
	resetAddr uint32
}

var c04PanicRe = regexp.MustCompile(`github\.com/google/gce-tcb-verifier/([A-Za-z0-9_/]+)\.([^\s(]*(?:\([^)]*\))?[^\s(]*)\(`)

// c04PanicFunc names the repository function on top of a panic stack as `pkg.Func` / `pkg.Type.Method`.
func c04PanicFunc(stack string) string {
	for _, line := range strings.Split(stack, "\n") {
		if strings.Contains(line, "verif-harness") || strings.HasPrefix(line, "\t") {
			continue
		}
		m := c04PanicRe.FindStringSubmatch(line)
		if m == nil {
			continue
		}
		pkg := m[1]
		if i := strings.LastIndex(pkg, "/"); i >= 0 {
			pkg = pkg[i+1:]
		}
		fn := strings.NewReplacer("(*", "", ")", "", "(", "").Replace(m[2])
		return pkg + "." + fn
	}
	return "unknown"
}

// c04SharedOpts: one options value per (vCPU count, product), reused by every case of the run.
var c04SharedOpts = map[[2]int]*sev.LaunchOptions{}

var c04LateClasses = map[string]bool{"no-metadata": true, "dup-kind": true, "section-length": true, "no-unmeasured": true,
	"no-secret": true, "no-cpuid": true, "overlap": true, "unknown-kind": true, "align-addr": true, "align-len": true, "range": true}

// c04LD runs one LaunchDigest case and returns the implementation line.
func c04LD(c *Ctx, stream string, fw []byte, vcpus int, product int, known *c04Known, tag string) {
	desc := c04Encode(fw)
	op := fmt.Sprintf("%s op=ld vcpus=%d product=%d fw=%s", stream, vcpus, product, desc)
	before := sha256.Sum256(fw)
	// d1: through an options value that earlier cases (other images, same vCPU count and product) have already
	// used, as sev.UnsignedSnp reuses one across counts; d2: through a fresh one.  The digest is a function of the
	// image and the options' fields, not of what the options value was used for before.
	key := [2]int{vcpus, product}
	opts := c04SharedOpts[key]
	reused := opts != nil
	if opts == nil {
		opts = &sev.LaunchOptions{Vcpus: vcpus, Product: sgpb.SevProduct_SevProductName(product)}
		c04SharedOpts[key] = opts
	}
	var d1, d2 []byte
	var e1, e2 error
	panicked, msg, stack := Guard(func() {
		d1, e1 = sev.LaunchDigest(opts, fw)
		d2, e2 = sev.LaunchDigest(&sev.LaunchOptions{Vcpus: vcpus, Product: sgpb.SevProduct_SevProductName(product)}, fw)
	})
	if reused {
		c.Count("options-value-reused")
	}
	if opts.Vcpus != vcpus || opts.Product != sgpb.SevProduct_SevProductName(product) {
		c.Find("c04/sev.LaunchDigest/options-modified", "LaunchDigest changed the caller's options fields", op)
		delete(c04SharedOpts, key)
	}
	replay := op
	if len(replay) > 3000 {
		replay = fmt.Sprintf("%s op=ld vcpus=%d product=%d fw=<%d bytes, sha256 %x> generator=%s seed=%d", stream, vcpus, product, len(fw), before[:8], tag, c.Seed)
	}
	var impl string
	switch {
	case panicked:
		fn := c04PanicFunc(stack)
		impl = "panic=" + fn
		c.Count("outcome:panic")
		c.Find("c04/sev.LaunchDigest/panic/"+fn, "sev.LaunchDigest panicked: "+msg, replay)
	case e1 != nil:
		cls := c04Classify(e1)
		impl = "reject=" + cls
		c.Count("outcome:reject=" + cls)
	default:
		impl = "ok " + hx(d1) + " " + hx(d1)
		c.Count("outcome:ok")
	}
	// the product clause, on the implementation alone
	if !panicked {
		_, supported := c04Widths[product]
		switch {
		case !supported && e1 == nil:
			c.Find("c04/sev.LaunchDigest/digest-for-unsupported-product",
				fmt.Sprintf("a digest (%x) was returned for product value %d, which has no address width (not Milan, not Genoa): the VMSA pages of that chain sit at GPA 0, the launch digest of no AMD product", d1, product), replay)
		case !supported && vcpus >= 1 && c04Classify(e1) != "product":
			// refused, but for something else: the refusal must not depend on the image (a real OVMF layout got
			// "address range is larger than the product can represent" before the repair)
			c.Find("c04/sev.LaunchDigest/unsupported-product-not-named",
				fmt.Sprintf("product value %d has no address width, but the call failed with %q instead of naming the product", product, c04Classify(e1)), replay)
		case supported && e1 != nil && c04Classify(e1) == "product":
			c.Find("c04/sev.LaunchDigest/supported-product-refused",
				fmt.Sprintf("product value %d (Milan = 1, Genoa = 2) was refused as unsupported", product), replay)
		}
		if !supported {
			c.Count(fmt.Sprintf("product:unsupported/%d", product))
			if vcpus >= 1 {
				c.Count("oracle:unsupported-product-refused")
			}
		}
	}
	if !panicked {
		if (e1 == nil) != (e2 == nil) || !bytes.Equal(d1, d2) {
			c.Find("c04/sev.LaunchDigest/nondeterministic", "two calls on the same image with equal options differ (first: an options value used before for other images; second: a fresh one)", replay)
		}
		if after := sha256.Sum256(fw); after != before {
			c.Find("c04/sev.LaunchDigest/image-modified", "the image bytes changed during the call", replay)
		}
	}
	if known != nil && !panicked {
		bad := c04Malformed(known.secs)
		if e1 == nil {
			for _, clause := range bad {
				c.Find("c04/sev.LaunchDigest/accepts-malformed/"+clause,
					fmt.Sprintf("accepted SNP metadata that is malformed (%s): sections %s", clause, c04SecsString(known.secs)), replay)
			}
			if w, ok := c04Widths[product]; ok && len(bad) == 0 && vcpus >= 1 {
				want := c04RefDigest(fw, known.secs, known.resetAddr, vcpus, w)
				if !bytes.Equal(want, d1) {
					c.Find("c04/sev.LaunchDigest/digest-differs-from-abi",
						fmt.Sprintf("digest %x differs from the ABI recomputation %x (sections %s, reset %#x, vcpus %d, product %d)",
							d1, want, c04SecsString(known.secs), known.resetAddr, vcpus, product), replay)
				}
				c.Count("oracle:digest-recomputed")
			}
		}
		for _, clause := range bad {
			c.Count("malformed:" + clause)
		}
	}
	// a refusal for the product of an image the generator laid out itself is a non-trivial case as well: the
	// property's clause "no digest for a product without an address width" is exercised on a measurable image
	nontrivial := !panicked && (e1 == nil || c04LateClasses[c04Classify(e1)] || (known != nil && c04Classify(e1) == "product"))
	c.Case(op, impl, nontrivial)
}

func c04SNP(c *Ctx, stream string, fw []byte, family, image string, familyOk, imageOk bool, vmsas uint32, product int) {
	op := fmt.Sprintf("%s op=snp family=%s image=%s vmsas=%d product=%d fw=%s", stream, b2s(familyOk), b2s(imageOk), vmsas, product, c04Encode(fw))
	req := &sev.SnpEndorsementRequest{Svn: 7, FamilyID: family, ImageID: image, LaunchVmsas: vmsas, Product: sgpb.SevProduct_SevProductName(product)}
	var impl string
	var res map[uint32][]byte
	var err error
	panicked, msg, stack := Guard(func() {
		r, e := sev.UnsignedSnp(fw, req)
		err = e
		if r != nil {
			res = r.Measurements
		}
	})
	switch {
	case panicked:
		fn := c04PanicFunc(stack)
		impl = "panic=" + fn
		c.Find("c04/sev.UnsignedSnp/panic/"+fn, "sev.UnsignedSnp panicked: "+msg, op)
		c.Count("snp:panic")
	case err != nil:
		impl = "reject=" + c04Classify(err)
		c.Count("snp:reject=" + c04Classify(err))
	default:
		keys := make([]int, 0, len(res))
		for k := range res {
			keys = append(keys, int(k))
		}
		sort.Ints(keys)
		parts := make([]string, len(keys))
		for i, k := range keys {
			parts[i] = fmt.Sprintf("%d:%s", k, hx(res[uint32(k)]))
		}
		impl = "ok " + strings.Join(parts, ",")
		c.Count(fmt.Sprintf("snp:ok/%d-measurements", len(keys)))
		if _, supported := c04Widths[product]; !supported {
			c.Find("c04/sev.UnsignedSnp/measurements-for-unsupported-product",
				fmt.Sprintf("%d measurements were returned for product value %d, which has no address width", len(keys), product), op)
		}
	}
	c.Case(op, impl, !panicked && (err == nil || (familyOk && imageOk && c04Classify(err) == "product")))
}

// c04VMSA compares sev.PutVmsa on the reset state (BSP, or AP with the given reset vector).
func c04VMSA(c *Ctx, ap bool, addr uint32) {
	op := fmt.Sprintf("c04 op=vmsa ap=%s addr=%d", b2s(ap), addr)
	v := &spb.VmcbSaveArea{}
	if err := (prototext.UnmarshalOptions{}).Unmarshal([]byte(sev.VmsaV1), v); err != nil {
		c.Find("c04/sev.VmsaV1/unparsable", err.Error(), op)
		return
	}
	if ap {
		if v.Cs == nil {
			v.Cs = &spb.VmcbSeg{}
		}
		v.Cs.Base = uint64(addr & 0xffff0000)
		v.Rip = uint64(addr & 0xffff)
	}
	page := make([]byte, 4096)
	var err error
	panicked, msg, _ := Guard(func() { err = sev.PutVmsa(v, page) })
	var impl string
	switch {
	case panicked:
		impl = "panic"
		c.Find("c04/sev.PutVmsa/panic", msg, op)
	case err != nil:
		impl = "reject"
	default:
		h := sha512.Sum384(page)
		impl = "ok " + hx(h[:]) + " " + hx(h[:])
		if want := c04RefVmsa(ap, addr); !bytes.Equal(want, page) {
			i := 0
			for i < 4096 && want[i] == page[i] {
				i++
			}
			c.Find("c04/sev.PutVmsa/page-differs-from-apm-layout", fmt.Sprintf("VMSA page differs from the APM layout/reset state at byte %#x: got %#x want %#x", i, page[i], want[i]), op)
		}
	}
	c.Count("vmsa:" + strings.SplitN(impl, " ", 2)[0])
	c.Case(op, impl, !panicked && err == nil)
}

// ---- section-list generators

func c04ValidSecs(r *Rng) []c04Sec {
	// disjoint page-aligned ranges handed out from a moving cursor in a random region
	bases := []uint32{0x800000, 0x0, 0xff000000, 0xfffe0000, 0x7fff0000, 0x100000}
	cur := bases[r.Intn(len(bases))]
	next := func(maxPages int) (uint32, uint32) {
		cur += uint32(r.Intn(3)) * 0x1000
		n := uint32(1 + r.Intn(maxPages))
		a := cur
		cur += n * 0x1000
		return a, n * 0x1000
	}
	var secs []c04Sec
	a, l := next(6)
	secs = append(secs, c04Sec{a, l, 1})
	a, l = next(1)
	secs = append(secs, c04Sec{a, l, 2})
	a, l = next(1)
	secs = append(secs, c04Sec{a, l, 3})
	for r.Intn(3) == 0 && len(secs) < 8 {
		a, l = next(4)
		k := uint32(1)
		if r.Bool() {
			k = 4
		}
		secs = append(secs, c04Sec{a, l, k})
	}
	// any order
	for i := len(secs) - 1; i > 0; i-- {
		j := r.Intn(i + 1)
		secs[i], secs[j] = secs[j], secs[i]
	}
	return secs
}

var c04Mutations = []string{"misalign-addr", "misalign-len", "zero-len", "overlap-next", "overlap-same", "dup-cpuid", "dup-secret",
	"drop-unmeasured", "drop-secret", "drop-cpuid", "unknown-kind", "near-4g", "wrap-4g", "wrap-4g-b", "cross-4g", "empty-list", "huge-len", "dup-unmeasured-kind",
	"dup-cpuid-at-zero", "dup-secret-at-zero", "cpuid-at-zero", "secret-at-zero"}

func c04Mutate(r *Rng, secs []c04Sec, m string) []c04Sec {
	out := append([]c04Sec(nil), secs...)
	i := r.Intn(len(out))
	drop := func(kind uint32) {
		var o []c04Sec
		for _, s := range out {
			if s.Kind != kind {
				o = append(o, s)
			}
		}
		out = o
	}
	switch m {
	case "misalign-addr":
		out[i].Addr += uint32(1 + r.Intn(4095))
	case "misalign-len":
		out[i].Len += uint32(1 + r.Intn(4095))
	case "zero-len":
		out[i].Len = 0
	case "overlap-next":
		j := (i + 1) % len(out)
		out[i].Addr = out[j].Addr + out[j].Len - 0x1000
	case "overlap-same":
		j := (i + 1) % len(out)
		out[i].Addr = out[j].Addr
	case "dup-cpuid-at-zero", "dup-secret-at-zero", "cpuid-at-zero", "secret-at-zero":
		// the first page of the kind at guest-physical address 0 (legal on its own), then possibly a second one
		kind := uint32(3)
		if strings.Contains(m, "secret") {
			kind = 2
		}
		for j := range out {
			if out[j].Kind == kind {
				out[j].Addr, out[j].Len = 0, 0x1000
			}
		}
		if strings.HasPrefix(m, "dup-") {
			out = append(out, c04Sec{0x40000000, 0x1000, kind})
		}
	case "dup-cpuid":
		out = append(out, c04Sec{0x40000000, 0x1000, 3})
	case "dup-secret":
		out = append(out, c04Sec{0x40002000, 0x1000, 2})
	case "dup-unmeasured-kind":
		out = append(out, c04Sec{0x40004000, 0x2000, 1})
	case "drop-unmeasured":
		drop(1)
	case "drop-secret":
		drop(2)
	case "drop-cpuid":
		drop(3)
	case "unknown-kind":
		ks := []uint32{0, 5, 6, 0x10, 0xffffffff}
		if r.Bool() {
			out[i].Kind = ks[r.Intn(len(ks))]
		} else {
			out = append(out, c04Sec{0x40008000, 0x1000, ks[r.Intn(len(ks))]})
		}
	case "near-4g": // ranges that end exactly at or just below 4 GiB (legal)
		out = []c04Sec{{0xffffd000, 0x1000, 1}, {0xffffe000, 0x1000, 2}, {0xfffff000, 0x1000, 3}}
	case "wrap-4g": // D16: an end computed in 32 bits wraps and hides the overlap with the next section
		out = []c04Sec{{0xffffe000, 0x3000, 1}, {0xfffff000, 0x1000, 2}, {0x1000, 0x1000, 3}}
	case "wrap-4g-b": // same, the overlapped section ends exactly at 4 GiB + something, any order
		n := uint32(2+r.Intn(6)) * 0x1000
		out = []c04Sec{{0x2000, 0x1000, 3}, {0xfffff000, 0x1000, 2}, {0xfffff000 - n + 0x1000, n + uint32(r.Intn(4))*0x1000, 1}}
	case "cross-4g": // legal: a range that crosses 4 GiB does not overlap a range at address 0
		out = []c04Sec{{0x1000, 0x1000, 3}, {0xfffff000, 0x2000, 1}, {0x0, 0x1000, 2}}
	case "empty-list":
		out = nil
	case "huge-len":
		out[i].Len = 0x100000 // 256 pages: still cheap
	}
	return out
}

func c04Vcpus(r *Rng) int {
	switch r.Intn(10) {
	case 0:
		return []int{-1, 0}[r.Intn(2)]
	case 1:
		return []int{8, 16, 24, 32, 48, 64, 80, 96, 112, 128, 224, 240, 255}[r.Intn(13)]
	case 2, 3:
		return 1
	default:
		return []int{1, 2, 3, 4}[r.Intn(4)]
	}
}

func c04Product(r *Rng) int {
	switch r.Intn(8) {
	case 0:
		return []int{0, 3, 7, 255}[r.Intn(4)]
	case 1, 2, 3:
		return 2
	default:
		return 1
	}
}

func c04Size(r *Rng, quick bool) int {
	switch r.Intn(12) {
	case 0:
		return []int{0, 1, 49, 50, 51, 100, 4095, 4097, 8191, 12288 + 7}[r.Intn(10)] // incl. non-page multiples
	case 1:
		if quick || r.Intn(8) != 0 {
			return 0x1000 * (17 + r.Intn(16)) // up to 128 KiB
		}
		return []int{0x100000, 0x200000, 0x200000 + 0x1000}[r.Intn(3)] // ~50 images of 1-2 MiB in the thorough tier
	default:
		return 0x1000 * (1 + r.Intn(16)) // 4..64 KiB
	}
}

func runC04(c *Ctx) {
	r := c.Rng
	// self-check of the descriptor encoder
	for i := 0; i < 20; i++ {
		s := c04Standard(0x1000*(1+r.Intn(4)), 0x80b004, c04ValidSecs(r), 0)
		s.fill, s.fillSeed = r.Intn(4), r.Intn(256)
		b := s.build()
		if !bytes.Equal(c04Decode(c04Encode(b)), b) {
			panic("c04: image descriptor round trip failed")
		}
	}

	// (1) the repository's pinned vectors
	pinned := []struct {
		name  string
		fw    []byte
		vcpus int
		want  string
	}{
		{"CleanExample-4K-1vcpu", fakeovmf.CleanExample(fakeTB{}, 0x1000), 1,
			"301a56e0014065ed60a3c848ea0d3d0b2aa46f4bfea9ddeadbc602146d4c087851ab2c15d573f8b2a42ecc82d74c9db8"},
		{"CleanExample-2M-1vcpu", fakeovmf.CleanExample(fakeTB{}, 2*1024*1024), 1,
			"20ec0dbd1c0a26d184a6f11ec5a796d68ec03c9d101bdd84c03f3d9cbbc4a292a9fad098edacfa04da0da58f20be885e"},
	}
	lgtm := make([]byte, 0x1000)
	copy(lgtm[0x800:], "LGTMLGTMLGTMLGTM")
	copy(lgtm[0xa00:], "LGTMLGTMLGTMLGTM")
	if err := fakeovmf.InitializeSevGUIDTable(lgtm, 0x20, fakeovmf.SevEsAddrVal, fakeovmf.DefaultSnpSections()); err != nil {
		panic(err)
	}
	pinned = append(pinned, struct {
		name  string
		fw    []byte
		vcpus int
		want  string
	}{"LGTM-4K-4vcpu", lgtm, 4, "1a8cd8039cdcdcd1ec9800ca215ba5cbbed437697debf0b2fc1a9b873f1eb15f82dc7d5cf246dbee4df1bb9d3b6c7a16"})
	for _, p := range pinned {
		d, err := sev.LaunchDigest(&sev.LaunchOptions{Vcpus: p.vcpus, Product: sgpb.SevProduct_SEV_PRODUCT_MILAN}, p.fw)
		if err != nil || hex.EncodeToString(d) != p.want {
			c.Find("c04/sev.LaunchDigest/pinned-vector/"+p.name, fmt.Sprintf("pinned vector not reproduced: got %x err %v", d, err), p.name)
		}
		c04LD(c, "c04", p.fw, p.vcpus, 1, nil, "pinned:"+p.name)
		c.Count("gen:pinned")
	}
	var def []c04Sec
	for _, s := range fakeovmf.DefaultSnpSections() {
		def = append(def, c04Sec{s.Address, s.Length, s.Kind})
	}
	c04LD(c, "c04", lgtm, 4, 1, &c04Known{def, fakeovmf.SevEsAddrVal}, "pinned:LGTM")

	// (1b) the kernel-evaluated example image of Model/SevExample.lean (theorems C04_example_*): built here
	// independently, its bytes compared with the driver's, and run through the real code for the vCPU
	// counts and products the theorems instantiate; each edited variant must be refused with the class the
	// Lean theorem C04_example_rejected_* states (compared through the model line) and for the clause the
	// direct oracle computes.
	exSecs := []c04Sec{{0x80D000, 0x1000, 2}, {0x800000, 0x9000, 1}, {0x80E000, 0x1000, 3}, {0x80C000, 0x1000, 4}}
	exVariants := []struct {
		name string
		idx  int
		sec  c04Sec
	}{
		{"base", -1, c04Sec{}},
		{"misaligned-address", 0, c04Sec{0x810800, 0x1000, 2}},
		{"misaligned-length", 1, c04Sec{0x800000, 0x8800, 1}},
		{"empty", 3, c04Sec{0x80C000, 0, 4}},
		{"overlap", 3, c04Sec{0x808000, 0x1000, 4}},
		{"duplicate-cpuid", 3, c04Sec{0x80C000, 0x1000, 3}},
		{"duplicate-secrets", 3, c04Sec{0x80C000, 0x1000, 2}},
		{"missing-unmeasured", 1, c04Sec{0x800000, 0x9000, 4}},
		{"missing-secrets", 0, c04Sec{0x80D000, 0x1000, 1}},
		{"missing-cpuid", 2, c04Sec{0x80E000, 0x1000, 1}},
		{"unknown-kind", 3, c04Sec{0x80C000, 0x1000, 5}},
	}
	for _, v := range exVariants {
		secs := append([]c04Sec(nil), exSecs...)
		if v.idx >= 0 {
			secs[v.idx] = v.sec
		}
		fw := c04Standard(0x1000, 0x80b004, secs, 0).build()
		c.Case("c04 op=example name="+v.name, "ok "+hx(fw), true)
		for _, vp := range [][2]int{{1, 1}, {4, 1}, {1, 2}, {4, 2}} {
			c04LD(c, "c04", fw, vp[0], vp[1], &c04Known{secs, 0x80b004}, "lean-example:"+v.name)
		}
		c.Count("gen:lean-example")
	}
	// the witnesses of C04_old_unsupported_product_witness: 8 KiB images (metadata 4096 bytes from the end) under
	// product values that are not keys of sev.bitWidth (UNKNOWN 0, Turin 3 — the value `--snp_product Turin`
	// yields — 7 and 255), next to Milan and Genoa.  Before the product-check fix the real code returned a digest with the VMSA
	// pages at GPA 0 for "wide" and a range error for "two-page" and the 4 KiB example; now each must be refused
	// for the product (direct oracle digest-for-unsupported-product / unsupported-product-not-named, and the
	// model line `reject=product`, theorem C04_rejects_unsupported_product).
	wideSecs := []c04Sec{{0x80D000, 0x2000, 2}, {0x800000, 0x9000, 1}, {0x80F000, 0x2000, 3}, {0x80B000, 0x2000, 4}}
	for _, w := range []struct {
		name string
		secs []c04Sec
	}{{"wide", wideSecs}, {"two-page", exSecs}} {
		fw := c04Standard(0x2000, 0x80b004, w.secs, 0x1000).build()
		c.Case("c04 op=example name="+w.name, "ok "+hx(fw), true)
		for _, p := range []int{0, 3, 7, 255, 1, 2} {
			for _, v := range []int{1, 4} {
				c04LD(c, "c04", fw, v, p, &c04Known{w.secs, 0x80b004}, "lean-example:"+w.name)
			}
		}
		c.Count("gen:lean-example")
	}
	for _, p := range []int{0, 3, 7, 255} {
		c04LD(c, "c04", c04Standard(0x1000, 0x80b004, exSecs, 0).build(), 1, p, &c04Known{exSecs, 0x80b004}, "lean-example:base")
	}

	// (2) VMSA pages: BSP, and APs over reset vectors
	c04VMSA(c, false, 0)
	for _, a := range []uint32{0, 1, 0xffff, 0x10000, 0x80b004, 0xfffffff0, 0xffffffff, 0x12345678} {
		c04VMSA(c, true, a)
	}
	for i := 0; i < c.N(20, 400); i++ {
		c04VMSA(c, true, uint32(r.Next()))
	}

	// (3) small-scope enumeration: one well-formed 4 KiB / 8 KiB image x every vCPU count x products
	base := c04Standard(0x2000, 0x80b004, []c04Sec{{0x800000, 0x2000, 1}, {0x802000, 0x1000, 2}, {0x803000, 0x1000, 3}}, 0x100)
	base.fill, base.fillSeed = 2, 5
	bfw := base.build()
	for _, v := range []int{-1, 0, 1, 2, 3, 4, 8, 16, 24, 32, 48, 64, 80, 96, 112, 128, 224, 240, 255} {
		for _, p := range []int{1, 2, 0, 3, 7, 255} {
			if !c.Quick() || v <= 8 || p == 1 || v == 255 {
				c04LD(c, "c04", bfw, v, p, &c04Known{base2secs(base), 0x80b004}, "enum")
				c.Count("gen:enum")
			}
		}
	}

	// (4) every section-list mutation, twice
	for rep := 0; rep < c.N(2, 12); rep++ {
		for _, m := range c04Mutations {
			secs := c04Mutate(r, c04ValidSecs(r), m)
			reset := uint32(r.Next())
			s := c04Standard(0x1000*(1+r.Intn(3)), reset, secs, []int{0, 0x40, 0x200}[r.Intn(3)])
			s.fill, s.fillSeed = r.Intn(4), r.Intn(256)
			c04LD(c, "c04", s.build(), []int{1, 2, 3}[r.Intn(3)], []int{1, 2}[r.Intn(2)], &c04Known{secs, reset}, "mut:"+m)
			c.Count("gen:mut:" + m)
		}
	}

	// (5) structure-aware random stream
	for i := 0; i < c.N(260, 4500); i++ {
		size := c04Size(r, c.Quick())
		secs := c04ValidSecs(r)
		if r.Intn(4) == 0 {
			secs = c04Mutate(r, secs, c04Mutations[r.Intn(len(c04Mutations))])
		}
		reset := uint32(r.Next())
		metaPos := 0
		if size > 0x400 && r.Bool() {
			metaPos = r.Intn(size/2) &^ 3
		}
		s := c04Standard(size, reset, secs, metaPos)
		s.fill, s.fillSeed = r.Intn(4), r.Intn(256)
		known := &c04Known{secs, reset}
		// GUID table variations: extra blocks, missing blocks
		switch r.Intn(10) {
		case 0: // extra block between / around
			extra := c04Block{guid: r.Bytes(16), payload: r.Bytes(r.Intn(40)), size: -1}
			pos := r.Intn(len(s.blocks) + 1)
			s.blocks = append(s.blocks[:pos], append([]c04Block{extra}, s.blocks[pos:]...)...)
			c.Count("gen:extra-block")
		case 1: // no reset block
			s.blocks = s.blocks[1:]
			known = nil
			c.Count("gen:no-reset-block")
		case 2: // no metadata block
			s.blocks = s.blocks[:1]
			known = nil
			c.Count("gen:no-meta-block")
		case 3: // swapped order
			s.blocks[0], s.blocks[1] = s.blocks[1], s.blocks[0]
			c.Count("gen:swapped-blocks")
		}
		if size < 0x1000 {
			known = nil
		}
		c04LD(c, "c04", s.build(), c04Vcpus(r), c04Product(r), known, "random")
		c.Count(fmt.Sprintf("gen:size/%s", c04SizeClass(size)))
	}

	// (6) UnsignedSnp
	okID, badID := "87654321-0001-0002-0003-123456789abc", "not-a-guid"
	// every unsupported product value on a measurable image, all counts / one count: no Measurements map
	// (C04_unsigned_snp_rejects_unsupported_product); Milan and Genoa next to them
	{
		fw := c04Standard(0x2000, 0x80b004, wideSecs, 0x1000).build()
		for _, p := range []int{0, 3, 7, 255, 1, 2} {
			for _, vm := range []uint32{0, 1, 4} {
				if vm == 0 && p == 2 && c.Quick() {
					continue
				}
				c04SNP(c, "c04", fw, okID, okID, true, true, vm, p)
			}
		}
	}
	for i := 0; i < c.N(14, 120); i++ {
		secs := c04ValidSecs(r)
		if r.Intn(5) == 0 {
			secs = c04Mutate(r, secs, c04Mutations[r.Intn(len(c04Mutations))])
		}
		s := c04Standard(0x1000*(1+r.Intn(3)), uint32(r.Next()), secs, 0)
		s.fill, s.fillSeed = r.Intn(4), r.Intn(256)
		fam, famOk := []string{"", okID, badID}[r.Intn(3)], true
		img, imgOk := []string{"", okID, badID}[r.Intn(3)], true
		if i < 3 {
			fam, img = okID, okID
		}
		famOk, imgOk = fam != badID, img != badID
		vm := []uint32{0, 1, 2, 4, 3, 5, 255}[r.Intn(7)]
		if i == 0 {
			vm = 0
		} else if c.Quick() && vm == 0 && i > 4 {
			vm = 2
		}
		c04SNP(c, "c04", s.build(), fam, img, famOk, imgOk, vm, c04Product(r))
	}
}

func base2secs(s *c04Spec) []c04Sec {
	var out []c04Sec
	for i := 16; i+12 <= len(s.meta); i += 12 {
		out = append(out, c04Sec{le32(s.meta[i:]), le32(s.meta[i+4:]), le32(s.meta[i+8:])})
	}
	return out
}

func le32(b []byte) uint32 {
	return uint32(b[0]) | uint32(b[1])<<8 | uint32(b[2])<<16 | uint32(b[3])<<24
}

func c04SizeClass(n int) string {
	switch {
	case n < 50:
		return "<50"
	case n < 0x1000:
		return "<4K"
	case n%0x1000 != 0:
		return "unaligned"
	case n <= 0x10000:
		return "4K-64K"
	case n <= 0x20000:
		return "64K-128K"
	default:
		return ">=1M"
	}
}
