package main

// C18, event-log records as the tool reads them: the log FILE is decoded by extract.Endorsement (elFromFile →
// CryptoAgileLog.Unmarshal on the opened file).  Whatever reader sits between the file and the decoders, a
// record that is in the file decodes to the value that was encoded — also when a fixed-size field (a digest)
// lies across a 4096-byte boundary of the file, where buffered readers hand out short reads.

import (
	"bytes"
	"fmt"
	"os"
	"path/filepath"

	"github.com/google/gce-tcb-verifier/eventlog"
	"github.com/google/gce-tcb-verifier/extract"
)

func runC18File(c *Ctx) {
	dir, err := os.MkdirTemp("", "verif-c18f-")
	if err != nil {
		panic(err)
	}
	defer os.RemoveAll(dir)
	want := []byte("RAW-LOCATOR-OF-THE-LAST-EVENT")
	rim := func() *eventlog.TCGPCREvent2 {
		return &eventlog.TCGPCREvent2{EventType: eventlog.EvNoAction, EventData: eventlog.TCGEventData{Event: &eventlog.SP800155Event3{
			FirmwareManufacturerStr: eventlog.ByteSizedCStr{Data: "mfr"},
			RIMLocatorType:          eventlog.RIMLocationRaw,
			RIMLocator:              eventlog.Uint32SizedArray{Data: want},
		}}}
	}
	enc := func(l *eventlog.CryptoAgileLog) []byte {
		var b bytes.Buffer
		if err := l.Marshal(&b); err != nil {
			panic(err)
		}
		return b.Bytes()
	}
	// one event carrying a SHA-256 digest (algorithm 0x000b, 32 bytes) after `pad` bytes of filler event data
	for _, boundary := range []int{4096, 8192, 4096 * 5} {
		for _, into := range []int{-1, 0, 1, 2, 16, 31, 32, 33, 40} {
			// the filler size that puts the digest's first byte at boundary-into (the encoding grows by one byte per
			// filler byte; inside the second event the digest follows pcr(4) type(4) count(4) alg(2))
			mk := func(pad int) (*eventlog.CryptoAgileLog, int) {
				l := &eventlog.CryptoAgileLog{Header: eventlog.TCGPCClientPCREvent{}}
				l.Events = append(l.Events, &eventlog.TCGPCREvent2{EventType: 0x80000001, EventData: eventlog.TCGEventData{Event: &eventlog.UnknownEvent{Data: bytes.Repeat([]byte{0x11}, pad)}}})
				return l, len(enc(l))
			}
			_, before0 := mk(0)
			pad := boundary - into - 14 - before0
			if pad < 0 {
				c.Count("file/layout-not-reachable")
				continue
			}
			l, before := mk(pad)
			if before+14 != boundary-into {
				panic("c18 file: layout arithmetic")
			}
			dg := &eventlog.TaggedDigest{AlgID: 0x000b, Digest: bytes.Repeat([]byte{0xD7}, 32)}
			l.Events = append(l.Events, &eventlog.TCGPCREvent2{PCRIndex: 1, EventType: 0x80000002,
				Digests: eventlog.Uint32SizedArrayT[*eventlog.TaggedDigest]{Array: []*eventlog.TaggedDigest{dg}}})
			l.Events = append(l.Events, rim())
			file := enc(l)
			path := filepath.Join(dir, fmt.Sprintf("log-%d-%d", boundary, into))
			if err := os.WriteFile(path, file, 0644); err != nil {
				panic(err)
			}
			var out []byte
			var eerr error
			pan, msg, _ := Guard(func() {
				out, eerr = extract.Endorsement(&extract.Options{FirmwareManufacturer: "mfr", EventLogLocation: path})
			})
			c.Count(fmt.Sprintf("file/digest-at-%d-boundary-offset%+d", boundary, -into))
			replay := fmt.Sprintf("event log file of %d bytes, SHA-256 digest starting at byte %d (file boundary %d), last event a raw-locator SP800-155 event", len(file), boundary-into, boundary)
			switch {
			case pan:
				c.Find("c18/eventlog/file/panic", "extract.Endorsement panicked on a well-formed event-log file: "+msg, replay)
			case eerr != nil:
				c.Find("c18/eventlog/file/well-formed-log-refused", "a well-formed event-log file is not decoded to the log that was encoded: "+eerr.Error(), replay)
			case !bytes.Equal(out, want):
				c.Find("c18/eventlog/file/record-differs", fmt.Sprintf("the raw locator of the last event came back as %q", out), replay)
			}
		}
	}
}
