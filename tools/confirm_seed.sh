#!/bin/bash
# usage: tools/confirm_seed.sh <seed id e.g. C13-A> <dir with patch.diff + *_test.go + notes.md> [base commit]
# Confirms a seeded change in a scratch worktree: (1) demo passes on the unchanged tree, (2) with the patch the
# existing suite still passes (same failures as the unchanged tree) and the demo fails. Writes /verif/seeded/<id>/.
set -u
id=$1; src=$2; base=${3:-HEAD}
wt=/tmp/confirm-$id
export GOPROXY=off GOSUMDB=off GOTOOLCHAIN=local
git -C /repo worktree remove --force $wt >/dev/null 2>&1
git -C /repo worktree add --detach $wt $base >/dev/null 2>&1 || { echo "cannot create worktree"; exit 2; }
demo=$(ls $src/*_test.go | head -1)
place=$(head -1 $demo | sed -E 's/^\/\/ *[Pp]lace at ([^ ;]+).*/\1/')
pkgdir=$(dirname $place)
runpat=$(head -1 $demo | grep -oE "\-run '?[A-Za-z0-9_|]+'?" | sed -E "s/-run '?//; s/'$//")
mod=.
case $place in gcetcbendorsement/*) mod=gcetcbendorsement; rel=${pkgdir#gcetcbendorsement}; rel=.${rel};; *) rel=./$pkgdir;; esac
newdir=0; [ -d $wt/$pkgdir ] || { mkdir -p $wt/$pkgdir; newdir=1; }
[ -n "$runpat" ] || runpat=.
cp $demo $wt/$place
suite() { (cd $wt && go build ./... && go test -vet=off -count=1 ./... 2>&1 | grep -E "^(ok|FAIL|---)" ; cd $wt/gcetcbendorsement && go test -vet=off -count=1 ./... 2>&1 | grep -E "^(ok|FAIL|---)") ; }
rundemo() { (cd $wt/$mod && go test -vet=off -count=1 -run "$runpat" $rel 2>&1 | tail -15); }
echo "### demo on unchanged tree"; d0=$(rundemo); echo "$d0" | tail -3
rm $wt/$place; [ $newdir = 1 ] && rmdir $wt/$pkgdir; s0=$(suite | grep -E "^FAIL|^--- FAIL" | sed -E "s/[0-9.]+s//g" | sort); mkdir -p $wt/$pkgdir; cp $demo $wt/$place
( cd $wt && git apply $src/patch.diff ) || { echo "PATCH DOES NOT APPLY at $base"; git -C /repo worktree remove --force $wt; exit 3; }
echo "### demo with change"; d1=$(rundemo); echo "$d1" | tail -5
rm $wt/$place; [ $newdir = 1 ] && rmdir $wt/$pkgdir
echo "### existing suite with change (failures; unchanged-tree failures: $(echo $s0 | tr '\n' ' '))"; s1=$(suite | grep -E "^FAIL|^--- FAIL" | sed -E "s/[0-9.]+s//g" | sort); echo "$s1"
ok=1
echo "$d0" | grep -q "^ok" || { echo "CONFIRM-FAIL: demo does not pass on unchanged tree"; ok=0; }
echo "$d1" | grep -qE "^(FAIL|--- FAIL)" || { echo "CONFIRM-FAIL: demo does not fail with change"; ok=0; }
[ "$s0" = "$s1" ] || { echo "CONFIRM-FAIL: existing suite differs with change"; ok=0; }
git -C /repo worktree remove --force $wt
if [ $ok = 1 ]; then
  out=/verif/seeded/$id; mkdir -p $out; cp $src/patch.diff $demo $out/; cp $src/notes.md $out/notes.md 2>/dev/null
  echo "CONFIRMED $id (base $(git -C /repo rev-parse --short $base)); demo placed at $place, run pattern $runpat"
fi
