#!/usr/bin/env python3
"""usage: seed_meta.py <seed id> <property> <base commit> <demo path> <run pattern> <needs...>
Applies seeded/<id>/patch.diff to /repo (must apply), runs ./check <property>, restores /repo, and writes meta.json."""
import json, subprocess, sys, os, re
sid, prop, base, demo, pat = sys.argv[1:6]
needs = " ".join(sys.argv[6:])
d = f"/verif/seeded/{sid}"
r = subprocess.run(["git", "-C", "/repo", "apply", f"{d}/patch.diff"], capture_output=True, text=True)
applied = r.returncode == 0
out = ""
if applied:
    p = subprocess.run(["./check", prop], cwd="/verif", capture_output=True, text=True, env=dict(os.environ, VERIF_EVIDENCE_DIR="/tmp/verif-seed-evidence"))
    out = "\n".join(l for l in p.stdout.split("\n") if re.match(r"^(VIOLATION|OK|KNOWN-FINDING)", l))
    rc = p.returncode
    subprocess.run(["git", "-C", "/repo", "checkout", "--", "."]); subprocess.run(["git", "-C", "/repo", "clean", "-fdq"])
else:
    rc = None
head = subprocess.run(["git", "-C", "/repo", "rev-parse", "--short", "HEAD"], capture_output=True, text=True).stdout.strip()
meta = {
  "id": sid, "property": prop, "breaks": open(f"{d}/notes.md").read().split("\n")[0:1],
  "needs_to_manifest": needs,
  "base_commit": base, "demo": {"place_at": demo, "run": f"go test -vet=off -count=1 -run '{pat}' <package of the demo>"},
  "confirmed": "tools/confirm_seed.sh: demo passes on the unchanged tree, fails with the patch; existing suite unchanged by the patch (both modules; the root-only localkm TestLoadKeys failure is pre-existing)",
  "check_run": {"repo_head": head, "patch_applies_at_head": applied, "cmd": f"git -C /repo apply seeded/{sid}/patch.diff && ./check {prop}; git -C /repo checkout -- .",
                "exit": rc, "lines": out.split("\n") if out else []},
}
json.dump(meta, open(f"{d}/meta.json", "w"), indent=1)
print(sid, "exit", rc, out.replace("\n", " | "))
