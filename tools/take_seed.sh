#!/bin/bash
# usage: tools/take_seed.sh <property id> [round]  — confirms /tmp/seed-<id>-out/{A,B} (tools/confirm_seed.sh), copies them to
# seeded/<id>-{A,B}, runs the property's check against each (tools/seed_meta.py) and removes the seeder's worktree.
pid=$1; rnd=${2:-1}
if [ "$rnd" = 1 ]; then wt=/tmp/seed-$pid; vs="A B"; else wt=/tmp/seed$rnd-$pid; case $rnd in 2) vs="C D";; 3) vs="E F";; 4) vs="G H";; 5) vs="I J";; esac; fi
for v in $vs; do
  src=$wt-out/$v
  [ -f $src/patch.diff ] || { echo "no $src/patch.diff"; continue; }
  demo=$(ls $src/*_test.go 2>/dev/null | head -1)
  [ -n "$demo" ] || { echo "no demo test in $src"; continue; }
  /verif/tools/confirm_seed.sh $pid-$v $src > /tmp/confirm-$pid-$v.log 2>&1
  if ! grep -q "^CONFIRMED" /tmp/confirm-$pid-$v.log; then echo "NOT CONFIRMED $pid-$v"; grep -E "CONFIRM-FAIL|PATCH DOES NOT" /tmp/confirm-$pid-$v.log; continue; fi
  place=$(head -1 $demo | sed -E 's/^\/\/ *[Pp]lace at ([^ ;]+).*/\1/')
  runpat=$(head -1 $demo | grep -oE "\-run '?[A-Za-z0-9_|]+'?" | sed -E "s/-run '?//; s/'$//")
  needs=$(python3 - "$src/notes.md" <<'PY'
import re,sys
s=open(sys.argv[1]).read()
m=re.search(r'^#+[^\n]*need[^\n]*\n(.*?)(?=^#|\Z)', s, re.S|re.M|re.I)
t=(m.group(1) if m else s.split('\n',1)[1] if '\n' in s else s).strip()
t=re.sub(r'\s+',' ',t)
print(t[:600])
PY
)
  base=$(git -C /repo rev-parse --short HEAD)
  python3 /verif/tools/seed_meta.py $pid-$v $pid $base "$place" "$runpat" "$needs"
done
git -C /repo worktree remove --force $wt 2>/dev/null
git -C /repo status --short | head -3
