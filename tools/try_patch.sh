#!/bin/sh
# usage: tools/try_patch.sh <patch.diff> <property id>...   — applies a patch to /repo, runs the quick checks, restores /repo.
p=$1; shift
cd /repo || exit 2
if ! git apply --check "$p" 2>/dev/null; then echo "PATCH DOES NOT APPLY: $p"; git apply --check "$p"; exit 3; fi
git apply "$p"
for id in "$@"; do
  (cd /verif && VERIF_EVIDENCE_DIR=/tmp/verif-seed-evidence ./check $id 2>&1 | grep -E "^(VIOLATION|OK|KNOWN-FINDING)" | head -5)
done
git -C /repo checkout -- . ; git -C /repo clean -fdq
git -C /repo status --short | head -3
