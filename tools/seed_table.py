#!/usr/bin/env python3
"""Rewrites the seeded-change table in DESIGN.md (between the SEEDTABLE markers) from seeded/*/meta.json."""
import json, os, re
rows = []
for sid in sorted(os.listdir('/verif/seeded')):
    mp = f'/verif/seeded/{sid}/meta.json'
    if not os.path.exists(mp):
        continue
    m = json.load(open(mp))
    cr = m.get('check_run', {})
    how = '; '.join(sorted({re.sub(r'.*replays/', '', l).replace('.json', '').replace(' no-failing-input-found', ' (no-failing-input-found)') for l in cr.get('lines', []) if l.startswith('VIOLATION')}))
    det = {1: 'yes', 0: '**MISSED**', None: 'n/a at HEAD'}.get(cr.get('exit'), str(cr.get('exit')))
    what = (m.get('breaks') or [''])[0].lstrip('# ').strip()
    needs = m.get('needs_to_manifest','').replace('|', '/').replace('\n', ' ')[:400]
    rows.append(f"| {sid} | {what.replace('|','/')} | {needs} | {det} | {how} |")
tbl = "| Seed | Change | Needs, to manifest | Detected by `./check` | Replay (oracle signature / unchecked obligation) |\n|---|---|---|---|---|\n" + "\n".join(rows)
p = '/verif/DESIGN.md'
s = open(p).read()
s = re.sub(r'<!-- SEEDTABLE:BEGIN -->.*?<!-- SEEDTABLE:END -->', lambda m: '<!-- SEEDTABLE:BEGIN -->\n' + tbl + '\n<!-- SEEDTABLE:END -->', s, flags=re.S)
open(p, 'w').write(s)
print(len(rows), 'rows')
