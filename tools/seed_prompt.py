#!/usr/bin/env python3
"""Prints the prompt given to an independent mutation-seeding agent for one property."""
import json, sys
pid = sys.argv[1]
rnd = sys.argv[2] if len(sys.argv) > 2 else '1'
WT = f'/tmp/seed-{pid}' if rnd == '1' else f'/tmp/seed{rnd}-{pid}'
VA, VB = {'1': ('A', 'B'), '2': ('C', 'D'), '3': ('E', 'F'), '4': ('G', 'H'), '5': ('I', 'J')}[rnd]
p = [json.loads(l) for l in open('/verif/properties.jsonl') if json.loads(l)['id'] == pid][0]
print(f"""You are a software engineer reviewing the Go repository google/gce-tcb-verifier (tools that compute SEV-SNP/TDX launch measurements of OVMF firmware, sign them as GCE launch endorsements, and verify endorsements against attestations). You have your own scratch git worktree of it at {WT} (a detached checkout; edit it freely). Work ONLY inside {WT} and {WT}-out; do not read or write /repo, /verif or any other /tmp directory.

A semantic property the repository is supposed to satisfy:

  Title: {p['title']}
  Statement: {p['statement']}
  Quantified over: {p['quantifier']['text']}

YOUR TASK: produce TWO different, realistic changes to the repository's non-test Go source (call them {VA} and {VB}; each independent, each applied to the unchanged tree) such that, with the change applied:
  1. the code still compiles and the repository's EXISTING test suite still passes, unedited (run it: `cd {WT} && GOPROXY=off GOSUMDB=off GOTOOLCHAIN=local go build ./... && GOPROXY=off GOSUMDB=off GOTOOLCHAIN=local go test -vet=off -count=1 ./... && cd gcetcbendorsement && GOPROXY=off GOSUMDB=off GOTOOLCHAIN=local go test -vet=off -count=1 ./...` — there is no network; do not set GOFLAGS=-mod=mod in the repo, it uses a go.work workspace; NOTE: testing/nonprod/localkm TestLoadKeys/bad_key_in_dir fails on the UNCHANGED tree because tests run as root here — ignore that one failure and run the two module suites separately rather than with &&);
  2. the property above is VIOLATED — not for every use, but for something specific: a particular input or boundary value, a multi-step sequence of operations, an unusual configuration, a fault at a particular point, a particular interleaving, or two cooperating code sites that each look fine alone. Prefer subtle changes that a code reviewer could plausibly let through (an off-by-one, a dropped or reordered check, a wrong map key, a condition that is right for the common case only, an optimisation that skips work, a refactoring slip), NOT changes that ordinary use or the existing tests would expose at once, and not changes outside the behaviour the property talks about. {VA} and {VB} should touch different mechanisms (different functions or different clauses of the property).
  3. you have a DEMONSTRATION for each: a new Go test file (or small program) that FAILS with the change and PASSES on the unchanged tree, showing the violation concretely against the real code. Put the demonstration in a new file so it does not edit existing tests.

Read the relevant code first (start from README.md and the packages the property is about), then make change {VA}, run the full existing suite, run your demonstration with and without the change, save the artefacts, `git -C {WT} checkout -- . && git -C {WT} clean -fd` to restore, and repeat for {VB}.

DELIVER in {WT}-out/{VA} and {WT}-out/{VB} (create them): `patch.diff` (output of `git diff` for the source change only, applying cleanly with `git apply` at the repository root on the unchanged tree), the demonstration file(s) with a first-line comment saying at which repository-relative path to place them and the exact command to run, and `notes.md`: which clause of the property the change breaks, what exactly is needed for the violation to manifest (the specific input / sequence / configuration), the output of the demonstration with and without the change, and confirmation that the existing suite passed with the change (paste the `ok` lines). Leave the worktree restored to the unchanged tree when done. Your final message: a short summary of {VA} and {VB}.""")
