#!/usr/bin/env python3
"""Re-runs every kept seeded change against the current checks: applies seeded/<id>/patch.diff to /repo, runs
./check <property> (quick), restores /repo. Prints a markdown table and updates each meta.json's check_run."""
import json, subprocess, os, re, sys
rows = []
only = set(sys.argv[1:])
for sid in sorted(os.listdir('/verif/seeded')):
    d = f'/verif/seeded/{sid}'
    mp = f'{d}/meta.json'
    if not os.path.exists(mp) or (only and sid not in only):
        continue
    meta = json.load(open(mp))
    prop = meta['property']
    r = subprocess.run(['git', '-C', '/repo', 'apply', '--3way', f'{d}/patch.diff'], capture_output=True, text=True)
    conflict = subprocess.run(['git', '-C', '/repo', 'diff', '--name-only', '--diff-filter=U'], capture_output=True, text=True).stdout.strip()
    applied = r.returncode == 0 and not conflict
    lines, rc = [], None
    if applied:
        subprocess.run(['git', '-C', '/repo', 'reset', '-q'])
        p = subprocess.run(['./check', prop], cwd='/verif', capture_output=True, text=True, env=dict(os.environ, VERIF_EVIDENCE_DIR='/tmp/verif-seed-evidence'))
        lines = [l for l in p.stdout.split('\n') if re.match(r'^(VIOLATION|OK|KNOWN-FINDING)', l)]
        rc = p.returncode
    subprocess.run(['git', '-C', '/repo', 'reset', '-q', '--hard', 'HEAD']); subprocess.run(['git', '-C', '/repo', 'clean', '-fdq'])
    head = subprocess.run(['git', '-C', '/repo', 'rev-parse', '--short', 'HEAD'], capture_output=True, text=True).stdout.strip()
    meta['check_run'] = {'repo_head': head, 'patch_applies_at_head': applied, 'cmd': f'git -C /repo apply --3way seeded/{sid}/patch.diff && ./check {prop}; git -C /repo reset --hard', 'exit': rc, 'lines': lines}
    json.dump(meta, open(mp, 'w'), indent=1)
    how = '; '.join(sorted({re.sub(r'.*replay=/verif/replays/', '', l).replace('.json', '') for l in lines if l.startswith('VIOLATION')}))
    rows.append((sid, prop, 'yes' if rc == 1 else ('NOT APPLICABLE AT HEAD' if not applied else 'MISSED'), how))
    print(sid, prop, rc, how, flush=True)
print()
print('| Seed | Property | Detected | Replay (oracle signature or unchecked obligation) |')
print('|---|---|---|---|')
for r in rows:
    print('| ' + ' | '.join(r) + ' |')
