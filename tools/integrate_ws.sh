#!/bin/bash
# usage: tools/integrate_ws.sh <ws name> <base commit of /verif the workspace was copied from> [--apply]
# Lists (and with --apply performs) the file-level integration of /tmp/ws-<name>/verif into /verif:
# new files are copied, files changed only in the workspace are copied, files changed on both sides are
# 3-way merged (git merge-file) against the base commit. Build outputs, evidence, replays and MANIFEST are skipped.
ws=/tmp/ws-$1/verif; base=$2; apply=$3
b=/tmp/base-verif-$$; mkdir -p $b; git -C /verif archive $base | tar -x -C $b
cd $ws
find . -type f \( -path ./lean/.lake -o -path ./evidence -o -path ./replays -o -path ./.git -o -path ./seeded -o -path './harness/verif-harness' -o -path './extract/verif-extract' \) -prune -o -type f -print | sed 's|^\./||' | \
 grep -v -E '^(lean/\.lake/|evidence/|replays/|seeded/|MANIFEST.json$|harness/verif-harness$|extract/verif-extract$|lean/lake-manifest.json$|.*\.olean$|bin/|build/|\.cache/)' | while read f; do
  if [ ! -e $b/$f ]; then
    if [ -e /verif/$f ]; then cmp -s $f /verif/$f || echo "NEW-BOTH $f"; else echo "NEW $f"; [ "$apply" = --apply ] && { mkdir -p /verif/$(dirname $f); cp -p $f /verif/$f; }; fi
  elif ! cmp -s $f $b/$f; then
    if cmp -s /verif/$f $b/$f; then echo "CHANGED $f"; [ "$apply" = --apply ] && cp -p $f /verif/$f
    elif cmp -s /verif/$f $f; then :
    else echo "MERGE $f"; [ "$apply" = --apply ] && { git merge-file /verif/$f $b/$f $f || echo "  CONFLICT in $f"; }
    fi
  fi
done
rm -rf $b
