#!/bin/sh
# Creates an isolated workspace for developing one property group:
#   /tmp/ws-<name>/verif  copy of /verif (without .git), with its own lean build directory
#   /tmp/ws-<name>/repo   detached git worktree of /repo HEAD (edit freely; produce patches from it)
# Use:  export VERIF_REPO=/tmp/ws-<name>/repo ; cd /tmp/ws-<name>/verif ; ./check Cxx
set -e
ws=/tmp/ws-$1
mkdir -p $ws
rsync -a --exclude .git --exclude replays /verif/ $ws/verif/
git -C /repo worktree add --detach $ws/repo HEAD >/dev/null 2>&1
echo "workspace $ws ready: export VERIF_REPO=$ws/repo; cd $ws/verif"
