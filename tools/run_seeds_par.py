#!/usr/bin/env python3
"""Re-runs kept seeded changes against the current checks in parallel LANES, leaving /repo and /verif untouched:
each lane is a private copy of /verif (with its Lean build directory) plus a detached worktree of /repo HEAD under
/tmp/seedlane-<i>; a seed is applied to the lane's repo, `./check <property>` runs in the lane's verif with
VERIF_REPO pointing at it, the lane's repo is restored. Results go to seeded/<id>/meta.json (check_run) of /verif.

usage: tools/run_seeds_par.py [-j N] [--no-escalate] [seed ids...]"""
import json, os, re, subprocess, sys, threading, queue, shutil

args = sys.argv[1:]
lanes = 4
if '-j' in args:
    i = args.index('-j'); lanes = int(args[i + 1]); del args[i:i + 2]
noesc = '--no-escalate' in args
args = [a for a in args if a != '--no-escalate']
only = set(args)
seeds = [s for s in sorted(os.listdir('/verif/seeded')) if os.path.exists(f'/verif/seeded/{s}/meta.json') and (not only or s in only)]
head = subprocess.run(['git', '-C', '/repo', 'rev-parse', '--short', 'HEAD'], capture_output=True, text=True).stdout.strip()
q = queue.Queue()
for s in seeds:
    q.put(s)
results = {}
lock = threading.Lock()


def sh(cmd, **kw):
    return subprocess.run(cmd, capture_output=True, text=True, **kw)


def lane(i):
    root = f'/tmp/seedlane{os.environ.get("LANESET", "")}-{i}'
    sh(['git', '-C', '/repo', 'worktree', 'remove', '--force', root + '/repo'])
    shutil.rmtree(root, ignore_errors=True)
    os.makedirs(root)
    sh(['rsync', '-a', '--exclude', '.git', '--exclude', 'replays', '--exclude', 'seeded', '/verif/', root + '/verif/'])
    sh(['git', '-C', '/repo', 'worktree', 'add', '--detach', root + '/repo', 'HEAD'])
    env = dict(os.environ, VERIF_REPO=root + '/repo')
    if noesc:
        env['VERIF_NO_ESCALATE'] = '1'
    while True:
        try:
            sid = q.get_nowait()
        except queue.Empty:
            break
        d = f'/verif/seeded/{sid}'
        meta = json.load(open(d + '/meta.json'))
        prop = meta['property']
        r = sh(['git', '-C', root + '/repo', 'apply', '--3way', d + '/patch.diff'])
        conflict = sh(['git', '-C', root + '/repo', 'diff', '--name-only', '--diff-filter=U']).stdout.strip()
        applied = r.returncode == 0 and not conflict
        lines, rc = [], None
        if applied:
            sh(['git', '-C', root + '/repo', 'reset', '-q'])
            p = sh(['./check', prop], cwd=root + '/verif', env=env)
            lines = [re.sub(r'replay=/tmp/seedlane\w*-\d+/verif/', 'replay=/verif/', l) for l in p.stdout.split('\n') if re.match(r'^(VIOLATION|OK)', l)]
            rc = p.returncode
        sh(['git', '-C', root + '/repo', 'reset', '-q', '--hard', 'HEAD'])
        sh(['git', '-C', root + '/repo', 'clean', '-fdq'])
        meta['check_run'] = {'repo_head': head, 'patch_applies_at_head': applied,
                             'cmd': f'git -C /repo apply --3way seeded/{sid}/patch.diff && ./check {prop}; git -C /repo reset --hard', 'exit': rc, 'lines': lines}
        with lock:
            json.dump(meta, open(d + '/meta.json', 'w'), indent=1)
            results[sid] = (prop, rc, applied)
            print(sid, prop, rc, '' if applied else 'PATCH DOES NOT APPLY AT HEAD', flush=True)
    sh(['git', '-C', '/repo', 'worktree', 'remove', '--force', root + '/repo'])
    shutil.rmtree(root, ignore_errors=True)


ts = [threading.Thread(target=lane, args=(i,)) for i in range(lanes)]
for t in ts:
    t.start()
for t in ts:
    t.join()
missed = [s for s, (p, rc, a) in sorted(results.items()) if a and rc != 1]
na = [s for s, (p, rc, a) in sorted(results.items()) if not a]
print(f'\n{len(results)} seeds: detected {sum(1 for v in results.values() if v[1] == 1)}, MISSED {missed}, not applicable at HEAD {na}')
