#!/usr/bin/env python3
"""Regenerates MANIFEST.json from props.json (single source of truth for what is claimed)."""
import json, subprocess
import os
P = {f[:-5]: json.load(open('/verif/props/'+f)) for f in sorted(os.listdir('/verif/props')) if f.endswith('.json')}
allp = [json.loads(l)['id'] for l in open('/verif/properties.jsonl')]
hooks = subprocess.run(['git', '-C', '/repo', 'log', '--format=%H %s'], capture_output=True, text=True).stdout.split('\n')
hook_commits = [l.split()[0] for l in hooks if l and 'verif hook' in l]
checks = []
for pid in sorted(P):
    c = P[pid]
    if c.get('pending'):
        continue
    checks.append({
        "property_id": pid,
        "quick_cmd": f"./check {pid} --tier quick",
        "thorough_cmd": f"./check {pid} --tier thorough",
        "evidence_file": f"evidence/{pid}.json",
        "replay_cmd_template": "./check replay {path}",
        "engine": "lean",
        "level_claimed": {"category": "proof", "text": c["level_text"], "design_ref": f"DESIGN.md §6 {pid}"},
        "level_note": c["level_note"],
        "technique": c.get("technique", "Lean 4 proof + differential correspondence"),
    })
na = [{"property_id": p, "reason": "not claimed in this revision: " + (P[p]['pending'] if p in P else "model and check still under construction (see DESIGN.md §0.2)")} for p in allp if p not in P or P[p].get('pending')]
m = {
    "version": 1,
    "setup_cmd": "./check setup",
    "hooks": {
        "guard": "verif",
        "enable": "go build -tags verif (the harness module /verif/harness replaces the repository modules with /repo and is rebuilt with -tags verif by every check)",
        "baseline_off_cmd": "for m in . gcetcbendorsement; do (cd /repo/$m && go build ./... && go test -vet=off -count=1 ./...); done",
        "source_commits": hook_commits,
        "add_only": True,
    },
    "engines": [
        {"name": "lean", "path": "lean", "serves_properties": sorted(P), "kind_free_text": "Lean 4 models, specifications and property theorems (core-only); compiled model driver gcetcb-model; regenerated facts in lean/GceTcb/Gen"},
        {"name": "harness", "path": "harness", "serves_properties": sorted(P), "kind_free_text": "Go correspondence harness calling the real code in-process (-tags verif), line protocol to the Lean driver, direct property oracles"},
        {"name": "extract", "path": "extract", "serves_properties": sorted(p for p in P if P[p].get("gen")), "kind_free_text": "Go go/ast+go/types fact extractor regenerating lean/GceTcb/Gen from /repo on every run"},
    ],
    "checks": checks,
    "notes": "All checks go through ./check; VERIF_SEED seeds every random choice; known findings in known_findings.jsonl.",
    "not_applicable": na,
}
json.dump(m, open('/verif/MANIFEST.json', 'w'), indent=1)
print("claimed", sorted(P), "unclaimed", [n['property_id'] for n in na])
