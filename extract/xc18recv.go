package main

// RecvStores — C18 (receivers): per decoder with a pointer receiver, the receiver fields it assigns and whether every
// successful return is preceded by a store to each of them.
//
// Scope: every method named Unmarshal / UnmarshalFromBytes / PopulateFromBytes with a pointer receiver in the non-test
// files of eventlog/ and in ovmf/abi/abi.go, plus eventlog.readSizedArray (receiver = its pointer parameter `data`).
// The set is DISCOVERED, not listed: a new decoder appears in the table and breaks the obligation C18_recv_fields_assigned
// until it is modelled.
//
// A store to field F of receiver r is: an assignment whose left side is `r.F` (or `*data` for a pointer parameter); the
// address `&r.F` handed to a call (littleRead / binary.Read / readSizedArray decode in place); the slice `r.F[:]` handed
// to a call (`r.Read(e.SHA1Digest[:])`).  Fields are listed in the order of their first store.
// allAssigned: every `return nil` (for a function without one: its last return statement, whose own expression may
// contain the store: `return readSizedArray(r, &size, &b.Data)`) ends, in source order, after a store to every listed field.  nReturnNil: the number of `return nil` statements.
// resets: assignments `r.F = nil` / `r.F = f()` (a call without arguments) — the explicit re-initialisations.

import (
	"fmt"
	"go/ast"
	"go/printer"
	"go/token"
	"os"
	"path/filepath"
	"sort"
	"strings"
)

func init() { register("RecvStores", genRecvStores) }

type recvRow struct {
	name        string
	fields      []string
	allAssigned bool
	nReturnNil  int
}

func recvTypeName(e ast.Expr) (string, bool) {
	star, ok := e.(*ast.StarExpr)
	if !ok {
		return "", false
	}
	switch t := star.X.(type) {
	case *ast.Ident:
		return t.Name, true
	case *ast.IndexExpr:
		if id, ok := t.X.(*ast.Ident); ok {
			return id.Name, true
		}
	}
	return "", false
}

func genRecvStores(repo string, w *leanWriter) error {
	var files []string
	ents, err := os.ReadDir(filepath.Join(repo, "eventlog"))
	if err != nil {
		return err
	}
	for _, e := range ents {
		if strings.HasSuffix(e.Name(), ".go") && !strings.HasSuffix(e.Name(), "_test.go") && !strings.HasPrefix(e.Name(), "export_verif") {
			files = append(files, "eventlog/"+e.Name())
		}
	}
	files = append(files, "ovmf/abi/abi.go")
	var rows []recvRow
	var resets [][3]string
	for _, rel := range files {
		fset, f, err := parseFile(repo, rel)
		if err != nil {
			return err
		}
		pkg := f.Name.Name
		for _, d := range f.Decls {
			fd, ok := d.(*ast.FuncDecl)
			if !ok || fd.Body == nil {
				continue
			}
			var recvIdent, name string
			deref := false
			switch {
			case fd.Recv != nil && (fd.Name.Name == "Unmarshal" || fd.Name.Name == "UnmarshalFromBytes" || fd.Name.Name == "PopulateFromBytes"):
				if len(fd.Recv.List) != 1 || len(fd.Recv.List[0].Names) != 1 {
					continue
				}
				tn, ok := recvTypeName(fd.Recv.List[0].Type)
				if !ok {
					continue // value receiver: nothing of the caller's can be assigned
				}
				recvIdent, name = fd.Recv.List[0].Names[0].Name, pkg+"."+tn+"."+fd.Name.Name
			case fd.Recv == nil && pkg == "eventlog" && fd.Name.Name == "readSizedArray":
				for _, p := range fd.Type.Params.List {
					if _, ok := p.Type.(*ast.StarExpr); ok && len(p.Names) == 1 {
						recvIdent, deref = p.Names[0].Name, true
					}
				}
				if recvIdent == "" {
					return fmt.Errorf("readSizedArray: no pointer parameter")
				}
				name = pkg + "." + fd.Name.Name
			default:
				continue
			}
			if recvIdent == "_" {
				continue
			}
			row, rs := recvAnalyse(fset, fd, recvIdent, deref)
			row.name = name
			rows = append(rows, row)
			for _, r := range rs {
				resets = append(resets, [3]string{name, r[0], r[1]})
			}
		}
	}
	if len(rows) == 0 {
		return fmt.Errorf("no decoder with a pointer receiver found")
	}
	sort.Slice(rows, func(i, j int) bool { return rows[i].name < rows[j].name })
	sort.Slice(resets, func(i, j int) bool { return resets[i][0]+resets[i][1] < resets[j][0]+resets[j][1] })
	w.Line("/-- (decoder, receiver fields assigned in order of first store, every successful return preceded by all of them, number of `return nil`) -/")
	w.Line("def table : List (String × List String × Bool × Nat) := [")
	for i, r := range rows {
		var fs []string
		for _, f := range r.fields {
			fs = append(fs, fmt.Sprintf("%q", f))
		}
		sep := ","
		if i == len(rows)-1 {
			sep = ""
		}
		w.Line("  (%q, [%s], %v, %d)%s", r.name, strings.Join(fs, ", "), r.allAssigned, r.nReturnNil, sep)
	}
	w.Line("]")
	w.Line("/-- explicit re-initialisations of a receiver field: (decoder, field, right-hand side) -/")
	w.Line("def resets : List (String × String × String) := [")
	for i, r := range resets {
		sep := ","
		if i == len(resets)-1 {
			sep = ""
		}
		w.Line("  (%q, %q, %q)%s", r[0], r[1], r[2], sep)
	}
	w.Line("]")
	return nil
}

func recvAnalyse(fset *token.FileSet, fd *ast.FuncDecl, recv string, deref bool) (recvRow, [][2]string) {
	type store struct {
		field string
		pos   token.Pos
	}
	var stores []store
	var resets [][2]string
	// the field of the receiver an expression denotes: r.F, or *data
	fieldOf := func(e ast.Expr) (string, bool) {
		if deref {
			if s, ok := e.(*ast.StarExpr); ok {
				if id, ok := s.X.(*ast.Ident); ok && id.Name == recv {
					return "*" + recv, true
				}
			}
			return "", false
		}
		if s, ok := e.(*ast.SelectorExpr); ok {
			if id, ok := s.X.(*ast.Ident); ok && id.Name == recv {
				return s.Sel.Name, true
			}
		}
		return "", false
	}
	var returnsNil, allReturns []token.Pos
	ast.Inspect(fd.Body, func(n ast.Node) bool {
		switch x := n.(type) {
		case *ast.FuncLit:
			return false
		case *ast.AssignStmt:
			for i, l := range x.Lhs {
				if f, ok := fieldOf(l); ok {
					stores = append(stores, store{f, x.End()})
					if len(x.Lhs) == len(x.Rhs) {
						switch r := x.Rhs[i].(type) {
						case *ast.Ident:
							if r.Name == "nil" {
								resets = append(resets, [2]string{f, "nil"})
							}
						case *ast.CallExpr:
							if len(r.Args) == 0 {
								var sb strings.Builder
								printer.Fprint(&sb, fset, r)
								resets = append(resets, [2]string{f, sb.String()})
							}
						}
					}
				}
			}
		case *ast.CallExpr:
			for _, a := range x.Args {
				switch t := a.(type) {
				case *ast.UnaryExpr:
					if t.Op == token.AND {
						if f, ok := fieldOf(t.X); ok {
							stores = append(stores, store{f, x.End()})
						}
					}
				case *ast.SliceExpr:
					if f, ok := fieldOf(t.X); ok {
						stores = append(stores, store{f, x.End()})
					}
				}
			}
		case *ast.ReturnStmt:
			allReturns = append(allReturns, x.End())
			if len(x.Results) == 1 {
				if id, ok := x.Results[0].(*ast.Ident); ok && id.Name == "nil" {
					returnsNil = append(returnsNil, x.End())
				}
			}
		}
		return true
	})
	row := recvRow{nReturnNil: len(returnsNil), allAssigned: true}
	seen := map[string]bool{}
	for _, s := range stores {
		if !seen[s.field] {
			seen[s.field] = true
			row.fields = append(row.fields, s.field)
		}
	}
	success := returnsNil
	if len(success) == 0 && len(allReturns) > 0 {
		success = allReturns[len(allReturns)-1:]
	}
	for _, rp := range success {
		for _, f := range row.fields {
			ok := false
			for _, s := range stores {
				if s.field == f && s.pos <= rp {
					ok = true
				}
			}
			if !ok {
				row.allAssigned = false
			}
		}
	}
	return row, resets
}
