package main

// PanicSitesDec: inventory of the panic-capable expressions in the verifier-glue functions of C07
// (everything a relying party applies to bytes of an untrusted peer, except the event-log decoders).
//
// The packages are type-checked (go/types; dependencies through the export data `go list -export`
// reports, standard library only), so that the kinds below are decided on static types, not on syntax:
//
//   index      x[i] on a slice, array, pointer to array or string           (map reads are total)
//   mapwrite   m[k] = v                                                      (panics on a nil map)
//   slice      x[a:b], x[a:], x[:b], x[a:b:c]
//   make       make(T, n) with a non-constant size
//   assert     x.(T) without `, ok` and outside a type switch
//   deref      *p as an expression; p.f where p is a pointer and f a FIELD (generated getters and other
//              methods with pointer receivers are nil-safe calls); p.m() where m has a value receiver.
//              Not listed: selections through a local variable that is bound exactly once, to &T{…} or
//              new(T) (it cannot be nil)
//   conv       integer conversion to a type that cannot represent every value of the operand's type
//   paniccall  call of a function documented to panic on some arguments (Must*, protopath.Values.Index,
//              the typed accessors of protoreflect.Value / MapKey, encoding/binary byte-order methods)
//
// Each site is keyed (function, ordinal in source order within the function, kind) and carries the
// normalised text of the expression.  Function literals are functions of their own: Outer$1, Outer$2, …
//
// Output: def sites : List (String × Nat × String × String)

import (
	"bytes"
	"encoding/json"
	"fmt"
	"go/ast"
	"go/importer"
	"go/parser"
	"go/token"
	"go/types"
	"io"
	"os"
	"os/exec"
	"path/filepath"
	"sort"
	"strings"
)

func init() { register("PanicSitesDec", extractPanicSitesDec) }

type xc07Pkg struct {
	moddir string   // directory (relative to the repo) `go list` runs in
	dir    string   // package directory relative to the repo
	files  []string // files in scope
	skip   map[string]bool
}

// the functions of extract/extract.go that belong to the event-log half of C07
var xc07Pkgs = []xc07Pkg{
	{".", "timeproto", []string{"timeproto.go"}, map[string]bool{"To": true}},
	{".", "verify", []string{"verify.go"}, nil},
	{".", "extract/extractsev", []string{"extractsev.go"}, nil},
	{".", "extract/extracttdx", []string{"extracttdx.go"}, nil},
	{".", "extract", []string{"extract.go"}, map[string]bool{"elFromFile": true, "Options.fromEventLog": true, "DefaultOptions": true}},
	{"gcetcbendorsement", "gcetcbendorsement", []string{"sevpolicy.go", "tdxpolicy.go", "sevvalidate.go", "tdxvalidate.go", "inspect.go", "presentation.go", "verify.go"}, nil},
}

type xc07Site struct {
	fn   string
	ord  int
	kind string
	text string
}

// xc07Exports asks the go command for the export data of every dependency of the packages in dir.
func xc07Exports(dir string, pkgs []string, into map[string]string) error {
	cmd := exec.Command("go", append([]string{"list", "-export", "-deps", "-json=ImportPath,Export"}, pkgs...)...)
	cmd.Dir = dir
	cmd.Env = append(os.Environ(), "GOPROXY=off", "GOSUMDB=off", "GOTOOLCHAIN=local", "GOFLAGS=")
	var stderr bytes.Buffer
	cmd.Stderr = &stderr
	out, err := cmd.Output()
	if err != nil {
		return fmt.Errorf("go list -export in %s: %v: %s", dir, err, strings.TrimSpace(stderr.String()))
	}
	dec := json.NewDecoder(bytes.NewReader(out))
	for {
		var p struct{ ImportPath, Export string }
		if err := dec.Decode(&p); err == io.EOF {
			break
		} else if err != nil {
			return err
		}
		if p.Export != "" {
			into[p.ImportPath] = p.Export
		}
	}
	return nil
}

func extractPanicSitesDec(repo string, w *leanWriter) error {
	exports := map[string]string{}
	for _, d := range []struct {
		dir  string
		pkgs []string
	}{{".", []string{"./timeproto", "./verify", "./extract", "./extract/extractsev", "./extract/extracttdx"}}, {"gcetcbendorsement", []string{"."}}} {
		if err := xc07Exports(filepath.Join(repo, d.dir), d.pkgs, exports); err != nil {
			return err
		}
	}
	fset := token.NewFileSet()
	imp := importer.ForCompiler(fset, "gc", func(path string) (io.ReadCloser, error) {
		f, ok := exports[path]
		if !ok {
			return nil, fmt.Errorf("no export data for %s", path)
		}
		return os.Open(f)
	})
	var all []xc07Site
	for _, p := range xc07Pkgs {
		dir := filepath.Join(repo, p.dir)
		// the whole package is type-checked (the files in scope refer to the others); test files and files
		// under the `verif` build tag are left out
		ents, err := os.ReadDir(dir)
		if err != nil {
			return err
		}
		var files []*ast.File
		inScope := map[*ast.File]bool{}
		for _, e := range ents {
			n := e.Name()
			if !strings.HasSuffix(n, ".go") || strings.HasSuffix(n, "_test.go") || strings.HasPrefix(n, "export_verif") {
				continue
			}
			f, err := parser.ParseFile(fset, filepath.Join(dir, n), nil, parser.SkipObjectResolution)
			if err != nil {
				return err
			}
			files = append(files, f)
			for _, s := range p.files {
				if s == n {
					inScope[f] = true
				}
			}
		}
		if len(inScope) != len(p.files) {
			return fmt.Errorf("%s: expected files %v", p.dir, p.files)
		}
		info := &types.Info{Types: map[ast.Expr]types.TypeAndValue{}, Selections: map[*ast.SelectorExpr]*types.Selection{},
			Uses: map[*ast.Ident]types.Object{}, Defs: map[*ast.Ident]types.Object{}}
		var terrs []string
		conf := types.Config{Importer: imp, Error: func(err error) { terrs = append(terrs, err.Error()) }}
		pkg, _ := conf.Check(p.dir, fset, files, info)
		if len(terrs) != 0 {
			return fmt.Errorf("type-checking %s: %s", p.dir, strings.Join(terrs[:1], "; "))
		}
		// deterministic order: files as listed, declarations in source order
		sort.Slice(files, func(i, j int) bool { return fset.File(files[i].Pos()).Name() < fset.File(files[j].Pos()).Name() })
		for _, s := range p.files {
			for _, f := range files {
				if !inScope[f] || filepath.Base(fset.File(f.Pos()).Name()) != s {
					continue
				}
				for _, d := range f.Decls {
					fd, ok := d.(*ast.FuncDecl)
					if !ok || fd.Body == nil {
						continue
					}
					name := fd.Name.Name
					if fd.Recv != nil && len(fd.Recv.List) == 1 {
						name = xc07RecvName(fd.Recv.List[0].Type) + "." + name
					}
					if p.skip[name] {
						continue
					}
					x := &xc07Walker{info: info, pkg: pkg, fn: pkg.Name() + "." + name}
					x.walkFunc(fd.Body)
					all = append(all, x.sites...)
				}
			}
		}
	}
	if len(all) == 0 {
		return fmt.Errorf("no sites found: the functions in scope were not recognised")
	}
	w.Line("/-- (function, ordinal within the function in source order, kind, expression) -/")
	w.Line("def sites : List (String × Nat × String × String) := [")
	for i, s := range all {
		sep := ","
		if i == len(all)-1 {
			sep = ""
		}
		w.Line("  (%q, %d, %q, %q)%s", s.fn, s.ord, s.kind, s.text, sep)
	}
	w.Line("]")
	return nil
}

func xc07RecvName(e ast.Expr) string {
	switch t := e.(type) {
	case *ast.StarExpr:
		return xc07RecvName(t.X)
	case *ast.Ident:
		return t.Name
	case *ast.IndexExpr:
		return xc07RecvName(t.X)
	}
	return "?"
}

type xc07Walker struct {
	info     *types.Info
	pkg      *types.Package
	fn       string
	sites    []xc07Site
	nlit     int
	commaOk  map[ast.Expr]bool // type assertions / map reads in `v, ok :=` position
	inSwitch map[ast.Expr]bool // the x.(type) of a type switch
	mapLHS   map[ast.Expr]bool
	fresh    map[types.Object]bool // locals bound once, to &T{…} or new(T): never nil
}

func (x *xc07Walker) add(kind string, e ast.Expr) {
	var sb strings.Builder
	sb.WriteString(types.ExprString(e))
	x.sites = append(x.sites, xc07Site{x.fn, len(x.sites) + 1, kind, strings.Join(strings.Fields(sb.String()), " ")})
}

func (x *xc07Walker) typeOf(e ast.Expr) types.Type {
	if tv, ok := x.info.Types[e]; ok && tv.Type != nil {
		return tv.Type
	}
	return nil
}

func xc07IntRange(t types.Type) (signed bool, bits int, ok bool) {
	b, isB := t.Underlying().(*types.Basic)
	if !isB || b.Info()&types.IsInteger == 0 {
		return false, 0, false
	}
	switch b.Kind() {
	case types.Int8:
		return true, 8, true
	case types.Int16:
		return true, 16, true
	case types.Int32:
		return true, 32, true
	case types.Int64, types.Int:
		return true, 64, true
	case types.Uint8:
		return false, 8, true
	case types.Uint16:
		return false, 16, true
	case types.Uint32:
		return false, 32, true
	case types.Uint64, types.Uint, types.Uintptr:
		return false, 64, true
	}
	return false, 0, false
}

// documented to panic on some arguments
func xc07PanicCallee(f *types.Func) bool {
	name := f.Name()
	if strings.HasPrefix(name, "Must") {
		return true
	}
	sig, _ := f.Type().(*types.Signature)
	if sig == nil || sig.Recv() == nil {
		return false
	}
	recv := sig.Recv().Type()
	if p, ok := recv.(*types.Pointer); ok {
		recv = p.Elem()
	}
	full := types.TypeString(recv, nil)
	switch full {
	case "google.golang.org/protobuf/reflect/protopath.Values":
		return name == "Index"
	case "google.golang.org/protobuf/reflect/protoreflect.Value", "google.golang.org/protobuf/reflect/protoreflect.MapKey":
		switch name {
		case "Interface", "IsValid", "String", "Equal":
			return false
		}
		return true
	case "encoding/binary.littleEndian", "encoding/binary.bigEndian", "encoding/binary.ByteOrder", "encoding/binary.AppendByteOrder":
		return true
	}
	return false
}

// findFresh records the local variables that are defined by `v := &T{…}` / `v := new(T)` and never
// assigned again anywhere in the function (closures included).
func (x *xc07Walker) findFresh(body *ast.BlockStmt) {
	if x.fresh == nil {
		x.fresh = map[types.Object]bool{}
	}
	assigned := map[types.Object]int{}
	cand := map[types.Object]bool{}
	isFreshExpr := func(e ast.Expr) bool {
		switch v := ast.Unparen(e).(type) {
		case *ast.UnaryExpr:
			_, ok := ast.Unparen(v.X).(*ast.CompositeLit)
			return v.Op == token.AND && ok
		case *ast.CallExpr:
			if id, ok := v.Fun.(*ast.Ident); ok {
				if b, ok := x.info.Uses[id].(*types.Builtin); ok && b.Name() == "new" {
					return true
				}
			}
		}
		return false
	}
	ast.Inspect(body, func(n ast.Node) bool {
		switch s := n.(type) {
		case *ast.AssignStmt:
			for i, l := range s.Lhs {
				id, ok := l.(*ast.Ident)
				if !ok {
					continue
				}
				obj := x.info.Defs[id]
				if obj == nil {
					obj = x.info.Uses[id]
				}
				if obj == nil {
					continue
				}
				assigned[obj]++
				if s.Tok == token.DEFINE && len(s.Lhs) == len(s.Rhs) && isFreshExpr(s.Rhs[i]) {
					cand[obj] = true
				}
			}
		case *ast.UnaryExpr:
			if s.Op == token.AND { // &v: may be written through the pointer
				if id, ok := ast.Unparen(s.X).(*ast.Ident); ok {
					if obj := x.info.Uses[id]; obj != nil {
						assigned[obj] += 2
					}
				}
			}
		}
		return true
	})
	for obj := range cand {
		if assigned[obj] == 1 {
			x.fresh[obj] = true
		}
	}
}

func (x *xc07Walker) walkFunc(body *ast.BlockStmt) {
	x.commaOk = map[ast.Expr]bool{}
	x.inSwitch = map[ast.Expr]bool{}
	x.mapLHS = map[ast.Expr]bool{}
	var lits []*ast.FuncLit
	x.findFresh(body)
	// first pass: contexts
	ast.Inspect(body, func(n ast.Node) bool {
		switch s := n.(type) {
		case *ast.FuncLit:
			return false
		case *ast.AssignStmt:
			if len(s.Lhs) == 2 && len(s.Rhs) == 1 {
				x.commaOk[ast.Unparen(s.Rhs[0])] = true
			}
			for _, l := range s.Lhs {
				if ie, ok := ast.Unparen(l).(*ast.IndexExpr); ok {
					if t := x.typeOf(ie.X); t != nil {
						if _, isMap := t.Underlying().(*types.Map); isMap {
							x.mapLHS[ie] = true
						}
					}
				}
			}
		case *ast.ValueSpec:
			if len(s.Names) == 2 && len(s.Values) == 1 {
				x.commaOk[ast.Unparen(s.Values[0])] = true
			}
		case *ast.IfStmt:
			if as, ok := s.Init.(*ast.AssignStmt); ok && len(as.Lhs) == 2 && len(as.Rhs) == 1 {
				x.commaOk[ast.Unparen(as.Rhs[0])] = true
			}
		case *ast.TypeSwitchStmt:
			var e ast.Expr
			switch a := s.Assign.(type) {
			case *ast.AssignStmt:
				e = a.Rhs[0]
			case *ast.ExprStmt:
				e = a.X
			}
			if e != nil {
				x.inSwitch[ast.Unparen(e)] = true
			}
		}
		return true
	})
	ast.Inspect(body, func(n ast.Node) bool {
		switch e := n.(type) {
		case *ast.FuncLit:
			lits = append(lits, e)
			return false
		case *ast.IndexExpr:
			t := x.typeOf(e.X)
			if t == nil {
				break
			}
			switch u := t.Underlying().(type) {
			case *types.Map:
				if x.mapLHS[e] {
					x.add("mapwrite", e)
				}
			case *types.Slice, *types.Array:
				x.add("index", e)
			case *types.Basic:
				if u.Info()&types.IsString != 0 {
					x.add("index", e)
				}
			case *types.Pointer:
				if _, ok := u.Elem().Underlying().(*types.Array); ok {
					x.add("index", e)
				}
			}
		case *ast.SliceExpr:
			x.add("slice", e)
		case *ast.TypeAssertExpr:
			if e.Type != nil && !x.commaOk[e] && !x.inSwitch[e] {
				x.add("assert", e)
			}
		case *ast.StarExpr:
			if tv, ok := x.info.Types[e]; ok && tv.IsValue() {
				x.add("deref", e)
			}
		case *ast.SelectorExpr:
			sel := x.info.Selections[e]
			if sel == nil {
				break
			}
			_, recvIsPtr := sel.Recv().Underlying().(*types.Pointer)
			switch sel.Kind() {
			case types.FieldVal:
				if id, ok := ast.Unparen(e.X).(*ast.Ident); ok && x.fresh[x.info.Uses[id]] {
					break
				}
				if recvIsPtr || sel.Indirect() {
					x.add("deref", e)
				}
			case types.MethodVal:
				if f, ok := sel.Obj().(*types.Func); ok {
					sig := f.Type().(*types.Signature)
					_, mPtr := sig.Recv().Type().(*types.Pointer)
					_, isIface := sel.Recv().Underlying().(*types.Interface)
					if !isIface && !mPtr && (recvIsPtr || sel.Indirect()) {
						x.add("deref", e) // value-receiver method through a pointer
					}
				}
			}
		case *ast.CallExpr:
			fun := ast.Unparen(e.Fun)
			// make with a non-constant size
			if id, ok := fun.(*ast.Ident); ok {
				if b, ok := x.info.Uses[id].(*types.Builtin); ok && b.Name() == "make" {
					for _, a := range e.Args[1:] {
						if tv := x.info.Types[a]; tv.Value == nil {
							x.add("make", e)
							break
						}
					}
				}
			}
			// conversions
			if tv, ok := x.info.Types[fun]; ok && tv.IsType() && len(e.Args) == 1 {
				ts, tb, tok := xc07IntRange(tv.Type)
				at := x.typeOf(e.Args[0])
				if tok && at != nil && x.info.Types[e.Args[0]].Value == nil {
					if as, ab, aok := xc07IntRange(at); aok {
						fits := (as == ts && ab <= tb) || (!as && ts && ab < tb)
						if !fits {
							x.add("conv", e)
						}
					}
				}
			}
			// callee documented to panic
			var obj types.Object
			switch f := fun.(type) {
			case *ast.Ident:
				obj = x.info.Uses[f]
			case *ast.SelectorExpr:
				if sel := x.info.Selections[f]; sel != nil {
					obj = sel.Obj()
				} else {
					obj = x.info.Uses[f.Sel]
				}
			}
			if f, ok := obj.(*types.Func); ok && xc07PanicCallee(f) {
				x.add("paniccall", e)
			}
		}
		return true
	})
	for _, l := range lits {
		x.nlit++
		sub := &xc07Walker{info: x.info, pkg: x.pkg, fn: fmt.Sprintf("%s$%d", x.fn, x.nlit), fresh: x.fresh}
		sub.walkFunc(l.Body)
		x.sites = append(x.sites, sub.sites...)
	}
}
