package main

// C04 / C08 (SEV half): facts regenerated from the SEV-SNP measurement code.
//
// Gen/SevLayout.lean
//   VmsaLayout        the statements of sev.PutVmsa in source order, (kind, lo, hi, field):
//                     seg    if err := putVmcbSeg(getOrCreateVmcbSeg(&v.F), data[lo:hi]); err != nil {...}
//                     resv   if err := doReserved("..", v.F, data, lo, hi); err != nil {...}
//                     resv64 if err := doReserved64("..", v.F, data, lo, hi); err != nil {...}
//                     byte8  if v.F >= (1 << 8) {...}; data[lo] = uint8(v.F)
//                     le     binary.LittleEndian.PutUintN(data[lo:hi], v.F | v.GetF())  with N/8 == hi-lo
//                     zero   for i := lo; i < hi; i++ { data[i] = 0 }
//                     mbz    if len(v.F) != 0 { if err := checkMbz("..", v.F, lo, hi); err != nil { return err } }
//                            (check only: the range need not lie inside the output)
//                     any other statement makes the extraction fail (never defaulted).
//   SizeofVmsaCheck   the bound of the leading `if len(data) < SizeofVmsa` check
//   VmsaTemplate      sev.VmsaV1 parsed with the repository's own proto type; non-zero scalar fields by
//                     Go field name (segments as `Cs.Base`), sorted by name; TemplateReserved = names of
//                     non-empty reserved byte fields (expected: none)
//   BitWidths         the composite literal of sev.bitWidth (product enum value, bits), cross-checked
//                     against sev.ProductHighAddress for every product value 0..7
//   PageTypes, SectionKinds, KindSwitch (the switch of measureZeroContentUefiPages), RomTop, PageSize,
//   VmsaCounts (sev.AllSupportedVmsaCounts), SizeofPageInfo, LaunchVcpusMin (`options.Vcpus < 1`)
//
// Gen/PanicSitesSev.lean
//   siteKeys/siteSrcs every index / slice / make / integer-conversion / type-assertion expression of the
//                     firmware-analysis functions of the SEV path: key "pkg.Func#ordinal:kind" and, in
//                     parallel, the source text of the expression, in source order.

import (
	"fmt"
	"go/ast"
	"go/token"
	"path/filepath"
	"reflect"
	"sort"
	"strings"

	"github.com/google/gce-tcb-verifier/ovmf/abi"
	spb "github.com/google/gce-tcb-verifier/proto/sev"
	"github.com/google/gce-tcb-verifier/sev"
	sgpb "github.com/google/go-sev-guest/proto/sevsnp"
	"google.golang.org/protobuf/encoding/prototext"
)

func init() {
	register("SevLayout", xc04SevLayout)
	register("PanicSitesSev", xc04PanicSites)
}

type xc04Entry struct {
	kind   string
	lo, hi uint64
	field  string
}

// xc04Field reduces v.F / v.GetF() / uint8(v.F) / &v.F to F.
func xc04Field(x ast.Expr) string { return normName(x) }

func xc04InitCall(s *ast.IfStmt) *ast.CallExpr {
	as, ok := s.Init.(*ast.AssignStmt)
	if !ok || len(as.Rhs) != 1 {
		return nil
	}
	c, _ := as.Rhs[0].(*ast.CallExpr)
	return c
}

func xc04VmsaLayout(repo string) ([]xc04Entry, uint64, error) {
	_, f, err := parseFile(repo, "sev/abi.go")
	if err != nil {
		return nil, 0, err
	}
	env, _ := loadConsts(f)
	fd := findFunc(f, "PutVmsa")
	if fd == nil {
		return nil, 0, fmt.Errorf("sev.PutVmsa not found")
	}
	var out []xc04Entry
	var sizeCheck uint64
	guard := "" // field guarded by the preceding `if v.F >= (1 << 8)` statement
	stmts := fd.Body.List
	for i, st := range stmts {
		pos := fmt.Sprintf("PutVmsa statement %d", i)
		switch s := st.(type) {
		case *ast.IfStmt:
			if s.Init == nil {
				be, ok := s.Cond.(*ast.BinaryExpr)
				if !ok {
					return nil, 0, fmt.Errorf("%s: unrecognised condition", pos)
				}
				// len(data) < SizeofVmsa
				if c, ok := be.X.(*ast.CallExpr); ok && calleeName(c) == "len" && be.Op == token.LSS && i == 0 {
					v, err := env.eval(be.Y, 0)
					if err != nil {
						return nil, 0, fmt.Errorf("%s: %v", pos, err)
					}
					sizeCheck = v
					continue
				}
				// len(v.F) != 0 { if err := checkMbz("..", v.F, lo, hi); err != nil { return err } }
				if c, ok := be.X.(*ast.CallExpr); ok && calleeName(c) == "len" && be.Op == token.NEQ && len(c.Args) == 1 {
					if z, err := env.eval(be.Y, 0); err != nil || z != 0 || s.Else != nil || len(s.Body.List) != 1 {
						return nil, 0, fmt.Errorf("%s: unrecognised length guard %s", pos, exprSrc(s.Cond))
					}
					inner, ok := s.Body.List[0].(*ast.IfStmt)
					if !ok || inner.Else != nil || len(inner.Body.List) != 1 {
						return nil, 0, fmt.Errorf("%s: unrecognised body of the length guard", pos)
					}
					if _, ok := inner.Body.List[0].(*ast.ReturnStmt); !ok {
						return nil, 0, fmt.Errorf("%s: the guarded check does not return its error", pos)
					}
					ic := xc04InitCall(inner)
					if ic == nil || calleeName(ic) != "checkMbz" || len(ic.Args) != 4 {
						return nil, 0, fmt.Errorf("%s: length guard without checkMbz", pos)
					}
					if xc04Field(ic.Args[1]) != xc04Field(c.Args[0]) {
						return nil, 0, fmt.Errorf("%s: checkMbz on %s guarded by the length of %s", pos, exprSrc(ic.Args[1]), exprSrc(c.Args[0]))
					}
					lo, err1 := env.eval(ic.Args[2], 0)
					hi, err2 := env.eval(ic.Args[3], 0)
					if err1 != nil || err2 != nil {
						return nil, 0, fmt.Errorf("%s: non-constant range", pos)
					}
					out = append(out, xc04Entry{"mbz", lo, hi, xc04Field(ic.Args[1])})
					continue
				}
				// v.F >= (1 << 8)
				if be.Op == token.GEQ {
					if v, err := env.eval(be.Y, 0); err == nil && v == 256 {
						guard = xc04Field(be.X)
						continue
					}
				}
				return nil, 0, fmt.Errorf("%s: unrecognised if statement %s", pos, exprSrc(s.Cond))
			}
			c := xc04InitCall(s)
			if c == nil {
				return nil, 0, fmt.Errorf("%s: unrecognised if-init", pos)
			}
			switch calleeName(c) {
			case "putVmcbSeg":
				if len(c.Args) != 2 {
					return nil, 0, fmt.Errorf("%s: putVmcbSeg arity", pos)
				}
				g, ok := c.Args[0].(*ast.CallExpr)
				if !ok || calleeName(g) != "getOrCreateVmcbSeg" || len(g.Args) != 1 {
					return nil, 0, fmt.Errorf("%s: putVmcbSeg without getOrCreateVmcbSeg", pos)
				}
				lo, hi, ok := constSlice(env, c.Args[1])
				if !ok {
					return nil, 0, fmt.Errorf("%s: non-constant slice", pos)
				}
				out = append(out, xc04Entry{"seg", lo, hi, xc04Field(g.Args[0])})
			case "doReserved", "doReserved64":
				if len(c.Args) != 5 {
					return nil, 0, fmt.Errorf("%s: doReserved arity", pos)
				}
				lo, err1 := env.eval(c.Args[3], 0)
				hi, err2 := env.eval(c.Args[4], 0)
				if err1 != nil || err2 != nil {
					return nil, 0, fmt.Errorf("%s: non-constant range", pos)
				}
				if id, ok := c.Args[2].(*ast.Ident); !ok || id.Name != "data" {
					return nil, 0, fmt.Errorf("%s: doReserved on %s", pos, exprSrc(c.Args[2]))
				}
				kind := "resv"
				if calleeName(c) == "doReserved64" {
					kind = "resv64"
				}
				out = append(out, xc04Entry{kind, lo, hi, xc04Field(c.Args[1])})
			default:
				return nil, 0, fmt.Errorf("%s: unrecognised call %s", pos, calleeName(c))
			}
		case *ast.AssignStmt: // data[i] = uint8(v.F)
			if len(s.Lhs) != 1 || len(s.Rhs) != 1 || s.Tok != token.ASSIGN {
				return nil, 0, fmt.Errorf("%s: unrecognised assignment", pos)
			}
			ix, ok := s.Lhs[0].(*ast.IndexExpr)
			if !ok {
				return nil, 0, fmt.Errorf("%s: unrecognised assignment", pos)
			}
			lo, err := env.eval(ix.Index, 0)
			if err != nil {
				return nil, 0, fmt.Errorf("%s: %v", pos, err)
			}
			fld := xc04Field(s.Rhs[0])
			kind := "byteraw"
			if c, ok := s.Rhs[0].(*ast.CallExpr); ok && calleeName(c) == "uint8" && guard == fld {
				kind = "byte8"
			}
			out = append(out, xc04Entry{kind, lo, lo + 1, fld})
		case *ast.ExprStmt:
			order, m, args, ok := orderCall(s.X)
			if !ok || order != "le" || !strings.HasPrefix(m, "PutUint") || len(args) != 2 {
				return nil, 0, fmt.Errorf("%s: unrecognised expression statement %s", pos, exprSrc(s.X))
			}
			lo, hi, ok := constSlice(env, args[0])
			if !ok {
				return nil, 0, fmt.Errorf("%s: non-constant slice", pos)
			}
			kind := "le"
			var bits uint64
			fmt.Sscanf(strings.TrimPrefix(m, "PutUint"), "%d", &bits)
			if bits/8 != hi-lo {
				kind = "lebad" + m
			}
			out = append(out, xc04Entry{kind, lo, hi, xc04Field(args[1])})
		case *ast.ForStmt: // for i := lo; i < hi; i++ { data[i] = 0 }
			init, ok1 := s.Init.(*ast.AssignStmt)
			cond, ok2 := s.Cond.(*ast.BinaryExpr)
			if !ok1 || !ok2 || cond.Op != token.LSS || len(init.Rhs) != 1 || len(s.Body.List) != 1 {
				return nil, 0, fmt.Errorf("%s: unrecognised for statement", pos)
			}
			lo, err1 := env.eval(init.Rhs[0], 0)
			hi, err2 := env.eval(cond.Y, 0)
			as, ok := s.Body.List[0].(*ast.AssignStmt)
			if err1 != nil || err2 != nil || !ok || exprSrc(as.Lhs[0]) != "data[i]" || exprSrc(as.Rhs[0]) != "0" {
				return nil, 0, fmt.Errorf("%s: unrecognised zero-fill loop", pos)
			}
			if _, ok := s.Post.(*ast.IncDecStmt); !ok {
				return nil, 0, fmt.Errorf("%s: unrecognised loop step", pos)
			}
			out = append(out, xc04Entry{"zero", lo, hi, ""})
		case *ast.ReturnStmt:
			if i != len(stmts)-1 {
				return nil, 0, fmt.Errorf("%s: early return", pos)
			}
		default:
			return nil, 0, fmt.Errorf("%s: unrecognised statement %T", pos, st)
		}
	}
	if sizeCheck == 0 {
		return nil, 0, fmt.Errorf("PutVmsa: leading length check not found")
	}
	return out, sizeCheck, nil
}

// xc04Template evaluates sev.VmsaV1 with the repository's proto type and lists the non-zero scalars.
func xc04Template() (vals map[string]uint64, reserved []string, err error) {
	v := &spb.VmcbSaveArea{}
	if err := (prototext.UnmarshalOptions{}).Unmarshal([]byte(sev.VmsaV1), v); err != nil {
		return nil, nil, err
	}
	vals = map[string]uint64{}
	var walk func(prefix string, rv reflect.Value) error
	walk = func(prefix string, rv reflect.Value) error {
		rt := rv.Type()
		for i := 0; i < rt.NumField(); i++ {
			sf := rt.Field(i)
			if !sf.IsExported() {
				continue
			}
			fv := rv.Field(i)
			switch fv.Kind() {
			case reflect.Uint32, reflect.Uint64:
				if fv.Uint() != 0 {
					vals[prefix+sf.Name] = fv.Uint()
				}
			case reflect.Slice:
				if fv.Len() != 0 {
					reserved = append(reserved, prefix+sf.Name)
				}
			case reflect.Ptr:
				if fv.IsNil() {
					continue
				}
				if fv.Elem().Kind() == reflect.Struct {
					if prefix != "" {
						return fmt.Errorf("nested message below %s", prefix)
					}
					if err := walk(sf.Name+".", fv.Elem()); err != nil {
						return err
					}
				} else if fv.Elem().Kind() == reflect.Uint64 || fv.Elem().Kind() == reflect.Uint32 {
					if fv.Elem().Uint() != 0 {
						vals[prefix+sf.Name] = fv.Elem().Uint()
					}
				} else {
					return fmt.Errorf("field %s: unsupported pointer kind", sf.Name)
				}
			default:
				return fmt.Errorf("field %s: unsupported kind %s", sf.Name, fv.Kind())
			}
		}
		return nil
	}
	if err := walk("", reflect.ValueOf(v).Elem()); err != nil {
		return nil, nil, err
	}
	return vals, reserved, nil
}

func xc04BitWidths(repo string) ([][2]uint64, error) {
	_, f, err := parseFile(repo, "sev/measurement.go")
	if err != nil {
		return nil, err
	}
	e := findVarValue(f, "bitWidth")
	cl, ok := e.(*ast.CompositeLit)
	if !ok {
		return nil, fmt.Errorf("sev.bitWidth is not a composite literal")
	}
	var out [][2]uint64
	seen := map[uint64]uint64{}
	for _, el := range cl.Elts {
		kv, ok := el.(*ast.KeyValueExpr)
		if !ok {
			return nil, fmt.Errorf("bitWidth: unkeyed element")
		}
		sel, ok := kv.Key.(*ast.SelectorExpr)
		if !ok {
			return nil, fmt.Errorf("bitWidth: key %s", exprSrc(kv.Key))
		}
		pv, ok := sgpb.SevProduct_SevProductName_value[strings.TrimPrefix(sel.Sel.Name, "SevProduct_")]
		if !ok {
			return nil, fmt.Errorf("bitWidth: unknown product %s", sel.Sel.Name)
		}
		bits, ok := intLit(kv.Value)
		if !ok {
			return nil, fmt.Errorf("bitWidth: value %s", exprSrc(kv.Value))
		}
		out = append(out, [2]uint64{uint64(pv), bits})
		seen[uint64(pv)] = bits
	}
	// cross-check against the linked function for every product value 0..7
	for p := uint64(0); p < 8; p++ {
		want := ((uint64(1) << seen[p]) - 1) & ^uint64(0xfff)
		if got := sev.ProductHighAddress(sgpb.SevProduct_SevProductName(p)); got != want {
			return nil, fmt.Errorf("ProductHighAddress(%d) = %#x, the bitWidth literal gives %#x", p, got, want)
		}
	}
	sort.Slice(out, func(i, j int) bool { return out[i][0] < out[j][0] })
	return out, nil
}

// xc04KindSwitch reads `switch section.Kind { case oabi.K: sectionType = PageTypeT ... default: return err }`.
func xc04KindSwitch(repo string) ([][2]uint64, error) {
	_, f, err := parseFile(repo, "sev/ld_from_ovmf.go")
	if err != nil {
		return nil, err
	}
	fd := findFunc(f, "measureZeroContentUefiPages")
	if fd == nil {
		return nil, fmt.Errorf("measureZeroContentUefiPages not found")
	}
	kinds := map[string]uint64{"SevUnmeasuredSection": uint64(abi.SevUnmeasuredSection), "SevSecretSection": uint64(abi.SevSecretSection),
		"SevCpuidSection": uint64(abi.SevCpuidSection), "SevSvsmCaaSection": uint64(abi.SevSvsmCaaSection)}
	types := map[string]uint64{"PageTypeNormal": uint64(sev.PageTypeNormal), "PageTypeVmsa": uint64(sev.PageTypeVmsa),
		"PageTypeZero": uint64(sev.PageTypeZero), "PageTypeUnmeasured": uint64(sev.PageTypeUnmeasured),
		"PageTypeSecret": uint64(sev.PageTypeSecret), "PageTypeCpuid": uint64(sev.PageTypeCpuid)}
	var out [][2]uint64
	var sw *ast.SwitchStmt
	ast.Inspect(fd.Body, func(n ast.Node) bool {
		if s, ok := n.(*ast.SwitchStmt); ok && sw == nil {
			sw = s
		}
		return true
	})
	if sw == nil || exprSrc(sw.Tag) != "section.Kind" {
		return nil, fmt.Errorf("measureZeroContentUefiPages: switch on section.Kind not found")
	}
	hasDefaultErr := false
	for _, c := range sw.Body.List {
		cc := c.(*ast.CaseClause)
		if cc.List == nil {
			if len(cc.Body) == 1 {
				if _, ok := cc.Body[0].(*ast.ReturnStmt); ok {
					hasDefaultErr = true
				}
			}
			continue
		}
		if len(cc.List) != 1 || len(cc.Body) != 1 {
			return nil, fmt.Errorf("kind switch: unrecognised case")
		}
		k, ok := kinds[normName(cc.List[0])]
		as, ok2 := cc.Body[0].(*ast.AssignStmt)
		if !ok || !ok2 || exprSrc(as.Lhs[0]) != "sectionType" {
			return nil, fmt.Errorf("kind switch: unrecognised case %s", exprSrc(cc.List[0]))
		}
		t, ok := types[normName(as.Rhs[0])]
		if !ok {
			return nil, fmt.Errorf("kind switch: unknown page type %s", exprSrc(as.Rhs[0]))
		}
		out = append(out, [2]uint64{k, t})
	}
	if !hasDefaultErr {
		return nil, fmt.Errorf("kind switch: default case does not return an error")
	}
	return out, nil
}

func xc04Pairs(w *leanWriter, name string, ps [][2]uint64) {
	parts := make([]string, len(ps))
	for i, p := range ps {
		parts[i] = fmt.Sprintf("(%d, %d)", p[0], p[1])
	}
	w.Line("def %s : List (Nat × Nat) := [%s]", name, strings.Join(parts, ", "))
}

func xc04SevLayout(repo string, w *leanWriter) error {
	lay, sizeCheck, err := xc04VmsaLayout(repo)
	if err != nil {
		return err
	}
	parts := make([]string, len(lay))
	for i, e := range lay {
		parts[i] = fmt.Sprintf("(%q, %d, %d, %q)", e.kind, e.lo, e.hi, e.field)
	}
	w.Line("-- statements of sev.PutVmsa in source order: (kind, lo, hi, field)")
	w.Line("def VmsaLayout : List (String × Nat × Nat × String) := [%s]", strings.Join(parts, ",\n  "))
	w.NatDef("SizeofVmsaCheck", sizeCheck)
	w.NatDef("SizeofVmsa", sev.SizeofVmsa)
	w.NatDef("SizeofPageInfo", sev.SizeofPageInfo)
	w.NatDef("PageSize", abi.PageSize)
	w.NatDef("RomTop", sev.RomTop)

	vals, reserved, err := xc04Template()
	if err != nil {
		return err
	}
	names := make([]string, 0, len(vals))
	for k := range vals {
		names = append(names, k)
	}
	sort.Strings(names)
	parts = parts[:0]
	for _, n := range names {
		parts = append(parts, fmt.Sprintf("(%q, %d)", n, vals[n]))
	}
	w.Line("-- sev.VmsaV1 evaluated with the repository's proto type: non-zero scalar fields, sorted by name")
	w.Line("def VmsaTemplate : List (String × Nat) := [%s]", strings.Join(parts, ", "))
	sort.Strings(reserved)
	emitStrList(w, "TemplateReserved", reserved)

	bw, err := xc04BitWidths(repo)
	if err != nil {
		return err
	}
	w.Line("-- sev.bitWidth (product enum value, address bits)")
	xc04Pairs(w, "BitWidths", bw)
	w.Line("-- sev.PageType enum: Normal, Vmsa, Zero, Unmeasured, Secret, Cpuid")
	w.NatList("PageTypes", []uint64{uint64(sev.PageTypeNormal), uint64(sev.PageTypeVmsa), uint64(sev.PageTypeZero),
		uint64(sev.PageTypeUnmeasured), uint64(sev.PageTypeSecret), uint64(sev.PageTypeCpuid)})
	w.Line("-- abi.Sev*Section: Unmeasured, Secret, Cpuid, SvsmCaa")
	w.NatList("SectionKinds", []uint64{uint64(abi.SevUnmeasuredSection), uint64(abi.SevSecretSection), uint64(abi.SevCpuidSection), uint64(abi.SevSvsmCaaSection)})
	ks, err := xc04KindSwitch(repo)
	if err != nil {
		return err
	}
	w.Line("-- switch section.Kind of measureZeroContentUefiPages (kind, page type); default returns an error")
	xc04Pairs(w, "KindSwitch", ks)
	cs := make([]uint64, len(sev.AllSupportedVmsaCounts))
	for i, c := range sev.AllSupportedVmsaCounts {
		cs[i] = uint64(c)
	}
	w.NatList("VmsaCounts", cs)
	return nil
}

// ---------------------------------------------------------------------------------------------------
// panic-site inventory

var xc04SiteFuncs = []struct {
	file, pkg string
	funcs     []string // empty: every function of the file
}{
	{"ovmf/fw_guid_table_ops.go", "ovmf", nil},
	{"ovmf/sev_data.go", "ovmf", nil},
	{"ovmf/abi/abi.go", "abi", []string{"parseEFIGUID", "convertEFIGUID", "FromEFIGUID", "PopulateFromBytes",
		"SevMetadataSectionFromBytes", "SevMetadataFromBytes", "MetadataOffsetFromBytes", "SevEsResetBlockFromBytes"}},
	{"sev/measurement.go", "sev", nil},
	{"sev/ld_from_ovmf.go", "sev", nil},
	{"sev/abi.go", "sev", []string{"Put", "Bytes", "putVmcbSeg", "checkMbz", "doReserved", "doReserved64", "getOrCreateVmcbSeg", "PutVmsa"}},
	{"sev/endorsement.go", "sev", []string{"vmsaCounts", "generateAllPossibleLDs", "generateVMSevSnp", "canonicalizeRequest", "UnsignedSnp"}},
}

var xc04IntConv = map[string]bool{"int": true, "uint8": true, "uint16": true, "uint32": true, "uint64": true, "int64": true, "int32": true}

func xc04IsMapType(t ast.Expr) bool {
	_, ok := t.(*ast.MapType)
	return ok
}

func xc04FuncName(fd *ast.FuncDecl) string {
	if fd.Recv != nil && len(fd.Recv.List) == 1 {
		t := fd.Recv.List[0].Type
		if s, ok := t.(*ast.StarExpr); ok {
			t = s.X
		}
		return exprSrc(t) + "." + fd.Name.Name
	}
	return fd.Name.Name
}

// xc04PackageMaps adds the package-level variables of map type declared in f.
func xc04PackageMaps(f *ast.File, maps map[string]bool) {
	for _, d := range f.Decls {
		if gd, ok := d.(*ast.GenDecl); ok && gd.Tok == token.VAR {
			for _, s := range gd.Specs {
				vs := s.(*ast.ValueSpec)
				for i, n := range vs.Names {
					if vs.Type != nil && xc04IsMapType(vs.Type) {
						maps[n.Name] = true
					}
					if i < len(vs.Values) {
						if cl, ok := vs.Values[i].(*ast.CompositeLit); ok && cl.Type != nil && xc04IsMapType(cl.Type) {
							maps[n.Name] = true
						}
					}
				}
			}
		}
	}
}

func xc04PanicSites(repo string, w *leanWriter) error {
	var sites, srcs []string
	for _, sf := range xc04SiteFuncs {
		_, f, err := parseFile(repo, sf.file)
		if err != nil {
			return err
		}
		env, _ := loadConsts(f)
		want := map[string]bool{}
		for _, n := range sf.funcs {
			want[n] = true
		}
		found := map[string]bool{}
		// package-level map variables: of this file and of the other inventoried files of the same package
		// (sev.bitWidth is declared in measurement.go and also read by LaunchDigest in ld_from_ovmf.go)
		maps := map[string]bool{}
		for _, other := range xc04SiteFuncs {
			if filepath.Dir(other.file) != filepath.Dir(sf.file) {
				continue
			}
			_, of, err := parseFile(repo, other.file)
			if err != nil {
				return err
			}
			xc04PackageMaps(of, maps)
		}
		for _, d := range f.Decls {
			fd, ok := d.(*ast.FuncDecl)
			if !ok || fd.Body == nil {
				continue
			}
			if len(want) > 0 && !want[fd.Name.Name] {
				continue
			}
			found[fd.Name.Name] = true
			name := sf.pkg + "." + xc04FuncName(fd)
			local := map[string]bool{}
			for k := range maps {
				local[k] = true
			}
			if fd.Type.Params != nil {
				for _, p := range fd.Type.Params.List {
					if xc04IsMapType(p.Type) {
						for _, n := range p.Names {
							local[n.Name] = true
						}
					}
				}
			}
			ast.Inspect(fd.Body, func(n ast.Node) bool {
				if as, ok := n.(*ast.AssignStmt); ok && as.Tok == token.DEFINE && len(as.Lhs) == len(as.Rhs) {
					for i, r := range as.Rhs {
						if c, ok := r.(*ast.CallExpr); ok && calleeName(c) == "make" && len(c.Args) >= 1 && xc04IsMapType(c.Args[0]) {
							if id, ok := as.Lhs[i].(*ast.Ident); ok {
								local[id.Name] = true
							}
						}
					}
				}
				return true
			})
			counts := map[string]int{}
			add := func(kind, src string) {
				sites = append(sites, fmt.Sprintf("%s#%d:%s", name, counts[kind], kind))
				srcs = append(srcs, src)
				counts[kind]++
			}
			ast.Inspect(fd.Body, func(n ast.Node) bool {
				switch v := n.(type) {
				case *ast.IndexExpr:
					if id, ok := v.X.(*ast.Ident); ok && local[id.Name] {
						add("mapindex", exprSrc(v))
					} else {
						add("index", exprSrc(v))
					}
				case *ast.SliceExpr:
					if v.Low == nil && v.High == nil {
						add("fullslice", exprSrc(v)) // x[:] never panics
					} else {
						add("slice", exprSrc(v))
					}
				case *ast.CallExpr:
					cn := calleeName(v)
					if cn == "make" && len(v.Args) >= 2 {
						if _, err := env.eval(v.Args[1], 0); err == nil {
							add("makeconst", exprSrc(v))
						} else {
							add("make", exprSrc(v))
						}
					} else if xc04IntConv[cn] && len(v.Args) == 1 {
						if _, ok := v.Args[0].(*ast.BasicLit); !ok {
							add("conv", exprSrc(v))
						}
					}
				case *ast.TypeAssertExpr:
					if v.Type != nil {
						add("typeassert", exprSrc(v))
					}
				}
				return true
			})
		}
		for n := range want {
			if !found[n] {
				return fmt.Errorf("%s: function %s not found", sf.file, n)
			}
		}
	}
	w.Line("-- site keys `pkg.Func#ordinal:kind` (ordinal per function and kind, source order) and, in parallel, the expressions")
	emitStrList(w, "siteKeys", sites)
	emitStrList(w, "siteSrcs", srcs)
	return nil
}
