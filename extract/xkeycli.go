package main

// KeyFlags: the command-line wiring of `bootstrap`, `rotate`, `wipeout` as data (C12 — Model/KeyCli.lean,
// Model/CliFlagTypes.lean).  Built on the helpers of xcli.go (flag-table extraction, statement skeletons).
//
//   bootstrapFlags / rotateFlags / wipeoutFlags   every flag the core command component registers, in source order
//                 (name, type, default as written, destination), through the helpers of cmd/flags.go
//                 (`addSigningKeyCommonNameFlag`, `addTimeFlag`, `AddGoFlag(bigintVar(&dest, "name", "default", usage))`)
//   outputFlags   output.Options.AddFlags
//   wiringFlags   localkm.T.AddFlags, localca.T.AddFlags, gcsca.CertificateAuthority.AddFlags (the components of
//                 testing/nonprod.localApp's Global)
//   *Other        the statements of those AddFlags functions that are not flag registrations (context allocation,
//                 cmd.SetContext, localca's storage checks and its call of the authority's AddFlags)
//   *Steps        statement skeletons of the PersistentPreRunE / InitContext / RunE functions and of the two flag types
//   *Compose      the components of each make…Cmd's Compose(…) call, the function ComposeRun runs, and the
//                 PersistentPreRunE the cobra command is given
//   nonprodGlobal the component types of testing/nonprod.localApp's Global, and which command components it sets

import (
	"fmt"
	"go/ast"
	"go/token"
	"strings"
)

func init() { register("KeyFlags", extractKeyFlags) }

func keyRowsLean(rows []cliFlagRow) string {
	var parts []string
	for _, r := range rows {
		parts = append(parts, fmt.Sprintf("(%s, %s, %s, %s)", cliLeanStr(r.name), cliLeanStr(r.kind), cliLeanStr(r.dflt), cliLeanStr(r.dest)))
	}
	return "[" + strings.Join(parts, ",\n   ") + "]"
}

func keyStepsLean(stmts []ast.Stmt) string {
	var q []string
	for _, st := range stmts {
		q = append(q, cliLeanStr(cliSkeleton(st)))
	}
	return "[" + strings.Join(q, ",\n   ") + "]"
}

// keyFuncLitField: the function literal assigned to field `field` of the composite literal a function returns or builds.
func keyFuncLitField(n ast.Node, field string) *ast.FuncLit {
	var lit *ast.FuncLit
	ast.Inspect(n, func(x ast.Node) bool {
		if kv, ok := x.(*ast.KeyValueExpr); ok && lit == nil {
			if id, ok := kv.Key.(*ast.Ident); ok && id.Name == field {
				if fl, ok := kv.Value.(*ast.FuncLit); ok {
					lit = fl
				}
			}
		}
		return lit == nil
	})
	return lit
}

// keyFlagVarRows: `flag := cmd.PersistentFlags()` followed by `flag.<Type>Var(&dest, "name", default, usage)` statements
// (the idiom of gcsca.CertificateAuthority.AddFlags).
func keyFlagVarRows(fn *ast.FuncDecl) ([]cliFlagRow, error) {
	var rows []cliFlagRow
	fsVar := ""
	for i, st := range fn.Body.List {
		if as, ok := st.(*ast.AssignStmt); ok && i == 0 && len(as.Lhs) == 1 && len(as.Rhs) == 1 {
			if call, ok := as.Rhs[0].(*ast.CallExpr); ok {
				if sel, ok := call.Fun.(*ast.SelectorExpr); ok && sel.Sel.Name == "PersistentFlags" {
					fsVar = cliExprText(as.Lhs[0])
					continue
				}
			}
		}
		es, ok := st.(*ast.ExprStmt)
		if !ok {
			return nil, fmt.Errorf("%s: statement %d is not a flag registration", fn.Name.Name, i)
		}
		call, ok := es.X.(*ast.CallExpr)
		if !ok {
			return nil, fmt.Errorf("%s: statement %d is not a call", fn.Name.Name, i)
		}
		sel, ok := call.Fun.(*ast.SelectorExpr)
		if !ok || fsVar == "" || cliExprText(sel.X) != fsVar || !strings.HasSuffix(sel.Sel.Name, "Var") || len(call.Args) != 4 {
			return nil, fmt.Errorf("%s: unrecognised statement %s", fn.Name.Name, cliExprText(call))
		}
		name, ok := cliStrLit(call.Args[1])
		if !ok {
			return nil, fmt.Errorf("%s: flag name is not a literal", fn.Name.Name)
		}
		dest, err := cliDestOf(call.Args[0], nil)
		if err != nil {
			return nil, err
		}
		rows = append(rows, cliFlagRow{name, strings.TrimSuffix(sel.Sel.Name, "Var"), cliExprText(call.Args[2]), dest})
	}
	return rows, nil
}

// keyCompose: Compose(...) arguments, ComposeRun's arguments and the PersistentPreRunE field inside a make…Cmd function.
func keyCompose(fn *ast.FuncDecl) (order []string, run string, pre string, runLit *ast.FuncLit, runE *ast.FuncLit) {
	ast.Inspect(fn.Body, func(x ast.Node) bool {
		switch n := x.(type) {
		case *ast.CallExpr:
			if id, ok := n.Fun.(*ast.Ident); ok {
				switch id.Name {
				case "Compose":
					for _, a := range n.Args {
						order = append(order, cliExprText(a))
					}
				case "ComposeRun":
					if len(n.Args) == 2 {
						if fl, ok := n.Args[1].(*ast.FuncLit); ok {
							runLit = fl
							run = cliExprText(n.Args[0]) + ", <func>"
						} else {
							run = cliExprText(n.Args[0]) + ", " + cliExprText(n.Args[1])
						}
					}
				}
			}
		case *ast.KeyValueExpr:
			if id, ok := n.Key.(*ast.Ident); ok {
				if id.Name == "PersistentPreRunE" {
					pre = cliExprText(n.Value)
				}
				if id.Name == "RunE" {
					if fl, ok := n.Value.(*ast.FuncLit); ok {
						runE = fl
					}
				}
			}
		}
		return true
	})
	return
}

func keyStrList(l []string) string {
	var q []string
	for _, s := range l {
		q = append(q, cliLeanStr(s))
	}
	return "[" + strings.Join(q, ", ") + "]"
}

func extractKeyFlags(repo string, w *leanWriter) error {
	files := map[string]*ast.File{}
	for _, rel := range []string{"cmd/bootstrap.go", "cmd/rotate.go", "cmd/wipeout.go", "cmd/flags.go", "cmd/output/output.go", "cmd/compose.go",
		"testing/nonprod/localkm/localkm.go", "testing/nonprod/localca/localca.go", "sign/gcsca/gcsca.go", "testing/nonprod/nonprod.go"} {
		_, f, err := parseFile(repo, rel)
		if err != nil {
			return err
		}
		files[rel] = f
	}
	ff := files["cmd/flags.go"]
	need := func(f *ast.File, recv, name string) (*ast.FuncDecl, error) {
		fd := cliFindMethod(f, recv, name)
		if fd == nil {
			return nil, fmt.Errorf("%s.%s not found", recv, name)
		}
		return fd, nil
	}
	tables := []struct {
		lean, file, recv string
	}{{"bootstrap", "cmd/bootstrap.go", "BootstrapCommand"}, {"rotate", "cmd/rotate.go", "RotateCommand"}}
	for _, t := range tables {
		add, err := need(files[t.file], t.recv, "AddFlags")
		if err != nil {
			return err
		}
		var rows []cliFlagRow
		var other []ast.Stmt
		if err := cliFlagRows(add, map[string]string{}, ff, &rows, &other, 0); err != nil {
			return err
		}
		w.Line("/-- %s.AddFlags: (flag, type, default as written, destination) in registration order -/", t.recv)
		w.Line("def %sFlags : List (String × String × String × String) :=\n  %s", t.lean, keyRowsLean(rows))
		w.Line("def %sOther : List String :=\n  %s", t.lean, keyStepsLean(other))
		pre, err := need(files[t.file], t.recv, "PersistentPreRunE")
		if err != nil {
			return err
		}
		ini, err := need(files[t.file], t.recv, "InitContext")
		if err != nil {
			return err
		}
		w.Line("def %sPreRunSteps : List String :=\n  %s", t.lean, keyStepsLean(pre.Body.List))
		w.Line("def %sInitSteps : List String :=\n  %s", t.lean, keyStepsLean(ini.Body.List))
	}
	// wipeoutBase: &PartialComponent{FAddFlags: func(cmd *cobra.Command) {…}} and nothing else
	wb, err := need(files["cmd/wipeout.go"], "", "wipeoutBase")
	if err != nil {
		return err
	}
	lit := keyFuncLitField(wb, "FAddFlags")
	if lit == nil {
		return fmt.Errorf("wipeoutBase: FAddFlags function literal not found")
	}
	var wfields []string
	ast.Inspect(wb.Body, func(x ast.Node) bool {
		if cl, ok := x.(*ast.CompositeLit); ok && cliExprText(cl.Type) == "PartialComponent" {
			for _, el := range cl.Elts {
				if kv, ok := el.(*ast.KeyValueExpr); ok {
					wfields = append(wfields, cliExprText(kv.Key))
				}
			}
			return false
		}
		return true
	})
	var wrows []cliFlagRow
	var wother []ast.Stmt
	if err := cliFlagRows(&ast.FuncDecl{Name: ast.NewIdent("wipeoutBase.FAddFlags"), Body: lit.Body}, map[string]string{}, ff, &wrows, &wother, 0); err != nil {
		return err
	}
	w.Line("def wipeoutFlags : List (String × String × String × String) :=\n  %s", keyRowsLean(wrows))
	w.Line("def wipeoutOther : List String :=\n  %s", keyStepsLean(wother))
	w.Line("/-- the hooks wipeoutBase's PartialComponent defines (the others are no-ops) -/")
	w.Line("def wipeoutBaseHooks : List String := %s", keyStrList(wfields))

	// output options
	oadd, err := need(files["cmd/output/output.go"], "Options", "AddFlags")
	if err != nil {
		return err
	}
	var orows []cliFlagRow
	var oother []ast.Stmt
	if err := cliFlagRows(oadd, map[string]string{}, ff, &orows, &oother, 0); err != nil {
		return err
	}
	if len(oother) != 0 {
		return fmt.Errorf("output.Options.AddFlags has a statement that is not a flag registration")
	}
	w.Line("def outputFlags : List (String × String × String × String) :=\n  %s", keyRowsLean(orows))
	for _, fn := range []string{"AllowOverwrite", "AllowRecoverableError"} {
		fd, err := need(files["cmd/output/output.go"], "", fn)
		if err != nil {
			return err
		}
		w.Line("def output%sSteps : List String :=\n  %s", fn, keyStepsLean(fd.Body.List))
	}

	// the wiring components: localkm, localca (+ gcsca)
	kadd, err := need(files["testing/nonprod/localkm/localkm.go"], "T", "AddFlags")
	if err != nil {
		return err
	}
	var wiring []cliFlagRow
	var kother []ast.Stmt
	if err := cliFlagRows(kadd, map[string]string{}, ff, &wiring, &kother, 0); err != nil {
		return err
	}
	if len(kother) != 0 {
		return fmt.Errorf("localkm.T.AddFlags has a statement that is not a flag registration")
	}
	cadd, err := need(files["testing/nonprod/localca/localca.go"], "T", "AddFlags")
	if err != nil {
		return err
	}
	var cother []ast.Stmt
	if err := cliFlagRows(cadd, map[string]string{}, ff, &wiring, &cother, 0); err != nil {
		return err
	}
	gadd, err := need(files["sign/gcsca/gcsca.go"], "CertificateAuthority", "AddFlags")
	if err != nil {
		return err
	}
	grows, err := keyFlagVarRows(gadd)
	if err != nil {
		return err
	}
	wiring = append(wiring, grows...)
	seen := map[string]bool{}
	for _, r := range wiring {
		if seen[r.name] {
			return fmt.Errorf("wiring flag %q registered twice", r.name)
		}
		seen[r.name] = true
	}
	w.Line("/-- localkm.T.AddFlags, localca.T.AddFlags, gcsca.CertificateAuthority.AddFlags -/")
	w.Line("def wiringFlags : List (String × String × String × String) :=\n  %s", keyRowsLean(wiring))
	w.Line("def localcaAddFlagsOther : List String :=\n  %s", keyStepsLean(cother))
	for _, s := range []struct{ lean, file, recv, fn string }{
		{"localkmPreRunSteps", "testing/nonprod/localkm/localkm.go", "T", "PersistentPreRunE"},
		{"localkmInitSteps", "testing/nonprod/localkm/localkm.go", "T", "InitContext"},
		{"localcaPreRunSteps", "testing/nonprod/localca/localca.go", "T", "PersistentPreRunE"},
		{"localcaInitSteps", "testing/nonprod/localca/localca.go", "T", "InitContext"},
		{"localcaCheckCertsSteps", "testing/nonprod/localca/localca.go", "T", "checkCerts"},
		{"gcscaPreRunSteps", "sign/gcsca/gcsca.go", "CertificateAuthority", "PersistentPreRunE"},
		{"bigintSetSteps", "cmd/flags.go", "bigintFlag", "Set"},
		{"bigintVarSteps", "cmd/flags.go", "", "bigintVar"},
		{"timeSetSteps", "cmd/flags.go", "timeFlag", "Set"},
		{"composedPreRunSteps", "cmd/compose.go", "ComposedComponent", "PersistentPreRunE"},
		{"composedInitSteps", "cmd/compose.go", "ComposedComponent", "InitContext"},
		{"composeInitContextSteps", "cmd/compose.go", "", "ComposeInitContext"},
	} {
		fd, err := need(files[s.file], s.recv, s.fn)
		if err != nil {
			return err
		}
		w.Line("def %s : List String :=\n  %s", s.lean, keyStepsLean(fd.Body.List))
	}

	// ComposeRun returns a closure: its body is what runs
	cr, err := need(files["cmd/compose.go"], "", "ComposeRun")
	if err != nil {
		return err
	}
	var crLit *ast.FuncLit
	ast.Inspect(cr.Body, func(x ast.Node) bool {
		if fl, ok := x.(*ast.FuncLit); ok && crLit == nil {
			crLit = fl
		}
		return crLit == nil
	})
	if crLit == nil || len(cr.Body.List) != 1 {
		return fmt.Errorf("ComposeRun is not a single `return func(…) error {…}`")
	}
	w.Line("def composeRunSteps : List String :=\n  %s", keyStepsLean(crLit.Body.List))

	// the three make…Cmd functions
	for _, m := range []struct{ lean, file, fn string }{{"bootstrap", "cmd/bootstrap.go", "makeBootstrapCmd"}, {"rotate", "cmd/rotate.go", "makeRotateCmd"},
		{"wipeout", "cmd/wipeout.go", "makeWipeoutCmd"}} {
		fd, err := need(files[m.file], "", m.fn)
		if err != nil {
			return err
		}
		order, run, pre, runLit, runE := keyCompose(fd)
		if len(order) != 3 || pre == "" {
			return fmt.Errorf("%s: Compose(…) with three components / PersistentPreRunE not recognised", m.fn)
		}
		w.Line("def %sCompose : List String := %s", m.lean, keyStrList(order))
		w.Line("def %sPersistentPreRunE : String := %s", m.lean, cliLeanStr(pre))
		switch {
		case runE != nil: // the command has a RunE of its own (wipeout)
			w.Line("def %sRunESteps : List String :=\n  %s", m.lean, keyStepsLean(runE.Body.List))
		case runLit != nil:
			w.Line("def %sComposeRun : String := %s", m.lean, cliLeanStr(run))
			w.Line("def %sRunFnSteps : List String :=\n  %s", m.lean, keyStepsLean(runLit.Body.List))
		case run != "":
			w.Line("def %sComposeRun : String := %s", m.lean, cliLeanStr(run))
		default:
			return fmt.Errorf("%s: neither ComposeRun nor a RunE literal", m.fn)
		}
	}

	// testing/nonprod.localApp
	la, err := need(files["testing/nonprod/nonprod.go"], "", "localApp")
	if err != nil {
		return err
	}
	var global, fields []string
	ast.Inspect(la.Body, func(x ast.Node) bool {
		cl, ok := x.(*ast.CompositeLit)
		if !ok || cliExprText(cl.Type) != "cmd.AppComponents" {
			return true
		}
		for _, el := range cl.Elts {
			kv, ok := el.(*ast.KeyValueExpr)
			if !ok {
				continue
			}
			key := cliExprText(kv.Key)
			switch key {
			case "Global":
				if call, ok := kv.Value.(*ast.CallExpr); ok && cliExprText(call.Fun) == "cmd.Compose" {
					for _, a := range call.Args {
						if u, ok := a.(*ast.UnaryExpr); ok && u.Op == token.AND {
							if c, ok := u.X.(*ast.CompositeLit); ok {
								global = append(global, cliExprText(c.Type))
								continue
							}
						}
						global = append(global, cliExprText(a))
					}
				}
				fields = append(fields, key)
			case "Bootstrap", "Rotate", "Wipeout":
				fields = append(fields, key+"="+cliExprText(kv.Value))
			}
		}
		return false
	})
	if len(global) == 0 {
		return fmt.Errorf("localApp: Global: cmd.Compose(…) not recognised")
	}
	w.Line("/-- component types of testing/nonprod.localApp's Global, in composition order -/")
	w.Line("def nonprodGlobal : List String := %s", keyStrList(global))
	w.Line("/-- which of Global / Bootstrap / Rotate / Wipeout localApp sets -/")
	w.Line("def nonprodComponents : List String := %s", keyStrList(fields))
	return nil
}
