package main

// ClosureWrites: the stores that verify.SNPFamilyValidateFunc (the constructor) and the function it
// returns (the validator closure, including the same-package functions it calls, transitively) perform
// on memory they share with their caller.
//
// A store is an assignment, op-assignment or ++/-- whose left-hand side is
//   * a plain identifier that is a variable CAPTURED by the closure (declared outside it), or
//   * a selector / index / dereference chain x.f.g, x[i], *x … whose root identifier x is
//       - a captured variable or a parameter (of the closure, of the constructor, of a callee), or
//       - a local that may alias such memory (anything not provably fresh), or
//       - a provably fresh local VALUE, but the chain is deeper than one selector
//         (v.f = … is a store into the local copy; v.p.f = … goes through a copied pointer);
// also copy / delete / clear whose destination is rooted in anything but a provably fresh local.
// A local is provably fresh when it is declared `var x T` or defined from a composite literal,
// &composite literal, new/make, a basic literal, or a dereference copy `*p`.
// Everything not provably private is reported: the analysis errs on the side of reporting a store.
//
// Output (data only):
//   def closureWrites : List String       stores performed when the validator is INVOKED
//   def constructorWrites : List String   stores performed when a validator is CONSTRUCTED
//   def closureCallees : List String      same-package functions reachable from the closure (informational)
//
// Not tracked: stores performed by functions of other packages that are handed a pointer
// (proto.Unmarshal(bytes, msg), x509, the caller's Getter).

import (
	"fmt"
	"go/ast"
	"go/token"
	"os"
	"path/filepath"
	"sort"
	"strings"
)

func init() { register("ClosureWrites", extractClosureWrites) }

const (
	xc09File        = "verify/verify.go"
	xc09Constructor = "SNPFamilyValidateFunc"
)

type xc09Kind int

const (
	xc09Shared xc09Kind = iota // parameter, captured variable, possible alias
	xc09FreshValue
	xc09FreshPointer // pointer to a fresh allocation made in this function
)

// xc09Scope maps the identifiers declared inside the function under analysis to their kind.
type xc09Scope map[string]xc09Kind

func xc09ExprString(e ast.Expr) string {
	switch x := e.(type) {
	case *ast.Ident:
		return x.Name
	case *ast.SelectorExpr:
		return xc09ExprString(x.X) + "." + x.Sel.Name
	case *ast.IndexExpr:
		return xc09ExprString(x.X) + "[]"
	case *ast.StarExpr:
		return "*" + xc09ExprString(x.X)
	case *ast.ParenExpr:
		return xc09ExprString(x.X)
	case *ast.CallExpr:
		return xc09ExprString(x.Fun) + "()"
	}
	return fmt.Sprintf("<%T>", e)
}

// xc09Root returns the root identifier of an lvalue chain and the number of selector/index/deref links.
func xc09Root(e ast.Expr) (*ast.Ident, int) {
	depth := 0
	for {
		switch x := e.(type) {
		case *ast.Ident:
			return x, depth
		case *ast.SelectorExpr:
			e = x.X
			depth++
		case *ast.IndexExpr:
			e = x.X
			depth++
		case *ast.StarExpr:
			e = x.X
			depth++
		case *ast.ParenExpr:
			e = x.X
		default:
			return nil, depth
		}
	}
}

func xc09RhsKind(e ast.Expr) xc09Kind {
	switch x := e.(type) {
	case *ast.CompositeLit, *ast.BasicLit, *ast.FuncLit:
		return xc09FreshValue
	case *ast.StarExpr: // dereference copy
		return xc09FreshValue
	case *ast.UnaryExpr:
		if x.Op == token.AND {
			if _, ok := x.X.(*ast.CompositeLit); ok {
				return xc09FreshPointer
			}
		}
		if x.Op == token.NOT || x.Op == token.SUB {
			return xc09FreshValue
		}
	case *ast.BinaryExpr:
		return xc09FreshValue // arithmetic / comparison results are values
	case *ast.CallExpr:
		if id, ok := x.Fun.(*ast.Ident); ok && (id.Name == "new" || id.Name == "make") {
			return xc09FreshPointer
		}
		if id, ok := x.Fun.(*ast.Ident); ok && id.Name == "len" {
			return xc09FreshValue
		}
	}
	return xc09Shared
}

// xc09Analyse walks body (not descending into nested function literals unless inner is set) and
// returns the stores to possibly shared memory.  scope holds the identifiers declared so far;
// identifiers not in scope are captured variables or globals.
func xc09Analyse(body ast.Node, scope xc09Scope, skip *ast.FuncLit) (writes []string, calls []string) {
	report := func(lhs ast.Expr) {
		root, depth := xc09Root(lhs)
		if root == nil {
			writes = append(writes, xc09ExprString(lhs))
			return
		}
		if root.Name == "_" {
			return
		}
		kind, local := scope[root.Name]
		switch {
		case !local:
			// captured variable or package-level variable
			writes = append(writes, xc09ExprString(lhs))
		case depth == 0:
			// re-binding a local / a by-value parameter: private
		case kind == xc09FreshValue && depth == 1:
		case kind == xc09FreshPointer && depth == 1:
		default:
			writes = append(writes, xc09ExprString(lhs))
		}
	}
	ast.Inspect(body, func(n ast.Node) bool {
		if n == nil {
			return false
		}
		if fl, ok := n.(*ast.FuncLit); ok {
			if fl == skip {
				return false
			}
			// a nested literal shares this function's variables: analyse with the same scope
			return true
		}
		switch s := n.(type) {
		case *ast.AssignStmt:
			if s.Tok == token.DEFINE {
				for i, l := range s.Lhs {
					id, ok := l.(*ast.Ident)
					if !ok {
						continue
					}
					kind := xc09Shared
					if len(s.Rhs) == len(s.Lhs) {
						kind = xc09RhsKind(s.Rhs[i])
					}
					if _, exists := scope[id.Name]; exists {
						// `x, err := …` re-assigns an existing x: treat as an assignment to a local
						continue
					}
					scope[id.Name] = kind
				}
			} else {
				for _, l := range s.Lhs {
					report(l)
				}
			}
		case *ast.IncDecStmt:
			report(s.X)
		case *ast.DeclStmt:
			if gd, ok := s.Decl.(*ast.GenDecl); ok && gd.Tok == token.VAR {
				for _, sp := range gd.Specs {
					vs := sp.(*ast.ValueSpec)
					for i, id := range vs.Names {
						kind := xc09FreshValue
						if i < len(vs.Values) {
							kind = xc09RhsKind(vs.Values[i])
						} else if _, isPtr := vs.Type.(*ast.StarExpr); isPtr {
							kind = xc09Shared
						}
						scope[id.Name] = kind
					}
				}
			}
		case *ast.RangeStmt:
			if s.Tok == token.DEFINE {
				for _, e := range []ast.Expr{s.Key, s.Value} {
					if id, ok := e.(*ast.Ident); ok {
						scope[id.Name] = xc09Shared // elements may be pointers / slices into shared data
					}
				}
			} else {
				for _, e := range []ast.Expr{s.Key, s.Value} {
					if e != nil {
						report(e)
					}
				}
			}
		case *ast.TypeSwitchStmt:
			if as, ok := s.Assign.(*ast.AssignStmt); ok {
				for _, l := range as.Lhs {
					if id, ok := l.(*ast.Ident); ok {
						scope[id.Name] = xc09Shared
					}
				}
			}
		case *ast.CallExpr:
			if se, ok := s.Fun.(*ast.SelectorExpr); ok {
				// x.m(…): possibly a method of a same-package type (resolved by name against the
				// package's method declarations; a package-qualified call pkg.F never matches one)
				calls = append(calls, "."+se.Sel.Name)
			}
			if id, ok := s.Fun.(*ast.Ident); ok {
				calls = append(calls, id.Name)
				// builtins that write through their first argument
				if (id.Name == "copy" || id.Name == "delete" || id.Name == "clear") && len(s.Args) > 0 {
					dst := s.Args[0]
					if se, ok := dst.(*ast.SliceExpr); ok {
						dst = se.X
					}
					root, _ := xc09Root(dst)
					kind, local := xc09Shared, false
					if root != nil {
						kind, local = scope[root.Name]
					}
					if root == nil || !local || kind == xc09Shared {
						writes = append(writes, id.Name+"("+xc09ExprString(dst)+")")
					}
				}
			}
		}
		return true
	})
	return writes, calls
}

func xc09Params(ft *ast.FuncType, scope xc09Scope) {
	for _, fl := range []*ast.FieldList{ft.Params, ft.Results} {
		if fl == nil {
			continue
		}
		for _, f := range fl.List {
			for _, n := range f.Names {
				scope[n.Name] = xc09Shared // pointers, slices, maps, interfaces reach the caller's memory
			}
		}
	}
}

// xc09Unrecognised emits write lists that can never be proved empty.  The driver handler of stream c09
// imports this Gen module, so the definitions must exist even when the source idiom was not recognised;
// a non-empty list keeps the dependent obligation (C09_no_shared_writes) undischarged.
func xc09Unrecognised(w *leanWriter, why string) error {
	w.Line("-- source pattern not recognised: %s", strings.ReplaceAll(why, "\n", " "))
	w.Line("def closureWrites : List String := [%q]", "<unrecognised> "+why)
	w.Line("def constructorWrites : List String := [%q]", "<unrecognised> "+why)
	w.Line("def closureCallees : List String := []")
	return nil
}

func extractClosureWrites(repo string, w *leanWriter) error {
	// every non-test file of package verify: functions by name, methods by ".name" (all receivers)
	dir := filepath.Dir(filepath.Join(repo, xc09File))
	ents, err := os.ReadDir(dir)
	if err != nil {
		return xc09Unrecognised(w, err.Error())
	}
	funcs := map[string]*ast.FuncDecl{}
	methods := map[string][]*ast.FuncDecl{}
	for _, e := range ents {
		n := e.Name()
		if e.IsDir() || !strings.HasSuffix(n, ".go") || strings.HasSuffix(n, "_test.go") {
			continue
		}
		_, f, err := parseFile(repo, filepath.Join(filepath.Dir(xc09File), n))
		if err != nil {
			return xc09Unrecognised(w, err.Error())
		}
		if strings.Contains(n, "_verif") { // build-tagged verification hooks are not product code
			continue
		}
		for _, d := range f.Decls {
			if fd, ok := d.(*ast.FuncDecl); ok {
				if fd.Recv == nil {
					funcs[fd.Name.Name] = fd
				} else {
					methods["."+fd.Name.Name] = append(methods["."+fd.Name.Name], fd)
				}
			}
		}
	}
	ctor := funcs[xc09Constructor]
	if ctor == nil || ctor.Body == nil {
		return xc09Unrecognised(w, fmt.Sprintf("%s: function %s not found", xc09File, xc09Constructor))
	}
	// the validator is the single function literal the constructor returns
	var closure *ast.FuncLit
	nret := 0
	for _, st := range ctor.Body.List {
		if rs, ok := st.(*ast.ReturnStmt); ok {
			nret++
			if len(rs.Results) == 1 {
				if fl, ok := rs.Results[0].(*ast.FuncLit); ok {
					closure = fl
				}
			}
		}
	}
	if closure == nil || nret != 1 {
		return xc09Unrecognised(w, fmt.Sprintf("%s: %s does not return exactly one function literal", xc09File, xc09Constructor))
	}
	if closure.Type.Params == nil || len(closure.Type.Params.List) != 2 {
		return xc09Unrecognised(w, fmt.Sprintf("%s: validator closure does not take (attestation, serializedEndorsement)", xc09File))
	}

	// --- constructor: everything outside the returned literal
	cscope := xc09Scope{}
	xc09Params(ctor.Type, cscope)
	ctorWrites, _ := xc09Analyse(ctor.Body, cscope, closure)
	// wrappers that construct through the constructor (SNPValidateFunc) are analysed the same way
	for name, fd := range funcs {
		if name == xc09Constructor || fd.Body == nil {
			continue
		}
		callsCtor := false
		ast.Inspect(fd.Body, func(n ast.Node) bool {
			if ce, ok := n.(*ast.CallExpr); ok {
				if id, ok := ce.Fun.(*ast.Ident); ok && id.Name == xc09Constructor {
					callsCtor = true
				}
			}
			return true
		})
		if callsCtor {
			sc := xc09Scope{}
			xc09Params(fd.Type, sc)
			ws, _ := xc09Analyse(fd.Body, sc, nil)
			for _, x := range ws {
				ctorWrites = append(ctorWrites, name+":"+x)
			}
		}
	}

	// --- closure body: its own parameters and locals are in scope; the constructor's parameters and
	// locals are CAPTURED, hence not in scope, hence every store rooted in them is reported.
	scope := xc09Scope{}
	xc09Params(closure.Type, scope)
	closureWrites, calls := xc09Analyse(closure.Body, scope, nil)

	// --- same-package callees, transitively
	seen := map[string]bool{}
	var order []string
	queue := calls
	for len(queue) > 0 {
		name := queue[0]
		queue = queue[1:]
		if seen[name] {
			continue
		}
		var fds []*ast.FuncDecl
		if fd, ok := funcs[name]; ok {
			fds = []*ast.FuncDecl{fd}
		} else if ms, ok := methods[name]; ok {
			fds = ms
		}
		if len(fds) == 0 {
			continue
		}
		seen[name] = true
		for _, fd := range fds {
			if fd.Body == nil {
				continue
			}
			label := name
			sc := xc09Scope{}
			if fd.Recv != nil {
				// the receiver is shared with the caller like any pointer parameter
				for _, fld := range fd.Recv.List {
					for _, id := range fld.Names {
						sc[id.Name] = xc09Shared
					}
					label = "(" + xc09ExprString(fld.Type) + ")" + name
				}
			}
			order = append(order, label)
			xc09Params(fd.Type, sc)
			ws, cs := xc09Analyse(fd.Body, sc, nil)
			for _, x := range ws {
				closureWrites = append(closureWrites, label+":"+x)
			}
			queue = append(queue, cs...)
		}
	}
	sort.Strings(order)

	q := func(xs []string) string {
		parts := make([]string, len(xs))
		for i, x := range xs {
			parts[i] = fmt.Sprintf("%q", x)
		}
		return "[" + strings.Join(parts, ", ") + "]"
	}
	w.Line("/-- stores to caller-shared memory performed by an INVOCATION of the validator returned by")
	w.Line("    verify.%s (closure body and same-package callees), in source order -/", xc09Constructor)
	w.Line("def closureWrites : List String := %s", q(closureWrites))
	w.Line("")
	w.Line("/-- stores through its parameters performed when a validator is CONSTRUCTED -/")
	w.Line("def constructorWrites : List String := %s", q(ctorWrites))
	w.Line("")
	w.Line("/-- same-package functions reachable from the closure (analysed for stores through their parameters) -/")
	w.Line("def closureCallees : List String := %s", q(order))
	return nil
}
