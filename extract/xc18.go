package main

// C18: ABI sizes and field-offset tables of the binary codecs.
//
// Gen/AbiSizes.lean holds
//   * every exported Sizeof*/SizeOf*/Max*Size/…Size constant of ovmf/abi, sev and eventlog — found by
//     go/ast in the const declarations, evaluated by a small constant evaluator, and cross-checked
//     against the value obtained by LINKING the repository packages (a disagreement is an error);
//   * selected enum constants, the Event3 signature and the tpmAlgoSize table;
//   * for each Put / FromBytes / WriteTo function a table of (offset, width, label) read off the
//     `binary.<Order>.PutUintN(data[a:b], v)`, `copy(data[a:b], v)`, `data[i] = v`,
//     `binary.<Order>.UintN(data[a:b])`, nested `X.Put(data[a:b])` statements (offsets as written) or
//     the sequential `binary.Write(w, binary.LittleEndian, field)` statements (offsets accumulated);
//   * the field order of the event-log Marshal/Unmarshal pairs.
// Labels are `<kind>:<field>` with kind le | be | lebe (little-endian store of a big-endian load) |
// copy | byte | nest, so that a changed byte order changes the table.

import (
	"bytes"
	"crypto"
	"fmt"
	"go/ast"
	"go/printer"
	"go/token"
	"reflect"
	"regexp"
	"sort"
	"strconv"
	"strings"

	"github.com/google/gce-tcb-verifier/eventlog"
	"github.com/google/gce-tcb-verifier/ovmf/abi"
	"github.com/google/gce-tcb-verifier/sev"
)

func init() { register("AbiSizes", extractAbiSizes) }

// values obtained by linking the packages (cross-check of the AST evaluator)
var c18Linked = map[string]uint64{
	"abi.SizeofFwGUIDEntry":              abi.SizeofFwGUIDEntry,
	"abi.SizeofSevEsResetBlock":          abi.SizeofSevEsResetBlock,
	"abi.SizeofMetadataOffset":           abi.SizeofMetadataOffset,
	"abi.SizeofSevMetadata":              abi.SizeofSevMetadata,
	"abi.SizeofSevMetadataSection":       abi.SizeofSevMetadataSection,
	"abi.SizeofTDXMetadataDescriptor":    abi.SizeofTDXMetadataDescriptor,
	"abi.SizeofTDXMetdataSection":        abi.SizeofTDXMetdataSection,
	"abi.SizeOfEFIHOBHandoffInfoTable":   abi.SizeOfEFIHOBHandoffInfoTable,
	"abi.SizeofEFIHOBResourceDescriptor": abi.SizeofEFIHOBResourceDescriptor,
	"abi.SizeofHOBGenericHeader":         abi.SizeofHOBGenericHeader,
	"abi.SizeofHOBGUID":                  abi.SizeofHOBGUID,
	"abi.MaxGUIDHOBDataSize":             abi.MaxGUIDHOBDataSize,
	"abi.PageSize":                       abi.PageSize,
	"sev.SizeofPageInfo":                 sev.SizeofPageInfo,
	"sev.SizeofVmcbSeg":                  sev.SizeofVmcbSeg,
	"sev.SizeofVmsa":                     sev.SizeofVmsa,
	"eventlog.EventSignatureSize":        eventlog.EventSignatureSize,
}

var c18SizeName = regexp.MustCompile(`^(Sizeof|SizeOf|Max).*|.*Size$`)

// constEnv evaluates the constant declarations of one file (enough of Go's constant expressions
// for these packages: literals, references, + - * / << >> | &, parentheses, conversions, iota).
type constEnv struct {
	vals map[string]uint64
}

func (e *constEnv) eval(x ast.Expr, iota uint64) (uint64, error) {
	switch v := x.(type) {
	case *ast.BasicLit:
		if v.Kind == token.INT {
			n, err := strconv.ParseUint(strings.ReplaceAll(v.Value, "_", ""), 0, 64)
			return n, err
		}
		if v.Kind == token.CHAR {
			r, _, _, err := strconv.UnquoteChar(v.Value[1:len(v.Value)-1], '\'')
			return uint64(r), err
		}
		return 0, fmt.Errorf("literal %s", v.Value)
	case *ast.Ident:
		if v.Name == "iota" {
			return iota, nil
		}
		if n, ok := e.vals[v.Name]; ok {
			return n, nil
		}
		return 0, fmt.Errorf("unknown constant %s", v.Name)
	case *ast.ParenExpr:
		return e.eval(v.X, iota)
	case *ast.CallExpr: // conversion uint32(x), PageType(x)
		if len(v.Args) == 1 {
			return e.eval(v.Args[0], iota)
		}
	case *ast.BinaryExpr:
		a, err := e.eval(v.X, iota)
		if err != nil {
			return 0, err
		}
		b, err := e.eval(v.Y, iota)
		if err != nil {
			return 0, err
		}
		switch v.Op {
		case token.ADD:
			return a + b, nil
		case token.SUB:
			return a - b, nil
		case token.MUL:
			return a * b, nil
		case token.QUO:
			if b == 0 {
				return 0, fmt.Errorf("division by zero")
			}
			return a / b, nil
		case token.SHL:
			return a << b, nil
		case token.SHR:
			return a >> b, nil
		case token.OR:
			return a | b, nil
		case token.AND:
			return a & b, nil
		}
	}
	return 0, fmt.Errorf("unsupported constant expression %T", x)
}

// loadConsts evaluates every integer constant of the file; unevaluable ones (strings) are skipped.
func loadConsts(f *ast.File) (*constEnv, []string) {
	env := &constEnv{vals: map[string]uint64{}}
	var order []string
	for _, d := range f.Decls {
		gd, ok := d.(*ast.GenDecl)
		if !ok || gd.Tok != token.CONST {
			continue
		}
		var last []ast.Expr
		for i, s := range gd.Specs {
			vs := s.(*ast.ValueSpec)
			vals := vs.Values
			if len(vals) == 0 {
				vals = last
			} else {
				last = vals
			}
			for j, n := range vs.Names {
				if j >= len(vals) {
					continue
				}
				if v, err := env.eval(vals[j], uint64(i)); err == nil {
					env.vals[n.Name] = v
					order = append(order, n.Name)
				}
			}
		}
	}
	return env, order
}

type layoutEntry struct {
	off, width uint64
	label      string
}

func exprSrc(x ast.Expr) string {
	var b bytes.Buffer
	printer.Fprint(&b, token.NewFileSet(), x)
	return b.String()
}

var c18ConvNames = map[string]bool{"uint8": true, "uint16": true, "uint32": true, "uint64": true, "int": true,
	"EFIPhysicalAddress": true, "EFIBootMode": true, "EFIResourceType": true, "EFIResourceAttributeType": true, "byte": true}

// orderCall recognises binary.<Order>.<method>(args) and returns order ("le"/"be"), method, args.
func orderCall(x ast.Expr) (string, string, []ast.Expr, bool) {
	c, ok := x.(*ast.CallExpr)
	if !ok {
		return "", "", nil, false
	}
	s, ok := c.Fun.(*ast.SelectorExpr)
	if !ok {
		return "", "", nil, false
	}
	o, ok := s.X.(*ast.SelectorExpr)
	if !ok {
		return "", "", nil, false
	}
	if id, ok := o.X.(*ast.Ident); !ok || id.Name != "binary" {
		return "", "", nil, false
	}
	switch o.Sel.Name {
	case "LittleEndian":
		return "le", s.Sel.Name, c.Args, true
	case "BigEndian":
		return "be", s.Sel.Name, c.Args, true
	}
	return "", "", nil, false
}

// normName reduces a value expression to the field it stands for.
func normName(x ast.Expr) string {
	switch v := x.(type) {
	case *ast.SelectorExpr:
		return v.Sel.Name
	case *ast.Ident:
		return v.Name
	case *ast.ParenExpr:
		return normName(v.X)
	case *ast.UnaryExpr:
		return normName(v.X)
	case *ast.SliceExpr:
		if v.Low == nil && v.High == nil {
			return normName(v.X)
		}
		return exprSrc(v)
	case *ast.CallExpr:
		if id, ok := v.Fun.(*ast.Ident); ok && c18ConvNames[id.Name] && len(v.Args) == 1 {
			return normName(v.Args[0])
		}
		if s, ok := v.Fun.(*ast.SelectorExpr); ok && strings.HasPrefix(s.Sel.Name, "Get") && len(v.Args) == 0 {
			return strings.TrimPrefix(s.Sel.Name, "Get")
		}
	}
	return exprSrc(x)
}

// constSlice returns (lo, hi) of buf[lo:hi] when both bounds evaluate to constants.
func constSlice(env *constEnv, x ast.Expr) (uint64, uint64, bool) {
	s, ok := x.(*ast.SliceExpr)
	if !ok || s.Low == nil || s.High == nil {
		return 0, 0, false
	}
	lo, err1 := env.eval(s.Low, 0)
	hi, err2 := env.eval(s.High, 0)
	if err1 != nil || err2 != nil || hi < lo {
		return 0, 0, false
	}
	return lo, hi, true
}

func calleeName(c *ast.CallExpr) string {
	switch f := c.Fun.(type) {
	case *ast.Ident:
		return f.Name
	case *ast.SelectorExpr:
		return normName(f.X) + "." + f.Sel.Name
	}
	return exprSrc(c.Fun)
}

// offsetLayout extracts the explicit-offset table of a Put/FromBytes-style function.
func offsetLayout(env *constEnv, fd *ast.FuncDecl) ([]layoutEntry, error) {
	var out []layoutEntry
	// parent links for naming the target of a load
	parent := map[ast.Node]ast.Node{}
	var stack []ast.Node
	ast.Inspect(fd.Body, func(n ast.Node) bool {
		if n == nil {
			stack = stack[:len(stack)-1]
			return true
		}
		if len(stack) > 0 {
			parent[n] = stack[len(stack)-1]
		}
		stack = append(stack, n)
		return true
	})
	targetOf := func(n ast.Node) string {
		for p := parent[n]; p != nil; p = parent[p] {
			switch v := p.(type) {
			case *ast.KeyValueExpr:
				return normName(v.Key)
			case *ast.AssignStmt:
				if len(v.Lhs) > 0 {
					return normName(v.Lhs[0])
				}
			case *ast.CallExpr:
				if id, ok := v.Fun.(*ast.Ident); ok && c18ConvNames[id.Name] {
					continue
				}
				return ""
			}
		}
		return ""
	}
	done := map[ast.Node]bool{}
	ast.Inspect(fd.Body, func(n ast.Node) bool {
		if n == nil || done[n] {
			return !done[n]
		}
		switch v := n.(type) {
		case *ast.AssignStmt: // data[i] = v
			if len(v.Lhs) == 1 && len(v.Rhs) == 1 && v.Tok == token.ASSIGN {
				if ix, ok := v.Lhs[0].(*ast.IndexExpr); ok {
					if i, err := env.eval(ix.Index, 0); err == nil {
						out = append(out, layoutEntry{i, 1, "byte:" + normName(v.Rhs[0])})
						return false
					}
				}
			}
		case *ast.CallExpr:
			if order, m, args, ok := orderCall(v); ok {
				if strings.HasPrefix(m, "PutUint") && len(args) == 2 {
					lo, hi, ok := constSlice(env, args[0])
					if !ok {
						return true
					}
					label := order + ":" + normName(args[1])
					if o2, m2, a2, ok := orderCall(args[1]); ok && strings.HasPrefix(m2, "Uint") && len(a2) == 1 {
						label = order + o2 + ":" + exprSrc(a2[0])
					}
					out = append(out, layoutEntry{lo, hi - lo, label})
					return false
				}
				if strings.HasPrefix(m, "Uint") && len(args) == 1 {
					if lo, hi, ok := constSlice(env, args[0]); ok {
						out = append(out, layoutEntry{lo, hi - lo, order + ":" + targetOf(v)})
						return false
					}
				}
				return true
			}
			if id, ok := v.Fun.(*ast.Ident); ok && id.Name == "copy" && len(v.Args) == 2 {
				if lo, hi, ok := constSlice(env, v.Args[0]); ok {
					out = append(out, layoutEntry{lo, hi - lo, "copy:" + normName(v.Args[1])})
					return false
				}
				if lo, hi, ok := constSlice(env, v.Args[1]); ok {
					out = append(out, layoutEntry{lo, hi - lo, "copy:" + normName(v.Args[0])})
					return false
				}
				return true
			}
			// nested codec call on a constant sub-slice
			for _, a := range v.Args {
				if lo, hi, ok := constSlice(env, a); ok {
					t := targetOf(v)
					name := calleeName(v)
					if t != "" && !strings.Contains(name, ".") {
						name = t + "=" + name
					}
					out = append(out, layoutEntry{lo, hi - lo, "nest:" + name})
					return false
				}
			}
		}
		return true
	})
	if len(out) == 0 {
		return nil, fmt.Errorf("%s: no layout statements recognised", fd.Name.Name)
	}
	return out, nil
}

// seqLayout extracts the table of a WriteTo function that writes its fields one after another.
// sizes: total size of nested writers already extracted (by receiver-field type name).
func seqLayout(env *constEnv, fd *ast.FuncDecl, recvType reflect.Type, nested map[string]uint64) ([]layoutEntry, error) {
	var out []layoutEntry
	var off uint64
	locals := map[string]uint64{} // local variable widths: `reserved := uint32(0)`, `var owner [16]byte`
	widthOfType := func(t ast.Expr) (uint64, bool) {
		switch v := t.(type) {
		case *ast.Ident:
			switch v.Name {
			case "uint8", "byte":
				return 1, true
			case "uint16":
				return 2, true
			case "uint32":
				return 4, true
			case "uint64":
				return 8, true
			}
		case *ast.ArrayType:
			if v.Len != nil {
				if n, err := env.eval(v.Len, 0); err == nil {
					if id, ok := v.Elt.(*ast.Ident); ok && (id.Name == "byte" || id.Name == "uint8") {
						return n, true
					}
				}
			}
		}
		return 0, false
	}
	fieldWidth := func(x ast.Expr) (uint64, string, bool) {
		switch v := x.(type) {
		case *ast.Ident:
			if w, ok := locals[v.Name]; ok {
				return w, v.Name, true
			}
		case *ast.SelectorExpr:
			if f, ok := recvType.FieldByName(v.Sel.Name); ok {
				return uint64(f.Type.Size()), v.Sel.Name, true
			}
		case *ast.SliceExpr:
			if id, ok := v.X.(*ast.Ident); ok {
				if w, ok := locals[id.Name]; ok {
					return w, id.Name, true
				}
			}
		}
		return 0, "", false
	}
	var bad error
	ast.Inspect(fd.Body, func(n ast.Node) bool {
		switch v := n.(type) {
		case *ast.AssignStmt:
			if v.Tok == token.DEFINE && len(v.Lhs) == 1 && len(v.Rhs) == 1 {
				if c, ok := v.Rhs[0].(*ast.CallExpr); ok && len(c.Args) == 1 {
					if w, ok := widthOfType(c.Fun); ok {
						locals[v.Lhs[0].(*ast.Ident).Name] = w
					}
				}
			}
		case *ast.DeclStmt:
			if gd, ok := v.Decl.(*ast.GenDecl); ok && gd.Tok == token.VAR {
				for _, s := range gd.Specs {
					vs := s.(*ast.ValueSpec)
					if w, ok := widthOfType(vs.Type); ok {
						for _, nm := range vs.Names {
							locals[nm.Name] = w
						}
					}
				}
			}
		case *ast.CallExpr:
			name := calleeName(v)
			switch {
			case name == "binary.Write" && len(v.Args) == 3:
				w, nm, ok := fieldWidth(v.Args[2])
				if !ok {
					bad = fmt.Errorf("%s: width of %s unknown", fd.Name.Name, exprSrc(v.Args[2]))
					return false
				}
				out = append(out, layoutEntry{off, w, "le:" + nm})
				off += w
				return false
			case strings.HasSuffix(name, ".WriteTo") && len(v.Args) == 1:
				// nested writer: <recv>.<Field>.WriteTo(w)
				sel := v.Fun.(*ast.SelectorExpr)
				fn := normName(sel.X)
				f, ok := recvType.FieldByName(fn)
				if !ok {
					return true
				}
				w, ok := nested[f.Type.Name()]
				if !ok {
					bad = fmt.Errorf("%s: nested writer %s not extracted yet", fd.Name.Name, f.Type.Name())
					return false
				}
				out = append(out, layoutEntry{off, w, "nest:" + fn + ".WriteTo"})
				off += w
				return false
			case name == "sizedWriteTo" && len(v.Args) == 3:
				w, err := env.eval(v.Args[2], 0)
				if err != nil {
					return true
				}
				out = append(out, layoutEntry{off, w, "nest:" + normName(v.Args[0]) + ".WriteTo"})
				off += w
				return false
			case name == "sizedWrite" && len(v.Args) == 3:
				w, err := env.eval(v.Args[2], 0)
				if err != nil { // variable-size tail (`len(h.Data)`): width 0 marks "rest"
					out = append(out, layoutEntry{off, 0, "rest:" + normName(v.Args[1])})
					return false
				}
				out = append(out, layoutEntry{off, w, "copy:" + normName(v.Args[1])})
				off += w
				return false
			case name == "w.Write" && len(v.Args) == 1:
				w, nm, ok := fieldWidth(v.Args[0])
				if !ok {
					bad = fmt.Errorf("%s: width of %s unknown", fd.Name.Name, exprSrc(v.Args[0]))
					return false
				}
				out = append(out, layoutEntry{off, w, "copy:" + nm})
				off += w
				return false
			}
		}
		return true
	})
	if bad != nil {
		return nil, bad
	}
	if len(out) == 0 {
		return nil, fmt.Errorf("%s: no sequential writes recognised", fd.Name.Name)
	}
	return out, nil
}

func findMethod(f *ast.File, recv, name string) *ast.FuncDecl {
	for _, d := range f.Decls {
		fd, ok := d.(*ast.FuncDecl)
		if !ok || fd.Name.Name != name {
			continue
		}
		if recv == "" {
			if fd.Recv == nil {
				return fd
			}
			continue
		}
		if fd.Recv == nil || len(fd.Recv.List) != 1 {
			continue
		}
		t := fd.Recv.List[0].Type
		if st, ok := t.(*ast.StarExpr); ok {
			t = st.X
		}
		if id, ok := t.(*ast.Ident); ok && id.Name == recv {
			return fd
		}
	}
	return nil
}

func emitLayout(w *leanWriter, name string, es []layoutEntry) {
	// by offset (stable): the decoders read their fields in any order
	sort.SliceStable(es, func(i, j int) bool { return es[i].off < es[j].off })
	parts := make([]string, len(es))
	for i, e := range es {
		parts[i] = fmt.Sprintf("(%d, %d, %q)", e.off, e.width, e.label)
	}
	w.Line("def %s : List (Nat × Nat × String) := [%s]", name, strings.Join(parts, ", "))
}

// fieldOrder extracts the order of fields (and their Go types) read or written by an event-log
// Unmarshal / Marshal function: littleRead/littleWrite(_, "Name", x) and r.Read / w.Write of a field.
func fieldOrder(fd *ast.FuncDecl, recvType reflect.Type) []string {
	var out []string
	typeOf := func(field string) string {
		if f, ok := recvType.FieldByName(field); ok {
			t := strings.ReplaceAll(f.Type.String(), "github.com/google/gce-tcb-verifier/eventlog.", "")
			return strings.ReplaceAll(t, "eventlog.", "")
		}
		return "?"
	}
	ast.Inspect(fd.Body, func(n ast.Node) bool {
		c, ok := n.(*ast.CallExpr)
		if !ok {
			return true
		}
		name := calleeName(c)
		switch {
		case (name == "littleRead" || name == "littleWrite") && len(c.Args) == 3:
			f := normName(c.Args[2])
			out = append(out, f+":"+typeOf(f))
			return false
		case (name == "r.Read" || name == "w.Write") && len(c.Args) == 1:
			f := normName(c.Args[0])
			if _, ok := recvType.FieldByName(f); ok {
				out = append(out, f+":"+typeOf(f))
			}
			return false
		}
		return true
	})
	return out
}

func emitStrList(w *leanWriter, name string, xs []string) {
	parts := make([]string, len(xs))
	for i, x := range xs {
		parts[i] = strconv.Quote(x)
	}
	w.Line("def %s : List String := [%s]", name, strings.Join(parts, ", "))
}

func extractAbiSizes(repo string, w *leanWriter) error {
	type pkgFile struct{ pkg, rel string }
	files := []pkgFile{{"abi", "ovmf/abi/abi.go"}, {"abi", "ovmf/abi/pihob.go"}, {"sev", "sev/abi.go"},
		{"eventlog", "eventlog/event.go"}, {"eventlog", "eventlog/tpm.go"}, {"eventlog", "eventlog/tcg2.go"}}
	parsed := map[string]*ast.File{}
	envs := map[string]*constEnv{}
	// constants: abi.go and pihob.go share a package, so evaluate them in one environment
	pkgEnv := map[string]*constEnv{}
	seenLinked := map[string]bool{}
	w.Line("-- size constants (go/ast constant evaluation, cross-checked against the linked packages)")
	for _, pf := range files {
		_, f, err := parseFile(repo, pf.rel)
		if err != nil {
			return err
		}
		parsed[pf.rel] = f
		if pkgEnv[pf.pkg] == nil {
			pkgEnv[pf.pkg] = &constEnv{vals: map[string]uint64{}}
		}
		env, order := loadConsts(f)
		// second pass with the package environment so cross-file references resolve
		for k, v := range env.vals {
			pkgEnv[pf.pkg].vals[k] = v
		}
		envs[pf.rel] = pkgEnv[pf.pkg]
		for _, n := range order {
			if !ast.IsExported(n) || !c18SizeName.MatchString(n) {
				continue
			}
			v := env.vals[n]
			key := pf.pkg + "." + n
			if lv, ok := c18Linked[key]; ok {
				seenLinked[key] = true
				if lv != v {
					return fmt.Errorf("constant %s: source evaluates to %d but the linked package says %d", key, v, lv)
				}
			}
			w.NatDef(n, v)
		}
	}
	// re-evaluate constants that referenced another file of the same package (SizeofHOBGUID etc.)
	for _, pf := range files {
		f := parsed[pf.rel]
		for _, d := range f.Decls {
			gd, ok := d.(*ast.GenDecl)
			if !ok || gd.Tok != token.CONST {
				continue
			}
			for i, s := range gd.Specs {
				vs := s.(*ast.ValueSpec)
				for j, n := range vs.Names {
					if _, ok := pkgEnv[pf.pkg].vals[n.Name]; ok || j >= len(vs.Values) {
						continue
					}
					if v, err := pkgEnv[pf.pkg].eval(vs.Values[j], uint64(i)); err == nil {
						pkgEnv[pf.pkg].vals[n.Name] = v
						if ast.IsExported(n.Name) && c18SizeName.MatchString(n.Name) {
							w.NatDef(n.Name, v)
							seenLinked[pf.pkg+"."+n.Name] = true
						}
					}
				}
			}
		}
	}
	var missing []string
	for k := range c18Linked {
		if !seenLinked[k] {
			missing = append(missing, k)
		}
	}
	sort.Strings(missing)
	if len(missing) > 0 {
		return fmt.Errorf("size constants no longer found in the source: %v", missing)
	}

	w.Line("")
	w.Line("-- selected enum / magic constants")
	abiEnv := pkgEnv["abi"]
	for _, n := range []string{"EFIHOBTypeHandoff", "EFIHOBHandoffTableVersion", "EFIHOBTypeResourceDescriptor",
		"EFIHOBTypeGUIDExtension", "EFIHOBTypeEndOfHOBList", "SevSnpMetadataSignature", "TDXMetadataDescriptorMagic",
		"TDXMetadataVersion", "FwGUIDTableEndOffset"} {
		v, ok := abiEnv.vals[n]
		if !ok {
			return fmt.Errorf("constant abi.%s not found", n)
		}
		w.NatDef(n, v)
	}
	sig := make([]uint64, len(eventlog.TcgSP800155Event3Signature))
	for i, b := range eventlog.TcgSP800155Event3Signature {
		sig[i] = uint64(b)
	}
	w.NatList("TcgSP800155Event3Signature", sig)

	// tpmAlgoSize: map literal with constant keys and crypto.<Hash>.Size() values
	{
		f := parsed["eventlog/tpm.go"]
		env := pkgEnv["eventlog"]
		hashSize := map[string]int{"SHA1": crypto.SHA1.Size(), "SHA256": crypto.SHA256.Size(), "SHA384": crypto.SHA384.Size(),
			"SHA512": crypto.SHA512.Size(), "SHA224": crypto.SHA224.Size()}
		var pairs []string
		found := false
		ast.Inspect(f, func(n ast.Node) bool {
			vs, ok := n.(*ast.ValueSpec)
			if !ok || len(vs.Names) != 1 || vs.Names[0].Name != "tpmAlgoSize" || len(vs.Values) != 1 {
				return true
			}
			cl, ok := vs.Values[0].(*ast.CompositeLit)
			if !ok {
				return true
			}
			found = true
			type kv struct{ k, v uint64 }
			var kvs []kv
			for _, e := range cl.Elts {
				p, ok := e.(*ast.KeyValueExpr)
				if !ok {
					found = false
					return false
				}
				k, err := env.eval(p.Key, 0)
				if err != nil {
					found = false
					return false
				}
				// crypto.SHA1.Size()
				src := exprSrc(p.Value)
				m := regexp.MustCompile(`^crypto\.([A-Z0-9]+)\.Size\(\)$`).FindStringSubmatch(src)
				if m == nil {
					if v, err := env.eval(p.Value, 0); err == nil {
						kvs = append(kvs, kv{k, v})
						continue
					}
					found = false
					return false
				}
				sz, ok := hashSize[m[1]]
				if !ok {
					found = false
					return false
				}
				kvs = append(kvs, kv{k, uint64(sz)})
			}
			sort.Slice(kvs, func(i, j int) bool { return kvs[i].k < kvs[j].k })
			for _, p := range kvs {
				pairs = append(pairs, fmt.Sprintf("(%d, %d)", p.k, p.v))
			}
			return false
		})
		if !found {
			return fmt.Errorf("tpmAlgoSize map literal not recognised")
		}
		w.Line("def tpmAlgoSize : List (Nat × Nat) := [%s]", strings.Join(pairs, ", "))
	}

	w.Line("")
	w.Line("-- explicit-offset tables: (offset, width, kind:field)")
	type job struct {
		rel, recv, fn, name string
	}
	jobs := []job{
		{"ovmf/abi/abi.go", "EFIGUID", "Put", "EfiGuidPut"},
		{"ovmf/abi/abi.go", "", "parseEFIGUID", "EfiGuidParse"},
		{"ovmf/abi/abi.go", "", "convertEFIGUID", "EfiGuidConvert"},
		{"ovmf/abi/abi.go", "", "PutUUID", "UuidPut"},
		{"ovmf/abi/abi.go", "FwGUIDEntry", "Put", "FwGuidEntryPut"},
		{"ovmf/abi/abi.go", "FwGUIDEntry", "PopulateFromBytes", "FwGuidEntryFromBytes"},
		{"ovmf/abi/abi.go", "SevMetadataSection", "Put", "SevMetadataSectionPut"},
		{"ovmf/abi/abi.go", "", "SevMetadataSectionFromBytes", "SevMetadataSectionFromBytes"},
		{"ovmf/abi/abi.go", "SevMetadata", "Put", "SevMetadataPut"},
		{"ovmf/abi/abi.go", "", "SevMetadataFromBytes", "SevMetadataFromBytes"},
		{"ovmf/abi/abi.go", "MetadataOffset", "Put", "MetadataOffsetPut"},
		{"ovmf/abi/abi.go", "", "MetadataOffsetFromBytes", "MetadataOffsetFromBytes"},
		{"ovmf/abi/abi.go", "", "PutSevEsResetBlock", "ResetBlockPut"},
		{"ovmf/abi/abi.go", "", "SevEsResetBlockFromBytes", "ResetBlockFromBytes"},
		{"ovmf/abi/abi.go", "TDXMetadataDescriptor", "Put", "TdxDescriptorPut"},
		{"ovmf/abi/abi.go", "", "TDXMetadataDescriptorFromBytes", "TdxDescriptorFromBytes"},
		{"ovmf/abi/abi.go", "TDXMetadataSection", "Put", "TdxSectionPut"},
		{"ovmf/abi/abi.go", "", "TDXMetadataSectionFromBytes", "TdxSectionFromBytes"},
		{"sev/abi.go", "PageInfo", "Put", "PageInfoPut"},
		{"sev/abi.go", "", "putVmcbSeg", "VmcbSegPut"},
	}
	for _, j := range jobs {
		fd := findMethod(parsed[j.rel], j.recv, j.fn)
		if fd == nil {
			return fmt.Errorf("%s: function %s.%s not found", j.rel, j.recv, j.fn)
		}
		es, err := offsetLayout(envs[j.rel], fd)
		if err != nil {
			return err
		}
		emitLayout(w, j.name+"Layout", es)
	}

	w.Line("")
	w.Line("-- sequential writers (offsets accumulated from the widths of the written fields)")
	nested := map[string]uint64{}
	seqJobs := []struct {
		recv string
		typ  reflect.Type
		name string
	}{
		{"EFIHOBGenericHeader", reflect.TypeOf(abi.EFIHOBGenericHeader{}), "HobHeaderWriteTo"},
		{"EFIHOBHandoffInfoTable", reflect.TypeOf(abi.EFIHOBHandoffInfoTable{}), "HandoffWriteTo"},
		{"EFIHOBResourceDescriptor", reflect.TypeOf(abi.EFIHOBResourceDescriptor{}), "ResourceWriteTo"},
		{"EFIHOBGUID", reflect.TypeOf(abi.EFIHOBGUID{}), "GuidHobWriteTo"},
	}
	for _, j := range seqJobs {
		fd := findMethod(parsed["ovmf/abi/pihob.go"], j.recv, "WriteTo")
		if fd == nil {
			return fmt.Errorf("pihob.go: %s.WriteTo not found", j.recv)
		}
		es, err := seqLayout(envs["ovmf/abi/pihob.go"], fd, j.typ, nested)
		if err != nil {
			return err
		}
		var total uint64
		for _, e := range es {
			total += e.width
		}
		nested[j.recv] = total
		emitLayout(w, j.name+"Layout", es)
	}

	w.Line("")
	w.Line("-- event-log field order of the Marshal / Unmarshal pairs (field:GoType)")
	evJobs := []struct {
		rel, recv, fn, name string
		typ                 reflect.Type
	}{
		{"eventlog/event.go", "TCGPCClientPCREvent", "Unmarshal", "PcrEventRead", reflect.TypeOf(eventlog.TCGPCClientPCREvent{})},
		{"eventlog/event.go", "TCGPCClientPCREvent", "Marshal", "PcrEventWrite", reflect.TypeOf(eventlog.TCGPCClientPCREvent{})},
		{"eventlog/event.go", "TCGPCREvent2", "Unmarshal", "Event2Read", reflect.TypeOf(eventlog.TCGPCREvent2{})},
		{"eventlog/event.go", "TCGPCREvent2", "Marshal", "Event2Write", reflect.TypeOf(eventlog.TCGPCREvent2{})},
		{"eventlog/tcg2.go", "SP800155Event3", "UnmarshalFromBytes", "Event3Read", reflect.TypeOf(eventlog.SP800155Event3{})},
		{"eventlog/tcg2.go", "SP800155Event3", "MarshalToBytes", "Event3Write", reflect.TypeOf(eventlog.SP800155Event3{})},
		{"eventlog/tpm.go", "TaggedDigest", "Unmarshal", "DigestRead", reflect.TypeOf(eventlog.TaggedDigest{})},
		{"eventlog/tpm.go", "TaggedDigest", "Marshal", "DigestWrite", reflect.TypeOf(eventlog.TaggedDigest{})},
	}
	for _, j := range evJobs {
		fd := findMethod(parsed[j.rel], j.recv, j.fn)
		if fd == nil {
			return fmt.Errorf("%s: %s.%s not found", j.rel, j.recv, j.fn)
		}
		fo := fieldOrder(fd, j.typ)
		if len(fo) == 0 {
			return fmt.Errorf("%s.%s: no field reads/writes recognised", j.recv, j.fn)
		}
		emitStrList(w, j.name+"Order", fo)
	}
	return nil
}
