package main

import (
	"fmt"
	"go/ast"
	"go/token"
	"strconv"
	"time"

	styp "github.com/google/gce-tcb-verifier/sign/types"
)

var monthNames = map[string]time.Month{"January": 1, "February": 2, "March": 3, "April": 4, "May": 5, "June": 6,
	"July": 7, "August": 8, "September": 9, "October": 10, "November": 11, "December": 12}

// timeDateLiteral evaluates a `time.Date(y, time.Month, d, h, m, s, ns, time.UTC)` call expression.
func timeDateLiteral(e ast.Expr) (time.Time, error) {
	call, ok := e.(*ast.CallExpr)
	if !ok || len(call.Args) != 8 {
		return time.Time{}, fmt.Errorf("not a time.Date call with 8 arguments")
	}
	if sel, ok := call.Fun.(*ast.SelectorExpr); !ok || sel.Sel.Name != "Date" {
		return time.Time{}, fmt.Errorf("not a time.Date call")
	}
	ints := make([]int, 8)
	for i, a := range call.Args {
		switch v := a.(type) {
		case *ast.BasicLit:
			if v.Kind != token.INT {
				return time.Time{}, fmt.Errorf("argument %d is not an integer literal", i)
			}
			n, err := strconv.Atoi(v.Value)
			if err != nil {
				return time.Time{}, err
			}
			ints[i] = n
		case *ast.SelectorExpr:
			if i == 1 {
				m, ok := monthNames[v.Sel.Name]
				if !ok {
					return time.Time{}, fmt.Errorf("unknown month %s", v.Sel.Name)
				}
				ints[i] = int(m)
			} else if i == 7 && v.Sel.Name == "UTC" {
				// location
			} else {
				return time.Time{}, fmt.Errorf("unexpected selector argument %d", i)
			}
		default:
			return time.Time{}, fmt.Errorf("argument %d is not a literal", i)
		}
	}
	return time.Date(ints[0], time.Month(ints[1]), ints[2], ints[3], ints[4], ints[5], ints[6], time.UTC), nil
}

// packageVarInit returns the initialiser expression of package-level variable name in f.
func packageVarInit(f *ast.File, name string) ast.Expr {
	for _, d := range f.Decls {
		gd, ok := d.(*ast.GenDecl)
		if !ok || gd.Tok != token.VAR {
			continue
		}
		for _, sp := range gd.Specs {
			vs := sp.(*ast.ValueSpec)
			for i, n := range vs.Names {
				if n.Name == name && i < len(vs.Values) {
					return vs.Values[i]
				}
			}
		}
	}
	return nil
}

func init() {
	register("C03Consts", func(repo string, w *leanWriter) error {
		_, f, err := parseFile(repo, "verify/verify.go")
		if err != nil {
			return err
		}
		e := packageVarInit(f, "uefiReleaseChangeDate")
		if e == nil {
			return fmt.Errorf("verify.uefiReleaseChangeDate not found")
		}
		t, err := timeDateLiteral(e)
		if err != nil {
			return fmt.Errorf("verify.uefiReleaseChangeDate: %v", err)
		}
		w.Line("/-- verify.uefiReleaseChangeDate as unix seconds (documents dated after it need provenance) -/")
		w.NatDef("releaseChangeUnix", uint64(t.Unix()))
		w.Line("/-- sign/types.RootValidDays, SignValidDays (linked from the repository package) -/")
		w.NatDef("rootValidDays", uint64(styp.RootValidDays))
		w.NatDef("signValidDays", uint64(styp.SignValidDays))
		return nil
	})
}
