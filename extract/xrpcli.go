package main

// RpFlags: the command-line wiring of the relying-party tool `gcetcbendorsement` as data (C01 / C02 / C17 at the
// command line — Model/RpCli.lean).  Source: gcetcbendorsement/cmd/{root,verify,sev,tdx,inspect,extract,proto}.go.
//
//   commands      the command tree MakeRoot builds: (path, parent path, constructor, PersistentPreRunE binding,
//                 RunE / Run binding), in construction order.  A command's name is the first word of its `Use:`; its
//                 children are the `cmd.AddCommand(makeX(ctx))` calls of its constructor.
//   flags         every flag registration `cmd.PersistentFlags().<T>Var(&v.f, "name", default, usage)` /
//                 `cmd.Flags().<T>Var(…)` of every constructor: (command path the flag is DEFINED on, scope
//                 persistent|local, name, pflag type, default as written, destination as <struct type>.<field>).
//                 A persistent flag is inherited by every command below the one it is defined on; a local one is not.
//   prodRootFlags the two flags init() adds to the shipped RootCmd, and the skeleton of its PersistentPreRun
//   traverseRunHooks  MakeRoot sets cobra.EnableTraverseRunHooks (all PersistentPreRunE from the root down run)
//   <fn>Steps     statement skeletons of the modelled functions (conditions, assignments, calls, with the options
//                 literals written out IN FULL — the field wiring is the point)
//   wiring        every `&pkg.XOptions{Field: expr, …}` literal of the RunE bodies as (function, type, field, expr) rows
//   defaultRootURL, bytesForms  linked values
//
// Anything not recognised is an error (the dependent obligations then fail), never a default.

import (
	"bytes"
	"fmt"
	"go/ast"
	"go/printer"
	"go/token"
	"strconv"
	"strings"

	"github.com/google/gce-tcb-verifier/gcetcbendorsement"
)

func init() { register("RpFlags", extractRpFlags) }

type rpCmd struct {
	path, parent, ctor, preRun, run string
}

type rpFlag struct {
	owner, scope, name, kind, dflt, dest string
}

// rpExpr prints an expression in full (composite literals included) on one line.
func rpExpr(e ast.Node) string {
	var buf bytes.Buffer
	if err := printer.Fprint(&buf, token.NewFileSet(), e); err != nil {
		return fmt.Sprintf("<%T>", e)
	}
	s := buf.String()
	// drop comments that go/printer may keep inside literals, collapse white space
	var lines []string
	for _, l := range strings.Split(s, "\n") {
		if i := strings.Index(l, "//"); i >= 0 && !strings.Contains(l[:i], "\"") {
			l = l[:i]
		}
		lines = append(lines, strings.TrimSpace(l))
	}
	s = strings.Join(lines, " ")
	for strings.Contains(s, "  ") {
		s = strings.ReplaceAll(s, "  ", " ")
	}
	s = strings.ReplaceAll(s, "{ ", "{")
	s = strings.ReplaceAll(s, ", }", "}")
	s = strings.ReplaceAll(s, " }", "}")
	return strings.TrimSpace(s)
}

// rpSkeleton renders one statement with its nesting; fmt.Errorf / errors.New results are abstracted.
func rpSkeleton(st ast.Stmt) string {
	block := func(l []ast.Stmt) string {
		var parts []string
		for _, x := range l {
			parts = append(parts, rpSkeleton(x))
		}
		return "{" + strings.Join(parts, "; ") + "}"
	}
	ret := func(e ast.Expr) string {
		t := rpExpr(e)
		if strings.HasPrefix(t, "fmt.Errorf(") || strings.HasPrefix(t, "errors.New(") {
			return "<error>"
		}
		return t
	}
	switch s := st.(type) {
	case *ast.IfStmt:
		d := "if "
		if s.Init != nil {
			d += rpSkeleton(s.Init) + "; "
		}
		d += rpExpr(s.Cond) + " " + block(s.Body.List)
		switch e := s.Else.(type) {
		case *ast.BlockStmt:
			d += " else " + block(e.List)
		case *ast.IfStmt:
			d += " else " + rpSkeleton(e)
		}
		return d
	case *ast.AssignStmt:
		var lhs, rhs []string
		for _, l := range s.Lhs {
			lhs = append(lhs, rpExpr(l))
		}
		for _, r := range s.Rhs {
			rhs = append(rhs, ret(r))
		}
		return strings.Join(lhs, ",") + " " + s.Tok.String() + " " + strings.Join(rhs, ",")
	case *ast.ExprStmt:
		return rpExpr(s.X)
	case *ast.ReturnStmt:
		var rs []string
		for _, r := range s.Results {
			rs = append(rs, ret(r))
		}
		return strings.TrimSpace("return " + strings.Join(rs, ","))
	case *ast.BlockStmt:
		return block(s.List)
	case *ast.DeferStmt:
		return "defer " + rpExpr(s.Call)
	case *ast.DeclStmt:
		if gd, ok := s.Decl.(*ast.GenDecl); ok {
			var parts []string
			for _, sp := range gd.Specs {
				if vs, ok := sp.(*ast.ValueSpec); ok {
					for _, n := range vs.Names {
						parts = append(parts, "var "+n.Name+" "+rpExpr(vs.Type))
					}
				}
			}
			return strings.Join(parts, "; ")
		}
	case *ast.TypeSwitchStmt:
		d := "switch " + rpSkeleton(s.Assign) + " {"
		var cs []string
		for _, c := range s.Body.List {
			cc := c.(*ast.CaseClause)
			var ts []string
			for _, t := range cc.List {
				ts = append(ts, rpExpr(t))
			}
			h := "default"
			if len(ts) > 0 {
				h = "case " + strings.Join(ts, ",")
			}
			cs = append(cs, h+": "+block(cc.Body))
		}
		return d + strings.Join(cs, " ") + "}"
	case *ast.SwitchStmt:
		d := "switch "
		if s.Tag != nil {
			d += rpExpr(s.Tag) + " "
		}
		d += "{"
		var cs []string
		for _, c := range s.Body.List {
			cc := c.(*ast.CaseClause)
			var ts []string
			for _, t := range cc.List {
				ts = append(ts, rpExpr(t))
			}
			h := "default"
			if len(ts) > 0 {
				h = "case " + strings.Join(ts, ",")
			}
			cs = append(cs, h+": "+block(cc.Body))
		}
		return d + strings.Join(cs, " ") + "}"
	}
	return fmt.Sprintf("<%T>", st)
}

func rpSteps(fd *ast.FuncDecl) []string {
	var q []string
	for _, st := range fd.Body.List {
		q = append(q, rpSkeleton(st))
	}
	return q
}

func rpLeanList(l []string) string {
	var q []string
	for _, s := range l {
		q = append(q, strconv.Quote(s))
	}
	return "[" + strings.Join(q, ",\n   ") + "]"
}

// rpCtor analyses one constructor `func makeX(ctx0 context.Context) *cobra.Command`.
type rpCtorInfo struct {
	name        string            // command name (first word of Use)
	preRun, run string            // bindings as written
	varTypes    map[string]string // local `v := &T{}` variables
	flags       []rpFlag          // owner filled by the caller
	children    []string          // constructors called in cmd.AddCommand(...)
}

func rpAnalyseCtor(fd *ast.FuncDecl) (*rpCtorInfo, error) {
	info := &rpCtorInfo{varTypes: map[string]string{}}
	fail := func(f string, a ...any) (*rpCtorInfo, error) {
		return nil, fmt.Errorf("%s: "+f, append([]any{fd.Name.Name}, a...)...)
	}
	var cmdLit *ast.CompositeLit
	for _, st := range fd.Body.List {
		switch s := st.(type) {
		case *ast.AssignStmt:
			if len(s.Lhs) == 1 && len(s.Rhs) == 1 {
				lhs, _ := s.Lhs[0].(*ast.Ident)
				if u, ok := s.Rhs[0].(*ast.UnaryExpr); ok && u.Op == token.AND && lhs != nil {
					if cl, ok := u.X.(*ast.CompositeLit); ok {
						t := rpExpr(cl.Type)
						if t == "cobra.Command" {
							if cmdLit != nil {
								return fail("two cobra.Command literals")
							}
							cmdLit = cl
						} else {
							if len(cl.Elts) != 0 {
								return fail("command struct %s is pre-filled", t)
							}
							info.varTypes[lhs.Name] = t
						}
						continue
					}
				}
				// ctx := context.WithValue(ctx0, key, v)
				if call, ok := s.Rhs[0].(*ast.CallExpr); ok && rpExpr(call.Fun) == "context.WithValue" {
					continue
				}
			}
			if cliMentionsFlagSet(st) {
				return fail("an assignment mentions a FlagSet")
			}
			return fail("unrecognised assignment %s", rpSkeleton(st))
		case *ast.ExprStmt:
			call, ok := s.X.(*ast.CallExpr)
			if !ok {
				return fail("unrecognised statement %s", rpSkeleton(st))
			}
			fun := rpExpr(call.Fun)
			if method, ok := cliIsFlagSetCall(call); ok {
				if !strings.HasSuffix(method, "Var") || len(call.Args) != 4 {
					return fail("unrecognised FlagSet call %s", fun)
				}
				name, ok := cliStrLit(call.Args[1])
				if !ok {
					return fail("flag name of %s is not a string literal", fun)
				}
				u, ok := call.Args[0].(*ast.UnaryExpr)
				if !ok || u.Op != token.AND {
					return fail("destination of --%s is not &v.f", name)
				}
				sel, ok := u.X.(*ast.SelectorExpr)
				if !ok {
					return fail("destination of --%s is not &v.f", name)
				}
				v, ok := sel.X.(*ast.Ident)
				if !ok || info.varTypes[v.Name] == "" {
					return fail("destination of --%s is not a field of a command struct declared in the constructor", name)
				}
				scope := "local"
				if strings.HasPrefix(fun, "cmd.PersistentFlags()") {
					scope = "persistent"
				} else if !strings.HasPrefix(fun, "cmd.Flags()") {
					return fail("flag --%s is registered on %s", name, fun)
				}
				info.flags = append(info.flags, rpFlag{scope: scope, name: name, kind: strings.TrimSuffix(method, "Var"),
					dflt: rpExpr(call.Args[2]), dest: info.varTypes[v.Name] + "." + sel.Sel.Name})
				continue
			}
			switch fun {
			case "cmd.AddCommand":
				if len(call.Args) != 1 {
					return fail("AddCommand with %d arguments", len(call.Args))
				}
				inner, ok := call.Args[0].(*ast.CallExpr)
				if !ok {
					return fail("AddCommand argument is not a constructor call")
				}
				id, ok := inner.Fun.(*ast.Ident)
				if !ok {
					return fail("AddCommand argument is not a constructor call")
				}
				info.children = append(info.children, id.Name)
				continue
			case "cmd.SetContext":
				continue
			}
			if cliMentionsFlagSet(st) {
				return fail("unrecognised statement mentioning a FlagSet: %s", rpSkeleton(st))
			}
			return fail("unrecognised statement %s", rpSkeleton(st))
		case *ast.ReturnStmt:
			continue
		default:
			return fail("unrecognised statement %s", rpSkeleton(st))
		}
	}
	if cmdLit == nil {
		return fail("no cobra.Command literal")
	}
	info.preRun, info.run = "-", "-"
	for _, el := range cmdLit.Elts {
		kv, ok := el.(*ast.KeyValueExpr)
		if !ok {
			return fail("positional cobra.Command literal")
		}
		key := kv.Key.(*ast.Ident).Name
		val := rpExpr(kv.Value)
		if fl, ok := kv.Value.(*ast.FuncLit); ok {
			var q []string
			for _, st := range fl.Body.List {
				q = append(q, rpSkeleton(st))
			}
			val = "func {" + strings.Join(q, "; ") + "}"
		}
		switch key {
		case "Use":
			u, ok := cliStrLit(kv.Value)
			if !ok || u == "" {
				return fail("Use is not a string literal")
			}
			info.name = strings.Fields(u)[0]
		case "Long", "Short":
		case "PersistentPreRunE":
			info.preRun = val
		case "PersistentPreRun":
			info.preRun = "PersistentPreRun:" + val
		case "RunE":
			info.run = val
		case "Run":
			info.run = "Run:" + val
		default:
			// Args, PreRunE, TraverseChildren, DisableFlagParsing, … change how a command line is read
			return fail("cobra.Command field %s is not modelled", key)
		}
	}
	if info.name == "" {
		return fail("no Use")
	}
	// resolve `v.method` bindings to `<Type>.method`
	res := func(b string) string {
		if i := strings.Index(b, "."); i > 0 {
			if t := info.varTypes[b[:i]]; t != "" {
				return t + b[i:]
			}
		}
		return b
	}
	info.preRun, info.run = res(info.preRun), res(info.run)
	return info, nil
}

func extractRpFlags(repo string, w *leanWriter) error {
	const dir = "gcetcbendorsement/cmd/"
	files := map[string]*ast.File{}
	for _, n := range []string{"root.go", "verify.go", "sev.go", "tdx.go", "inspect.go", "extract.go", "proto.go"} {
		_, f, err := parseFile(repo, dir+n)
		if err != nil {
			return err
		}
		files[n] = f
	}
	find := func(recv, name string) *ast.FuncDecl {
		for _, n := range []string{"root.go", "verify.go", "sev.go", "tdx.go", "inspect.go", "extract.go", "proto.go"} {
			if fd := cliFindMethod(files[n], recv, name); fd != nil {
				return fd
			}
		}
		return nil
	}

	// ---- MakeRoot
	mk := find("", "MakeRoot")
	if mk == nil {
		return fmt.Errorf("MakeRoot not found")
	}
	traverse := false
	for _, st := range mk.Body.List {
		if as, ok := st.(*ast.AssignStmt); ok && len(as.Lhs) == 1 && rpExpr(as.Lhs[0]) == "cobra.EnableTraverseRunHooks" {
			traverse = rpExpr(as.Rhs[0]) == "true"
		}
	}
	var cmds []rpCmd
	var flags []rpFlag
	var walk func(ctor, parentPath string, isRoot bool, depth int) error
	walk = func(ctor, parentPath string, isRoot bool, depth int) error {
		if depth > 4 {
			return fmt.Errorf("command tree deeper than expected at %s", ctor)
		}
		fd := find("", ctor)
		if fd == nil {
			return fmt.Errorf("constructor %s not found", ctor)
		}
		var info *rpCtorInfo
		var err error
		if isRoot {
			// MakeRoot: `cobra.EnableTraverseRunHooks = true` first, then the usual shape
			body := *fd.Body
			var rest []ast.Stmt
			for _, st := range fd.Body.List {
				if as, ok := st.(*ast.AssignStmt); ok && len(as.Lhs) == 1 && rpExpr(as.Lhs[0]) == "cobra.EnableTraverseRunHooks" {
					continue
				}
				rest = append(rest, st)
			}
			body.List = rest
			cp := *fd
			cp.Body = &body
			info, err = rpAnalyseCtor(&cp)
		} else {
			info, err = rpAnalyseCtor(fd)
		}
		if err != nil {
			return err
		}
		path := info.name
		if isRoot {
			path = ""
		} else if parentPath != "" {
			path = parentPath + " " + info.name
		}
		par := parentPath
		if isRoot {
			par = "-"
		}
		cmds = append(cmds, rpCmd{path, par, ctor, info.preRun, info.run})
		for _, f := range info.flags {
			f.owner = path
			flags = append(flags, f)
		}
		for _, ch := range info.children {
			if err := walk(ch, path, false, depth+1); err != nil {
				return err
			}
		}
		return nil
	}
	if err := walk("MakeRoot", "", true, 0); err != nil {
		return err
	}
	seenC := map[string]bool{}
	var cq []string
	for _, c := range cmds {
		if seenC[c.path] {
			return fmt.Errorf("command path %q built twice", c.path)
		}
		seenC[c.path] = true
		cq = append(cq, fmt.Sprintf("(%q, %q, %q, %q, %q)", c.path, c.parent, c.ctor, c.preRun, c.run))
	}
	w.Line("/-- (command path, parent path, constructor, PersistentPreRunE, RunE) in construction order; the root has path \"\" -/")
	w.Line("def commands : List (String × String × String × String × String) :=\n  [%s]", strings.Join(cq, ",\n   "))
	seenF := map[string]bool{}
	var fq []string
	for _, f := range flags {
		k := f.owner + "/" + f.name
		if seenF[k] {
			return fmt.Errorf("flag --%s registered twice on %q", f.name, f.owner)
		}
		seenF[k] = true
		fq = append(fq, fmt.Sprintf("(%q, %q, %q, %q, %q, %q)", f.owner, f.scope, f.name, f.kind, f.dflt, f.dest))
	}
	w.Line("/-- (command the flag is defined on, scope, flag, pflag type, default as written, destination) in registration order -/")
	w.Line("def flags : List (String × String × String × String × String × String) :=\n  [%s]", strings.Join(fq, ",\n   "))
	w.Line("def traverseRunHooks : Bool := %v", traverse)

	// ---- init(): the shipped RootCmd
	ini := find("", "init")
	if ini == nil {
		return fmt.Errorf("init not found in root.go")
	}
	var pq []string
	var prodPre, traverseChildren string
	for _, st := range ini.Body.List {
		switch s := st.(type) {
		case *ast.ExprStmt:
			call, ok := s.X.(*ast.CallExpr)
			if !ok {
				continue
			}
			if method, ok := cliIsFlagSetCall(call); ok {
				fun := rpExpr(call.Fun)
				if !strings.HasPrefix(fun, "RootCmd.PersistentFlags()") || !strings.HasSuffix(method, "Var") || len(call.Args) != 4 {
					return fmt.Errorf("init: unrecognised flag registration %s", fun)
				}
				name, _ := cliStrLit(call.Args[1])
				pq = append(pq, fmt.Sprintf("(%q, %q, %q, %q, %q, %q)", "", "persistent", name, strings.TrimSuffix(method, "Var"), rpExpr(call.Args[2]), "init."+strings.TrimPrefix(rpExpr(call.Args[0]), "&")))
			}
		case *ast.AssignStmt:
			if len(s.Lhs) == 1 {
				switch rpExpr(s.Lhs[0]) {
				case "RootCmd.PersistentPreRun":
					if fl, ok := s.Rhs[0].(*ast.FuncLit); ok {
						var q []string
						for _, x := range fl.Body.List {
							q = append(q, rpSkeleton(x))
						}
						prodPre = strings.Join(q, "; ")
					}
				case "RootCmd.TraverseChildren":
					traverseChildren = rpExpr(s.Rhs[0])
				}
			}
		}
	}
	if len(pq) == 0 || prodPre == "" {
		return fmt.Errorf("init: flags / PersistentPreRun of RootCmd not recognised")
	}
	w.Line("/-- the flags init() adds to the shipped RootCmd -/")
	w.Line("def prodRootFlags : List (String × String × String × String × String × String) :=\n  [%s]", strings.Join(pq, ",\n   "))
	w.Line("def prodRootPreRun : String := %q", prodPre)
	w.Line("def prodTraverseChildren : String := %q", traverseChildren)

	// ---- statement skeletons
	type fn struct{ lean, recv, name string }
	fns := []fn{
		{"readProtoSteps", "", "ReadProto"},
		{"rootOfTrustSteps", "", "rootOfTrust"},
		{"verifyPreRunSteps", "verifyCommand", "persistentPreRunE"},
		{"verifyRunSteps", "verifyCommand", "runE"},
		{"sevPreRunSteps", "sevCommand", "persistentPreRunE"},
		{"sevPolicyPreRunSteps", "sevPolicyCommand", "persistentPreRunE"},
		{"sevPolicyRunSteps", "sevPolicyCommand", "runE"},
		{"sevValidatePreRunSteps", "sevValidateCommand", "persistentPreRunE"},
		{"sevValidateRunSteps", "sevValidateCommand", "runE"},
		{"tdxPreRunSteps", "tdxCommand", "persistentPreRunE"},
		{"tdxPolicyPreRunSteps", "tdxPolicyCommand", "persistentPreRunE"},
		{"tdxPolicyRunSteps", "tdxPolicyCommand", "runE"},
		{"tdxValidatePreRunSteps", "tdxValidateCommand", "persistentPreRunE"},
		{"tdxValidateRunSteps", "tdxValidateCommand", "runE"},
	}
	var wiring []string
	for _, f := range fns {
		fd := find(f.recv, f.name)
		if fd == nil {
			return fmt.Errorf("%s.%s not found", f.recv, f.name)
		}
		w.Line("def %s : List String :=\n  %s", f.lean, rpLeanList(rpSteps(fd)))
		// the options literals of this function
		label := f.name
		if f.recv != "" {
			label = f.recv + "." + f.name
		}
		var werr error
		ast.Inspect(fd.Body, func(x ast.Node) bool {
			u, ok := x.(*ast.UnaryExpr)
			if !ok || u.Op != token.AND {
				return true
			}
			cl, ok := u.X.(*ast.CompositeLit)
			if !ok {
				return true
			}
			t := rpExpr(cl.Type)
			if !strings.HasSuffix(t, "Options") {
				return true
			}
			for _, el := range cl.Elts {
				kv, ok := el.(*ast.KeyValueExpr)
				if !ok {
					werr = fmt.Errorf("%s: positional %s literal", label, t)
					return false
				}
				wiring = append(wiring, fmt.Sprintf("(%q, %q, %q, %q)", label, t, rpExpr(kv.Key), rpExpr(kv.Value)))
			}
			return true
		})
		if werr != nil {
			return werr
		}
	}
	if len(wiring) == 0 {
		return fmt.Errorf("no options literal found in the RunE bodies")
	}
	w.Line("/-- (function, options type, field, expression) for every options literal handed to the library -/")
	w.Line("def wiring : List (String × String × String × String) :=\n  [%s]", strings.Join(wiring, ",\n   "))

	// ParseBytesForm evaluated on the linked function
	var bf []string
	for _, s := range []string{"bin", "hex", "base64", "auto", "textproto", "", "raw", "BIN", "Hex", "guid", "text"} {
		v, err := gcetcbendorsement.ParseBytesForm(s)
		r := "none"
		if err == nil {
			r = fmt.Sprintf("some %d", int(v))
		}
		bf = append(bf, fmt.Sprintf("(%q, %s)", s, r))
	}
	w.Line("/-- gcetcbendorsement.ParseBytesForm(name) as linked: the BytesForm constant, or none for an error -/")
	w.Line("def bytesForms : List (String × Option Nat) := [%s]", strings.Join(bf, ", "))
	w.NatDef("bytesRaw", uint64(gcetcbendorsement.BytesRaw))
	w.NatDef("bytesHex", uint64(gcetcbendorsement.BytesHex))
	w.NatDef("bytesBase64", uint64(gcetcbendorsement.BytesBase64))
	w.NatDef("bytesAuto", uint64(gcetcbendorsement.BytesAuto))
	w.StrDef("defaultRootURL", gcetcbendorsement.DefaultRootURL)
	w.StrDef("defaultRootCmd", gcetcbendorsement.DefaultRootCmd)
	return nil
}
