package main

// C07, event-log half: facts about the event-log / SP800-155 / locator decoders regenerated from the source.
//
// The three packages eventlog, extract/eventlog ("exel", the alias the repository uses) and extract are
// type-checked from source (go/types; dependencies through the export data `go list -export` reports).
//
// SCOPE.  The functions in scope are computed, not listed: everything in the three packages that is
// reachable in the static call graph from the roots below.  A call through an interface or a function value
// is resolved by NAME to every method of that name declared in the three packages (over-approximation).
// Calls into other packages of the repository module are not followed but listed (`externalCalls`).
//
// Gen/PanicSitesEvl.lean
//   funcs          the functions in scope, in (package, file, source) order
//   sites          the panic-capable expressions of those functions, keyed (function, ordinal within the
//                  function in source order starting at 1, kind) with the normalised expression text:
//                    index     x[i] on a slice, array, pointer to array or string   (map reads are total)
//                    mapwrite  m[k] = v
//                    slice     x[a:b], x[a:], x[:b], x[a:b:c]
//                    make      make(T, n…) with a non-constant size
//                    append    append(…) inside a for / range loop (unbounded growth is the loop's matter)
//                    grow      (*bytes.Buffer).Grow / slices.Grow
//                    assert    x.(T) without `, ok` and outside a type switch
//                    conv      integer conversion to a type that cannot represent every value of the operand
//                    deref     an explicit *p; p.f where p is a pointer and f a field — except when p is the
//                              method's receiver (a method called on a nil receiver is the caller's error) or a
//                              local bound exactly once, to &T{…} or new(T)
//                    icall     a call through an interface value, a type parameter or a function value
//                              (panics when the value is nil)
//                    div       integer / or % with a non-constant divisor
//                  Function literals are functions of their own: Outer$1, Outer$2, …
//   externalCalls  (function, callee) for calls into other packages of the repository module
//
// Gen/EvlConsts.lean
//   allocs         (function, expression, bytes) for every &T{…} / new(T) in scope, T's size by go/types'
//                  gc/amd64 sizes, cross-checked against unsafe.Sizeof in the linked package for exported T
//                  (bytes.NewBuffer and its like count as allocations of the pointee)
//   maxPrealloc, eventSignatureSize
//   readExactShape the printed body of eventlog.readExact, one entry per line (first-buffer cap, doubling rule)
//   sizePrefixWidths  (function, bytes) for the local `size` a length prefix is read into
//   fixedFields    (struct, field, bytes) for the fixed-width fields of the two PCR event structures
//   localArrays    (function, variable, length) for local arrays in scope (the EFI_GUID scratch)
//   eventFactoryKeys / eventFactoryKeyBytes / eventFactoryTypes / eventFactoriesUses
//                  the registry of TCGEventData.Unmarshal: keys evaluated, the type each factory allocates with its
//                  size, and every use of the registry in a function of the package
//   libCalls       (function, callee, call sites) for the calls that leave the three packages
//   stringConvs    the []byte <-> string conversions in scope
//   guards         (function, text) for every if-condition other than a bare `err != nil`, every for-condition
//                  and every range operand in scope: the control skeleton the model mirrors
//
// Nothing is defaulted: an idiom that is not recognised is an error, the table is then not emitted and the
// obligations that depend on it do not build.

import (
	"bytes"
	"encoding/hex"
	"fmt"
	"go/ast"
	"go/constant"
	"go/importer"
	"go/parser"
	"go/printer"
	"go/token"
	"go/types"
	"io"
	"os"
	"path/filepath"
	"runtime"
	"sort"
	"strings"
	"unsafe"

	"github.com/google/gce-tcb-verifier/eventlog"
)

func init() {
	register("PanicSitesEvl", extractPanicSitesEvl)
	register("EvlConsts", extractEvlConsts)
}

const xc07evlMod = "github.com/google/gce-tcb-verifier/"

// the packages in scope: directory, short name used in the keys
var xc07evlPkgs = []struct{ dir, short string }{
	{"eventlog", "eventlog"},
	{"extract/eventlog", "exel"},
	{"extract", "extract"},
}

// the roots of the reachability computation (short names)
var xc07evlRoots = []string{
	"eventlog.CryptoAgileLog.Unmarshal", "eventlog.TCGPCREvent2.Unmarshal", "eventlog.TCGPCClientPCREvent.Unmarshal",
	"eventlog.TCGEventData.Unmarshal", "eventlog.SP800155Event3.UnmarshalFromBytes", "eventlog.UnknownEvent.UnmarshalFromBytes",
	"eventlog.TaggedDigest.Unmarshal", "eventlog.Uint32SizedArrayT.Unmarshal", "eventlog.Uint32SizedArray.Unmarshal",
	"eventlog.ByteSizedCStr.Unmarshal", "eventlog.EfiGUID.Unmarshal", "eventlog.readExact", "eventlog.readSizedArray",
	"exel.variableLocatorDecode", "exel.ucs2toUTF8", "exel.EfiVarFSReader.ReadVariable", "exel.Locate",
	"exel.RIMEventsFromEventLog", "extract.elFromFile", "extract.Options.fromEventLog",
}

type xc07evlFunc struct {
	name  string // short name: pkg.Recv.Name
	short string // package short name
	decl  *ast.FuncDecl
	info  *types.Info
	pkg   *types.Package
	order int
}

type xc07evlWorld struct {
	fset    *token.FileSet
	funcs   []*xc07evlFunc          // every function of the three packages, in order
	byName  map[string]*xc07evlFunc // short name
	byFull  map[string]*xc07evlFunc // types.Func.FullName of the origin
	methods map[string][]*xc07evlFunc
	pkgs    map[string]*types.Package // short -> package
	infos   map[string]*types.Info
	files   map[string][]*ast.File
	scope   []*xc07evlFunc // reachable from the roots, in order
	ext     [][2]string
}

var (
	xc07evlCached *xc07evlWorld
	xc07evlErr    error
	xc07evlRepo   string
)

func xc07evlLoad(repo string) (*xc07evlWorld, error) {
	if xc07evlRepo == repo && (xc07evlCached != nil || xc07evlErr != nil) {
		return xc07evlCached, xc07evlErr
	}
	xc07evlRepo = repo
	xc07evlCached, xc07evlErr = xc07evlLoad1(repo)
	return xc07evlCached, xc07evlErr
}

func xc07evlLoad1(repo string) (*xc07evlWorld, error) {
	exports := map[string]string{}
	if err := xc07Exports(repo, []string{"./eventlog", "./extract/eventlog", "./extract"}, exports); err != nil {
		return nil, err
	}
	wd := &xc07evlWorld{fset: token.NewFileSet(), byName: map[string]*xc07evlFunc{}, byFull: map[string]*xc07evlFunc{},
		methods: map[string][]*xc07evlFunc{}, pkgs: map[string]*types.Package{}, infos: map[string]*types.Info{}, files: map[string][]*ast.File{}}
	imp := importer.ForCompiler(wd.fset, "gc", func(path string) (io.ReadCloser, error) {
		f, ok := exports[path]
		if !ok {
			return nil, fmt.Errorf("no export data for %s", path)
		}
		return os.Open(f)
	})
	for _, p := range xc07evlPkgs {
		dir := filepath.Join(repo, p.dir)
		ents, err := os.ReadDir(dir)
		if err != nil {
			return nil, err
		}
		var names []string
		for _, e := range ents {
			n := e.Name()
			if strings.HasSuffix(n, ".go") && !strings.HasSuffix(n, "_test.go") && !strings.HasPrefix(n, "export_verif") {
				names = append(names, n)
			}
		}
		sort.Strings(names)
		var files []*ast.File
		for _, n := range names {
			f, err := parser.ParseFile(wd.fset, filepath.Join(dir, n), nil, parser.SkipObjectResolution)
			if err != nil {
				return nil, err
			}
			files = append(files, f)
		}
		info := &types.Info{Types: map[ast.Expr]types.TypeAndValue{}, Selections: map[*ast.SelectorExpr]*types.Selection{},
			Uses: map[*ast.Ident]types.Object{}, Defs: map[*ast.Ident]types.Object{}}
		var terrs []string
		conf := types.Config{Importer: imp, Error: func(err error) { terrs = append(terrs, err.Error()) }}
		pkg, _ := conf.Check(xc07evlMod+p.dir, wd.fset, files, info)
		if len(terrs) != 0 {
			return nil, fmt.Errorf("type-checking %s: %s", p.dir, terrs[0])
		}
		wd.pkgs[p.short], wd.infos[p.short], wd.files[p.short] = pkg, info, files
		for _, f := range files {
			for _, d := range f.Decls {
				fd, ok := d.(*ast.FuncDecl)
				if !ok || fd.Body == nil {
					continue
				}
				name := fd.Name.Name
				if fd.Recv != nil && len(fd.Recv.List) == 1 {
					name = xc07RecvName(fd.Recv.List[0].Type) + "." + name
				}
				fn := &xc07evlFunc{name: p.short + "." + name, short: p.short, decl: fd, info: info, pkg: pkg, order: len(wd.funcs)}
				wd.funcs = append(wd.funcs, fn)
				wd.byName[fn.name] = fn
				if obj, ok := info.Defs[fd.Name].(*types.Func); ok {
					wd.byFull[obj.FullName()] = fn
				}
				if fd.Recv != nil {
					wd.methods[fd.Name.Name] = append(wd.methods[fd.Name.Name], fn)
				}
			}
		}
	}
	// reachability
	seen := map[*xc07evlFunc]bool{}
	var work []*xc07evlFunc
	for _, r := range xc07evlRoots {
		fn := wd.byName[r]
		if fn == nil {
			return nil, fmt.Errorf("root %s not found in the source", r)
		}
		if !seen[fn] {
			seen[fn] = true
			work = append(work, fn)
		}
	}
	extSeen := map[[2]string]bool{}
	for len(work) > 0 {
		fn := work[len(work)-1]
		work = work[:len(work)-1]
		ast.Inspect(fn.decl.Body, func(n ast.Node) bool {
			call, ok := n.(*ast.CallExpr)
			if !ok {
				return true
			}
			var targets []*xc07evlFunc
			fun := ast.Unparen(call.Fun)
			if ix, ok := fun.(*ast.IndexExpr); ok { // explicit instantiation
				fun = ix.X
			}
			var obj types.Object
			dynamic := false
			switch f := fun.(type) {
			case *ast.Ident:
				obj = fn.info.Uses[f]
			case *ast.SelectorExpr:
				if sel := fn.info.Selections[f]; sel != nil {
					obj = sel.Obj()
					if _, isIface := sel.Recv().Underlying().(*types.Interface); isIface {
						dynamic = true
					}
					if _, isTP := sel.Recv().(*types.TypeParam); isTP {
						dynamic = true
					}
				} else {
					obj = fn.info.Uses[f.Sel]
				}
			}
			switch o := obj.(type) {
			case *types.Func:
				if dynamic {
					targets = wd.methods[o.Name()]
				} else if t := wd.byFull[o.Origin().FullName()]; t != nil {
					targets = []*xc07evlFunc{t}
				} else if o.Pkg() != nil && strings.HasPrefix(o.Pkg().Path(), xc07evlMod) {
					k := [2]string{fn.name, o.Pkg().Name() + "." + strings.TrimPrefix(strings.TrimPrefix(o.Origin().FullName(), o.Pkg().Path()+"."), "(*"+o.Pkg().Path()+".")}
					if !extSeen[k] {
						extSeen[k] = true
						wd.ext = append(wd.ext, k)
					}
				}
			case *types.Var:
				// a call of a function value (factory()): nothing to follow by name; function literals in
				// scope are walked with the function that contains them
			}
			for _, t := range targets {
				if !seen[t] {
					seen[t] = true
					work = append(work, t)
				}
			}
			return true
		})
	}
	for _, fn := range wd.funcs {
		if seen[fn] {
			wd.scope = append(wd.scope, fn)
		}
	}
	sort.Slice(wd.ext, func(i, j int) bool {
		a, b := wd.byName[wd.ext[i][0]], wd.byName[wd.ext[j][0]]
		if a.order != b.order {
			return a.order < b.order
		}
		return wd.ext[i][1] < wd.ext[j][1]
	})
	return wd, nil
}

// ---- sites ----

type xc07evlWalker struct {
	info     *types.Info
	fn       string
	sites    []xc07Site
	nlit     int
	commaOk  map[ast.Expr]bool
	inSwitch map[ast.Expr]bool
	mapLHS   map[ast.Expr]bool
	recv     types.Object          // the receiver variable of the method being walked
	fresh    map[types.Object]bool // locals bound once, to &T{…} or new(T)
}

func xc07evlText(e ast.Expr) string {
	return strings.Join(strings.Fields(types.ExprString(e)), " ")
}

func (x *xc07evlWalker) add(kind string, e ast.Expr) {
	x.sites = append(x.sites, xc07Site{x.fn, len(x.sites) + 1, kind, xc07evlText(e)})
}

func (x *xc07evlWalker) typeOf(e ast.Expr) types.Type {
	if tv, ok := x.info.Types[e]; ok && tv.Type != nil {
		return tv.Type
	}
	return nil
}

func (x *xc07evlWalker) walk(body *ast.BlockStmt) {
	x.commaOk, x.inSwitch, x.mapLHS = map[ast.Expr]bool{}, map[ast.Expr]bool{}, map[ast.Expr]bool{}
	var lits []*ast.FuncLit
	// contexts
	ast.Inspect(body, func(n ast.Node) bool {
		switch s := n.(type) {
		case *ast.FuncLit:
			return false
		case *ast.AssignStmt:
			if len(s.Lhs) == 2 && len(s.Rhs) == 1 {
				x.commaOk[ast.Unparen(s.Rhs[0])] = true
			}
			for _, l := range s.Lhs {
				if ie, ok := ast.Unparen(l).(*ast.IndexExpr); ok {
					if t := x.typeOf(ie.X); t != nil {
						if _, isMap := t.Underlying().(*types.Map); isMap {
							x.mapLHS[ie] = true
						}
					}
				}
			}
		case *ast.ValueSpec:
			if len(s.Names) == 2 && len(s.Values) == 1 {
				x.commaOk[ast.Unparen(s.Values[0])] = true
			}
		case *ast.TypeSwitchStmt:
			var e ast.Expr
			switch a := s.Assign.(type) {
			case *ast.AssignStmt:
				e = a.Rhs[0]
			case *ast.ExprStmt:
				e = a.X
			}
			if e != nil {
				x.inSwitch[ast.Unparen(e)] = true
			}
		}
		return true
	})
	var visit func(n ast.Node, inLoop bool)
	visit = func(n ast.Node, inLoop bool) {
		ast.Inspect(n, func(n ast.Node) bool {
			switch e := n.(type) {
			case *ast.FuncLit:
				lits = append(lits, e)
				return false
			case *ast.ForStmt:
				if e.Init != nil {
					visit(e.Init, inLoop)
				}
				if e.Cond != nil {
					visit(e.Cond, true)
				}
				if e.Post != nil {
					visit(e.Post, true)
				}
				visit(e.Body, true)
				return false
			case *ast.RangeStmt:
				visit(e.X, inLoop)
				visit(e.Body, true)
				return false
			case *ast.IndexExpr:
				t := x.typeOf(e.X)
				if t == nil {
					break
				}
				switch u := t.Underlying().(type) {
				case *types.Map:
					if x.mapLHS[e] {
						x.add("mapwrite", e)
					}
				case *types.Slice, *types.Array:
					x.add("index", e)
				case *types.Basic:
					if u.Info()&types.IsString != 0 {
						x.add("index", e)
					}
				case *types.Pointer:
					if _, ok := u.Elem().Underlying().(*types.Array); ok {
						x.add("index", e)
					}
				}
			case *ast.SliceExpr:
				x.add("slice", e)
			case *ast.TypeAssertExpr:
				if e.Type != nil && !x.commaOk[e] && !x.inSwitch[e] {
					x.add("assert", e)
				}
			case *ast.StarExpr:
				if tv, ok := x.info.Types[e]; ok && tv.IsValue() {
					x.add("deref", e)
				}
			case *ast.SelectorExpr:
				if sel := x.info.Selections[e]; sel != nil && sel.Kind() == types.FieldVal {
					_, recvIsPtr := sel.Recv().Underlying().(*types.Pointer)
					if recvIsPtr || sel.Indirect() {
						if id, ok := ast.Unparen(e.X).(*ast.Ident); ok {
							if obj := x.info.Uses[id]; obj != nil && (obj == x.recv || x.fresh[obj]) {
								break
							}
						}
						x.add("deref", e)
					}
				}
			case *ast.BinaryExpr:
				if e.Op == token.QUO || e.Op == token.REM {
					if t := x.typeOf(e); t != nil {
						if b, ok := t.Underlying().(*types.Basic); ok && b.Info()&types.IsInteger != 0 && x.info.Types[e.Y].Value == nil {
							x.add("div", e)
						}
					}
				}
			case *ast.AssignStmt:
				if e.Tok == token.QUO_ASSIGN || e.Tok == token.REM_ASSIGN {
					if t := x.typeOf(e.Lhs[0]); t != nil {
						if b, ok := t.Underlying().(*types.Basic); ok && b.Info()&types.IsInteger != 0 && x.info.Types[e.Rhs[0]].Value == nil {
							x.add("div", e.Rhs[0])
						}
					}
				}
			case *ast.CallExpr:
				fun := ast.Unparen(e.Fun)
				if id, ok := fun.(*ast.Ident); ok {
					if b, ok := x.info.Uses[id].(*types.Builtin); ok {
						switch b.Name() {
						case "make":
							for _, a := range e.Args[1:] {
								if x.info.Types[a].Value == nil {
									x.add("make", e)
									break
								}
							}
						case "append":
							if inLoop {
								x.add("append", e)
							}
						}
					}
				}
				if se, ok := fun.(*ast.SelectorExpr); ok && se.Sel.Name == "Grow" {
					x.add("grow", e)
				}
				switch f := fun.(type) {
				case *ast.SelectorExpr:
					if sel := x.info.Selections[f]; sel != nil && sel.Kind() == types.MethodVal {
						_, isIface := sel.Recv().Underlying().(*types.Interface) // type parameters included
						if isIface {
							x.add("icall", f)
						}
					} else if sel != nil && sel.Kind() == types.FieldVal {
						x.add("icall", f) // a field of function type
					}
				case *ast.Ident:
					if v, ok := x.info.Uses[f].(*types.Var); ok {
						if _, isSig := v.Type().Underlying().(*types.Signature); isSig {
							x.add("icall", f)
						}
					}
				}
				if tv, ok := x.info.Types[fun]; ok && tv.IsType() && len(e.Args) == 1 {
					ts, tb, tok := xc07IntRange(tv.Type)
					at := x.typeOf(e.Args[0])
					if tok && at != nil && x.info.Types[e.Args[0]].Value == nil {
						if as, ab, aok := xc07IntRange(at); aok {
							if !((as == ts && ab <= tb) || (!as && ts && ab < tb)) {
								x.add("conv", e)
							}
						}
					}
				}
			}
			return true
		})
	}
	visit(body, false)
	for _, l := range lits {
		x.nlit++
		sub := &xc07evlWalker{info: x.info, fn: fmt.Sprintf("%s$%d", x.fn, x.nlit), recv: x.recv, fresh: x.fresh}
		sub.walk(l.Body)
		x.sites = append(x.sites, sub.sites...)
	}
}

func xc07evlPairs(w *leanWriter, name, doc string, ps [][2]string) {
	w.Line("/-- %s -/", doc)
	w.Line("def %s : List (String × String) := [", name)
	for i, p := range ps {
		sep := ","
		if i == len(ps)-1 {
			sep = ""
		}
		w.Line("  (%q, %q)%s", p[0], p[1], sep)
	}
	w.Line("]")
}

func extractPanicSitesEvl(repo string, w *leanWriter) error {
	wd, err := xc07evlLoad(repo)
	if err != nil {
		return err
	}
	w.Line("/-- the functions reachable from the decoder entry points, in (package, file, source) order -/")
	w.Line("def funcs : List String := [")
	for i, fn := range wd.scope {
		sep := ","
		if i == len(wd.scope)-1 {
			sep = ""
		}
		w.Line("  %q%s", fn.name, sep)
	}
	w.Line("]")
	var all []xc07Site
	for _, fn := range wd.scope {
		x := &xc07evlWalker{info: fn.info, fn: fn.name}
		if fn.decl.Recv != nil && len(fn.decl.Recv.List) == 1 && len(fn.decl.Recv.List[0].Names) == 1 {
			x.recv = fn.info.Defs[fn.decl.Recv.List[0].Names[0]]
		}
		// the locals that cannot be nil (the rule of PanicSitesDec)
		fw := &xc07Walker{info: fn.info}
		fw.findFresh(fn.decl.Body)
		x.fresh = fw.fresh
		x.walk(fn.decl.Body)
		all = append(all, x.sites...)
	}
	if len(all) == 0 {
		return fmt.Errorf("no sites found")
	}
	w.Line("/-- (function, ordinal within the function in source order, kind, expression) -/")
	w.Line("def sites : List (String × Nat × String × String) := [")
	for i, s := range all {
		sep := ","
		if i == len(all)-1 {
			sep = ""
		}
		w.Line("  (%q, %d, %q, %q)%s", s.fn, s.ord, s.kind, s.text, sep)
	}
	w.Line("]")
	xc07evlPairs(w, "externalCalls", "(function, callee) for calls into other packages of the repository module (not followed)", wd.ext)
	return nil
}

// ---- constants ----

// exported structures the decoders allocate: unsafe.Sizeof in the linked package (cross-check of go/types)
var xc07evlLinkedSizes = map[string]uintptr{
	"eventlog.TCGPCREvent2":     unsafe.Sizeof(eventlog.TCGPCREvent2{}),
	"eventlog.TaggedDigest":     unsafe.Sizeof(eventlog.TaggedDigest{}),
	"eventlog.SP800155Event3":   unsafe.Sizeof(eventlog.SP800155Event3{}),
	"eventlog.UnknownEvent":     unsafe.Sizeof(eventlog.UnknownEvent{}),
	"eventlog.ByteSizedCStr":    unsafe.Sizeof(eventlog.ByteSizedCStr{}),
	"eventlog.Uint32SizedArray": unsafe.Sizeof(eventlog.Uint32SizedArray{}),
	"eventlog.EfiGUID":          unsafe.Sizeof(eventlog.EfiGUID{}),
	"eventlog.CryptoAgileLog":   unsafe.Sizeof(eventlog.CryptoAgileLog{}),
	"bytes.Buffer":              unsafe.Sizeof(bytes.Buffer{}),
}

func xc07evlPrintLines(fset *token.FileSet, n ast.Node) ([]string, error) {
	var buf bytes.Buffer
	if err := (&printer.Config{Mode: printer.RawFormat}).Fprint(&buf, fset, n); err != nil {
		return nil, err
	}
	var out []string
	for _, l := range strings.Split(buf.String(), "\n") {
		if l = strings.Join(strings.Fields(l), " "); l != "" {
			out = append(out, l)
		}
	}
	return out, nil
}

// xc07evlBytesOf evaluates an expression denoting a constant byte string: X[:] / X where X is a package-level
// variable initialised by an array or slice literal of constants.
func xc07evlBytesOf(wd *xc07evlWorld, short string, e ast.Expr) ([]byte, error) {
	e = ast.Unparen(e)
	if se, ok := e.(*ast.SliceExpr); ok && se.Low == nil && se.High == nil && se.Max == nil {
		e = ast.Unparen(se.X)
	}
	info := wd.infos[short]
	// []byte("constant")
	if call, ok := e.(*ast.CallExpr); ok && len(call.Args) == 1 {
		if tv, ok := info.Types[call.Fun]; ok && tv.IsType() {
			if av := info.Types[call.Args[0]]; av.Value != nil && av.Value.Kind() == constant.String {
				return []byte(constant.StringVal(av.Value)), nil
			}
		}
	}
	id, ok := e.(*ast.Ident)
	if !ok {
		return nil, fmt.Errorf("byte string %s not recognised", xc07evlText(e))
	}
	for _, f := range wd.files[short] {
		for _, d := range f.Decls {
			gd, ok := d.(*ast.GenDecl)
			if !ok || gd.Tok != token.VAR {
				continue
			}
			for _, s := range gd.Specs {
				vs := s.(*ast.ValueSpec)
				for i, n := range vs.Names {
					if n.Name != id.Name || i >= len(vs.Values) {
						continue
					}
					cl, ok := vs.Values[i].(*ast.CompositeLit)
					if !ok {
						return nil, fmt.Errorf("%s is not initialised by a literal", id.Name)
					}
					var out []byte
					for _, el := range cl.Elts {
						tv := info.Types[el]
						if tv.Value == nil {
							return nil, fmt.Errorf("%s has a non-constant element", id.Name)
						}
						v, ok := constant.Uint64Val(constant.ToInt(tv.Value))
						if !ok || v > 255 {
							return nil, fmt.Errorf("%s has a non-byte element", id.Name)
						}
						out = append(out, byte(v))
					}
					return out, nil
				}
			}
		}
	}
	return nil, fmt.Errorf("variable %s not found", id.Name)
}

func extractEvlConsts(repo string, w *leanWriter) error {
	if runtime.GOARCH != "amd64" && runtime.GOARCH != "arm64" {
		return fmt.Errorf("the linked cross-check of struct sizes needs a 64-bit host (GOARCH=%s)", runtime.GOARCH)
	}
	wd, err := xc07evlLoad(repo)
	if err != nil {
		return err
	}
	sizes := types.SizesFor("gc", "amd64")
	elPkg, elInfo := wd.pkgs["eventlog"], wd.infos["eventlog"]

	// allocations: &T{…} and new(T) in scope
	type alloc struct {
		fn, text string
		size     int64
	}
	var allocs []alloc
	for _, fn := range wd.scope {
		var ferr error
		ast.Inspect(fn.decl.Body, func(n ast.Node) bool {
			var t types.Type
			var e ast.Expr
			switch v := n.(type) {
			case *ast.UnaryExpr:
				if cl, ok := ast.Unparen(v.X).(*ast.CompositeLit); ok && v.Op == token.AND {
					t, e = fn.info.Types[cl].Type, v
				}
			case *ast.CallExpr:
				if id, ok := v.Fun.(*ast.Ident); ok {
					if b, ok := fn.info.Uses[id].(*types.Builtin); ok && b.Name() == "new" {
						t, e = fn.info.Types[v.Args[0]].Type, v
					}
				}
				// constructors of the standard library's in-memory readers: the pointee is allocated
				switch xc07evlText(v.Fun) {
				case "bytes.NewBuffer", "bytes.NewBufferString", "bytes.NewReader", "strings.NewReader":
					if pt, ok := fn.info.Types[v].Type.(*types.Pointer); ok {
						t, e = pt.Elem(), v
					}
				}
			}
			if t == nil {
				return true
			}
			if _, isTP := t.(*types.TypeParam); isTP || strings.Contains(t.String(), "[T]") {
				// generic receiver type: the size does not depend on T for the types in this package (one slice header)
				if n, ok := t.(*types.Named); ok {
					t = n.Origin()
				}
			}
			sz := sizes.Sizeof(t)
			key := types.TypeString(t, func(p *types.Package) string { return p.Name() })
			if lv, ok := xc07evlLinkedSizes[key]; ok && int64(lv) != sz {
				ferr = fmt.Errorf("sizeof %s: go/types says %d, the linked package %d", key, sz, lv)
			}
			allocs = append(allocs, alloc{fn.name, xc07evlText(e), sz})
			return true
		})
		if ferr != nil {
			return ferr
		}
	}
	w.Line("/-- (function, expression, bytes allocated) for every &T{…} / new(T) in scope (go/types gc/amd64 sizes) -/")
	w.Line("def allocs : List (String × String × Nat) := [")
	for i, a := range allocs {
		sep := ","
		if i == len(allocs)-1 {
			sep = ""
		}
		w.Line("  (%q, %q, %d)%s", a.fn, a.text, a.size, sep)
	}
	w.Line("]")

	// constants
	cval := func(name string) (uint64, error) {
		c, ok := elPkg.Scope().Lookup(name).(*types.Const)
		if !ok {
			return 0, fmt.Errorf("constant eventlog.%s not found", name)
		}
		v, ok := constant.Uint64Val(constant.ToInt(c.Val()))
		if !ok {
			return 0, fmt.Errorf("constant eventlog.%s is not an unsigned integer", name)
		}
		return v, nil
	}
	for _, n := range [][2]string{{"maxPrealloc", "maxPrealloc"}, {"eventSignatureSize", "EventSignatureSize"}} {
		v, err := cval(n[1])
		if err != nil {
			return err
		}
		w.NatDef(n[0], v)
	}

	// readExact
	re := wd.byName["eventlog.readExact"]
	lines, err := xc07evlPrintLines(wd.fset, re.decl.Body)
	if err != nil {
		return err
	}
	w.Line("/-- the body of eventlog.readExact as printed by go/printer, one entry per line -/")
	w.Line("def readExactShape : List String := [")
	for i, l := range lines {
		sep := ","
		if i == len(lines)-1 {
			sep = ""
		}
		w.Line("  %q%s", l, sep)
	}
	w.Line("]")

	// size prefixes: the local `size` of each reader
	w.Line("/-- (function, width in bytes) of the local `size` a length prefix or count is read into -/")
	var pw []string
	for _, fn := range wd.scope {
		if fn.short != "eventlog" {
			continue
		}
		ast.Inspect(fn.decl.Body, func(n ast.Node) bool {
			as, ok := n.(*ast.AssignStmt)
			if !ok || as.Tok != token.DEFINE || len(as.Lhs) != 1 {
				return true
			}
			id, ok := as.Lhs[0].(*ast.Ident)
			if !ok || id.Name != "size" {
				return true
			}
			if obj := fn.info.Defs[id]; obj != nil {
				pw = append(pw, fmt.Sprintf("(%q, %d)", fn.name, sizes.Sizeof(obj.Type())))
			}
			return true
		})
	}
	w.Line("def sizePrefixWidths : List (String × Nat) := [%s]", strings.Join(pw, ", "))

	// fixed-width fields of the PCR event structures
	var ff []string
	for _, sn := range []string{"TCGPCClientPCREvent", "TCGPCREvent2"} {
		tn, ok := elPkg.Scope().Lookup(sn).(*types.TypeName)
		if !ok {
			return fmt.Errorf("type eventlog.%s not found", sn)
		}
		st, ok := tn.Type().Underlying().(*types.Struct)
		if !ok {
			return fmt.Errorf("eventlog.%s is not a struct", sn)
		}
		for i := 0; i < st.NumFields(); i++ {
			f := st.Field(i)
			switch u := f.Type().Underlying().(type) {
			case *types.Basic:
				ff = append(ff, fmt.Sprintf("(%q, %q, %d)", sn, f.Name(), sizes.Sizeof(u)))
			case *types.Array:
				ff = append(ff, fmt.Sprintf("(%q, %q, %d)", sn, f.Name(), sizes.Sizeof(u)))
			default:
				ff = append(ff, fmt.Sprintf("(%q, %q, 0)", sn, f.Name()+":"+types.TypeString(f.Type(), func(*types.Package) string { return "" })))
			}
		}
	}
	w.Line("/-- (struct, field, bytes) — 0 and field:type for the variable-size fields -/")
	w.Line("def fixedFields : List (String × String × Nat) := [%s]", strings.Join(ff, ", "))

	// local arrays
	var la []string
	for _, fn := range wd.scope {
		ast.Inspect(fn.decl.Body, func(n ast.Node) bool {
			vs, ok := n.(*ast.ValueSpec)
			if !ok {
				return true
			}
			for _, id := range vs.Names {
				if obj := fn.info.Defs[id]; obj != nil {
					if a, ok := obj.Type().Underlying().(*types.Array); ok {
						la = append(la, fmt.Sprintf("(%q, %q, %d)", fn.name, id.Name, a.Len()*sizes.Sizeof(a.Elem())))
					}
				}
			}
			return true
		})
	}
	w.Line("/-- (function, variable, bytes) of the local arrays in scope -/")
	w.Line("def localArrays : List (String × String × Nat) := [%s]", strings.Join(la, ", "))

	// the event factory registry
	var keys, keyBytes, ftypes []string
	found := false
	for _, f := range wd.files["eventlog"] {
		for _, d := range f.Decls {
			gd, ok := d.(*ast.GenDecl)
			if !ok || gd.Tok != token.VAR {
				continue
			}
			for _, s := range gd.Specs {
				vs := s.(*ast.ValueSpec)
				for i, n := range vs.Names {
					if n.Name != "eventFactories" {
						continue
					}
					if i >= len(vs.Values) {
						return fmt.Errorf("eventFactories has no initialiser")
					}
					cl, ok := vs.Values[i].(*ast.CompositeLit)
					if !ok {
						return fmt.Errorf("eventFactories is not initialised by a map literal")
					}
					found = true
					for _, el := range cl.Elts {
						kv, ok := el.(*ast.KeyValueExpr)
						if !ok {
							return fmt.Errorf("eventFactories: element not recognised")
						}
						var key string
						if tv := elInfo.Types[kv.Key]; tv.Value != nil && tv.Value.Kind() == constant.String {
							key = strings.ToLower(constant.StringVal(tv.Value))
						} else if call, ok := ast.Unparen(kv.Key).(*ast.CallExpr); ok && xc07evlText(call.Fun) == "hex.EncodeToString" && len(call.Args) == 1 {
							b, err := xc07evlBytesOf(wd, "eventlog", call.Args[0])
							if err != nil {
								return fmt.Errorf("eventFactories key: %v", err)
							}
							key = hex.EncodeToString(b)
						} else {
							return fmt.Errorf("eventFactories key %s not recognised", xc07evlText(kv.Key))
						}
						keys = append(keys, key)
						kb, err := hex.DecodeString(key)
						if err != nil {
							return fmt.Errorf("eventFactories key %q is not a hex string", key)
						}
						var nums []string
						for _, c := range kb {
							nums = append(nums, fmt.Sprint(c))
						}
						keyBytes = append(keyBytes, "["+strings.Join(nums, ", ")+"]")
						// the factory: func() SerializableFromBytes { return &T{} }
						fl, ok := ast.Unparen(kv.Value).(*ast.FuncLit)
						if !ok || len(fl.Body.List) != 1 {
							return fmt.Errorf("eventFactories value %s not recognised", xc07evlText(kv.Value))
						}
						rs, ok := fl.Body.List[0].(*ast.ReturnStmt)
						if !ok || len(rs.Results) != 1 {
							return fmt.Errorf("eventFactories value %s not recognised", xc07evlText(kv.Value))
						}
						rt := elInfo.Types[rs.Results[0]].Type
						pt, ok := rt.(*types.Pointer)
						if !ok {
							return fmt.Errorf("eventFactories value %s does not return a pointer", xc07evlText(kv.Value))
						}
						fsz := sizes.Sizeof(pt.Elem())
						fkey := types.TypeString(pt.Elem(), func(p *types.Package) string { return p.Name() })
						if lv, ok := xc07evlLinkedSizes[fkey]; ok && int64(lv) != fsz {
							return fmt.Errorf("sizeof %s: go/types says %d, the linked package %d", fkey, fsz, lv)
						}
						ftypes = append(ftypes, fmt.Sprintf("(%q, %d)", xc07evlText(rs.Results[0]), fsz))
					}
				}
			}
		}
	}
	if !found {
		return fmt.Errorf("eventlog.eventFactories not found")
	}
	w.Line("/-- keys (evaluated) and factories of eventlog.eventFactories, in source order -/")
	emitStrList(w, "eventFactoryKeys", keys)
	w.Line("def eventFactoryKeyBytes : List (List Nat) := [%s]", strings.Join(keyBytes, ", "))
	w.Line("def eventFactoryTypes : List (String × Nat) := [%s]", strings.Join(ftypes, ", "))
	// every other use of the registry in the package (a registration function, an init, a test hook)
	var uses [][2]string
	obj := elPkg.Scope().Lookup("eventFactories")
	for _, fn := range wd.funcs {
		if fn.short != "eventlog" {
			continue
		}
		var stack []ast.Node
		ast.Inspect(fn.decl.Body, func(n ast.Node) bool {
			if n == nil {
				stack = stack[:len(stack)-1]
				return true
			}
			stack = append(stack, n)
			if id, ok := n.(*ast.Ident); ok && fn.info.Uses[id] == obj {
				// the innermost enclosing simple statement
				for i := len(stack) - 1; i >= 0; i-- {
					if st, ok := stack[i].(ast.Stmt); ok {
						ls, _ := xc07evlPrintLines(wd.fset, st)
						t := ""
						if len(ls) > 0 {
							t = ls[0]
						}
						uses = append(uses, [2]string{fn.name, t})
						break
					}
				}
			}
			return true
		})
	}
	xc07evlPairs(w, "eventFactoriesUses", "(function, statement) for every use of eventFactories in a function of the package", uses)

	// calls that leave the three packages (standard library and third-party): what the cost model must account for
	type lc struct {
		fn, callee string
		n          int
	}
	var libCalls []lc
	qual := func(p *types.Package) string { return p.Name() }
	for _, fn := range wd.scope {
		idx := map[string]int{}
		ast.Inspect(fn.decl.Body, func(n ast.Node) bool {
			call, ok := n.(*ast.CallExpr)
			if !ok {
				return true
			}
			fun := ast.Unparen(call.Fun)
			var obj types.Object
			switch f := fun.(type) {
			case *ast.Ident:
				obj = fn.info.Uses[f]
			case *ast.SelectorExpr:
				if sel := fn.info.Selections[f]; sel != nil {
					obj = sel.Obj()
				} else {
					obj = fn.info.Uses[f.Sel]
				}
			}
			o, ok := obj.(*types.Func)
			if !ok || o.Pkg() == nil || wd.byFull[o.Origin().FullName()] != nil {
				return true
			}
			name := o.Pkg().Name() + "." + o.Name()
			if sig, ok := o.Type().(*types.Signature); ok && sig.Recv() != nil {
				rt := sig.Recv().Type()
				if _, isTP := rt.(*types.TypeParam); isTP {
					return true // resolved by name inside the packages
				}
				name = types.TypeString(rt, qual) + "." + o.Name()
				// an interface of the three packages: resolved by name inside the packages
				if strings.HasPrefix(o.Pkg().Path(), xc07evlMod) && len(wd.methods[o.Name()]) > 0 {
					if _, isIface := rt.Underlying().(*types.Interface); isIface {
						return true
					}
				}
			}
			if i, ok := idx[name]; ok {
				libCalls[i].n++
			} else {
				idx[name] = len(libCalls)
				libCalls = append(libCalls, lc{fn.name, name, 1})
			}
			return true
		})
	}
	w.Line("/-- (function, callee, number of call sites) for the calls that leave the three packages -/")
	w.Line("def libCalls : List (String × String × Nat) := [")
	for i, c := range libCalls {
		sep := ","
		if i == len(libCalls)-1 {
			sep = ""
		}
		w.Line("  (%q, %q, %d)%s", c.fn, c.callee, c.n, sep)
	}
	w.Line("]")
	// string(bytes) conversions allocate the string
	var sconv [][2]string
	for _, fn := range wd.scope {
		ast.Inspect(fn.decl.Body, func(n ast.Node) bool {
			call, ok := n.(*ast.CallExpr)
			if !ok || len(call.Args) != 1 {
				return true
			}
			if tv, ok := fn.info.Types[ast.Unparen(call.Fun)]; ok && tv.IsType() {
				tb, ok1 := tv.Type.Underlying().(*types.Basic)
				_, fromSlice := fn.info.Types[call.Args[0]].Type.Underlying().(*types.Slice)
				_, toSlice := tv.Type.Underlying().(*types.Slice)
				ab, ok2 := fn.info.Types[call.Args[0]].Type.Underlying().(*types.Basic)
				if (ok1 && tb.Info()&types.IsString != 0 && fromSlice) || (toSlice && ok2 && ab.Info()&types.IsString != 0) {
					sconv = append(sconv, [2]string{fn.name, xc07evlText(call)})
				}
			}
			return true
		})
	}
	xc07evlPairs(w, "stringConvs", "(function, expression) for the []byte <-> string conversions in scope (each copies its operand)", sconv)

	// guards
	var guards [][2]string
	for _, fn := range wd.scope {
		ast.Inspect(fn.decl.Body, func(n ast.Node) bool {
			switch s := n.(type) {
			case *ast.IfStmt:
				if t := xc07evlText(s.Cond); t != "err != nil" {
					guards = append(guards, [2]string{fn.name, "if " + t})
				}
			case *ast.ForStmt:
				if s.Cond != nil {
					guards = append(guards, [2]string{fn.name, "for " + xc07evlText(s.Cond)})
				} else {
					guards = append(guards, [2]string{fn.name, "for"})
				}
			case *ast.RangeStmt:
				guards = append(guards, [2]string{fn.name, "range " + xc07evlText(s.X)})
			case *ast.SwitchStmt:
				if s.Tag != nil {
					guards = append(guards, [2]string{fn.name, "switch " + xc07evlText(s.Tag)})
				}
			case *ast.CaseClause:
				var cs []string
				for _, e := range s.List {
					cs = append(cs, xc07evlText(e))
				}
				if len(cs) > 0 {
					guards = append(guards, [2]string{fn.name, "case " + strings.Join(cs, ", ")})
				}
			}
			return true
		})
	}
	xc07evlPairs(w, "guards", "(function, condition) — if-conditions other than a bare `err != nil`, for-conditions, range operands, switch tags and cases", guards)
	return nil
}
