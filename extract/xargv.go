package main

// Gen/ArgvFlags.lean: what Model/Argv.lean assumes about how the repository USES cobra and pflag, regenerated from the
// source — the pinned library versions, and a census of the settings that change tokenising or command resolution
// (every non-test Go file of both modules; `export_verif*.go` hooks excluded).  Props/CliArgv.lean states the expected
// census as an obligation: a flag registered with a shorthand (`…VarP`), an `Args:` validator, `TraverseChildren`,
// `DisableFlagParsing`, `SetInterspersed`, a normalisation function, `NoOptDefVal`, prefix matching … changes a count.
// Plus `flagDefs`: one row per flag-defining call (go/ast): defining function, Flags() / PersistentFlags(), name, shorthand,
// kind, NoOptDefVal — Props/CliArgv.lean (C01/C06/C12_argv_flag_defs, …_flag_kinds) holds the trees of Model/ArgvTrees.lean and the
// type columns of the command-line models against them.

import (
	"fmt"
	"go/ast"
	"go/parser"
	"go/token"
	"os"
	"path/filepath"
	"regexp"
	"sort"
	"strconv"
	"strings"
)

func init() { register("ArgvFlags", extractArgvFlags) }

var argvSettings = []struct{ name, re string }{
	{"TraverseChildren", `\bTraverseChildren\b`},
	{"EnableTraverseRunHooks", `\bEnableTraverseRunHooks\b`},
	{"EnablePrefixMatching", `\bEnablePrefixMatching\b`},
	{"EnableCaseInsensitive", `\bEnableCaseInsensitive\b`},
	{"DisableFlagParsing", `\bDisableFlagParsing\b`},
	{"SetInterspersed", `\bSetInterspersed\b`},
	{"FParseErrWhitelist", `\bFParseErrWhitelist\b`},
	{"NormalizeFunc", `\bSet(Global)?Normaliz\w*Func\b`},
	{"NoOptDefVal", `\bNoOptDefVal\b`},
	{"RequiredFlag", `\bMark(Persistent)?FlagRequired\b|\bMarkFlags\w+\b`},
	{"ArgsValidator", `(?m)^\s*Args:\s`},
	{"Aliases", `(?m)^\s*Aliases:\s`},
	{"Version", `(?m)^\s*Version:\s`},
	{"ShorthandDefinition", `\.(Bool|String|Int|Int32|Int64|Uint|Uint32|Uint64|Duration|BytesHex|StringSlice|StringArray|Count|Float64)?(Var)?PF?\(`},
	{"FlagDefinition", `Flags\(\)\.\w*(Var|Bool|String|Uint|Uint32|Uint64|Int|Duration|BytesHex|StringSlice|AddGoFlag)\w*\(|\bflag\.\w*Var\(`},
	{"CompletionOptions", `\bCompletionOptions\b`},
	{"SetHelpCommand", `\bSetHelpCommand\b|\bSetHelpFunc\b|\bSetFlagErrorFunc\b`},
}

func extractArgvFlags(repo string, w *leanWriter) error {
	var files []string
	err := filepath.Walk(repo, func(p string, info os.FileInfo, err error) error {
		if err != nil {
			return err
		}
		if info.IsDir() {
			if strings.HasPrefix(info.Name(), ".") && p != repo {
				return filepath.SkipDir
			}
			return nil
		}
		n := info.Name()
		if strings.HasSuffix(n, ".go") && !strings.HasSuffix(n, "_test.go") && !strings.HasPrefix(n, "export_verif") {
			files = append(files, p)
		}
		return nil
	})
	if err != nil {
		return err
	}
	sort.Strings(files)
	counts := make([]int, len(argvSettings))
	res := make([]*regexp.Regexp, len(argvSettings))
	for i, s := range argvSettings {
		res[i] = regexp.MustCompile(s.re)
	}
	usesCobra := 0
	for _, f := range files {
		b, err := os.ReadFile(f)
		if err != nil {
			return err
		}
		src := string(b)
		if !strings.Contains(src, "spf13/cobra") && !strings.Contains(src, "spf13/pflag") {
			continue
		}
		usesCobra++
		for i := range argvSettings {
			counts[i] += len(res[i].FindAllStringIndex(src, -1))
		}
	}
	if usesCobra == 0 {
		return fmt.Errorf("no Go file imports spf13/cobra")
	}
	var vers []string
	for _, gm := range []string{"go.mod", "gcetcbendorsement/go.mod"} {
		b, err := os.ReadFile(filepath.Join(repo, gm))
		if err != nil {
			return err
		}
		for _, line := range strings.Split(string(b), "\n") {
			line = strings.TrimSpace(line)
			if strings.HasPrefix(line, "github.com/spf13/cobra ") || strings.HasPrefix(line, "github.com/spf13/pflag ") {
				f := strings.Fields(line)
				vers = append(vers, fmt.Sprintf("(%q, %q, %q)", gm, f[0], f[1]))
			}
		}
	}
	if len(vers) != 4 {
		return fmt.Errorf("expected cobra and pflag in both go.mod files, found %d rows", len(vers))
	}
	w.Line("/-- (go.mod, module, version) -/")
	w.Line("def versions : List (String × String × String) := [%s]", strings.Join(vers, ", "))
	var rows []string
	for i, s := range argvSettings {
		rows = append(rows, fmt.Sprintf("(%q, %d)", s.name, counts[i]))
	}
	w.Line("/-- (setting, number of places in the non-test sources that import cobra / pflag) -/")
	w.Line("def settings : List (String × Nat) := [%s]", strings.Join(rows, ", "))
	defs, err := argvFlagDefs(repo, files)
	if err != nil {
		return err
	}
	if len(defs) == 0 {
		return fmt.Errorf("no flag definition found")
	}
	var drows []string
	for _, d := range defs {
		drows = append(drows, fmt.Sprintf("(%q, %q, %q, %q, %q, %q)", d.fn, d.scope, d.name, d.short, d.kind, d.noOpt))
	}
	w.Line("/-- One row per flag DEFINITION in the non-test sources (go/ast; hooks `export_verif*.go` excluded), in source order per")
	w.Line("    function: (defining function `<package dir>.[<receiver>.]<func>` — a same-package helper's definitions (not a constructor's) are ALSO listed under")
	w.Line("    each function that calls the helper —, `local` = through `.Flags()` / `persistent` = through `.PersistentFlags()`,")
	w.Line("    flag name, shorthand (the `…P` variants' argument; \"\" otherwise), kind (pflag's method stem: Bool, String, Uint64, …;")
	w.Line("    `Go:<type>` for `AddGoFlag` of a flag.Flag whose Value is a `<type>`), NoOptDefVal as pflag sets it at definition:")
	w.Line("    \"true\" for Bool and for a Go flag type with an `IsBoolFlag` method, \"\" otherwise). -/")
	w.Line("def flagDefs : List (String × String × String × String × String × String) :=\n  [%s]", strings.Join(drows, ",\n   "))
	return nil
}

type argvFlagDef struct{ fn, scope, name, short, kind, noOpt string }

func argvReturnsCommand(fd *ast.FuncDecl) bool {
	if fd.Type.Results == nil {
		return false
	}
	for _, r := range fd.Type.Results.List {
		if argvTypeName(r.Type) == "cobra.Command" {
			return true
		}
	}
	return false
}

var argvDefMethod = regexp.MustCompile(`^(Bool|String|Int|Int8|Int16|Int32|Int64|Uint|Uint8|Uint16|Uint32|Uint64|Float32|Float64|Duration|BytesHex|BytesBase64|` +
	`StringSlice|StringArray|StringToString|StringToInt|StringToInt64|IntSlice|Int32Slice|Int64Slice|UintSlice|BoolSlice|DurationSlice|Float32Slice|Float64Slice|` +
	`Count|IP|IPSlice|IPMask|IPNet)?(Var)?(P)?$`)

func argvTypeName(e ast.Expr) string {
	switch t := e.(type) {
	case *ast.UnaryExpr:
		return argvTypeName(t.X)
	case *ast.CompositeLit:
		return argvTypeName(t.Type)
	case *ast.StarExpr:
		return argvTypeName(t.X)
	case *ast.Ident:
		return t.Name
	case *ast.SelectorExpr:
		return argvTypeName(t.X) + "." + t.Sel.Name
	case *ast.CallExpr:
		return argvTypeName(t.Fun) + "()"
	}
	return "?"
}

func argvStrLit(e ast.Expr) string {
	if b, ok := e.(*ast.BasicLit); ok && b.Kind == token.STRING {
		if v, err := strconv.Unquote(b.Value); err == nil {
			return v
		}
	}
	return "<expr:" + argvTypeName(e) + ">"
}

// argvLocalType: the type of `id := &T{…}` in body.
func argvLocalType(body *ast.BlockStmt, id string) string {
	typ := "?"
	ast.Inspect(body, func(n ast.Node) bool {
		if as, ok := n.(*ast.AssignStmt); ok && len(as.Lhs) == 1 && len(as.Rhs) == 1 {
			if l, ok := as.Lhs[0].(*ast.Ident); ok && l.Name == id && typ == "?" {
				typ = argvTypeName(as.Rhs[0])
			}
		}
		return true
	})
	return typ
}

// argvGoFlag reads `&flag.Flag{Name: …, Value: &T{…}}` (or `Value: v` with `v := &T{…}` in body): (name expression, type of
// Value).
func argvGoFlag(e ast.Expr, body *ast.BlockStmt) (name ast.Expr, typ string, ok bool) {
	if u, isU := e.(*ast.UnaryExpr); isU {
		e = u.X
	}
	cl, isCl := e.(*ast.CompositeLit)
	if !isCl || argvTypeName(cl.Type) != "flag.Flag" {
		return nil, "", false
	}
	for _, el := range cl.Elts {
		kv, isKv := el.(*ast.KeyValueExpr)
		if !isKv {
			continue
		}
		switch argvTypeName(kv.Key) {
		case "Name":
			name = kv.Value
		case "Value":
			if id, isId := kv.Value.(*ast.Ident); isId && body != nil {
				typ = argvLocalType(body, id.Name)
			} else {
				typ = argvTypeName(kv.Value)
			}
		}
	}
	return name, typ, name != nil
}

// argvFlagDefs walks every function of the given files.
func argvFlagDefs(repo string, files []string) ([]argvFlagDef, error) {
	fset := token.NewFileSet()
	type fnInfo struct {
		name  string
		pkg   string
		decl  *ast.FuncDecl
		order int
	}
	var fns []*fnInfo
	byPkgName := map[string]*fnInfo{} // plain functions: pkg + "." + name
	boolTypes := map[string]bool{}    // pkg + "." + type with an IsBoolFlag method
	for _, f := range files {
		b, err := os.ReadFile(f)
		if err != nil {
			return nil, err
		}
		src := string(b)
		if !strings.Contains(src, "spf13/cobra") && !strings.Contains(src, "spf13/pflag") {
			continue
		}
		af, err := parser.ParseFile(fset, f, b, 0)
		if err != nil {
			return nil, err
		}
		rel, _ := filepath.Rel(repo, filepath.Dir(f))
		rel = filepath.ToSlash(rel)
		for _, d := range af.Decls {
			fd, ok := d.(*ast.FuncDecl)
			if !ok || fd.Body == nil {
				continue
			}
			name := fd.Name.Name
			if fd.Recv != nil && len(fd.Recv.List) == 1 {
				rt := argvTypeName(fd.Recv.List[0].Type)
				if name == "IsBoolFlag" {
					boolTypes[rel+"."+rt] = true
				}
				name = rt + "." + name
			}
			fi := &fnInfo{name: rel + "." + name, pkg: rel, decl: fd, order: len(fns)}
			fns = append(fns, fi)
			if fd.Recv == nil {
				byPkgName[rel+"."+fd.Name.Name] = fi
			}
		}
	}
	noOptOf := func(pkg, kind string) string {
		if kind == "Bool" || (strings.HasPrefix(kind, "Go:") && boolTypes[pkg+"."+strings.TrimPrefix(kind, "Go:")]) {
			return "true"
		}
		return ""
	}
	direct := map[string][]argvFlagDef{}
	callees := map[string][]string{}
	for _, fi := range fns {
		alias := map[string]string{}
		scopeOf := func(x ast.Expr) string {
			switch t := x.(type) {
			case *ast.CallExpr:
				if s, ok := t.Fun.(*ast.SelectorExpr); ok && len(t.Args) == 0 {
					switch s.Sel.Name {
					case "Flags", "LocalFlags", "LocalNonPersistentFlags":
						return "local"
					case "PersistentFlags":
						return "persistent"
					}
				}
			case *ast.Ident:
				return alias[t.Name]
			}
			return ""
		}
		var ferr error
		ast.Inspect(fi.decl.Body, func(n ast.Node) bool {
			switch t := n.(type) {
			case *ast.AssignStmt:
				if len(t.Lhs) == 1 && len(t.Rhs) == 1 {
					if id, ok := t.Lhs[0].(*ast.Ident); ok {
						if sc := scopeOf(t.Rhs[0]); sc != "" {
							alias[id.Name] = sc
						}
					}
				}
			case *ast.CallExpr:
				if id, ok := t.Fun.(*ast.Ident); ok {
					// a helper that defines flags on the command it is GIVEN; a constructor (result *cobra.Command) defines them on
					// the command it makes, and is listed on its own
					if h, known := byPkgName[fi.pkg+"."+id.Name]; known && !argvReturnsCommand(h.decl) {
						callees[fi.name] = append(callees[fi.name], fi.pkg+"."+id.Name)
					}
					return true
				}
				sel, ok := t.Fun.(*ast.SelectorExpr)
				if !ok {
					return true
				}
				sc := scopeOf(sel.X)
				if sc == "" {
					return true
				}
				m := sel.Sel.Name
				if m == "AddGoFlag" && len(t.Args) == 1 {
					arg := t.Args[0]
					var nameE ast.Expr
					var typ string
					if ne, ty, ok := argvGoFlag(arg, fi.decl.Body); ok {
						nameE, typ = ne, ty
					} else if ce, isCall := arg.(*ast.CallExpr); isCall {
						// a same-package helper returning the flag.Flag: its Name is one of its parameters
						if id, isId := ce.Fun.(*ast.Ident); isId {
							if h := byPkgName[fi.pkg+"."+id.Name]; h != nil {
								ast.Inspect(h.decl.Body, func(hn ast.Node) bool {
									if e, isE := hn.(ast.Expr); isE {
										if ne, ty, ok := argvGoFlag(e, h.decl.Body); ok && nameE == nil {
											typ = ty
											if pid, isP := ne.(*ast.Ident); isP {
												k := 0
												for _, fld := range h.decl.Type.Params.List {
													for _, pn := range fld.Names {
														if pn.Name == pid.Name && k < len(ce.Args) {
															nameE = ce.Args[k]
														}
														k++
													}
												}
											} else {
												nameE = ne
											}
										}
									}
									return true
								})
							}
						}
					}
					if nameE == nil {
						ferr = fmt.Errorf("%s: AddGoFlag with an argument the extractor cannot read at %s", fi.name, fset.Position(t.Pos()))
						return true
					}
					kind := "Go:" + typ
					direct[fi.name] = append(direct[fi.name], argvFlagDef{fi.name, sc, argvStrLit(nameE), "", kind, noOptOf(fi.pkg, kind)})
					return true
				}
				mm := argvDefMethod.FindStringSubmatch(m)
				if mm == nil || (mm[1] == "" && mm[2] == "") {
					return true
				}
				kind, isVar, isP := mm[1], mm[2] != "", mm[3] != ""
				ai := 0
				if isVar {
					if kind == "" && len(t.Args) > 0 {
						kind = "Var:" + argvTypeName(t.Args[0])
					}
					ai = 1
				}
				if len(t.Args) <= ai {
					return true
				}
				name := argvStrLit(t.Args[ai])
				short := ""
				if isP {
					if len(t.Args) <= ai+1 {
						return true
					}
					short = argvStrLit(t.Args[ai+1])
				}
				direct[fi.name] = append(direct[fi.name], argvFlagDef{fi.name, sc, name, short, kind, noOptOf(fi.pkg, kind)})
			}
			return true
		})
		if ferr != nil {
			return nil, ferr
		}
	}
	var out []argvFlagDef
	for _, fi := range fns {
		out = append(out, direct[fi.name]...)
		seen := map[string]bool{}
		for _, c := range callees[fi.name] {
			if seen[c] || c == fi.name {
				continue
			}
			seen[c] = true
			for _, d := range direct[c] {
				d.fn = fi.name
				out = append(out, d)
			}
		}
	}
	sort.SliceStable(out, func(a, b int) bool { return out[a].fn < out[b].fn })
	return out, nil
}
