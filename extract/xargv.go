package main

// Gen/ArgvFlags.lean: what Model/Argv.lean assumes about how the repository USES cobra and pflag, regenerated from the
// source — the pinned library versions, and a census of the settings that change tokenising or command resolution
// (every non-test Go file of both modules; `export_verif*.go` hooks excluded).  Props/CliArgv.lean states the expected
// census as an obligation: a flag registered with a shorthand (`…VarP`), an `Args:` validator, `TraverseChildren`,
// `DisableFlagParsing`, `SetInterspersed`, a normalisation function, `NoOptDefVal`, prefix matching … changes a count.

import (
	"fmt"
	"os"
	"path/filepath"
	"regexp"
	"sort"
	"strings"
)

func init() { register("ArgvFlags", extractArgvFlags) }

var argvSettings = []struct{ name, re string }{
	{"TraverseChildren", `\bTraverseChildren\b`},
	{"EnableTraverseRunHooks", `\bEnableTraverseRunHooks\b`},
	{"EnablePrefixMatching", `\bEnablePrefixMatching\b`},
	{"EnableCaseInsensitive", `\bEnableCaseInsensitive\b`},
	{"DisableFlagParsing", `\bDisableFlagParsing\b`},
	{"SetInterspersed", `\bSetInterspersed\b`},
	{"FParseErrWhitelist", `\bFParseErrWhitelist\b`},
	{"NormalizeFunc", `\bSet(Global)?Normaliz\w*Func\b`},
	{"NoOptDefVal", `\bNoOptDefVal\b`},
	{"RequiredFlag", `\bMark(Persistent)?FlagRequired\b|\bMarkFlags\w+\b`},
	{"ArgsValidator", `(?m)^\s*Args:\s`},
	{"Aliases", `(?m)^\s*Aliases:\s`},
	{"Version", `(?m)^\s*Version:\s`},
	{"ShorthandDefinition", `\.(Bool|String|Int|Int32|Int64|Uint|Uint32|Uint64|Duration|BytesHex|StringSlice|StringArray|Count|Float64)?(Var)?PF?\(`},
	{"FlagDefinition", `Flags\(\)\.\w*(Var|Bool|String|Uint|Uint32|Uint64|Int|Duration|BytesHex|StringSlice|AddGoFlag)\w*\(|\bflag\.\w*Var\(`},
	{"CompletionOptions", `\bCompletionOptions\b`},
	{"SetHelpCommand", `\bSetHelpCommand\b|\bSetHelpFunc\b|\bSetFlagErrorFunc\b`},
}

func extractArgvFlags(repo string, w *leanWriter) error {
	var files []string
	err := filepath.Walk(repo, func(p string, info os.FileInfo, err error) error {
		if err != nil {
			return err
		}
		if info.IsDir() {
			if strings.HasPrefix(info.Name(), ".") && p != repo {
				return filepath.SkipDir
			}
			return nil
		}
		n := info.Name()
		if strings.HasSuffix(n, ".go") && !strings.HasSuffix(n, "_test.go") && !strings.HasPrefix(n, "export_verif") {
			files = append(files, p)
		}
		return nil
	})
	if err != nil {
		return err
	}
	sort.Strings(files)
	counts := make([]int, len(argvSettings))
	res := make([]*regexp.Regexp, len(argvSettings))
	for i, s := range argvSettings {
		res[i] = regexp.MustCompile(s.re)
	}
	usesCobra := 0
	for _, f := range files {
		b, err := os.ReadFile(f)
		if err != nil {
			return err
		}
		src := string(b)
		if !strings.Contains(src, "spf13/cobra") && !strings.Contains(src, "spf13/pflag") {
			continue
		}
		usesCobra++
		for i := range argvSettings {
			counts[i] += len(res[i].FindAllStringIndex(src, -1))
		}
	}
	if usesCobra == 0 {
		return fmt.Errorf("no Go file imports spf13/cobra")
	}
	var vers []string
	for _, gm := range []string{"go.mod", "gcetcbendorsement/go.mod"} {
		b, err := os.ReadFile(filepath.Join(repo, gm))
		if err != nil {
			return err
		}
		for _, line := range strings.Split(string(b), "\n") {
			line = strings.TrimSpace(line)
			if strings.HasPrefix(line, "github.com/spf13/cobra ") || strings.HasPrefix(line, "github.com/spf13/pflag ") {
				f := strings.Fields(line)
				vers = append(vers, fmt.Sprintf("(%q, %q, %q)", gm, f[0], f[1]))
			}
		}
	}
	if len(vers) != 4 {
		return fmt.Errorf("expected cobra and pflag in both go.mod files, found %d rows", len(vers))
	}
	w.Line("/-- (go.mod, module, version) -/")
	w.Line("def versions : List (String × String × String) := [%s]", strings.Join(vers, ", "))
	var rows []string
	for i, s := range argvSettings {
		rows = append(rows, fmt.Sprintf("(%q, %d)", s.name, counts[i]))
	}
	w.Line("/-- (setting, number of places in the non-test sources that import cobra / pflag) -/")
	w.Line("def settings : List (String × Nat) := [%s]", strings.Join(rows, ", "))
	return nil
}
