module verif-extract

go 1.20

require (
	github.com/google/gce-tcb-verifier v0.0.0
	github.com/google/gce-tcb-verifier/gcetcbendorsement v0.0.0
)

replace github.com/google/gce-tcb-verifier => /repo

replace github.com/google/gce-tcb-verifier/gcetcbendorsement => /repo/gcetcbendorsement
