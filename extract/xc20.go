package main

// C20 facts (Gen/Kms.lean), regenerated from keys/gcpkms on every run:
//   keyPageSize           const in bootstrap.go (unexported → go/ast)
//   destroyableTable      the switch in keys.go destroyableState (unexported → go/ast); the case labels are
//                         kmspb enum identifiers, turned into numbers with the linked kmspb package
//   allStates, st*        the kmspb CryptoKeyVersionState enum as linked (third-party constants)
//   wantSalt, wantHash    the rsa.PSSOptions composite literal `wantOpts` in sign.go Sign
//   signChecks            the response accessors compared in Sign's `if` statements, in source order
import (
	"crypto"
	"crypto/rsa"
	"fmt"
	"go/ast"
	"go/token"
	"sort"
	"strconv"
	"strings"

	"cloud.google.com/go/kms/apiv1/kmspb"
)

func init() { register("Kms", extractKms) }

func extractKms(repo string, w *leanWriter) error {
	// ---- keyPageSize ----
	_, bf, err := parseFile(repo, "keys/gcpkms/bootstrap.go")
	if err != nil {
		return err
	}
	var pageSize uint64
	found := false
	for _, d := range bf.Decls {
		gd, ok := d.(*ast.GenDecl)
		if !ok || gd.Tok != token.CONST {
			continue
		}
		for _, s := range gd.Specs {
			vs := s.(*ast.ValueSpec)
			for i, n := range vs.Names {
				if n.Name == "keyPageSize" && i < len(vs.Values) {
					bl, ok := vs.Values[i].(*ast.BasicLit)
					if !ok || bl.Kind != token.INT {
						return fmt.Errorf("keyPageSize is not an integer literal")
					}
					v, err := strconv.ParseUint(bl.Value, 0, 64)
					if err != nil {
						return err
					}
					pageSize, found = v, true
				}
			}
		}
	}
	if !found {
		return fmt.Errorf("const keyPageSize not found in keys/gcpkms/bootstrap.go")
	}
	w.Line("/-- go: gcpkms.keyPageSize -/")
	w.NatDef("keyPageSize", pageSize)

	// ---- the kmspb state enum (linked) ----
	var nums []int
	for k := range kmspb.CryptoKeyVersion_CryptoKeyVersionState_name {
		nums = append(nums, int(k))
	}
	sort.Ints(nums)
	var parts []string
	for _, k := range nums {
		parts = append(parts, fmt.Sprintf("(%d, %q)", k, kmspb.CryptoKeyVersion_CryptoKeyVersionState_name[int32(k)]))
	}
	w.Line("/-- kmspb.CryptoKeyVersion_CryptoKeyVersionState as linked: (number, name) -/")
	w.Line("def allStates : List (Nat × String) := [%s]", strings.Join(parts, ", "))
	w.NatDef("stEnabled", uint64(kmspb.CryptoKeyVersion_ENABLED))
	w.NatDef("stDisabled", uint64(kmspb.CryptoKeyVersion_DISABLED))
	w.NatDef("stDestroyed", uint64(kmspb.CryptoKeyVersion_DESTROYED))
	w.NatDef("stDestroyScheduled", uint64(kmspb.CryptoKeyVersion_DESTROY_SCHEDULED))
	w.NatDef("stPendingGeneration", uint64(kmspb.CryptoKeyVersion_PENDING_GENERATION))

	// ---- destroyableState ----
	_, kf, err := parseFile(repo, "keys/gcpkms/keys.go")
	if err != nil {
		return err
	}
	fd := findFunc(kf, "destroyableState")
	if fd == nil || fd.Body == nil {
		return fmt.Errorf("func destroyableState not found in keys/gcpkms/keys.go")
	}
	if len(fd.Body.List) != 2 {
		return fmt.Errorf("destroyableState: expected `switch` followed by one `return`, got %d statements", len(fd.Body.List))
	}
	sw, ok := fd.Body.List[0].(*ast.SwitchStmt)
	if !ok {
		return fmt.Errorf("destroyableState: first statement is not a switch")
	}
	if id, ok := sw.Tag.(*ast.Ident); !ok || len(fd.Type.Params.List) != 1 || fd.Type.Params.List[0].Names[0].Name != id.Name {
		return fmt.Errorf("destroyableState: switch tag is not the parameter")
	}
	// trailing `return false, fmt.Errorf(...)`: unknown states are an error and not destroyable
	if rs, ok := fd.Body.List[1].(*ast.ReturnStmt); !ok || len(rs.Results) != 2 || !isIdent(rs.Results[0], "false") || isIdent(rs.Results[1], "nil") {
		return fmt.Errorf("destroyableState: trailing statement is not `return false, <error>`")
	}
	var rows []string
	seen := map[int]bool{}
	for _, st := range sw.Body.List {
		cc := st.(*ast.CaseClause)
		if cc.List == nil {
			return fmt.Errorf("destroyableState: unexpected default clause")
		}
		if len(cc.Body) != 1 {
			return fmt.Errorf("destroyableState: case body is not a single return")
		}
		rs, ok := cc.Body[0].(*ast.ReturnStmt)
		if !ok || len(rs.Results) != 2 || !isIdent(rs.Results[1], "nil") {
			return fmt.Errorf("destroyableState: case body is not `return <bool>, nil`")
		}
		var val bool
		switch {
		case isIdent(rs.Results[0], "true"):
			val = true
		case isIdent(rs.Results[0], "false"):
			val = false
		default:
			return fmt.Errorf("destroyableState: case result is not a boolean literal")
		}
		for _, e := range cc.List {
			sel, ok := e.(*ast.SelectorExpr)
			if !ok || !isIdent(sel.X, "kmspb") || !strings.HasPrefix(sel.Sel.Name, "CryptoKeyVersion_") {
				return fmt.Errorf("destroyableState: case label is not a kmspb.CryptoKeyVersion_* constant")
			}
			name := strings.TrimPrefix(sel.Sel.Name, "CryptoKeyVersion_")
			num, ok := kmspb.CryptoKeyVersion_CryptoKeyVersionState_value[name]
			if !ok {
				return fmt.Errorf("destroyableState: unknown state constant %s", sel.Sel.Name)
			}
			if seen[int(num)] {
				return fmt.Errorf("destroyableState: duplicate case %s", name)
			}
			seen[int(num)] = true
			rows = append(rows, fmt.Sprintf("(%d, %v)", num, val))
		}
	}
	w.Line("/-- go: gcpkms.destroyableState — (state number, destroyable) in source order; any other state is an error -/")
	w.Line("def destroyableTable : List (Nat × Bool) := [%s]", strings.Join(rows, ", "))

	// ---- sign.go: wantOpts and the response checks ----
	_, sf, err := parseFile(repo, "keys/gcpkms/sign.go")
	if err != nil {
		return err
	}
	sd := findFunc(sf, "Sign")
	if sd == nil || sd.Body == nil {
		return fmt.Errorf("func Sign not found in keys/gcpkms/sign.go")
	}
	saltNames := map[string]int64{"PSSSaltLengthEqualsHash": rsa.PSSSaltLengthEqualsHash, "PSSSaltLengthAuto": rsa.PSSSaltLengthAuto}
	hashNames := map[string]crypto.Hash{"MD5": crypto.MD5, "SHA1": crypto.SHA1, "SHA224": crypto.SHA224, "SHA256": crypto.SHA256,
		"SHA384": crypto.SHA384, "SHA512": crypto.SHA512, "SHA512_224": crypto.SHA512_224, "SHA512_256": crypto.SHA512_256,
		"SHA3_256": crypto.SHA3_256, "SHA3_384": crypto.SHA3_384, "SHA3_512": crypto.SHA3_512}
	var salt *int64
	var hash *crypto.Hash
	var checks []string
	var bad error
	ast.Inspect(sd.Body, func(n ast.Node) bool {
		switch x := n.(type) {
		case *ast.AssignStmt:
			if len(x.Lhs) == 1 && isIdent(x.Lhs[0], "wantOpts") && len(x.Rhs) == 1 {
				cl, ok := x.Rhs[0].(*ast.CompositeLit)
				if !ok {
					bad = fmt.Errorf("Sign: wantOpts is not a composite literal")
					return false
				}
				if sel, ok := cl.Type.(*ast.SelectorExpr); !ok || !isIdent(sel.X, "rsa") || sel.Sel.Name != "PSSOptions" {
					bad = fmt.Errorf("Sign: wantOpts is not an rsa.PSSOptions literal")
					return false
				}
				for _, el := range cl.Elts {
					kv, ok := el.(*ast.KeyValueExpr)
					if !ok {
						bad = fmt.Errorf("Sign: wantOpts literal is not keyed")
						return false
					}
					key := kv.Key.(*ast.Ident).Name
					switch key {
					case "SaltLength":
						switch v := kv.Value.(type) {
						case *ast.SelectorExpr:
							if s, ok := saltNames[v.Sel.Name]; ok && isIdent(v.X, "rsa") {
								salt = &s
							}
						case *ast.BasicLit:
							if s, err := strconv.ParseInt(v.Value, 0, 64); err == nil {
								salt = &s
							}
						}
					case "Hash":
						if v, ok := kv.Value.(*ast.SelectorExpr); ok && isIdent(v.X, "crypto") {
							if h, ok := hashNames[v.Sel.Name]; ok {
								hash = &h
							}
						}
					default:
						bad = fmt.Errorf("Sign: unexpected wantOpts field %s", key)
					}
				}
			}
		case *ast.IfStmt:
			// record which response accessors take part in a rejecting `if`
			if len(x.Body.List) == 1 {
				if rs, ok := x.Body.List[0].(*ast.ReturnStmt); ok && len(rs.Results) == 2 && isIdent(rs.Results[0], "nil") {
					ast.Inspect(x.Cond, func(m ast.Node) bool {
						if ce, ok := m.(*ast.CallExpr); ok {
							if sel, ok := ce.Fun.(*ast.SelectorExpr); ok && isIdent(sel.X, "response") {
								checks = append(checks, sel.Sel.Name)
							}
						}
						return true
					})
				}
			}
		}
		return true
	})
	if bad != nil {
		return bad
	}
	if salt == nil || hash == nil {
		return fmt.Errorf("Sign: wantOpts SaltLength/Hash not recognised")
	}
	w.Line("/-- go: gcpkms.Signer.Sign wantOpts.SaltLength (rsa.PSSSaltLengthEqualsHash = -1, rsa.PSSSaltLengthAuto = 0) -/")
	w.Line("def wantSalt : Int := %d", *salt)
	w.Line("/-- go: gcpkms.Signer.Sign wantOpts.Hash as crypto.Hash number (crypto.SHA256 = %d), and its digest size -/", crypto.SHA256)
	w.NatDef("wantHash", uint64(*hash))
	w.NatDef("wantHashSize", uint64(hash.Size()))
	qs := make([]string, len(checks))
	for i, c := range checks {
		qs[i] = strconv.Quote(c)
	}
	w.Line("/-- response accessors that take part in a rejecting `if` of Sign, in source order -/")
	w.Line("def signChecks : List String := [%s]", strings.Join(qs, ", "))
	return nil
}

func isIdent(e ast.Expr, name string) bool {
	id, ok := e.(*ast.Ident)
	return ok && id.Name == name
}
