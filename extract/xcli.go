package main

// EndorseFlags: the command-line wiring of `endorse` as data (C06, C15 — Model/EndorseCli.lean).
//
//   flags         every flag registered by endorseCommand.AddFlags (cmd/endorse.go, through the helpers of
//                 cmd/flags.go) and by output.Options.AddFlags (cmd/output/output.go), in source order:
//                 (name, flag type, default as written, destination expression).  Obtained from the
//                 `cmd.PersistentFlags().<Type>Var(&dest, "name", default, usage)` calls with go/ast; a helper
//                 call `addXFlag(cmd, &dest)` is resolved through the helper's body with its pointer
//                 parameter replaced by the caller's argument; `AddGoFlag(&flag.Flag{Name:…, Value: &timeFlag{t: f}})`
//                 and `AddGoFlag(amdProductVar(&dest, "name", default, usage))` are the two custom flag types.
//                 Any other statement mentioning a FlagSet in these functions is an unrecognised idiom.
//   ecAllocated   the technology requests AddFlags allocates in the endorse.Context it registers
//   composeOrder  the components of makeEndorseCmd's Compose(…) call, and the function ComposeRun runs
//   productLines  kds.ParseProductLine evaluated (linked function) on the product names and on near-misses
//   defaultProduct, sha1Size, measurementSize   linked values
//   uefiSuffix, scrtmOld/New/N, scrtmSuffix     the literals of the --uefi suffix test and of the two S_CRTM
//                 side-file spellings in scrtmMain
//   preRunSteps   the order of the checks of endorseCommand.PersistentPreRunE (call / condition skeleton)

import (
	"crypto"
	"fmt"
	"go/ast"
	"go/token"
	"go/types"
	"strconv"
	"strings"

	sgabi "github.com/google/go-sev-guest/abi"
	"github.com/google/go-sev-guest/kds"
	sgpb "github.com/google/go-sev-guest/proto/sevsnp"
)

func init() { register("EndorseFlags", extractEndorseFlags) }

type cliFlagRow struct{ name, kind, dflt, dest string }

// cliFindMethod returns the method (or function) `name` whose receiver type is recv ("" = plain function).
func cliFindMethod(f *ast.File, recv, name string) *ast.FuncDecl {
	for _, d := range f.Decls {
		fd, ok := d.(*ast.FuncDecl)
		if !ok || fd.Name.Name != name {
			continue
		}
		if recv == "" {
			if fd.Recv == nil {
				return fd
			}
			continue
		}
		if fd.Recv == nil || len(fd.Recv.List) != 1 {
			continue
		}
		t := fd.Recv.List[0].Type
		if st, ok := t.(*ast.StarExpr); ok {
			t = st.X
		}
		if id, ok := t.(*ast.Ident); ok && id.Name == recv {
			return fd
		}
	}
	return nil
}

func cliExprText(e ast.Expr) string { return types.ExprString(e) }

// cliDestOf renders the destination argument `&x.y` (or a bare pointer parameter, through subst).
func cliDestOf(e ast.Expr, subst map[string]string) (string, error) {
	if u, ok := e.(*ast.UnaryExpr); ok && u.Op == token.AND {
		return cliExprText(u.X), nil
	}
	if id, ok := e.(*ast.Ident); ok {
		if s, ok := subst[id.Name]; ok {
			return s, nil
		}
	}
	return "", fmt.Errorf("flag destination %s is neither &expr nor a pointer parameter", cliExprText(e))
}

// cliIsFlagSetCall: cmd.PersistentFlags().M(args) or cmd.Flags().M(args)
func cliIsFlagSetCall(call *ast.CallExpr) (method string, ok bool) {
	sel, ok := call.Fun.(*ast.SelectorExpr)
	if !ok {
		return "", false
	}
	inner, ok := sel.X.(*ast.CallExpr)
	if !ok {
		return "", false
	}
	isel, ok := inner.Fun.(*ast.SelectorExpr)
	if !ok || (isel.Sel.Name != "PersistentFlags" && isel.Sel.Name != "Flags") {
		return "", false
	}
	return sel.Sel.Name, true
}

func cliStrLit(e ast.Expr) (string, bool) {
	bl, ok := e.(*ast.BasicLit)
	if !ok || bl.Kind != token.STRING {
		return "", false
	}
	s, err := strconv.Unquote(bl.Value)
	return s, err == nil
}

func cliMentionsFlagSet(n ast.Node) bool {
	found := false
	ast.Inspect(n, func(x ast.Node) bool {
		if sel, ok := x.(*ast.SelectorExpr); ok && (sel.Sel.Name == "PersistentFlags" || sel.Sel.Name == "Flags") {
			found = true
		}
		return !found
	})
	return found
}

// customFlagKind: the flag.Value type a helper wraps its destination in (`&timeFlag{t: f}`, `&amdProductFlag{v: v}`).
func cliCustomValueType(e ast.Expr) (typ string, field ast.Expr, ok bool) {
	u, ok := e.(*ast.UnaryExpr)
	if !ok || u.Op != token.AND {
		return "", nil, false
	}
	cl, ok := u.X.(*ast.CompositeLit)
	if !ok || len(cl.Elts) != 1 {
		return "", nil, false
	}
	id, ok := cl.Type.(*ast.Ident)
	if !ok {
		return "", nil, false
	}
	kv, ok := cl.Elts[0].(*ast.KeyValueExpr)
	if !ok {
		return "", nil, false
	}
	return id.Name, kv.Value, true
}

// cliFlagRows walks the statements of fn in order. helpers: plain functions of cmd/flags.go by name.
func cliFlagRows(fn *ast.FuncDecl, subst map[string]string, helpers *ast.File, rows *[]cliFlagRow, other *[]ast.Stmt, depth int) error {
	if depth > 3 {
		return fmt.Errorf("flag helper nesting too deep in %s", fn.Name.Name)
	}
	for _, st := range fn.Body.List {
		es, ok := st.(*ast.ExprStmt)
		var call *ast.CallExpr
		if ok {
			call, _ = es.X.(*ast.CallExpr)
		}
		if call == nil {
			if cliMentionsFlagSet(st) {
				return fmt.Errorf("%s: a statement mentions a FlagSet outside a recognised registration call", fn.Name.Name)
			}
			if other != nil {
				*other = append(*other, st)
			}
			continue
		}
		if method, ok := cliIsFlagSetCall(call); ok {
			switch {
			case strings.HasSuffix(method, "Var") && len(call.Args) == 4:
				name, ok := cliStrLit(call.Args[1])
				if !ok {
					return fmt.Errorf("%s: flag name of a %s call is not a string literal", fn.Name.Name, method)
				}
				dest, err := cliDestOf(call.Args[0], subst)
				if err != nil {
					return err
				}
				*rows = append(*rows, cliFlagRow{name, strings.TrimSuffix(method, "Var"), cliExprText(call.Args[2]), dest})
			case method == "AddGoFlag" && len(call.Args) == 1:
				// (a) &flag.Flag{Name: "timestamp", Value: &timeFlag{t: f}, DefValue: ""}
				if u, ok := call.Args[0].(*ast.UnaryExpr); ok && u.Op == token.AND {
					cl, ok := u.X.(*ast.CompositeLit)
					if !ok {
						return fmt.Errorf("%s: AddGoFlag argument is not a flag.Flag literal", fn.Name.Name)
					}
					row := cliFlagRow{}
					for _, el := range cl.Elts {
						kv, ok := el.(*ast.KeyValueExpr)
						if !ok {
							return fmt.Errorf("%s: positional flag.Flag literal", fn.Name.Name)
						}
						switch kv.Key.(*ast.Ident).Name {
						case "Name":
							row.name, _ = cliStrLit(kv.Value)
						case "DefValue":
							row.dflt = cliExprText(kv.Value)
						case "Value":
							typ, field, ok := cliCustomValueType(kv.Value)
							if !ok {
								return fmt.Errorf("%s: flag.Flag Value is not &T{field: dest}", fn.Name.Name)
							}
							d, err := cliDestOf(field, subst)
							if err != nil {
								return err
							}
							row.kind, row.dest = typ, d
						}
					}
					if row.name == "" || row.kind == "" {
						return fmt.Errorf("%s: flag.Flag literal without Name / Value", fn.Name.Name)
					}
					*rows = append(*rows, row)
					break
				}
				// (b) helperVar(&dest, "name", default, usage) returning *flag.Flag wrapping &T{v: v}
				inner, ok := call.Args[0].(*ast.CallExpr)
				if !ok {
					return fmt.Errorf("%s: unrecognised AddGoFlag argument", fn.Name.Name)
				}
				hid, ok := inner.Fun.(*ast.Ident)
				if !ok || len(inner.Args) != 4 {
					return fmt.Errorf("%s: unrecognised AddGoFlag(helper(...)) call", fn.Name.Name)
				}
				h := cliFindMethod(helpers, "", hid.Name)
				if h == nil {
					return fmt.Errorf("%s: helper %s not found in cmd/flags.go", fn.Name.Name, hid.Name)
				}
				typ := ""
				ast.Inspect(h.Body, func(x ast.Node) bool {
					if as, ok := x.(*ast.AssignStmt); ok && len(as.Rhs) == 1 {
						if t, _, ok := cliCustomValueType(as.Rhs[0]); ok && typ == "" {
							typ = t
						}
					}
					return true
				})
				name, ok := cliStrLit(inner.Args[1])
				if !ok || typ == "" {
					return fmt.Errorf("%s: %s(...) has no literal name or no flag.Value type", fn.Name.Name, hid.Name)
				}
				dest, err := cliDestOf(inner.Args[0], subst)
				if err != nil {
					return err
				}
				*rows = append(*rows, cliFlagRow{name, typ, cliExprText(inner.Args[2]), dest})
			default:
				return fmt.Errorf("%s: unrecognised FlagSet call %s with %d arguments", fn.Name.Name, method, len(call.Args))
			}
			continue
		}
		// helper call addXFlag(cmd, &dest)
		if id, ok := call.Fun.(*ast.Ident); ok && strings.HasPrefix(id.Name, "add") && strings.HasSuffix(id.Name, "Flag") && len(call.Args) == 2 {
			h := cliFindMethod(helpers, "", id.Name)
			if h == nil || h.Type.Params == nil || len(h.Type.Params.List) != 2 || len(h.Type.Params.List[1].Names) != 1 {
				return fmt.Errorf("%s: helper %s not found or of unexpected shape", fn.Name.Name, id.Name)
			}
			dest, err := cliDestOf(call.Args[1], subst)
			if err != nil {
				return err
			}
			if err := cliFlagRows(h, map[string]string{h.Type.Params.List[1].Names[0].Name: dest}, helpers, rows, nil, depth+1); err != nil {
				return err
			}
			continue
		}
		if cliMentionsFlagSet(st) {
			return fmt.Errorf("%s: unrecognised statement mentioning a FlagSet: %s", fn.Name.Name, cliExprText(call))
		}
		if other != nil {
			*other = append(*other, st)
		}
	}
	return nil
}

func cliLeanStr(s string) string { return strconv.Quote(s) }

func extractEndorseFlags(repo string, w *leanWriter) error {
	_, ef, err := parseFile(repo, "cmd/endorse.go")
	if err != nil {
		return err
	}
	_, ff, err := parseFile(repo, "cmd/flags.go")
	if err != nil {
		return err
	}
	_, of, err := parseFile(repo, "cmd/output/output.go")
	if err != nil {
		return err
	}
	add := cliFindMethod(ef, "endorseCommand", "AddFlags")
	if add == nil {
		return fmt.Errorf("endorseCommand.AddFlags not found")
	}
	var rows []cliFlagRow
	var other []ast.Stmt
	if err := cliFlagRows(add, map[string]string{}, ff, &rows, &other, 0); err != nil {
		return err
	}
	oadd := cliFindMethod(of, "Options", "AddFlags")
	if oadd == nil {
		return fmt.Errorf("output.Options.AddFlags not found")
	}
	var oother []ast.Stmt
	if err := cliFlagRows(oadd, map[string]string{}, ff, &rows, &oother, 0); err != nil {
		return err
	}
	if len(oother) != 0 {
		return fmt.Errorf("output.Options.AddFlags has a statement that is not a flag registration")
	}
	seen := map[string]bool{}
	var parts []string
	for _, r := range rows {
		if seen[r.name] {
			return fmt.Errorf("flag %q registered twice", r.name)
		}
		seen[r.name] = true
		parts = append(parts, fmt.Sprintf("(%s, %s, %s, %s)", cliLeanStr(r.name), cliLeanStr(r.kind), cliLeanStr(r.dflt), cliLeanStr(r.dest)))
	}
	w.Line("/-- (flag, type, default as written, destination) in registration order -/")
	w.Line("def flags : List (String × String × String × String) :=\n  [%s]", strings.Join(parts, ",\n   "))

	// the other statements of AddFlags: `ec := &endorse.Context{SevSnp: &…{}, Tdx: &…{}}` and
	// `cmd.SetContext(endorse.NewContext(cmd.Context(), ec))`
	var allocated []string
	if len(other) != 2 {
		return fmt.Errorf("endorseCommand.AddFlags: expected exactly the context allocation and cmd.SetContext besides the flags, found %d other statements", len(other))
	}
	as, ok := other[0].(*ast.AssignStmt)
	if !ok || len(as.Rhs) != 1 {
		return fmt.Errorf("endorseCommand.AddFlags: first non-flag statement is not the context allocation")
	}
	u, ok := as.Rhs[0].(*ast.UnaryExpr)
	if !ok {
		return fmt.Errorf("endorseCommand.AddFlags: context allocation is not &endorse.Context{…}")
	}
	cl, ok := u.X.(*ast.CompositeLit)
	if !ok || cliExprText(cl.Type) != "endorse.Context" {
		return fmt.Errorf("endorseCommand.AddFlags: context allocation is not &endorse.Context{…}")
	}
	for _, el := range cl.Elts {
		kv, ok := el.(*ast.KeyValueExpr)
		if !ok {
			return fmt.Errorf("endorse.Context literal: positional field")
		}
		v, ok := kv.Value.(*ast.UnaryExpr)
		if !ok {
			return fmt.Errorf("endorse.Context literal: field %s is not &T{}", cliExprText(kv.Key))
		}
		vl, ok := v.X.(*ast.CompositeLit)
		if !ok || len(vl.Elts) != 0 {
			return fmt.Errorf("endorse.Context literal: field %s is pre-filled", cliExprText(kv.Key))
		}
		allocated = append(allocated, cliLeanStr(cliExprText(kv.Key)))
	}
	if es, ok := other[1].(*ast.ExprStmt); !ok || !strings.HasPrefix(cliExprText(es.X), "cmd.SetContext(endorse.NewContext(") {
		return fmt.Errorf("endorseCommand.AddFlags: last statement is not cmd.SetContext(endorse.NewContext(…))")
	}
	w.Line("def ecAllocated : List String := [%s]", strings.Join(allocated, ", "))

	// makeEndorseCmd: Compose(app.Global, &endorseCommand{…}, app.Endorse); RunE: ComposeRun(cmp, endorse.VirtualFirmware)
	mk := cliFindMethod(ef, "", "makeEndorseCmd")
	if mk == nil {
		return fmt.Errorf("makeEndorseCmd not found")
	}
	var order []string
	runFn, preRun := "", ""
	ast.Inspect(mk.Body, func(x ast.Node) bool {
		switch n := x.(type) {
		case *ast.CallExpr:
			if id, ok := n.Fun.(*ast.Ident); ok {
				switch id.Name {
				case "Compose":
					for _, a := range n.Args {
						s := cliExprText(a)
						if strings.HasPrefix(s, "&endorseCommand{") {
							s = "endorseCommand"
						}
						order = append(order, cliLeanStr(s))
					}
				case "ComposeRun":
					if len(n.Args) == 2 {
						runFn = cliExprText(n.Args[0]) + ", " + cliExprText(n.Args[1])
					}
				}
			}
		case *ast.KeyValueExpr:
			if id, ok := n.Key.(*ast.Ident); ok && id.Name == "PersistentPreRunE" {
				preRun = cliExprText(n.Value)
			}
		}
		return true
	})
	if len(order) == 0 || runFn == "" || preRun == "" {
		return fmt.Errorf("makeEndorseCmd: Compose / ComposeRun / PersistentPreRunE not recognised")
	}
	w.Line("def composeOrder : List String := [%s]", strings.Join(order, ", "))
	w.Line("def composeRun : String := %s", cliLeanStr(runFn))
	w.Line("def persistentPreRunE : String := %s", cliLeanStr(preRun))

	// kds.ParseProductLine observed
	var pl []string
	for _, s := range []string{"Milan", "Genoa", "Turin", "Rome", "Naples", "Bergamo", "Siena", "Venice", "Unknown", "milan", "MILAN", "genoa", "turin",
		"Milan-B0", "Milan-B1", "Genoa-B1", "Turin-C1", " Milan", "Milan ", "SEV_PRODUCT_MILAN", "1", "0"} {
		p, err := kds.ParseProductLine(s)
		v := "none"
		if err == nil {
			v = fmt.Sprintf("some %d", int32(p.Name))
		}
		pl = append(pl, fmt.Sprintf("(%s, %s)", cliLeanStr(s), v))
	}
	w.Line("/-- kds.ParseProductLine(name).Name, or none when it returns an error -/")
	w.Line("def productLines : List (String × Option Nat) := [%s]", strings.Join(pl, ", "))
	// default of --snp_product: the identifier in the amdProductVar call, evaluated on the linked enum
	for _, r := range rows {
		if r.name == "snp_product" {
			nm := strings.TrimPrefix(r.dflt, "sgpb.SevProduct_")
			v, ok := sgpb.SevProduct_SevProductName_value[nm]
			if !ok {
				return fmt.Errorf("--snp_product default %s is not a SevProduct_SevProductName", r.dflt)
			}
			w.NatDef("defaultProduct", uint64(v))
		}
	}
	w.NatDef("sha1Size", uint64(crypto.SHA1.Size()))
	w.NatDef("measurementSize", uint64(sgabi.MeasurementSize))

	// literals of PersistentPreRunE / scrtmMain
	pre := cliFindMethod(ef, "endorseCommand", "PersistentPreRunE")
	scr := cliFindMethod(ef, "", "scrtmMain")
	if pre == nil || scr == nil {
		return fmt.Errorf("PersistentPreRunE / scrtmMain not found")
	}
	suffix := ""
	ast.Inspect(pre.Body, func(x ast.Node) bool {
		if c, ok := x.(*ast.CallExpr); ok && cliExprText(c.Fun) == "strings.HasSuffix" && len(c.Args) == 2 {
			suffix, _ = cliStrLit(c.Args[1])
		}
		return true
	})
	if suffix == "" {
		return fmt.Errorf("PersistentPreRunE: strings.HasSuffix(f.UefiPath, <literal>) not found")
	}
	w.StrDef("uefiSuffix", suffix)
	var spell []string
	ast.Inspect(scr.Body, func(x ast.Node) bool {
		rs, ok := x.(*ast.RangeStmt)
		if !ok {
			return true
		}
		cl, ok := rs.X.(*ast.CompositeLit)
		if !ok {
			return true
		}
		for _, el := range cl.Elts {
			switch e := el.(type) {
			case *ast.CallExpr:
				if cliExprText(e.Fun) == "strings.Replace" && len(e.Args) == 4 {
					o, ok1 := cliStrLit(e.Args[1])
					n, ok2 := cliStrLit(e.Args[2])
					if ok1 && ok2 {
						spell = append(spell, fmt.Sprintf("replace %s %s %s", o, n, cliExprText(e.Args[3])))
					}
				}
			case *ast.BinaryExpr:
				if s, ok := cliStrLit(e.Y); ok && e.Op == token.ADD {
					if c, ok := e.X.(*ast.CallExpr); ok && cliExprText(c.Fun) == "strings.TrimSuffix" && len(c.Args) == 2 {
						if suf, ok := cliStrLit(c.Args[1]); ok {
							spell = append(spell, "trimSuffix "+suf+" append "+s)
						}
					} else if _, ok := e.X.(*ast.Ident); ok {
						spell = append(spell, "append "+s)
					}
				}
			}
		}
		return false
	})
	if len(spell) == 0 {
		return fmt.Errorf("scrtmMain: the list of side-file spellings was not recognised")
	}
	var sq []string
	for _, s := range spell {
		sq = append(sq, cliLeanStr(s))
	}
	w.Line("/-- the side-file spellings scrtmMain tries, in order -/")
	w.Line("def scrtmSpellings : List String := [%s]", strings.Join(sq, ", "))

	// skeleton of PersistentPreRunE: conditions, assignments and calls with their nesting; error
	// constructors in return statements are abstracted (wording is not part of the skeleton)
	var steps []string
	for _, st := range pre.Body.List {
		steps = append(steps, cliSkeleton(st))
	}
	init := cliFindMethod(ef, "endorseCommand", "InitContext")
	vsf := cliFindMethod(ef, "", "validateSnpFlags")
	tset := cliFindMethod(ff, "timeFlag", "Set")
	pset := cliFindMethod(ff, "amdProductFlag", "Set")
	if tset == nil || pset == nil {
		return fmt.Errorf("timeFlag.Set / amdProductFlag.Set not found in cmd/flags.go")
	}
	if init == nil || vsf == nil {
		return fmt.Errorf("endorseCommand.InitContext / validateSnpFlags not found")
	}
	for _, fn := range []struct {
		name string
		fd   *ast.FuncDecl
	}{{"initSteps", init}, {"scrtmSteps", scr}, {"validateSnpSteps", vsf}, {"timeSetSteps", tset}, {"productSetSteps", pset}} {
		var q []string
		for _, st := range fn.fd.Body.List {
			q = append(q, cliLeanStr(cliSkeleton(st)))
		}
		w.Line("def %s : List String :=\n  [%s]", fn.name, strings.Join(q, ",\n   "))
	}
	var stq []string
	for _, s := range steps {
		stq = append(stq, cliLeanStr(s))
	}
	w.Line("/-- statement skeleton of endorseCommand.PersistentPreRunE (order of the checks) -/")
	w.Line("def preRunSteps : List String :=\n  [%s]", strings.Join(stq, ",\n   "))
	return nil
}

// cliSkeleton renders one statement: `if [init;] cond {…} else {…}`, assignments, expression statements, `return`.
func cliSkeleton(st ast.Stmt) string {
	block := func(b *ast.BlockStmt) string {
		var parts []string
		for _, x := range b.List {
			parts = append(parts, cliSkeleton(x))
		}
		return "{" + strings.Join(parts, "; ") + "}"
	}
	switch s := st.(type) {
	case *ast.IfStmt:
		d := "if "
		if s.Init != nil {
			d += cliSkeleton(s.Init) + "; "
		}
		d += cliExprText(s.Cond) + " " + block(s.Body)
		switch e := s.Else.(type) {
		case *ast.BlockStmt:
			d += " else " + block(e)
		case *ast.IfStmt:
			d += " else " + cliSkeleton(e)
		}
		return d
	case *ast.AssignStmt:
		var lhs, rhs []string
		for _, l := range s.Lhs {
			lhs = append(lhs, cliExprText(l))
		}
		for _, r := range s.Rhs {
			rhs = append(rhs, cliExprText(r))
		}
		return strings.Join(lhs, ",") + " " + s.Tok.String() + " " + strings.Join(rhs, ",")
	case *ast.ExprStmt:
		return cliExprText(s.X)
	case *ast.ReturnStmt:
		var rs []string
		for _, r := range s.Results {
			t := cliExprText(r)
			if strings.HasPrefix(t, "fmt.Errorf(") || strings.HasPrefix(t, "errors.New(") {
				t = "<error>" // the wording of a message is not part of the skeleton
			}
			rs = append(rs, t)
		}
		return strings.TrimSpace("return " + strings.Join(rs, ","))
	case *ast.BlockStmt:
		return block(s)
	case *ast.RangeStmt:
		return "for " + cliExprText(s.Key) + "," + cliExprText(s.Value) + " := range " + cliExprText(s.X) + " " + block(s.Body)
	case *ast.BranchStmt:
		return s.Tok.String()
	case *ast.DeclStmt:
		if gd, ok := s.Decl.(*ast.GenDecl); ok {
			var parts []string
			for _, sp := range gd.Specs {
				if vs, ok := sp.(*ast.ValueSpec); ok {
					for _, n := range vs.Names {
						parts = append(parts, "var "+n.Name+" "+cliExprText(vs.Type))
					}
				}
			}
			return strings.Join(parts, "; ")
		}
	}
	return fmt.Sprintf("%T", st)
}
