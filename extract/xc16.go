// C16 — regenerated naming facts: bucket base URL, URL layout, family prefixes, technology segments,
// file extension, the Google EFI variable GUID and "FirmwareRIM", manufacturer strings, the fields
// of the emitted SP800-155 events, the RIM locator type enum, the locator precedence of
// extract.fromEventLog and the measurement sizes that gate a fetch.
//
// Unexported values are read from the AST of the function that uses them (the format strings of
// the fmt.Sprintf calls are split at their verbs, so a changed layout changes the generated
// segments); exported values are obtained by linking the repository packages.
package main

import (
	"fmt"
	"go/ast"
	"go/token"
	"regexp"
	"strconv"
	"strings"

	"github.com/google/gce-tcb-verifier/eventlog"
	"github.com/google/gce-tcb-verifier/extract"
	oabi "github.com/google/gce-tcb-verifier/ovmf/abi"
	"github.com/google/gce-tcb-verifier/sev"
	sabi "github.com/google/go-sev-guest/abi"
	tabi "github.com/google/go-tdx-guest/abi"
)

func init() { register("Names", extractNames) }

// c16Consts collects the top-level string / integer constants of a file.
func c16Consts(f *ast.File) (map[string]string, map[string]uint64) {
	strs, ints := map[string]string{}, map[string]uint64{}
	for _, d := range f.Decls {
		gd, ok := d.(*ast.GenDecl)
		if !ok || gd.Tok != token.CONST {
			continue
		}
		for _, s := range gd.Specs {
			vs := s.(*ast.ValueSpec)
			for i, n := range vs.Names {
				if i >= len(vs.Values) {
					continue
				}
				if bl, ok := vs.Values[i].(*ast.BasicLit); ok {
					switch bl.Kind {
					case token.STRING:
						if v, err := strconv.Unquote(bl.Value); err == nil {
							strs[n.Name] = v
						}
					case token.INT:
						if v, err := strconv.ParseUint(bl.Value, 0, 64); err == nil {
							ints[n.Name] = v
						}
					}
				}
			}
		}
	}
	return strs, ints
}

// c16Sprintf finds the single fmt.Sprintf call inside fn and returns its format string and the
// source text class of each argument ("call:<name>" for calls, "id:<name>" for identifiers).
func c16Sprintf(fn *ast.FuncDecl) (string, []string, error) {
	var calls []*ast.CallExpr
	ast.Inspect(fn, func(n ast.Node) bool {
		if ce, ok := n.(*ast.CallExpr); ok {
			if se, ok := ce.Fun.(*ast.SelectorExpr); ok && se.Sel.Name == "Sprintf" {
				if x, ok := se.X.(*ast.Ident); ok && x.Name == "fmt" {
					calls = append(calls, ce)
				}
			}
		}
		return true
	})
	if len(calls) != 1 {
		return "", nil, fmt.Errorf("%s: want exactly one fmt.Sprintf, found %d", fn.Name.Name, len(calls))
	}
	ce := calls[0]
	bl, ok := ce.Args[0].(*ast.BasicLit)
	if !ok || bl.Kind != token.STRING {
		return "", nil, fmt.Errorf("%s: Sprintf format is not a string literal", fn.Name.Name)
	}
	format, err := strconv.Unquote(bl.Value)
	if err != nil {
		return "", nil, err
	}
	var args []string
	for _, a := range ce.Args[1:] {
		args = append(args, c16ExprClass(a))
	}
	return format, args, nil
}

func c16ExprClass(e ast.Expr) string {
	switch x := e.(type) {
	case *ast.Ident:
		return "id:" + x.Name
	case *ast.CallExpr:
		switch f := x.Fun.(type) {
		case *ast.Ident:
			return "call:" + f.Name
		case *ast.SelectorExpr:
			if p, ok := f.X.(*ast.Ident); ok {
				return "call:" + p.Name + "." + f.Sel.Name
			}
		}
	case *ast.SelectorExpr:
		if p, ok := x.X.(*ast.Ident); ok {
			return "sel:" + p.Name + "." + x.Sel.Name
		}
	}
	return "other"
}

func c16Bytes(w *leanWriter, name string, b []byte) {
	parts := make([]string, len(b))
	for i, v := range b {
		parts[i] = fmt.Sprint(v)
	}
	w.Line("def %s : List UInt8 := [%s]", name, strings.Join(parts, ", "))
}

func c16WantArgs(fn string, got []string, want ...string) error {
	if len(got) != len(want) {
		return fmt.Errorf("%s: Sprintf has %d arguments, want %d", fn, len(got), len(want))
	}
	for i := range want {
		if got[i] != want[i] {
			return fmt.Errorf("%s: Sprintf argument %d is %s, want %s", fn, i, got[i], want[i])
		}
	}
	return nil
}

var (
	c16PathRe = regexp.MustCompile(`^([^/%]*)/%s([^/%]*)$`) // "<tech>/%s<ext>"
	c16NameRe = regexp.MustCompile(`^([^/%]*)/%s$`)         // "<prefix>/%s"
	c16URLRe  = regexp.MustCompile(`^%s/([^/%]*)/%s$`)      // "%s/<bucket>/%s"
	c16URIRe  = regexp.MustCompile(`^([^/%]*)/%s([^/%]*)$`) // "<prefix>/%s<ext>"
)

func extractNames(repo string, w *leanWriter) error {
	// ---- verify.GCETcbURL -------------------------------------------------------------------
	_, vf, err := parseFile(repo, "verify/verify.go")
	if err != nil {
		return err
	}
	vstr, _ := c16Consts(vf)
	base, ok := vstr["gcsBaseURL"]
	if !ok {
		return fmt.Errorf("verify.gcsBaseURL: string constant not found")
	}
	fn := findFunc(vf, "GCETcbURL")
	if fn == nil {
		return fmt.Errorf("verify.GCETcbURL not found")
	}
	format, args, err := c16Sprintf(fn)
	if err != nil {
		return err
	}
	if err := c16WantArgs("verify.GCETcbURL", args, "id:gcsBaseURL", "id:objectName"); err != nil {
		return err
	}
	m := c16URLRe.FindStringSubmatch(format)
	if m == nil {
		return fmt.Errorf("verify.GCETcbURL: format %q is not %%s/<bucket>/%%s", format)
	}
	w.StrDef("gcsBaseURL", base)
	w.StrDef("bucket", m[1])

	// ---- extractsev ---------------------------------------------------------------------------
	_, sf, err := parseFile(repo, "extract/extractsev/extractsev.go")
	if err != nil {
		return err
	}
	fn = findFunc(sf, "gceTcbObjectPath")
	if fn == nil {
		return fmt.Errorf("extractsev.gceTcbObjectPath not found")
	}
	format, args, err = c16Sprintf(fn)
	if err != nil {
		return err
	}
	if err := c16WantArgs("extractsev.gceTcbObjectPath", args, "call:hex.EncodeToString"); err != nil {
		return err
	}
	if m = c16PathRe.FindStringSubmatch(format); m == nil {
		return fmt.Errorf("extractsev.gceTcbObjectPath: format %q is not <technology>/%%s<ext>", format)
	}
	w.StrDef("sevTech", m[1])
	w.StrDef("sevExt", m[2])
	fn = findFunc(sf, "GCETcbObjectName")
	if fn == nil {
		return fmt.Errorf("extractsev.GCETcbObjectName not found")
	}
	format, args, err = c16Sprintf(fn)
	if err != nil {
		return err
	}
	if err := c16WantArgs("extractsev.GCETcbObjectName", args, "call:familyIDObjectPrefix", "call:gceTcbObjectPath"); err != nil {
		return err
	}
	if format != "%s/%s" {
		return fmt.Errorf("extractsev.GCETcbObjectName: format %q is not %%s/%%s", format)
	}
	// familyIDObjectPrefix: if familyID == sev.A || familyID == sev.B { return "<known>" } return "<unknown>"
	fn = findFunc(sf, "familyIDObjectPrefix")
	if fn == nil {
		return fmt.Errorf("extractsev.familyIDObjectPrefix not found")
	}
	var knownIDs []string
	var rets []string
	ast.Inspect(fn, func(n ast.Node) bool {
		switch x := n.(type) {
		case *ast.BinaryExpr:
			if x.Op == token.EQL {
				if c := c16ExprClass(x.Y); strings.HasPrefix(c, "sel:sev.") {
					knownIDs = append(knownIDs, strings.TrimPrefix(c, "sel:sev."))
				}
			}
		case *ast.ReturnStmt:
			if len(x.Results) == 1 {
				if bl, ok := x.Results[0].(*ast.BasicLit); ok && bl.Kind == token.STRING {
					v, _ := strconv.Unquote(bl.Value)
					rets = append(rets, v)
				}
			}
		}
		return true
	})
	if len(rets) != 2 || len(knownIDs) == 0 {
		return fmt.Errorf("extractsev.familyIDObjectPrefix: pattern not recognised (returns %v, ids %v)", rets, knownIDs)
	}
	sevIDs := map[string]string{"GCEUefiFamilyID": sev.GCEUefiFamilyID, "GCEFwCertGUID": sev.GCEFwCertGUID}
	var known []string
	for _, id := range knownIDs {
		v, ok := sevIDs[id]
		if !ok {
			return fmt.Errorf("extractsev.familyIDObjectPrefix: unknown family constant sev.%s", id)
		}
		known = append(known, strconv.Quote(v))
	}
	w.Line("def knownFamilyIDs : List String := [%s]", strings.Join(known, ", "))
	w.StrDef("familyPrefixKnown", rets[0])
	w.StrDef("familyPrefixUnknown", rets[1])
	w.StrDef("gceUefiFamilyID", sev.GCEUefiFamilyID)
	w.StrDef("gceFwCertGUID", sev.GCEFwCertGUID)

	// ---- extracttdx ---------------------------------------------------------------------------
	_, tf, err := parseFile(repo, "extract/extracttdx/extracttdx.go")
	if err != nil {
		return err
	}
	fn = findFunc(tf, "gceTcbObjectPath")
	if fn == nil {
		return fmt.Errorf("extracttdx.gceTcbObjectPath not found")
	}
	format, args, err = c16Sprintf(fn)
	if err != nil {
		return err
	}
	if err := c16WantArgs("extracttdx.gceTcbObjectPath", args, "call:hex.EncodeToString"); err != nil {
		return err
	}
	if m = c16PathRe.FindStringSubmatch(format); m == nil {
		return fmt.Errorf("extracttdx.gceTcbObjectPath: format %q is not <technology>/%%s<ext>", format)
	}
	w.StrDef("tdxTech", m[1])
	w.StrDef("tdxExt", m[2])
	fn = findFunc(tf, "GCETcbObjectName")
	if fn == nil {
		return fmt.Errorf("extracttdx.GCETcbObjectName not found")
	}
	format, args, err = c16Sprintf(fn)
	if err != nil {
		return err
	}
	if err := c16WantArgs("extracttdx.GCETcbObjectName", args, "call:gceTcbObjectPath"); err != nil {
		return err
	}
	if m = c16NameRe.FindStringSubmatch(format); m == nil {
		return fmt.Errorf("extracttdx.GCETcbObjectName: format %q is not <prefix>/%%s", format)
	}
	w.StrDef("tdxFamilyPrefix", m[1])

	// ---- endorse/sp800155.go ------------------------------------------------------------------
	_, ef, err := parseFile(repo, "endorse/sp800155.go")
	if err != nil {
		return err
	}
	estr, eint := c16Consts(ef)
	for _, k := range []string{"googleEfiVariable", "sp800155Variable", "googleManufacturer", "platformModel", "platformVersion", "firmwareVersion"} {
		v, ok := estr[k]
		if !ok {
			return fmt.Errorf("endorse.%s: string constant not found", k)
		}
		w.StrDef(k, v)
		c16Bytes(w, k+"Bytes", []byte(v))
	}
	// rimVar = []byte{ ... }
	var rimVar []byte
	found := false
	for _, d := range ef.Decls {
		gd, ok := d.(*ast.GenDecl)
		if !ok || gd.Tok != token.VAR {
			continue
		}
		for _, s := range gd.Specs {
			vs := s.(*ast.ValueSpec)
			for i, n := range vs.Names {
				if n.Name != "rimVar" || i >= len(vs.Values) {
					continue
				}
				cl, ok := vs.Values[i].(*ast.CompositeLit)
				if !ok {
					return fmt.Errorf("endorse.rimVar is not a composite literal")
				}
				for _, e := range cl.Elts {
					bl, ok := e.(*ast.BasicLit)
					if !ok {
						return fmt.Errorf("endorse.rimVar: element is not a literal")
					}
					switch bl.Kind {
					case token.INT:
						v, err := strconv.ParseUint(bl.Value, 0, 8)
						if err != nil {
							return fmt.Errorf("endorse.rimVar: %v", err)
						}
						rimVar = append(rimVar, byte(v))
					case token.CHAR:
						r, _, _, err := strconv.UnquoteChar(bl.Value[1:len(bl.Value)-1], '\'')
						if err != nil || r > 255 {
							return fmt.Errorf("endorse.rimVar: bad char literal %s", bl.Value)
						}
						rimVar = append(rimVar, byte(r))
					default:
						return fmt.Errorf("endorse.rimVar: unsupported literal %s", bl.Value)
					}
				}
				found = true
			}
		}
	}
	if !found {
		return fmt.Errorf("endorse.rimVar not found")
	}
	c16Bytes(w, "rimVar", rimVar)
	// uriEvent: obj := fmt.Sprintf("<prefix>/%s<ext>", hex.EncodeToString(digest)); locator = []byte(verify.GCETcbURL(obj))
	fn = findFunc(ef, "uriEvent")
	if fn == nil {
		return fmt.Errorf("endorse.uriEvent not found")
	}
	var uriFormat string
	var uriArgs []string
	var urlOfObj, locType bool
	ast.Inspect(fn, func(n ast.Node) bool {
		ce, ok := n.(*ast.CallExpr)
		if !ok {
			return true
		}
		switch c16ExprClass(ce) {
		case "call:fmt.Sprintf":
			if bl, ok := ce.Args[0].(*ast.BasicLit); ok && bl.Kind == token.STRING && uriFormat == "" {
				uriFormat, _ = strconv.Unquote(bl.Value)
				for _, a := range ce.Args[1:] {
					uriArgs = append(uriArgs, c16ExprClass(a))
				}
			}
		case "call:verify.GCETcbURL":
			if len(ce.Args) == 1 && c16ExprClass(ce.Args[0]) == "id:obj" {
				urlOfObj = true
			}
		case "call:googleSp800155Event":
			if len(ce.Args) == 3 && c16ExprClass(ce.Args[1]) == "sel:eventlog.RIMLocationURI" {
				locType = true
			}
		}
		return true
	})
	if m = c16URIRe.FindStringSubmatch(uriFormat); m == nil || !urlOfObj || !locType {
		return fmt.Errorf("endorse.uriEvent: pattern not recognised (format %q, url-of-obj %v, uri type %v)", uriFormat, urlOfObj, locType)
	}
	if err := c16WantArgs("endorse.uriEvent", uriArgs, "call:hex.EncodeToString"); err != nil {
		return err
	}
	w.StrDef("uriEventPrefix", m[1])
	w.StrDef("uriEventExt", m[2])
	// varEvent: googleSp800155Event(rimGUID, eventlog.RIMLocationVariable, rimVar)
	fn = findFunc(ef, "varEvent")
	if fn == nil {
		return fmt.Errorf("endorse.varEvent not found")
	}
	varOK := false
	ast.Inspect(fn, func(n ast.Node) bool {
		if ce, ok := n.(*ast.CallExpr); ok && c16ExprClass(ce) == "call:googleSp800155Event" && len(ce.Args) == 3 &&
			c16ExprClass(ce.Args[0]) == "id:rimGUID" &&
			c16ExprClass(ce.Args[1]) == "sel:eventlog.RIMLocationVariable" && c16ExprClass(ce.Args[2]) == "id:rimVar" {
			varOK = true
		}
		return true
	})
	if !varOK {
		return fmt.Errorf("endorse.varEvent: pattern not recognised")
	}
	// googleSp800155Event: the composite literal's fields
	fn = findFunc(ef, "googleSp800155Event")
	if fn == nil {
		return fmt.Errorf("endorse.googleSp800155Event not found")
	}
	fields := map[string]string{}
	ast.Inspect(fn, func(n ast.Node) bool {
		cl, ok := n.(*ast.CompositeLit)
		if !ok {
			return true
		}
		if c16ExprClass(cl.Type) != "sel:eventlog.SP800155Event3" {
			return true
		}
		for _, e := range cl.Elts {
			kv, ok := e.(*ast.KeyValueExpr)
			if !ok {
				continue
			}
			key := kv.Key.(*ast.Ident).Name
			switch v := kv.Value.(type) {
			case *ast.BasicLit:
				fields[key] = "lit:" + v.Value
			case *ast.Ident:
				fields[key] = "id:" + v.Name
			case *ast.CompositeLit: // eventlog.ByteSizedCStr{Data: x} / eventlog.Uint32SizedArray{Data: x}
				if len(v.Elts) == 1 {
					if kv2, ok := v.Elts[0].(*ast.KeyValueExpr); ok {
						fields[key] = c16ExprClass(kv2.Value)
					}
				}
			}
		}
		return false
	})
	resolveInt := func(key string) (uint64, error) {
		v := fields[key]
		switch {
		case strings.HasPrefix(v, "lit:"):
			return strconv.ParseUint(v[4:], 0, 64)
		case strings.HasPrefix(v, "id:"):
			if n, ok := eint[v[3:]]; ok {
				return n, nil
			}
		}
		return 0, fmt.Errorf("endorse.googleSp800155Event: field %s = %q not an integer constant", key, v)
	}
	for _, k := range []string{"PlatformManufacturerID", "FirmwareManufacturerID"} {
		n, err := resolveInt(k)
		if err != nil {
			return err
		}
		w.NatDef("event"+k, n)
	}
	for _, k := range []string{"PlatformManufacturerStr", "PlatformModel", "PlatformVersion", "FirmwareManufacturerStr", "FirmwareVersion"} {
		v := fields[k]
		if !strings.HasPrefix(v, "id:") {
			return fmt.Errorf("endorse.googleSp800155Event: field %s = %q not a named constant", k, v)
		}
		s, ok := estr[v[3:]]
		if !ok {
			return fmt.Errorf("endorse.googleSp800155Event: field %s uses unknown constant %s", k, v[3:])
		}
		c16Bytes(w, "event"+k, []byte(s))
	}
	want := map[string]string{"ReferenceManifestGUID": "id:rimGUID", "RIMLocatorType": "id:locType", "RIMLocator": "id:loc"}
	for k, v := range want {
		if fields[k] != v {
			return fmt.Errorf("endorse.googleSp800155Event: field %s = %q, want %s", k, fields[k], v)
		}
	}
	for _, k := range []string{"PlatformCertLocatorType", "PlatformCertLocator"} {
		if _, set := fields[k]; set {
			return fmt.Errorf("endorse.googleSp800155Event: field %s is set (model assumes the zero value)", k)
		}
	}

	// ---- extract.fromEventLog precedence ------------------------------------------------------
	_, xf, err := parseFile(repo, "extract/extract.go")
	if err != nil {
		return err
	}
	fn = findFunc(xf, "fromEventLog")
	if fn == nil {
		return fmt.Errorf("extract.fromEventLog not found")
	}
	locEnum := map[string]uint32{"RIMLocationRaw": eventlog.RIMLocationRaw, "RIMLocationURI": eventlog.RIMLocationURI,
		"RIMLocationLocal": eventlog.RIMLocationLocal, "RIMLocationVariable": eventlog.RIMLocationVariable}
	var prec []uint64
	precOK := false
	ast.Inspect(fn, func(n ast.Node) bool {
		rs, ok := n.(*ast.RangeStmt)
		if !ok || precOK {
			return true
		}
		cl, ok := rs.X.(*ast.CompositeLit)
		if !ok {
			return true
		}
		var got []uint64
		for _, e := range cl.Elts {
			ie, ok := e.(*ast.IndexExpr)
			if !ok {
				return true
			}
			c := c16ExprClass(ie.Index)
			v, ok := locEnum[strings.TrimPrefix(c, "sel:eventlog.")]
			if !ok {
				return true
			}
			got = append(got, uint64(v))
		}
		prec, precOK = got, true
		return false
	})
	if !precOK {
		return fmt.Errorf("extract.fromEventLog: precedence literal not recognised")
	}
	w.NatList("locatorPrecedence", prec)
	w.NatDef("rimLocationRaw", uint64(eventlog.RIMLocationRaw))
	w.NatDef("rimLocationURI", uint64(eventlog.RIMLocationURI))
	w.NatDef("rimLocationLocal", uint64(eventlog.RIMLocationLocal))
	w.NatDef("rimLocationVariable", uint64(eventlog.RIMLocationVariable))
	w.NatDef("evNoAction", uint64(eventlog.EvNoAction))
	c16Bytes(w, "event3Signature", eventlog.TcgSP800155Event3Signature[:])
	w.NatDef("maxGUIDHOBDataSize", uint64(oabi.MaxGUIDHOBDataSize))
	w.StrDef("gceFirmwareManufacturer", extract.GCEFirmwareManufacturer)
	c16Bytes(w, "gceFirmwareManufacturerBytes", []byte(extract.GCEFirmwareManufacturer))
	w.NatDef("sevMeasurementSize", uint64(sabi.MeasurementSize))
	w.NatDef("tdxMrTdSize", uint64(tabi.MrTdSize))
	return nil
}
