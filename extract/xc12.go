package main

// C12 — regenerated facts for the key-management history model (lean/GceTcb/Gen/CertConsts.lean).
//
// Three kinds of facts, all re-derived from the repository's current source on every run:
//   (1) exported constants, by linking the repository packages (sign/types lifetimes) and crypto/x509;
//   (2) the certificate templates: the template literals of sops.GoogleCertificateTemplate are read
//       from the go/ast (composite literal + the two branches on tmpl.Issuer == nil) and cross-checked
//       against the function evaluated through the linked package; certs.TemplateFromCert,
//       sops.NextSigningKeySerial, cmd.RotateCommand.InitContext and memkm.BumpName are evaluated on
//       probe inputs and their source idiom is matched in the AST;
//   (3) the step sequencing of rotate.Key (all steps evaluated as arguments of one multierr.Combine,
//       or strictly sequential with the old key destroyed after Finalize), from the AST.
// A disagreement between AST and evaluation, or an unrecognised idiom, is an error (never defaulted).

import (
	"context"
	"crypto/rand"
	"crypto/rsa"
	"crypto/x509"
	"crypto/x509/pkix"
	"fmt"
	"go/ast"
	"go/token"
	"math/big"
	"strconv"
	"strings"
	"time"

	"github.com/google/gce-tcb-verifier/cmd"
	"github.com/google/gce-tcb-verifier/keys"
	"github.com/google/gce-tcb-verifier/rotate"
	"github.com/google/gce-tcb-verifier/sign/memca"
	sops "github.com/google/gce-tcb-verifier/sign/ops"
	styp "github.com/google/gce-tcb-verifier/sign/types"
	"github.com/google/gce-tcb-verifier/testing/nonprod/certs"
	"github.com/google/gce-tcb-verifier/testing/nonprod/memkm"
)

func init() { register("CertConsts", xc12_extractCertConsts) }

var xc12_x509Consts = map[string]uint64{
	"KeyUsageDigitalSignature":  uint64(x509.KeyUsageDigitalSignature),
	"KeyUsageContentCommitment": uint64(x509.KeyUsageContentCommitment),
	"KeyUsageKeyEncipherment":   uint64(x509.KeyUsageKeyEncipherment),
	"KeyUsageDataEncipherment":  uint64(x509.KeyUsageDataEncipherment),
	"KeyUsageKeyAgreement":      uint64(x509.KeyUsageKeyAgreement),
	"KeyUsageCertSign":          uint64(x509.KeyUsageCertSign),
	"KeyUsageCRLSign":           uint64(x509.KeyUsageCRLSign),
	"KeyUsageEncipherOnly":      uint64(x509.KeyUsageEncipherOnly),
	"KeyUsageDecipherOnly":      uint64(x509.KeyUsageDecipherOnly),
	"SHA256WithRSA":             uint64(x509.SHA256WithRSA),
	"SHA384WithRSA":             uint64(x509.SHA384WithRSA),
	"SHA512WithRSA":             uint64(x509.SHA512WithRSA),
	"SHA256WithRSAPSS":          uint64(x509.SHA256WithRSAPSS),
	"SHA384WithRSAPSS":          uint64(x509.SHA384WithRSAPSS),
	"SHA512WithRSAPSS":          uint64(x509.SHA512WithRSAPSS),
	"ECDSAWithSHA256":           uint64(x509.ECDSAWithSHA256),
	"ECDSAWithSHA384":           uint64(x509.ECDSAWithSHA384),
	"PureEd25519":               uint64(x509.PureEd25519),
}

var xc12_stypDays = map[string]uint64{
	"SignValidDays": uint64(styp.SignValidDays),
	"RootValidDays": uint64(styp.RootValidDays),
}

// xc12_evalX509 evaluates an expression built from x509.<Const> selectors and `|`.
func xc12_evalX509(e ast.Expr) (uint64, error) {
	switch v := e.(type) {
	case *ast.SelectorExpr:
		if id, ok := v.X.(*ast.Ident); ok && id.Name == "x509" {
			if c, ok := xc12_x509Consts[v.Sel.Name]; ok {
				return c, nil
			}
		}
		return 0, fmt.Errorf("unknown selector %v", v.Sel.Name)
	case *ast.BinaryExpr:
		if v.Op != token.OR {
			return 0, fmt.Errorf("unexpected operator %v", v.Op)
		}
		a, err := xc12_evalX509(v.X)
		if err != nil {
			return 0, err
		}
		b, err := xc12_evalX509(v.Y)
		return a | b, err
	case *ast.ParenExpr:
		return xc12_evalX509(v.X)
	}
	return 0, fmt.Errorf("unexpected expression %T", e)
}

// xc12_lifetimeOf recognises `<x>.Add(time.Duration(<pkg>.<Days>) * 24 * time.Hour)` (Days a sign/types
// constant or a local variable) and returns the name of the days operand and the hours factor.
func xc12_lifetimeOf(e ast.Expr) (daysName string, hours uint64, err error) {
	call, ok := e.(*ast.CallExpr)
	if !ok || len(call.Args) != 1 {
		return "", 0, fmt.Errorf("NotAfter is not a call")
	}
	if sel, ok := call.Fun.(*ast.SelectorExpr); !ok || sel.Sel.Name != "Add" {
		return "", 0, fmt.Errorf("NotAfter is not <time>.Add(..)")
	}
	// ((time.Duration(D) * 24) * time.Hour)
	outer, ok := call.Args[0].(*ast.BinaryExpr)
	if !ok || outer.Op != token.MUL {
		return "", 0, fmt.Errorf("lifetime is not a product")
	}
	if sel, ok := outer.Y.(*ast.SelectorExpr); !ok || sel.Sel.Name != "Hour" {
		return "", 0, fmt.Errorf("lifetime unit is not time.Hour")
	}
	inner, ok := outer.X.(*ast.BinaryExpr)
	if !ok || inner.Op != token.MUL {
		return "", 0, fmt.Errorf("lifetime is not days * 24 * time.Hour")
	}
	lit, ok := inner.Y.(*ast.BasicLit)
	if !ok || lit.Kind != token.INT {
		return "", 0, fmt.Errorf("hours-per-day factor is not a literal")
	}
	hours, _ = strconv.ParseUint(lit.Value, 0, 64)
	conv, ok := inner.X.(*ast.CallExpr)
	if !ok || len(conv.Args) != 1 {
		return "", 0, fmt.Errorf("days operand is not time.Duration(..)")
	}
	switch d := conv.Args[0].(type) {
	case *ast.SelectorExpr:
		return d.Sel.Name, hours, nil
	case *ast.Ident:
		return d.Name, hours, nil
	}
	return "", 0, fmt.Errorf("days operand not recognised")
}

type xc12_tmplFacts struct {
	isCA      bool
	keyUsage  uint64
	days      uint64
	hours     uint64
	seenUsage bool
	seenDays  bool
}

// xc12_assignmentsIn collects `template.<Field> = <expr>` statements of a block.
func xc12_assignmentsIn(b *ast.BlockStmt, recv string) map[string]ast.Expr {
	res := map[string]ast.Expr{}
	for _, st := range b.List {
		as, ok := st.(*ast.AssignStmt)
		if !ok || len(as.Lhs) != 1 || len(as.Rhs) != 1 {
			continue
		}
		if sel, ok := as.Lhs[0].(*ast.SelectorExpr); ok {
			if id, ok := sel.X.(*ast.Ident); ok && id.Name == recv {
				res[sel.Sel.Name] = as.Rhs[0]
			}
		}
	}
	return res
}

func xc12_branchFacts(b *ast.BlockStmt) (xc12_tmplFacts, error) {
	var f xc12_tmplFacts
	as := xc12_assignmentsIn(b, "template")
	if e, ok := as["IsCA"]; ok {
		id, ok := e.(*ast.Ident)
		if !ok {
			return f, fmt.Errorf("IsCA is not a literal")
		}
		f.isCA = id.Name == "true"
	}
	if e, ok := as["KeyUsage"]; ok {
		v, err := xc12_evalX509(e)
		if err != nil {
			return f, err
		}
		f.keyUsage, f.seenUsage = v, true
	}
	if e, ok := as["NotAfter"]; ok {
		name, hours, err := xc12_lifetimeOf(e)
		if err != nil {
			return f, err
		}
		d, ok := xc12_stypDays[name]
		if !ok {
			return f, fmt.Errorf("lifetime constant %q is not a sign/types constant", name)
		}
		f.days, f.hours, f.seenDays = d, hours, true
	}
	if !f.seenUsage || !f.seenDays {
		return f, fmt.Errorf("branch does not assign KeyUsage and NotAfter")
	}
	return f, nil
}

// xc12_googleTemplateAST reads the template literals of sops.GoogleCertificateTemplate.
func xc12_googleTemplateAST(repo string) (sigAlg uint64, serialIsSubject bool, root, sign xc12_tmplFacts, err error) {
	_, f, err := parseFile(repo, "sign/ops/certificates.go")
	if err != nil {
		return
	}
	fd := findFunc(f, "GoogleCertificateTemplate")
	if fd == nil {
		err = fmt.Errorf("sops.GoogleCertificateTemplate not found")
		return
	}
	var lit *ast.CompositeLit
	var branch *ast.IfStmt
	ast.Inspect(fd.Body, func(n ast.Node) bool {
		switch v := n.(type) {
		case *ast.CompositeLit:
			if sel, ok := v.Type.(*ast.SelectorExpr); ok && sel.Sel.Name == "Certificate" && lit == nil {
				lit = v
			}
		case *ast.IfStmt:
			// the branch whose body assigns template.IsCA
			if _, ok := xc12_assignmentsIn(v.Body, "template")["IsCA"]; ok {
				branch = v
			}
		}
		return true
	})
	if lit == nil || branch == nil {
		err = fmt.Errorf("template literal or root/signing branch not recognised")
		return
	}
	sawAlg := false
	for _, el := range lit.Elts {
		kv, ok := el.(*ast.KeyValueExpr)
		if !ok {
			continue
		}
		key, _ := kv.Key.(*ast.Ident)
		if key == nil {
			continue
		}
		switch key.Name {
		case "SignatureAlgorithm":
			sigAlg, err = xc12_evalX509(kv.Value)
			if err != nil {
				return
			}
			sawAlg = true
		case "SerialNumber":
			if sel, ok := kv.Value.(*ast.SelectorExpr); ok && sel.Sel.Name == "Serial" {
				serialIsSubject = true
			}
		case "IsCA":
			err = fmt.Errorf("template literal sets IsCA for both roles")
			return
		}
	}
	if !sawAlg {
		err = fmt.Errorf("template literal has no SignatureAlgorithm")
		return
	}
	// condition must be `tmpl.Issuer == nil` (root branch first)
	cond, ok := branch.Cond.(*ast.BinaryExpr)
	if !ok || cond.Op != token.EQL {
		err = fmt.Errorf("root branch condition not recognised")
		return
	}
	els, ok := branch.Else.(*ast.BlockStmt)
	if !ok {
		err = fmt.Errorf("signing branch not recognised")
		return
	}
	if root, err = xc12_branchFacts(branch.Body); err != nil {
		return
	}
	sign, err = xc12_branchFacts(els)
	return
}


func xc12_days(c *x509.Certificate) uint64 {
	return uint64(c.NotAfter.Sub(c.NotBefore) / (24 * time.Hour))
}

// xc12_rotateSequencing classifies rotate.Key: eager (all five steps are arguments of multierr.Combine
// and the old key is destroyed in the step before finalize) or sequential (steps run in a loop or
// chain that returns at the first error; updatePrimaryAndDestroy calls finalize before
// DestroyKeyVersion).
func xc12_rotateSequencing(repo string) (sequential bool, err error) {
	_, f, err := parseFile(repo, "rotate/rotate.go")
	if err != nil {
		return false, err
	}
	key := findFunc(f, "Key")
	upd := findFunc(f, "updatePrimaryAndDestroy")
	if key == nil || upd == nil {
		return false, fmt.Errorf("rotate.Key or updatePrimaryAndDestroy not found")
	}
	stepNames := func(args []ast.Expr) []string {
		var out []string
		for _, a := range args {
			switch v := a.(type) {
			case *ast.CallExpr:
				if sel, ok := v.Fun.(*ast.SelectorExpr); ok {
					out = append(out, sel.Sel.Name)
				}
			case *ast.SelectorExpr:
				out = append(out, v.Sel.Name)
			}
		}
		return out
	}
	var combine, loopSteps []string
	ast.Inspect(key.Body, func(n ast.Node) bool {
		switch v := n.(type) {
		case *ast.CallExpr:
			if sel, ok := v.Fun.(*ast.SelectorExpr); ok && sel.Sel.Name == "Combine" {
				combine = stepNames(v.Args)
			}
		case *ast.RangeStmt:
			if cl, ok := v.X.(*ast.CompositeLit); ok {
				loopSteps = stepNames(cl.Elts)
			}
		}
		return true
	})
	// position of finalize / DestroyKeyVersion inside updatePrimaryAndDestroy
	finPos, desPos := token.NoPos, token.NoPos
	ast.Inspect(upd.Body, func(n ast.Node) bool {
		if c, ok := n.(*ast.CallExpr); ok {
			if sel, ok := c.Fun.(*ast.SelectorExpr); ok {
				switch sel.Sel.Name {
				case "finalize", "Finalize":
					finPos = c.Pos()
				case "DestroyKeyVersion":
					desPos = c.Pos()
				}
			}
		}
		return true
	})
	if desPos == token.NoPos {
		return false, fmt.Errorf("updatePrimaryAndDestroy no longer destroys the old key version")
	}
	eager := []string{"createNewSigningKeyVersion", "getCurrentInfo", "signAndAdd", "updatePrimaryAndDestroy", "finalize"}
	seq := eager[:4]
	switch {
	case strings.Join(combine, ",") == strings.Join(eager, ",") && finPos == token.NoPos:
		return false, nil
	case strings.Join(loopSteps, ",") == strings.Join(seq, ",") && combine == nil && finPos != token.NoPos && finPos < desPos:
		return true, nil
	}
	return false, fmt.Errorf("step sequencing of rotate.Key not recognised (combine=%v loop=%v finalize-before-destroy=%v)",
		combine, loopSteps, finPos != token.NoPos && finPos < desPos)
}

func xc12_extractCertConsts(repo string, w *leanWriter) error {
	w.Line("-- lifetimes: sign/types constants (linked)")
	w.NatDef("signValidDays", uint64(styp.SignValidDays))
	w.NatDef("rootValidDays", uint64(styp.RootValidDays))
	w.Line("-- crypto/x509 enumerations (linked)")
	w.NatDef("kuDigitalSignature", uint64(x509.KeyUsageDigitalSignature))
	w.NatDef("kuCertSign", uint64(x509.KeyUsageCertSign))
	w.NatDef("kuCRLSign", uint64(x509.KeyUsageCRLSign))
	w.NatDef("sigSHA256WithRSAPSS", uint64(x509.SHA256WithRSAPSS))

	// ---- sops.GoogleCertificateTemplate: AST literals, cross-checked by evaluation ----
	alg, serialIsSubject, rootF, signF, err := xc12_googleTemplateAST(repo)
	if err != nil {
		return fmt.Errorf("sops.GoogleCertificateTemplate: %v", err)
	}
	if rootF.hours != signF.hours {
		return fmt.Errorf("sops.GoogleCertificateTemplate: different day lengths in the two branches")
	}
	pk, err := rsa.GenerateKey(rand.Reader, 1024)
	if err != nil {
		return err
	}
	t0 := time.Date(2024, 9, 1, 0, 0, 0, 0, time.UTC)
	rootT, err := sops.GoogleCertificateTemplate(&sops.GoogleCertTemplate{Serial: big.NewInt(71), PublicKey: &pk.PublicKey, NotBefore: t0, SubjectCommonName: "r"})
	if err != nil {
		return err
	}
	signT, err := sops.GoogleCertificateTemplate(&sops.GoogleCertTemplate{Serial: big.NewInt(72), PublicKey: &pk.PublicKey, NotBefore: t0, SubjectCommonName: "s", Issuer: rootT})
	if err != nil {
		return err
	}
	type pair struct {
		what     string
		ast, evl uint64
	}
	b2u := func(b bool) uint64 {
		if b {
			return 1
		}
		return 0
	}
	checks := []pair{
		{"root IsCA", b2u(rootF.isCA), b2u(rootT.IsCA)},
		{"root KeyUsage", rootF.keyUsage, uint64(rootT.KeyUsage)},
		{"root lifetime", rootF.days * rootF.hours * 3600, uint64(rootT.NotAfter.Sub(rootT.NotBefore) / time.Second)},
		{"signing IsCA", b2u(signF.isCA), b2u(signT.IsCA)},
		{"signing KeyUsage", signF.keyUsage, uint64(signT.KeyUsage)},
		{"signing lifetime", signF.days * signF.hours * 3600, uint64(signT.NotAfter.Sub(signT.NotBefore) / time.Second)},
		{"root SignatureAlgorithm", alg, uint64(rootT.SignatureAlgorithm)},
		{"signing SignatureAlgorithm", alg, uint64(signT.SignatureAlgorithm)},
		{"certificate serial is the subject serial (root)", b2u(serialIsSubject), b2u(rootT.SerialNumber.Cmp(big.NewInt(71)) == 0)},
		{"certificate serial is the subject serial (signing)", b2u(serialIsSubject), b2u(signT.SerialNumber.Cmp(big.NewInt(72)) == 0 && signT.Subject.SerialNumber == "72")},
	}
	for _, c := range checks {
		if c.ast != c.evl {
			return fmt.Errorf("sops.GoogleCertificateTemplate: source literal and evaluated template disagree on %s (%d vs %d)", c.what, c.ast, c.evl)
		}
	}
	w.Line("-- sops.GoogleCertificateTemplate (template literals from the AST, cross-checked by evaluation)")
	w.NatDef("hoursPerDay", rootF.hours)
	w.Line("def googleRootIsCA : Bool := %v", rootF.isCA)
	w.NatDef("googleRootKeyUsage", rootF.keyUsage)
	w.NatDef("googleRootDays", rootF.days)
	w.Line("def googleSignIsCA : Bool := %v", signF.isCA)
	w.NatDef("googleSignKeyUsage", signF.keyUsage)
	w.NatDef("googleSignDays", signF.days)
	w.NatDef("googleSigAlg", alg)
	w.Line("def googleSerialIsSubject : Bool := %v", serialIsSubject)

	// ---- certs.TemplateFromCert: evaluated on a CA certificate and on a signing certificate ----
	mk := func(isCA bool, ku x509.KeyUsage, serial int64) *x509.Certificate {
		return &x509.Certificate{SerialNumber: big.NewInt(serial), IsCA: isCA, BasicConstraintsValid: true, KeyUsage: ku,
			SignatureAlgorithm: x509.SHA384WithRSAPSS, // deliberately not the Google value: shows what is copied
			Subject:            pkix.Name{CommonName: "old", SerialNumber: fmt.Sprint(serial)},
			Issuer:             pkix.Name{CommonName: "oldissuer", SerialNumber: "5"},
			NotBefore:          t0.Add(-time.Hour), NotAfter: t0.Add(time.Hour)}
	}
	bctx := rotate.NewBootstrapContext(context.Background(), &rotate.BootstrapContext{RootKeyCommonName: "nr", RootKeySerial: big.NewInt(81),
		SigningKeyCommonName: "ns", SigningKeySerial: big.NewInt(82), Now: t0})
	sctx := rotate.NewSigningKeyContext(context.Background(), &rotate.SigningKeyContext{SigningKeyCommonName: "nk", SigningKeySerial: big.NewInt(83), Now: t0})
	oldRoot := mk(true, x509.KeyUsageCertSign|x509.KeyUsageContentCommitment, 11)
	oldSign := mk(false, x509.KeyUsageDigitalSignature|x509.KeyUsageKeyAgreement, 12)
	fr, err := certs.TemplateFromCert(bctx, oldRoot, &pk.PublicKey)
	if err != nil {
		return fmt.Errorf("certs.TemplateFromCert(root): %v", err)
	}
	fb, err := certs.TemplateFromCert(bctx, oldSign, &pk.PublicKey)
	if err != nil {
		return fmt.Errorf("certs.TemplateFromCert(first signing key): %v", err)
	}
	fs, err := certs.TemplateFromCert(sctx, oldSign, &pk.PublicKey)
	if err != nil {
		return fmt.Errorf("certs.TemplateFromCert(rotated signing key): %v", err)
	}
	keeps := func(n, o *x509.Certificate) bool {
		return n.IsCA == o.IsCA && n.KeyUsage == o.KeyUsage && n.SignatureAlgorithm == o.SignatureAlgorithm
	}
	if !keeps(fr, oldRoot) || !keeps(fb, oldSign) || !keeps(fs, oldSign) {
		return fmt.Errorf("certs.TemplateFromCert no longer copies IsCA/KeyUsage/SignatureAlgorithm from the template certificate")
	}
	if fr.Subject.CommonName != "nr" || fr.Subject.SerialNumber != "81" || fb.Subject.CommonName != "ns" || fb.Subject.SerialNumber != "82" ||
		fs.Subject.CommonName != "nk" || fs.Subject.SerialNumber != "83" || !fr.NotBefore.Equal(t0) || !fs.NotBefore.Equal(t0) || !fb.NotBefore.Equal(t0) {
		return fmt.Errorf("certs.TemplateFromCert: subject name/serial/notBefore are not taken from the context as modelled")
	}
	serialNew := func(n *x509.Certificate, want int64) bool { return n.SerialNumber != nil && n.SerialNumber.Cmp(big.NewInt(want)) == 0 }
	serialOld := func(n, o *x509.Certificate) bool { return n.SerialNumber != nil && n.SerialNumber.Cmp(o.SerialNumber) == 0 }
	var fromCertSerialIsSubject bool
	switch {
	case serialNew(fr, 81) && serialNew(fb, 82) && serialNew(fs, 83):
		fromCertSerialIsSubject = true
	case serialOld(fr, oldRoot) && serialOld(fb, oldSign) && serialOld(fs, oldSign):
		fromCertSerialIsSubject = false
	default:
		return fmt.Errorf("certs.TemplateFromCert: certificate serial is neither the new subject serial nor the template certificate's")
	}
	if xc12_days(fb) != xc12_days(fs) {
		return fmt.Errorf("certs.TemplateFromCert: signing lifetime differs between bootstrap and rotation contexts")
	}
	// AST idiom: the NotAfter assignment has the recognised days*24*time.Hour shape
	_, cf, err := parseFile(repo, "testing/nonprod/certs/certs.go")
	if err != nil {
		return err
	}
	tfc := findFunc(cf, "TemplateFromCert")
	if tfc == nil {
		return fmt.Errorf("certs.TemplateFromCert not found")
	}
	na, ok := xc12_assignmentsIn(tfc.Body, "template")["NotAfter"]
	if !ok {
		return fmt.Errorf("certs.TemplateFromCert: NotAfter assignment not recognised")
	}
	if _, hours, err := xc12_lifetimeOf(na); err != nil || hours != rootF.hours {
		return fmt.Errorf("certs.TemplateFromCert: lifetime expression not recognised (%v)", err)
	}
	_, serialAssigned := xc12_assignmentsIn(tfc.Body, "template")["SerialNumber"]
	if serialAssigned != fromCertSerialIsSubject {
		return fmt.Errorf("certs.TemplateFromCert: source and evaluation disagree on the certificate serial")
	}
	w.Line("-- certs.TemplateFromCert (evaluated through the linked package; idiom matched in the AST)")
	w.Line("def fromCertSerialIsSubject : Bool := %v", fromCertSerialIsSubject)
	w.NatDef("fromCertRootDays", xc12_days(fr))
	w.NatDef("fromCertSignDays", xc12_days(fs))

	// ---- sops.NextSigningKeySerial and cmd.RotateCommand.InitContext ----
	ca := memca.Create()
	ca.PrimarySigningKey = "k"
	prev := mk(false, x509.KeyUsageDigitalSignature, 7)
	prev.Subject.SerialNumber = "41" // subject serial differs from certificate serial on purpose
	prev.Raw = nil
	// NextSigningKeySerial parses CA.Certificate bytes: create a real certificate carrying the subject.
	der, err := x509.CreateCertificate(rand.Reader, &x509.Certificate{SerialNumber: big.NewInt(7), Subject: prev.Subject,
		NotBefore: t0, NotAfter: t0.Add(time.Hour)}, &x509.Certificate{SerialNumber: big.NewInt(7), Subject: prev.Subject}, &pk.PublicKey, pk)
	if err != nil {
		return err
	}
	parsed, err := x509.ParseCertificate(der)
	if err != nil {
		return err
	}
	ca.Certs["k"] = parsed
	kctx := keys.NewContext(context.Background(), &keys.Context{CA: ca})
	next, err := sops.NextSigningKeySerial(kctx)
	if err != nil {
		return fmt.Errorf("sops.NextSigningKeySerial: %v", err)
	}
	inc := new(big.Int).Sub(next, big.NewInt(41))
	if inc.Sign() < 0 || !inc.IsUint64() {
		return fmt.Errorf("sops.NextSigningKeySerial: result %v is below the current subject serial 41", next)
	}
	w.Line("-- sops.NextSigningKeySerial: result minus the current primary's SUBJECT serial (evaluated)")
	w.NatDef("nextSerialIncrement", inc.Uint64())
	rc := &cmd.RotateCommand{}
	skcDefault := &rotate.SigningKeyContext{SigningKeySerial: big.NewInt(0)}
	if _, err := rc.InitContext(rotate.NewSigningKeyContext(kctx, skcDefault)); err != nil {
		return fmt.Errorf("cmd.RotateCommand.InitContext: %v", err)
	}
	skcOver := &rotate.SigningKeyContext{SigningKeySerial: big.NewInt(5)}
	if _, err := rc.InitContext(rotate.NewSigningKeyContext(kctx, skcOver)); err != nil {
		return fmt.Errorf("cmd.RotateCommand.InitContext: %v", err)
	}
	if skcOver.SigningKeySerial.Cmp(big.NewInt(5)) != 0 {
		return fmt.Errorf("cmd.RotateCommand.InitContext changed an explicit serial override")
	}
	dflt := new(big.Int).Sub(skcDefault.SigningKeySerial, big.NewInt(41))
	if dflt.Sign() < 0 || !dflt.IsUint64() {
		return fmt.Errorf("cmd.RotateCommand.InitContext: default serial %v is below the current subject serial", skcDefault.SigningKeySerial)
	}
	w.Line("-- cmd.RotateCommand.InitContext: serial chosen for override 0, minus the current subject serial (evaluated)")
	w.NatDef("rotateDefaultIncrement", dflt.Uint64())

	// ---- memkm.BumpName ----
	b1, b2 := memkm.BumpName("k"), memkm.BumpName("k_7")
	n1, e1 := strconv.ParseUint(strings.TrimPrefix(b1, "k_"), 10, 64)
	n2, e2 := strconv.ParseUint(strings.TrimPrefix(b2, "k_"), 10, 64)
	if e1 != nil || e2 != nil || !strings.HasPrefix(b1, "k_") || !strings.HasPrefix(b2, "k_") || n2 < 7 || n2-7 != n1 {
		return fmt.Errorf("memkm.BumpName: %q, %q do not follow <prefix>_<n+inc>", b1, b2)
	}
	w.Line("-- memkm.BumpName: numeric suffix increment (evaluated on \"k\" and \"k_7\")")
	w.NatDef("bumpIncrement", n1)

	// ---- rotate.Key sequencing ----
	seq, err := xc12_rotateSequencing(repo)
	if err != nil {
		return err
	}
	w.Line("-- rotate.Key: false = all five steps run (arguments of multierr.Combine), old key destroyed before Finalize;")
	w.Line("--             true  = steps stop at the first error, Finalize precedes DestroyKeyVersion")
	w.Line("def rotateSequential : Bool := %v", seq)
	return nil
}
