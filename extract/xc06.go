package main

// C06Tables: the tables the endorse model is parameterised by.
//   vmsaCounts   sev.AllSupportedVmsaCounts (exported: value of the linked package, cross-checked
//                against the composite literal in sev/endorsement.go)
//   gceFamilyId  sev.GCEUefiFamilyID (exported constant)
//   shapes       tdx.shapeDesc (unexported map literal in tdx/mrtd_from_ovmf.go, go/ast, source order)
//   prodPolicy   sev.prodPolicy (unexported: the abi.SnpPolicy literal is read with go/ast and
//                evaluated with go-sev-guest's abi.SnpPolicyToBytes)

import (
	"fmt"
	"go/ast"
	"go/token"
	"strconv"
	"strings"

	"github.com/google/gce-tcb-verifier/sev"
	sgabi "github.com/google/go-sev-guest/abi"
)

func init() { register("C06Tables", extractC06Tables) }

// findVarValue returns the initialiser expression of the package-level variable name.
func findVarValue(f *ast.File, name string) ast.Expr {
	for _, d := range f.Decls {
		gd, ok := d.(*ast.GenDecl)
		if !ok || (gd.Tok != token.VAR && gd.Tok != token.CONST) {
			continue
		}
		for _, sp := range gd.Specs {
			vs, ok := sp.(*ast.ValueSpec)
			if !ok {
				continue
			}
			for i, n := range vs.Names {
				if n.Name == name && i < len(vs.Values) {
					return vs.Values[i]
				}
			}
		}
	}
	return nil
}

func intLit(e ast.Expr) (uint64, bool) {
	bl, ok := e.(*ast.BasicLit)
	if !ok || bl.Kind != token.INT {
		return 0, false
	}
	v, err := strconv.ParseUint(bl.Value, 0, 64)
	return v, err == nil
}

func extractC06Tables(repo string, w *leanWriter) error {
	// --- VMSA counts ---
	_, f, err := parseFile(repo, "sev/endorsement.go")
	if err != nil {
		return err
	}
	lit, ok := findVarValue(f, "AllSupportedVmsaCounts").(*ast.CompositeLit)
	if !ok {
		return fmt.Errorf("sev.AllSupportedVmsaCounts is not a composite literal")
	}
	var fromAst []uint64
	for _, el := range lit.Elts {
		v, ok := intLit(el)
		if !ok {
			return fmt.Errorf("sev.AllSupportedVmsaCounts has a non-literal element")
		}
		fromAst = append(fromAst, v)
	}
	var linked []uint64
	for _, v := range sev.AllSupportedVmsaCounts {
		linked = append(linked, uint64(v))
	}
	if fmt.Sprint(fromAst) != fmt.Sprint(linked) {
		return fmt.Errorf("sev.AllSupportedVmsaCounts: literal %v differs from linked value %v", fromAst, linked)
	}
	w.NatList("vmsaCounts", linked)
	w.StrDef("gceFamilyId", sev.GCEUefiFamilyID)

	// the loop in generateAllPossibleLDs must iterate vmsaCounts(snpRequest); vmsaCounts must return
	// the table for 0 and the singleton otherwise (shape check of the two functions)
	vc := findFunc(f, "vmsaCounts")
	if vc == nil || len(vc.Body.List) != 2 {
		return fmt.Errorf("sev.vmsaCounts: unexpected shape")
	}

	// --- production policy ---
	call, ok := findVarValue(f, "prodPolicy").(*ast.CallExpr)
	if !ok || len(call.Args) != 1 {
		return fmt.Errorf("sev.prodPolicy is not a call with one argument")
	}
	if sel, ok := call.Fun.(*ast.SelectorExpr); !ok || sel.Sel.Name != "SnpPolicyToBytes" {
		return fmt.Errorf("sev.prodPolicy is not abi.SnpPolicyToBytes(...)")
	}
	pl, ok := call.Args[0].(*ast.CompositeLit)
	if !ok {
		return fmt.Errorf("sev.prodPolicy argument is not a composite literal")
	}
	var pol sgabi.SnpPolicy
	for _, el := range pl.Elts {
		kv, ok := el.(*ast.KeyValueExpr)
		if !ok {
			return fmt.Errorf("sev.prodPolicy: positional field")
		}
		key := kv.Key.(*ast.Ident).Name
		boolVal := func() (bool, error) {
			id, ok := kv.Value.(*ast.Ident)
			if !ok || (id.Name != "true" && id.Name != "false") {
				return false, fmt.Errorf("sev.prodPolicy.%s: not a boolean literal", key)
			}
			return id.Name == "true", nil
		}
		switch key {
		case "ABIMinor", "ABIMajor":
			v, ok := intLit(kv.Value)
			if !ok || v > 255 {
				return fmt.Errorf("sev.prodPolicy.%s: not a small integer literal", key)
			}
			if key == "ABIMinor" {
				pol.ABIMinor = uint8(v)
			} else {
				pol.ABIMajor = uint8(v)
			}
		case "SMT":
			if pol.SMT, err = boolVal(); err != nil {
				return err
			}
		case "MigrateMA":
			if pol.MigrateMA, err = boolVal(); err != nil {
				return err
			}
		case "Debug":
			if pol.Debug, err = boolVal(); err != nil {
				return err
			}
		case "SingleSocket":
			if pol.SingleSocket, err = boolVal(); err != nil {
				return err
			}
		default:
			return fmt.Errorf("sev.prodPolicy: unknown field %s", key)
		}
	}
	w.NatDef("prodPolicy", sgabi.SnpPolicyToBytes(pol))
	w.Line("def prodPolicyDebug : Bool := %v", pol.Debug)

	// --- machine shapes ---
	_, tf, err := parseFile(repo, "tdx/mrtd_from_ovmf.go")
	if err != nil {
		return err
	}
	sl, ok := findVarValue(tf, "shapeDesc").(*ast.CompositeLit)
	if !ok {
		return fmt.Errorf("tdx.shapeDesc is not a composite literal")
	}
	var rows []string
	for _, el := range sl.Elts {
		kv, ok := el.(*ast.KeyValueExpr)
		if !ok {
			return fmt.Errorf("tdx.shapeDesc: element without key")
		}
		name, ok := kv.Key.(*ast.BasicLit)
		if !ok || name.Kind != token.STRING {
			return fmt.Errorf("tdx.shapeDesc: non-literal key")
		}
		nm, _ := strconv.Unquote(name.Value)
		vl, ok := kv.Value.(*ast.CompositeLit)
		if !ok {
			return fmt.Errorf("tdx.shapeDesc[%s]: not a literal", nm)
		}
		vals := map[string]uint64{}
		for _, fe := range vl.Elts {
			fkv, ok := fe.(*ast.KeyValueExpr)
			if !ok {
				return fmt.Errorf("tdx.shapeDesc[%s]: positional field", nm)
			}
			v, ok := intLit(fkv.Value)
			if !ok {
				return fmt.Errorf("tdx.shapeDesc[%s]: non-literal field", nm)
			}
			vals[fkv.Key.(*ast.Ident).Name] = v
		}
		if len(vals) != 3 {
			return fmt.Errorf("tdx.shapeDesc[%s]: want fields size, nodes, maxSizePerNode", nm)
		}
		rows = append(rows, fmt.Sprintf("(%q, %d, %d, %d)", nm, vals["size"], vals["nodes"], vals["maxSizePerNode"]))
	}
	w.Line("/-- (name, size GiB, NUMA nodes, max GiB per node) -/")
	w.Line("def shapes : List (String × Nat × Nat × Nat) := [%s]", strings.Join(rows, ", "))
	return nil
}
