package main

// C05 / C08 (TDX half): facts regenerated from tdx/*.go, ovmf/tdx_data.go, ovmf/abi/*.go.
//
//   TdxConsts      buffer/chunk/page sizes, hole bounds, the machine-shape table and the fixed low
//                  banks of regionsForShape, extension-buffer names and byte ranges, TD HOB
//                  constants, section-type enum, GUID strings, the validation caps, the launch-mode
//                  selection table of tdx.MRTD and the parser literals of the three Extract* entry points
//   PanicSitesTdx  inventory of every index / slice / make / integer conversion / Grow / explicit
//                  panic expression in the TDX firmware-analysis functions, keyed (func, ordinal, kind)

import (
	"fmt"
	"go/ast"
	"go/token"
	"sort"
	"strconv"
	"strings"
)

func init() {
	register("TdxConsts", extractTdxConsts)
	register("PanicSitesTdx", extractPanicSitesTdx)
}

// c05Env evaluates constant expressions with package-qualified references (abi.X).
type c05Env struct {
	local *constEnv
	pkgs  map[string]*constEnv
}

func (e *c05Env) eval(x ast.Expr) (uint64, error) {
	switch v := x.(type) {
	case *ast.SelectorExpr:
		if id, ok := v.X.(*ast.Ident); ok {
			if p, ok := e.pkgs[id.Name]; ok {
				if n, ok := p.vals[v.Sel.Name]; ok {
					return n, nil
				}
			}
		}
		return 0, fmt.Errorf("unknown selector %s", exprSrc(x))
	case *ast.ParenExpr:
		return e.eval(v.X)
	case *ast.CallExpr:
		if len(v.Args) == 1 {
			return e.eval(v.Args[0])
		}
	case *ast.BinaryExpr:
		a, err := e.eval(v.X)
		if err != nil {
			return 0, err
		}
		b, err := e.eval(v.Y)
		if err != nil {
			return 0, err
		}
		switch v.Op {
		case token.ADD:
			return a + b, nil
		case token.SUB:
			return a - b, nil
		case token.MUL:
			return a * b, nil
		case token.SHL:
			return a << b, nil
		case token.SHR:
			return a >> b, nil
		case token.OR:
			return a | b, nil
		case token.AND:
			return a & b, nil
		}
		return 0, fmt.Errorf("unsupported operator %s", v.Op)
	}
	return e.local.eval(x, 0)
}

// c05LoadPkg evaluates the integer constants of several files of one package into one
// environment (two passes, so that cross-file and package-qualified references resolve).
func c05LoadPkg(repo string, rels []string, pkgs map[string]*constEnv) (*constEnv, map[string]*ast.File, error) {
	env := &constEnv{vals: map[string]uint64{}}
	files := map[string]*ast.File{}
	for _, rel := range rels {
		_, f, err := parseFile(repo, rel)
		if err != nil {
			return nil, nil, err
		}
		files[rel] = f
	}
	ce := &c05Env{local: env, pkgs: pkgs}
	for pass := 0; pass < 3; pass++ {
		for _, rel := range rels {
			for _, d := range files[rel].Decls {
				gd, ok := d.(*ast.GenDecl)
				if !ok || gd.Tok != token.CONST {
					continue
				}
				var last []ast.Expr
				for i, s := range gd.Specs {
					vs := s.(*ast.ValueSpec)
					vals := vs.Values
					if len(vals) == 0 {
						vals = last
					} else {
						last = vals
					}
					for j, n := range vs.Names {
						if j >= len(vals) {
							continue
						}
						if _, done := env.vals[n.Name]; done {
							continue
						}
						if v, err := env.eval(vals[j], uint64(i)); err == nil {
							env.vals[n.Name] = v
						} else if v, err := ce.eval(vals[j]); err == nil {
							env.vals[n.Name] = v
						}
					}
				}
			}
		}
	}
	return env, files, nil
}

func c05StrConst(files map[string]*ast.File, name string) (string, bool) {
	for _, f := range files {
		for _, d := range f.Decls {
			gd, ok := d.(*ast.GenDecl)
			if !ok || gd.Tok != token.CONST {
				continue
			}
			for _, s := range gd.Specs {
				vs := s.(*ast.ValueSpec)
				for j, n := range vs.Names {
					if n.Name == name && j < len(vs.Values) {
						if bl, ok := vs.Values[j].(*ast.BasicLit); ok && bl.Kind == token.STRING {
							v, err := strconv.Unquote(bl.Value)
							return v, err == nil
						}
					}
				}
			}
		}
	}
	return "", false
}

func c05Need(env *constEnv, w *leanWriter, leanName, goName string) error {
	v, ok := env.vals[goName]
	if !ok {
		return fmt.Errorf("constant %s not found / not evaluable", goName)
	}
	w.NatDef(leanName, v)
	return nil
}

// c05Method finds a method or function by name in any of the files.
func c05Func(files map[string]*ast.File, name string) *ast.FuncDecl {
	keys := make([]string, 0, len(files))
	for k := range files {
		keys = append(keys, k)
	}
	sort.Strings(keys)
	for _, k := range keys {
		if fd := findFunc(files[k], name); fd != nil {
			return fd
		}
	}
	return nil
}

// c05BufWrites recognises, in pageAdd / mrExtend:
//
//	copy(buf[a:b], []byte("NAME"));  binary.LittleEndian.PutUint64(buf[c:d], gpa);  m.extend(...)
func c05BufWrites(env *c05Env, fd *ast.FuncDecl) (name string, nameLo, nameHi, gpaLo, gpaHi uint64, extends []string, err error) {
	found := 0
	for _, st := range fd.Body.List {
		es, ok := st.(*ast.ExprStmt)
		if !ok {
			continue
		}
		call, ok := es.X.(*ast.CallExpr)
		if !ok {
			continue
		}
		if id, ok := call.Fun.(*ast.Ident); ok && id.Name == "copy" && len(call.Args) == 2 {
			sl, ok := call.Args[0].(*ast.SliceExpr)
			conv, ok2 := call.Args[1].(*ast.CallExpr)
			if !ok || !ok2 || len(conv.Args) != 1 {
				return "", 0, 0, 0, 0, nil, fmt.Errorf("%s: unrecognised copy", fd.Name.Name)
			}
			bl, ok := conv.Args[0].(*ast.BasicLit)
			if !ok || bl.Kind != token.STRING {
				return "", 0, 0, 0, 0, nil, fmt.Errorf("%s: copy source is not a string literal", fd.Name.Name)
			}
			name, _ = strconv.Unquote(bl.Value)
			if nameLo, err = env.eval(sl.Low); err != nil {
				return
			}
			if nameHi, err = env.eval(sl.High); err != nil {
				return
			}
			found |= 1
			continue
		}
		if _, m, args, ok := orderCall(call); ok && m == "PutUint64" && len(args) == 2 {
			sl, ok := args[0].(*ast.SliceExpr)
			if !ok {
				return "", 0, 0, 0, 0, nil, fmt.Errorf("%s: unrecognised PutUint64 target", fd.Name.Name)
			}
			if gpaLo, err = env.eval(sl.Low); err != nil {
				return
			}
			if gpaHi, err = env.eval(sl.High); err != nil {
				return
			}
			if exprSrc(args[1]) != "gpa" {
				return "", 0, 0, 0, 0, nil, fmt.Errorf("%s: PutUint64 value is %s, want gpa", fd.Name.Name, exprSrc(args[1]))
			}
			found |= 2
			continue
		}
		if sel, ok := call.Fun.(*ast.SelectorExpr); ok && sel.Sel.Name == "extend" && len(call.Args) == 1 {
			extends = append(extends, exprSrc(call.Args[0]))
		}
	}
	if found != 3 {
		err = fmt.Errorf("%s: name copy / gpa write not both found", fd.Name.Name)
	}
	return
}

func extractTdxConsts(repo string, w *leanWriter) error {
	pkgs := map[string]*constEnv{}
	abiEnv, abiFiles, err := c05LoadPkg(repo, []string{"ovmf/abi/abi.go", "ovmf/abi/pihob.go", "ovmf/abi/pibootmode.go"}, pkgs)
	if err != nil {
		return err
	}
	pkgs["abi"] = abiEnv
	ovmfEnv, ovmfFiles, err := c05LoadPkg(repo, []string{"ovmf/tdx_data.go", "ovmf/memory.go"}, pkgs)
	if err != nil {
		return err
	}
	pkgs["ovmf"] = ovmfEnv
	tdxEnv, tdxFiles, err := c05LoadPkg(repo, []string{"tdx/measurement.go", "tdx/mrtd_from_ovmf.go", "tdx/endorsement.go"}, pkgs)
	if err != nil {
		return err
	}
	w.Line("-- tdx/measurement.go, tdx/mrtd_from_ovmf.go")
	for _, n := range []string{"extensionBufferSize", "mrExtendChunkSize", "mib", "gib", "mmioHoleStart", "mmioHoleEnd"} {
		if err := c05Need(tdxEnv, w, n, n); err != nil {
			return err
		}
	}
	w.Line("-- ovmf/tdx_data.go")
	for _, p := range [][2]string{{"ovmfGib", "gib"}, {"tdhobBaseAttributes", "tdhobBaseAttributes"},
		{"maxTDVFPhysicalAddressBits", "maxTDVFPhysicalAddressBits"}, {"maxTDVFInitialMemory", "maxTDVFInitialMemory"}} {
		if err := c05Need(ovmfEnv, w, p[0], p[1]); err != nil {
			return err
		}
	}
	w.Line("-- ovmf/abi")
	for _, n := range []string{"PageSize", "TDXMetadataSectionTypeBFV", "TDXMetadataSectionTypeCFV", "TDXMetadataSectionTypeTDHOB",
		"TDXMetadataSectionTypeTempMem", "TDXMetadataVersion", "TDXMetadataAttributeExtendMR", "TDXMetadataDescriptorMagic",
		"SizeofTDXMetadataDescriptor", "SizeofTDXMetdataSection", "SizeofFwGUIDEntry", "FwGUIDTableEndOffset",
		"EFIResourceSystemMemory", "EFIResourceMemoryUnaccepted", "EFIResourceAttributePresent", "EFIResourceAttributeInitialized",
		"EFIResourceAttributeTested", "EFIResourceAttributeNeedsEarlyAccept", "EFIHOBTypeHandoff", "EFIHOBHandoffTableVersion",
		"EFIHOBTypeResourceDescriptor", "EFIHOBTypeEndOfHOBList", "SizeOfEFIHOBHandoffInfoTable", "SizeofEFIHOBResourceDescriptor",
		"SizeofHOBGenericHeader", "BootWithFullConfiguration"} {
		if err := c05Need(abiEnv, w, n, n); err != nil {
			return err
		}
	}
	for _, n := range []string{"TDXMetadataOffsetGUID", "TDXMetadataGUID", "FwGUIDTableFooterGUID"} {
		s, ok := c05StrConst(abiFiles, n)
		if !ok {
			return fmt.Errorf("string constant %s not found", n)
		}
		w.StrDef(n, s)
	}

	// extension buffers
	tenv := &c05Env{local: tdxEnv, pkgs: pkgs}
	for _, fn := range []string{"pageAdd", "mrExtend"} {
		fd := c05Func(tdxFiles, fn)
		if fd == nil {
			return fmt.Errorf("function %s not found", fn)
		}
		name, a, b, c, d, ext, err := c05BufWrites(tenv, fd)
		if err != nil {
			return err
		}
		w.Line("-- %s: name, name range, gpa range, arguments of the m.extend calls in order", fn)
		w.StrDef(fn+"Name", name)
		w.Line("def %sNameRange : Nat × Nat := (%d, %d)", fn, a, b)
		w.Line("def %sGpaRange : Nat × Nat := (%d, %d)", fn, c, d)
		emitStrList(w, fn+"Extends", ext)
	}

	// InitMemoryRegion loop: `for i := uint64(0); i < region.GPR.Length; i += mrExtendChunkSize`, pageAdd when i%PageSize == 0
	if fd := c05Func(tdxFiles, "InitMemoryRegion"); fd != nil {
		var loop *ast.ForStmt
		ast.Inspect(fd.Body, func(n ast.Node) bool {
			if f, ok := n.(*ast.ForStmt); ok && loop == nil {
				loop = f
			}
			return true
		})
		if loop == nil {
			return fmt.Errorf("InitMemoryRegion: loop not found")
		}
		w.StrDef("initLoopCond", exprSrc(loop.Cond))
		w.StrDef("initLoopPost", strings.TrimSpace(stmtSrc(loop.Post)))
		var conds []string
		for _, st := range loop.Body.List {
			if is, ok := st.(*ast.IfStmt); ok {
				conds = append(conds, exprSrc(is.Cond)+" => "+strings.Join(strings.Fields(stmtSrc(is.Body.List[0])), " "))
			}
		}
		emitStrList(w, "initLoopBody", conds)
	} else {
		return fmt.Errorf("InitMemoryRegion not found")
	}

	// shape table
	var shapes []string
	for _, f := range tdxFiles {
		for _, d := range f.Decls {
			gd, ok := d.(*ast.GenDecl)
			if !ok || gd.Tok != token.VAR {
				continue
			}
			for _, s := range gd.Specs {
				vs := s.(*ast.ValueSpec)
				if len(vs.Names) != 1 || vs.Names[0].Name != "shapeDesc" || len(vs.Values) != 1 {
					continue
				}
				cl, ok := vs.Values[0].(*ast.CompositeLit)
				if !ok {
					return fmt.Errorf("shapeDesc is not a composite literal")
				}
				for _, el := range cl.Elts {
					kv, ok := el.(*ast.KeyValueExpr)
					if !ok {
						return fmt.Errorf("shapeDesc: unexpected element")
					}
					k, ok := kv.Key.(*ast.BasicLit)
					v, ok2 := kv.Value.(*ast.CompositeLit)
					if !ok || !ok2 {
						return fmt.Errorf("shapeDesc: unexpected entry")
					}
					name, _ := strconv.Unquote(k.Value)
					fields := map[string]uint64{}
					for _, fe := range v.Elts {
						fkv, ok := fe.(*ast.KeyValueExpr)
						if !ok {
							return fmt.Errorf("shapeDesc[%s]: positional fields", name)
						}
						n, err := tenv.eval(fkv.Value)
						if err != nil {
							return err
						}
						fields[exprSrc(fkv.Key)] = n
					}
					if len(fields) != 3 {
						return fmt.Errorf("shapeDesc[%s]: want fields size, nodes, maxSizePerNode", name)
					}
					shapes = append(shapes, fmt.Sprintf("(%q, %d, %d, %d)", name, fields["size"], fields["nodes"], fields["maxSizePerNode"]))
				}
			}
		}
	}
	if len(shapes) == 0 {
		return fmt.Errorf("shapeDesc not found")
	}
	sort.Strings(shapes)
	w.Line("-- shapeDesc: (machine type, size GiB, nodes, maxSizePerNode GiB), sorted by name")
	w.Line("def shapes : List (String × Nat × Nat × Nat) := [%s]", strings.Join(shapes, ", "))

	// regionsForShape: the fixed banks, the start of the high banks and the low memory already taken
	fd := c05Func(tdxFiles, "regionsForShape")
	if fd == nil {
		return fmt.Errorf("regionsForShape not found")
	}
	var fixed []string
	var highStart, taken string
	for _, st := range fd.Body.List {
		as, ok := st.(*ast.AssignStmt)
		if !ok || len(as.Lhs) != 1 || len(as.Rhs) != 1 {
			continue
		}
		switch exprSrc(as.Lhs[0]) {
		case "regions":
			cl, ok := as.Rhs[0].(*ast.CompositeLit)
			if !ok {
				continue
			}
			for _, el := range cl.Elts {
				rl, ok := el.(*ast.CompositeLit)
				if !ok || len(rl.Elts) != 2 {
					return fmt.Errorf("regionsForShape: unexpected region literal")
				}
				var vals [2]uint64
				for i, key := range []string{"Start", "Length"} {
					kv, ok := rl.Elts[i].(*ast.KeyValueExpr)
					if !ok || exprSrc(kv.Key) != key {
						return fmt.Errorf("regionsForShape: region literal fields")
					}
					n, err := tenv.eval(kv.Value)
					if err != nil {
						return err
					}
					vals[i] = n
				}
				fixed = append(fixed, fmt.Sprintf("(%d, %d)", vals[0], vals[1]))
			}
		case "Start":
			if n, err := tenv.eval(as.Rhs[0]); err == nil {
				highStart = fmt.Sprint(n)
			}
		case "taken":
			if as.Tok == token.DEFINE {
				if n, err := tenv.eval(as.Rhs[0]); err == nil {
					taken = fmt.Sprint(n)
				}
			}
		}
	}
	if len(fixed) == 0 || highStart == "" || taken == "" {
		return fmt.Errorf("regionsForShape: fixed banks / Start / taken not recognised")
	}
	w.Line("-- regionsForShape: fixed low banks (start, length), first high bank start, low memory counted as taken")
	w.Line("def fixedBanks : List (Nat × Nat) := [%s]", strings.Join(fixed, ", "))
	w.Line("def highBankStart : Nat := %s", highStart)
	w.Line("def takenLow : Nat := %s", taken)

	// getTDHOBList: early-accept threshold `unacceptedGpr.end() <= 4*gib`
	oenv := &c05Env{local: ovmfEnv, pkgs: pkgs}
	hob := c05Func(ovmfFiles, "getTDHOBList")
	if hob == nil {
		return fmt.Errorf("getTDHOBList not found")
	}
	var thr string
	var cond string
	ast.Inspect(hob.Body, func(n ast.Node) bool {
		if is, ok := n.(*ast.IfStmt); ok {
			if be, ok := is.Cond.(*ast.BinaryExpr); ok && be.Op == token.LOR {
				if l, ok := be.X.(*ast.ParenExpr); ok {
					if cmp, ok := l.X.(*ast.BinaryExpr); ok && cmp.Op == token.LEQ && strings.HasSuffix(exprSrc(cmp.X), ".end()") {
						if v, err := oenv.eval(cmp.Y); err == nil {
							thr = fmt.Sprint(v)
							cond = exprSrc(is.Cond)
						}
					}
				}
			}
		}
		return true
	})
	if thr == "" {
		return fmt.Errorf("getTDHOBList: early-accept condition not recognised")
	}
	w.Line("-- getTDHOBList: early-accept condition")
	w.Line("def earlyAcceptBelow : Nat := %s", thr)
	w.StrDef("earlyAcceptCond", cond)

	// parser literals of the three entry points: (function, fields set true, passes guestRAMbanks)
	var modes []string
	for _, fn := range []string{"ExtractMaterialGuestPhysicalRegionsNoUnacceptedMemory", "ExtractMaterialGuestPhysicalRegionsTDHOBBug", "ExtractMaterialGuestPhysicalRegions"} {
		fd := c05Func(ovmfFiles, fn)
		if fd == nil || len(fd.Body.List) != 1 {
			return fmt.Errorf("%s: not a single return", fn)
		}
		var lit *ast.CompositeLit
		var parseCall *ast.CallExpr
		ast.Inspect(fd.Body, func(n ast.Node) bool {
			if cl, ok := n.(*ast.CompositeLit); ok && exprSrc(cl.Type) == "tdxFwParser" {
				lit = cl
			}
			if c, ok := n.(*ast.CallExpr); ok {
				if sel, ok := c.Fun.(*ast.SelectorExpr); ok && sel.Sel.Name == "parse" {
					parseCall = c
				}
			}
			return true
		})
		if lit == nil || parseCall == nil || len(parseCall.Args) != 2 {
			return fmt.Errorf("%s: parser literal / parse call not recognised", fn)
		}
		var set []string
		for _, el := range lit.Elts {
			kv, ok := el.(*ast.KeyValueExpr)
			if !ok || exprSrc(kv.Value) != "true" {
				return fmt.Errorf("%s: parser literal field is not `Name: true`", fn)
			}
			set = append(set, fmt.Sprintf("%q", exprSrc(kv.Key)))
		}
		sort.Strings(set)
		banks := exprSrc(parseCall.Args[1])
		if banks != "nil" && banks != "guestRAMbanks" {
			return fmt.Errorf("%s: unexpected bank argument %s", fn, banks)
		}
		modes = append(modes, fmt.Sprintf("(%q, [%s], %v)", fn, strings.Join(set, ", "), banks != "nil"))
	}
	w.Line("-- ovmf entry points: (function, parser fields set true, whether the caller's banks are passed on)")
	w.Line("def parserModes : List (String × List String × Bool) := [%s]", strings.Join(modes, ", "))

	// tdx.MRTD: option tests in order and the entry point each selects
	mr := c05Func(tdxFiles, "MRTD")
	if mr == nil {
		return fmt.Errorf("MRTD not found")
	}
	var sel []string
	var measSel string
	for _, st := range mr.Body.List {
		is, ok := st.(*ast.IfStmt)
		if !ok {
			continue
		}
		callee := func(b *ast.BlockStmt) string {
			name := ""
			ast.Inspect(b, func(n ast.Node) bool {
				if c, ok := n.(*ast.CallExpr); ok && name == "" {
					switch f := c.Fun.(type) {
					case *ast.SelectorExpr:
						name = f.Sel.Name
					case *ast.Ident:
						name = f.Name
					}
				}
				return true
			})
			return name
		}
		if exprSrc(is.Cond) == "opts.MeasureAllRegions" && measSel == "" && is.Else != nil {
			if eb, ok := is.Else.(*ast.BlockStmt); ok {
				measSel = fmt.Sprintf("(%q, %q)", callee(is.Body), callee(eb))
				continue
			}
		}
		if strings.HasPrefix(exprSrc(is.Cond), "opts.") {
			cur := is
			for cur != nil {
				sel = append(sel, fmt.Sprintf("(%q, %q)", exprSrc(cur.Cond), callee(cur.Body)))
				switch e := cur.Else.(type) {
				case *ast.IfStmt:
					cur = e
				case *ast.BlockStmt:
					sel = append(sel, fmt.Sprintf("(%q, %q)", "", callee(e)))
					cur = nil
				default:
					cur = nil
				}
			}
		}
	}
	if measSel == "" || len(sel) != 3 {
		return fmt.Errorf("MRTD: option selection not recognised (%v, %v)", measSel, sel)
	}
	w.Line("-- tdx.MRTD: Measurement constructor by opts.MeasureAllRegions (then, else); region extraction by the first true option")
	w.Line("def mrtdMeasurementSel : String × String := %s", measSel)
	w.Line("def mrtdExtractSel : List (String × String) := [%s]", strings.Join(sel, ", "))
	return nil
}

func stmtSrc(s ast.Stmt) string {
	if s == nil {
		return ""
	}
	var b strings.Builder
	switch v := s.(type) {
	case *ast.AssignStmt:
		b.WriteString(exprSrc(v.Lhs[0]) + " " + v.Tok.String() + " " + exprSrc(v.Rhs[0]))
	case *ast.ExprStmt:
		b.WriteString(exprSrc(v.X))
	case *ast.IncDecStmt:
		b.WriteString(exprSrc(v.X) + v.Tok.String())
	default:
		b.WriteString(fmt.Sprintf("%T", s))
	}
	return b.String()
}

// ---- panic-site inventory ----

var c05IntConv = map[string]bool{"int": true, "int32": true, "int64": true, "uint16": true, "uint32": true, "uint64": true,
	"uint8": true, "byte": true, "EFIPhysicalAddress": true, "abi.EFIPhysicalAddress": true}

type c05Site struct {
	fn   string
	ord  int
	kind string
	src  string
}

func c05Sites(name string, fd *ast.FuncDecl) []c05Site {
	var res []c05Site
	add := func(kind string, x ast.Node) {
		src := ""
		if e, ok := x.(ast.Expr); ok {
			src = strings.Join(strings.Fields(exprSrc(e)), " ")
		}
		res = append(res, c05Site{name, len(res), kind, src})
	}
	ast.Inspect(fd.Body, func(n ast.Node) bool {
		switch v := n.(type) {
		case *ast.IndexExpr:
			add("index", v)
		case *ast.SliceExpr:
			add("slice", v)
		case *ast.CallExpr:
			switch f := v.Fun.(type) {
			case *ast.Ident:
				if f.Name == "make" {
					add("make", v)
				} else if f.Name == "panic" {
					add("panic", v)
				} else if c05IntConv[f.Name] && len(v.Args) == 1 {
					if _, lit := v.Args[0].(*ast.BasicLit); !lit {
						add("conv", v)
					}
				}
			case *ast.SelectorExpr:
				full := exprSrc(f)
				if c05IntConv[full] && len(v.Args) == 1 {
					if _, lit := v.Args[0].(*ast.BasicLit); !lit {
						add("conv", v)
					}
				} else if f.Sel.Name == "Grow" {
					add("grow", v)
				} else if f.Sel.Name == "MustParse" {
					add("mustparse", v)
				}
			}
		case *ast.BinaryExpr:
			if v.Op == token.QUO || v.Op == token.REM {
				add("divmod", v)
			}
		}
		return true
	})
	return res
}

func extractPanicSitesTdx(repo string, w *leanWriter) error {
	type target struct {
		rel   string
		funcs []string // "Recv.Name" or "Name"
	}
	targets := []target{
		{"tdx/mrtd_from_ovmf.go", []string{"regionsForShape", "machineTypeToRAMBanks", "LaunchOptionsDefault", "LaunchOptionsDefaultTDHOBBug", "MRTD"}},
		{"tdx/measurement.go", []string{"NewMeasurement", "NewMeasurementTDHOBBug", "Measurement.extend", "Measurement.pageAdd", "Measurement.mrExtend", "Measurement.InitMemoryRegion", "Measurement.Finalize"}},
		{"tdx/endorsement.go", []string{"generateAllPossibleMRTDs", "UnsignedTDX"}},
		{"ovmf/tdx_data.go", []string{"extractTDXMetadata", "validateTDXMetadataSections", "tdxFwParser.validateMetadataSectionGpr", "tdxFwParser.parse",
			"sortedGPRsCopy", "unacceptedMemRanges", "appendTDHobResource", "tdxFwParser.getTDHOBList",
			"ExtractMaterialGuestPhysicalRegionsNoUnacceptedMemory", "ExtractMaterialGuestPhysicalRegionsTDHOBBug", "ExtractMaterialGuestPhysicalRegions"}},
		{"ovmf/memory.go", []string{"gprCmp", "gprRange", "GuestPhysicalRegion.end", "minPhysicalAddress", "maxPhysicalAddress", "GuestPhysicalRegion.intersect"}},
		{"ovmf/abi/abi.go", []string{"TDXMetadataDescriptorFromBytes", "TDXMetadataSectionFromBytes", "TDXMetadataFromBytes", "EFIGUID.Put", "PutUUID"}},
		{"ovmf/abi/pihob.go", []string{"EFIHOBGenericHeader.WriteTo", "EFIHOBHandoffInfoTable.WriteTo", "EFIHOBResourceDescriptor.WriteTo"}},
	}
	var all []c05Site
	for _, t := range targets {
		_, f, err := parseFile(repo, t.rel)
		if err != nil {
			return err
		}
		for _, fn := range t.funcs {
			var fd *ast.FuncDecl
			if i := strings.Index(fn, "."); i >= 0 {
				fd = findMethod(f, fn[:i], fn[i+1:])
			} else {
				for _, d := range f.Decls {
					if x, ok := d.(*ast.FuncDecl); ok && x.Name.Name == fn && x.Recv == nil {
						fd = x
					}
				}
			}
			if fd == nil || fd.Body == nil {
				return fmt.Errorf("%s: function %s not found", t.rel, fn)
			}
			pkg := strings.Split(t.rel, "/")[0]
			if strings.HasPrefix(t.rel, "ovmf/abi/") {
				pkg = "abi"
			}
			all = append(all, c05Sites(pkg+"."+fn, fd)...)
		}
	}
	var keys, srcs []string
	for _, s := range all {
		keys = append(keys, fmt.Sprintf("(%q, %d, %q)", s.fn, s.ord, s.kind))
		srcs = append(srcs, fmt.Sprintf("%q", s.src))
	}
	w.Line("-- every index / slice / make / integer conversion / Grow / explicit panic / MustParse / division")
	w.Line("-- expression of the TDX firmware-analysis functions, in source order: (function, ordinal, kind)")
	w.Line("def sites : List (String × Nat × String) := [\n  %s]", strings.Join(keys, ",\n  "))
	w.Line("-- the expression text of each site (documentation; not part of the obligation)")
	w.Line("def siteSrc : List String := [\n  %s]", strings.Join(srcs, ",\n  "))
	return nil
}
