import GceTcb.Base.Line
import GceTcb.Drive.C13
/-
gcetcb-model: stdin line protocol → model outputs, one line out per line in.
First token selects the stream (property handler).  Core-only (links without Mathlib).
-/
open GceTcb

def dispatch (line : String) : String :=
  match splitLine line with
  | [] => "bad-op"
  | stream :: rest =>
    let f := Fields.parse rest
    match stream with
    | "c13" => Drive.C13.handle f
    | _ => "bad-stream"

partial def loop (h : IO.FS.Stream) (out : IO.FS.Stream) : IO Unit := do
  let line ← h.getLine
  if line.isEmpty then return ()
  out.putStrLn (dispatch line)
  loop h out

def main : IO Unit := do
  let out ← IO.getStdout
  loop (← IO.getStdin) out
  out.flush
