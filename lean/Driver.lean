import GceTcb.Base.Line
import GceTcb.Drive.C01
import GceTcb.Drive.C02
import GceTcb.Drive.C03
import GceTcb.Drive.C04
import GceTcb.Drive.C05
import GceTcb.Drive.C06
import GceTcb.Drive.C07
import GceTcb.Drive.C08
import GceTcb.Drive.C07Evl
import GceTcb.Drive.C07Dec
import GceTcb.Drive.C08Sev
import GceTcb.Drive.C08Tdx
import GceTcb.Drive.C03Proto
import GceTcb.Drive.C03Tools
import GceTcb.Drive.C01Wire
import GceTcb.Drive.C07Wire
import GceTcb.Drive.C09
import GceTcb.Drive.C10
import GceTcb.Drive.C11
import GceTcb.Drive.C12
import GceTcb.Drive.C12Cli
import GceTcb.Drive.C13
import GceTcb.Drive.C14
import GceTcb.Drive.C15
import GceTcb.Drive.EndorseCli
import GceTcb.Drive.RpCli
import GceTcb.Drive.Argv
import GceTcb.Drive.C16
import GceTcb.Drive.C16Fs
import GceTcb.Drive.C16Wire
import GceTcb.Drive.C17
import GceTcb.Drive.C18
import GceTcb.Drive.C19
import GceTcb.Drive.C20
/-
gcetcb-model: stdin line protocol → model outputs, one line out per line in.
The first token selects the stream (property handler); handlers select sub-operations with `op=`.
Core-only (links without Mathlib).
-/
open GceTcb

def dispatch (line : String) : String :=
  match splitLine line with
  | [] => "bad-op"
  | stream :: rest =>
    let f := Fields.parse rest
    match stream with
    | "c01" => Drive.C01.handle f
    | "c02" => Drive.C02.handle f
    | "c03" => Drive.C03.handle f
    | "c04" => Drive.C04.handle f
    | "c05" => Drive.C05.handle f
    | "c06" => Drive.C06.handle f
    | "c07" => Drive.C07.handle f
    | "c08" => Drive.C08.handle f
    | "c07evl" => Drive.C07Evl.handle f
    | "c07dec" => Drive.C07Dec.handle f
    | "c08sev" => Drive.C08Sev.handle f
    | "c08tdx" => Drive.C08Tdx.handle f
    | "c03proto" => Drive.C03Proto.handle f
    | "c03tools" => Drive.C03Tools.handle f
    | "c01wire" => Drive.C01Wire.handle f
    | "c07wire" => Drive.C07Wire.handle f
    | "c09" => Drive.C09.handle f
    | "c10" => Drive.C10.handle f
    | "c11" => Drive.C11.handle f
    | "c12" => Drive.C12.handle f
    | "c12cli" => Drive.C12Cli.handle f
    | "c13" => Drive.C13.handle f
    | "c14" => Drive.C14.handle f
    | "c15" => Drive.C15.handle f
    | "cli" => Drive.EndorseCli.handle f
    | "rpcli" => Drive.RpCli.handle f
    | "argv" => Drive.Argv.handle f
    | "c16" => Drive.C16.handle f
    | "c16fs" => Drive.C16Fs.handle f
    | "c16wire" => Drive.C16Wire.handle f
    | "c17" => Drive.C17.handle f
    | "c18" => Drive.C18.handle f
    | "c19" => Drive.C19.handle f
    | "c20" => Drive.C20.handle f
    | _ => "bad-stream"

partial def loop (h : IO.FS.Stream) (out : IO.FS.Stream) : IO Unit := do
  let line ← h.getLine
  if line.isEmpty then return ()
  out.putStrLn (dispatch line)
  loop h out

def main : IO Unit := do
  let out ← IO.getStdout
  loop (← IO.getStdin) out
  out.flush
