import GceTcb.Base.Line
import GceTcb.Base.Codec
import GceTcb.Base.Outcome
import GceTcb.Base.Sha384
import GceTcb.Props.C13
