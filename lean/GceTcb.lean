import GceTcb.Base.Line
import GceTcb.Model.Manifest
import GceTcb.Proofs.Manifest
