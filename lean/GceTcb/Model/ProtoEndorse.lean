import GceTcb.Model.ProtoWire
import GceTcb.Model.Endorse
import GceTcb.Model.Pipeline
/-
The wire codec (`Model/ProtoWire.lean`) related to the records the other models use:

* `ofGolden` : the document of `Model/Endorse.lean` (endorse.GoldenMeasurement / endorse.SignDoc) as the
  VMGoldenMeasurement message it is in Go — the signed payload is `encodeGoldenRaw (ofGolden d)` with the
  measurement map in the iteration order of the Go map (`reorder`);
* `wirePrims` : an instance of `Pipeline.Prims` (C03) whose wire type is `Bytes`, whose `marshal` /
  `unmarshal` are the codec, and whose remaining fields (RSA-PSS, X.509) stay parameters (`Crypto`).

Core-only.
-/
namespace GceTcb.ProtoEndorse
open GceTcb GceTcb.ProtoWire

/-- the entries of `l` in the key order `order` (Go's map iteration order, an input) -/
def reorder (order : List Nat) (l : List (Nat × Bytes)) : List (Nat × Bytes) :=
  order.filterMap fun k => l.find? (fun p => p.1 == k)

def ofSnp (s : Endorse.SnpDoc) : WSevSnp :=
  ⟨s.svn, s.measurements, s.familyId, s.imageId, s.policy, [], s.svsm, []⟩

def ofRow (r : Endorse.TdxRow) : WRow := ⟨r.ramGib, r.earlyAccept, r.mrtd, []⟩

def ofTdx (d : Endorse.TdxDoc) : WTdx := ⟨d.svn, d.rows.map ofRow, []⟩

/-- go: the *epb.VMGoldenMeasurement that endorse.GoldenMeasurement / SignDoc hold -/
def ofGolden (g : Endorse.Golden) : WGolden :=
  ⟨g.timestamp.map (fun t => ⟨t.1, (t.2 : Int), []⟩), g.clSpec, g.commit, g.cert, g.digest, g.caBundle,
   g.snp.map ofSnp, g.tdx.map ofTdx, []⟩

/-! ### the C03 pipeline over real bytes -/

open Pipeline in
/-- What stays a parameter of the C03 pipeline once protobuf is the Lean codec: RSA-PSS signing and
    checking over byte strings, X.509 path validation, DER encoding / parsing of certificates. -/
structure Crypto where
  sign : Nat → Bytes → Bytes
  checkSig : Nat → Bytes → Bytes → Bool
  verifyChain : Cert → List Cert → Nat → Bool
  certDer : Cert → Bytes
  parseCert : Bytes → Option Cert

def sevToWire (s : Policy.SevSnp) : WSevSnp := ⟨s.svn, s.measurements, [], [], s.policy, s.caBundle, s.svsm, []⟩
def sevOfWire (s : WSevSnp) : Policy.SevSnp := ⟨s.policy, s.svn, s.measurements, s.svsmMeasurement, s.caBundle⟩
def rowToWire (r : Policy.TdxRow) : WRow := ⟨r.ramGib, r.earlyAccept, r.mrtd, []⟩
def rowOfWire (r : WRow) : Policy.TdxRow := ⟨r.ramGib, r.earlyAccept, r.mrtd⟩

/-- the abstract document of `Model/Pipeline.lean` as a VMGoldenMeasurement (timestamp in whole
    seconds; family id, image id, TDX svn and the golden's CA bundle are not part of that model) -/
def toWire (X : Crypto) (g : Pipeline.Golden) : WGolden :=
  ⟨some ⟨(g.timestamp : Int), 0, []⟩, g.clSpec, g.commit,
   (match g.cert with | none => [] | some c => X.certDer c), g.digest, [],
   g.sev.map sevToWire, g.tdx.map (fun rows => ⟨0, rows.map rowToWire, []⟩), []⟩

/-- what the verifier reads out of a decoded VMGoldenMeasurement; an unparsable certificate fails -/
def ofWire (X : Crypto) (w : WGolden) : Option Pipeline.Golden :=
  let ts : Nat := match w.timestamp with | none => 0 | some t => t.seconds.toNat
  let sev := w.sevSnp.map sevOfWire
  let tdx := w.tdx.map (fun d => d.measurements.map rowOfWire)
  if w.cert = [] then some ⟨w.digest, w.clSpec, w.commit, ts, none, sev, tdx⟩
  else
    match X.parseCert w.cert with
    | none => none
    | some c => some ⟨w.digest, w.clSpec, w.commit, ts, some c, sev, tdx⟩

/-- `ord` = the order in which the marshaller's map iteration yields the measurement entries -/
def marshalGolden (X : Crypto) (ord : List (Nat × Bytes) → List (Nat × Bytes)) (g : Pipeline.Golden) : Bytes :=
  let w := toWire X g
  encodeGoldenRaw { w with sevSnp := w.sevSnp.map (fun s => { s with measurements := ord s.measurements }) }

def unmarshalGolden (X : Crypto) (b : Bytes) : Option Pipeline.Golden :=
  match decodeGolden b with
  | none => none
  | some w => ofWire X w

/-- The C03 pipeline with protobuf instantiated by the wire codec. -/
def wirePrims (X : Crypto) (ord : List (Nat × Bytes) → List (Nat × Bytes)) : Pipeline.Prims Bytes where
  marshal := marshalGolden X ord
  unmarshal := unmarshalGolden X
  sign := X.sign
  checkSig := X.checkSig
  verifyChain := X.verifyChain

end GceTcb.ProtoEndorse
