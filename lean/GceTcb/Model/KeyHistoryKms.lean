import GceTcb.Model.KeyHistory
import GceTcb.Model.Kms
import GceTcb.Model.RotateKms
/-
C12 on the production key stack: the key-management commands (rotate.Bootstrap, cmd.RotateCommand.InitContext +
rotate.Key, rotate.Wipeout) with keys.Context{Manager: *gcpkms.Manager, Signer: *gcpkms.Signer} and the gcsca
certificate authority.  The certificate authority, the certificate records, sops.GoogleCertificateTemplate
(`Tmpl.google`), x509.CreateCertificate and gcsca.Finalize / upload are the definitions of
Model/KeyHistory.lean (the Cloud KMS manager is the THIRD key manager of that model; its commands are `kStep`).
From C20's model (Model/Kms.lean) come the state numbers and `destroyableState` (the regenerated table of
keys/gcpkms/keys.go), from C10's (Model/RotateKms.lean) the version-name scheme `verName`.  Core-only.

Cloud KMS (trusted description, the same as in Model/RotateKms.lean and harness/c10_kms_svc.go):
* a key ring holds cryptoKeys in creation order; a cryptoKey holds versions numbered 1, 2, … in creation
  order, numbers are never reused; CreateCryptoKey creates version 1;
* a version made by CreateCryptoKeyVersion is created in the state the command's environment says
  (`Env.created`): by default PENDING_GENERATION with a countdown `gen` (polls that still answer PENDING; a
  poll that finds the countdown at 0 completes the generation: ENABLED), or directly in another state
  (ENABLED: no generation phase; DISABLED; …); the response of CreateCryptoKeyVersion reports the state the
  version is in (rotate.go never reads it; bootstrap.go's waitForKeyGen returns without polling when it
  says ENABLED: `createAndWait`); version 1 of a new cryptoKey (CreateCryptoKey) is PENDING_GENERATION;
* only an ENABLED version answers GetPublicKey / AsymmetricSign;
* DestroyCryptoKeyVersion: ENABLED / DISABLED → DESTROY_SCHEDULED, refused in any other state;
* external events (not commands of the tool): generation completes on its own (`Ext.settle`), an operator
  disables a version (`Ext.disable`), the destroy-scheduled period runs out (`Ext.expire`).  Nothing in the
  model re-enables or restores a version.
Listings are single pages here (C20 proves that the listing loops of gcpkms see every version exactly once, in
order, for every legal paging): `scanFrom` is the inner loop of getEnabledOrPendingKeyVersion over the whole
listing, related to C20's `Kms.scanPage` by `scanFrom_eq_scanPage` (Proofs/KeyHistoryKms.lean).

A key-version name is the pair `KName ⟨cryptoKey id, version number⟩`; the resource name is
`verName (<ring>/cryptoKeys/<id>) <number>` (C10's scheme; injective in the number: `CA.verName_inj`).
-/
namespace GceTcb.KeyHistory.KmsH
open GceTcb.Gen GceTcb.KeyHistory

/-! ### Cloud KMS state -/

inductive VSt where
  | pending (gen : Nat)
  | enabled
  | disabled
  | scheduled
  | destroyed
deriving DecidableEq, Repr

/-- kmspb.CryptoKeyVersion_CryptoKeyVersionState number (regenerated: Gen.Kms) -/
def VSt.code : VSt → Nat
  | .pending _ => Gen.Kms.stPendingGeneration
  | .enabled => Gen.Kms.stEnabled
  | .disabled => Gen.Kms.stDisabled
  | .scheduled => Gen.Kms.stDestroyScheduled
  | .destroyed => Gen.Kms.stDestroyed

structure Ver where
  st : VSt
  mat : Nat          -- key material (id of the RSA key)
deriving DecidableEq, Repr

/-- The durable state of the Cloud KMS location. -/
structure Svc where
  ring : Bool                 -- the key ring exists
  keys : List String          -- cryptoKey ids in creation order (ListCryptoKeys)
  count : String → Nat        -- versions created so far under a cryptoKey
  ver : KName → Ver           -- version ⟨key, i⟩, meaningful for key ∈ keys, 1 ≤ i ≤ count key
  next : Nat                  -- next fresh key material

def Svc.init : Svc := ⟨false, [], fun _ => 0, fun _ => ⟨.destroyed, 0⟩, 0⟩

/-- the version exists -/
def Svc.has (s : Svc) (n : KName) : Bool :=
  s.keys.contains n.base && decide (1 ≤ n.idx) && decide (n.idx ≤ s.count n.base)

def Svc.ver? (s : Svc) (n : KName) : Option Ver := if s.has n then some (s.ver n) else none

/-- GetPublicKey / AsymmetricSign: the key material of an ENABLED version -/
def Svc.signer? (s : Svc) (n : KName) : Option Nat :=
  match s.ver? n with
  | some ⟨.enabled, m⟩ => some m
  | _ => none

def Svc.set (s : Svc) (n : KName) (v : Ver) : Svc :=
  { s with ver := fun m => if m = n then v else s.ver m }

/-- the per-command environment: what Cloud KMS and the clock do while the command runs -/
structure Env where
  gen : Nat           -- countdown of the versions this command creates
  deadline : Bool     -- the command's context expires at the first PENDING_GENERATION answer
  created : Option VSt := none   -- state CreateCryptoKeyVersion creates a version in (`none`: PENDING_GENERATION, countdown `gen`)
deriving DecidableEq, Repr

/-- the state a version made by CreateCryptoKeyVersion is created in (and that the response reports) -/
def Env.createdSt (e : Env) : VSt := e.created.getD (.pending e.gen)

/-- CreateCryptoKeyVersion on an existing cryptoKey: the next number, in the state the environment creates
    versions in (every version has key material) -/
def Svc.create (e : Env) (s : Svc) (k : String) : Svc :=
  { s with count := fun x => if x = k then s.count k + 1 else s.count x,
           ver := fun m => if m = ⟨k, s.count k + 1⟩ then ⟨e.createdSt, s.next⟩ else s.ver m,
           next := s.next + 1 }

/-- the name CreateCryptoKeyVersion hands out -/
def Svc.nextName (s : Svc) (k : String) : KName := ⟨k, s.count k + 1⟩

/-- CreateCryptoKey (the id is new): the cryptoKey with its version 1, PENDING_GENERATION -/
def Svc.addKey (e : Env) (s : Svc) (k : String) : Svc :=
  { s with keys := s.keys ++ [k],
           count := fun x => if x = k then 1 else s.count x,
           ver := fun m => if m = ⟨k, 1⟩ then ⟨.pending e.gen, s.next⟩ else s.ver m,
           next := s.next + 1 }

/-! ### keys/gcpkms/bootstrap.go -/

/-- go: Manager.waitForKeyVersionGen on version `n` (GetCryptoKeyVersion polls, 5 s apart; the loop has no
    bound of its own: a version with countdown g is ENABLED after g + 1 polls; with an expiring context the
    first PENDING answer ends the wait with "timeout" and the version stays PENDING_GENERATION). -/
def waitGen (e : Env) (s : Svc) (n : KName) : Svc × Bool :=
  match s.ver? n with
  | none => (s, false)                                   -- "could not poll crypto key version"
  | some v =>
    match v.st with
    | .enabled => (s, true)
    | .pending 0 => (s.set n ⟨.enabled, v.mat⟩, true)
    | .pending (g + 1) =>
      if e.deadline then (s.set n ⟨.pending g, v.mat⟩, false)
      else (s.set n ⟨.enabled, v.mat⟩, true)
    | _ => (s, false)                                    -- "crypto key version in unexpected state"

inductive Scan where
  | ret (i : Nat)                 -- `return v, nil`: the first ENABLED version
  | cont (pending : Option Nat)   -- listing exhausted; the latest PENDING_GENERATION version seen
deriving DecidableEq, Repr

/-- go: the inner `for _, v := range vers.GetCryptoKeyVersions()` of getEnabledOrPendingKeyVersion over the
    versions `i, i+1, …` (`todo` of them) of one cryptoKey -/
def scanFrom (st : Nat → VSt) : Nat → Nat → Option Nat → Scan
  | 0, _, pend => .cont pend
  | todo + 1, i, pend =>
    match st i with
    | .enabled => .ret i
    | .pending _ => scanFrom st todo (i + 1) (some i)
    | _ => scanFrom st todo (i + 1) pend

/-- go: Manager.getEnabledOrPendingKeyVersion (all versions of cryptoKey `k`, in order) -/
def scan (s : Svc) (k : String) : Scan :=
  scanFrom (fun i => (s.ver ⟨k, i⟩).st) (s.count k) 1 none

/-- go: the `ErrNoKeyVersions` path of Manager.waitForKeyGen: CreateCryptoKeyVersion, then
    `if version.GetState() == ENABLED { return }` on the RESPONSE, else waitForKeyVersionGen -/
def createAndWait (e : Env) (s : Svc) (k : String) : Svc × Option KName :=
  if e.createdSt = .enabled then (s.create e k, some (s.nextName k))
  else
    ((waitGen e (s.create e k) (s.nextName k)).1,
     if (waitGen e (s.create e k) (s.nextName k)).2 then some (s.nextName k) else none)

/-- go: Manager.waitForKeyGen.  A cryptoKey that is not there (or has no version) lists with total size 0:
    "new CryptoKey has missing initial version". -/
def waitForKeyGen (e : Env) (s : Svc) (k : String) : Svc × Option KName :=
  if !s.keys.contains k || s.count k = 0 then (s, none)
  else
    match scan s k with
    | .ret i => (s, some ⟨k, i⟩)
    | .cont (some i) => ((waitGen e s ⟨k, i⟩).1, if (waitGen e s ⟨k, i⟩).2 then some ⟨k, i⟩ else none)
    | .cont none => createAndWait e s k                  -- ErrNoKeyVersions: CreateCryptoKeyVersion

/-- go: Manager.recreateCryptoKey (createNewHSMKey / createNewSigningKey differ in protection level and
    destroy-scheduled duration only) -/
def recreateCryptoKey (f : Flags) (e : Env) (s : Svc) (k : String) : Svc × Option KName :=
  if s.keys.contains k then
    (if f.keepGoing then waitForKeyGen e s k else (s, none))        -- AlreadyExists
  else waitForKeyGen e (s.addKey e k) k

/-- go: Manager.CreateNewRootKey (recreateKeyRing: AlreadyExists is an error unless keep_going) -/
def createNewRootKey (f : Flags) (e : Env) (s : Svc) (k : String) : Svc × Option KName :=
  if s.ring && !f.keepGoing then (s, none)
  else recreateCryptoKey f e { s with ring := true } k

/-- go: Manager.CreateFirstSigningKey (grantSigningPermissions: SetIamPolicy, no effect on keys) -/
def createFirstSigningKey (f : Flags) (e : Env) (s : Svc) (k : String) : Svc × Option KName :=
  recreateCryptoKey f e s k

/-! ### keys/gcpkms/keys.go -/

/-- go: the body of wipeoutKey's loop for one listed version: destroyableState, then
    DestroyCryptoKeyVersion (which succeeds exactly on ENABLED / DISABLED) -/
def wipeVer (v : Ver) : Ver :=
  match GceTcb.Kms.destroyableState v.st.code with
  | some true => (match v.st with
      | .enabled => ⟨.scheduled, v.mat⟩
      | .disabled => ⟨.scheduled, v.mat⟩
      | _ => v)
  | _ => v

/-- the error accumulated for one version: "unknown key state", or a refused destroy request -/
def wipeVerFails (v : Ver) : Bool :=
  match GceTcb.Kms.destroyableState v.st.code with
  | none => true
  | some false => false
  | some true => !(v.st == .enabled || v.st == .disabled)

def versOf (s : Svc) (k : String) : List Ver := (List.range (s.count k)).map fun i => s.ver ⟨k, i + 1⟩

/-- go: Manager.Wipeout (every cryptoKey of the ring, every version, in listing order; the versions are
    visited once each — C20 — so the loops are a pointwise map) -/
def wipeKeys (s : Svc) : Svc × Bool :=
  ({ s with ver := fun n => if s.has n then wipeVer (s.ver n) else s.ver n },
   !(s.keys.any fun k => (versOf s k).any wipeVerFails))

/-! ### commands -/

/-- the BootstrapContext / SigningKeyContext of gcpkms: cryptoKey ids -/
structure KCfg where
  rootKey : String
  signKey : String
deriving Repr

/-- the gcsca configuration of the shared certificate-authority model (repaired upload) -/
def caCfg : Cfg := ⟨.gcsca, .memkm, true, false, true⟩

structure KState where
  svc : Svc
  ca : CA

def KState.init : KState := ⟨Svc.init, CA.empty⟩

/-- go: sops.CreateCertificateFromTemplate → x509.CreateCertificate over gcpkms.Signer: `sk` is what
    GetPublicKey / AsymmetricSign answer for the issuer key version (`KeyHistory.signCert` with the
    lookup done by the caller) -/
def kSign (sk : Option Nat) (parent : Option Cert) (t : Tmpl) : Option Cert :=
  signCert ⟨match sk with | some m => [(noName, m)] | none => [], [], 0⟩ parent noName t

/-- go: rotate.Bootstrap after both key versions are at hand: the two certificates
    (Manager.CertificateTemplate = rotate.GoogleCertificateTemplate) and Finalize.  `signFirst`: the order in
    which gcsca.Finalize visits the mutation's certificate map (a Go map). -/
def kBootCerts (f : Flags) (a : BootArgs) (svc : Svc) (rootKV signKV : KName) (stored : CA) (signFirst : Bool) :
    CA × Bool :=
  match svc.signer? rootKV with
  | none => (stored, false)
  | some rk =>
    match kSign (svc.signer? rootKV) none (Tmpl.google true a.rootCn a.rootSerial a.now rk) with
    | none => (stored, false)
    | some rc =>
      match svc.signer? signKV with
      | none => (stored, false)
      | some sk =>
        match kSign (svc.signer? rootKV) (some rc) (Tmpl.google false a.signCn a.signSerial a.now sk) with
        | none => (stored, false)
        | some sc =>
          gcsFinalize true f stored
            ⟨some rootKV, some signKV,
             if signFirst then [(signKV, sc), (rootKV, rc)] else [(rootKV, rc), (signKV, sc)], some rc⟩

/-- go: rotate.Bootstrap -/
def kBootstrap (cfg : KCfg) (f : Flags) (a : BootArgs) (e : Env) (signFirst : Bool) (s : KState) : KState × Bool :=
  match (createNewRootKey f e s.svc cfg.rootKey).2 with
  | none => (⟨(createNewRootKey f e s.svc cfg.rootKey).1, s.ca⟩, false)
  | some rootKV =>
    match (createFirstSigningKey f e (createNewRootKey f e s.svc cfg.rootKey).1 cfg.signKey).2 with
    | none => (⟨(createFirstSigningKey f e (createNewRootKey f e s.svc cfg.rootKey).1 cfg.signKey).1, s.ca⟩, false)
    | some signKV =>
      (⟨(createFirstSigningKey f e (createNewRootKey f e s.svc cfg.rootKey).1 cfg.signKey).1,
        (kBootCerts f a (createFirstSigningKey f e (createNewRootKey f e s.svc cfg.rootKey).1 cfg.signKey).1
          rootKV signKV s.ca signFirst).1⟩,
       (kBootCerts f a (createFirstSigningKey f e (createNewRootKey f e s.svc cfg.rootKey).1 cfg.signKey).1
          rootKV signKV s.ca signFirst).2)

/-- go: DestroyCryptoKeyVersion -/
def Svc.destroy (s : Svc) (n : KName) : Svc × Bool :=
  match s.ver? n with
  | some ⟨.enabled, m⟩ => (s.set n ⟨.scheduled, m⟩, true)
  | some ⟨.disabled, m⟩ => (s.set n ⟨.scheduled, m⟩, true)
  | _ => (s, false)

/-- go: keyRequest.signAndAdd → InternalSignAndUpload → signCert for the new version `kver` -/
def kRotCert (svc : Svc) (ca : CA) (kver : KName) (cn : String) (serial now : Nat) : Option Cert :=
  if rotGuard caCfg ca then
    match svc.signer? kver with
    | none => none
    | some sk => kSign (svc.signer? ca.primaryRoot) (bundle caCfg ca) (Tmpl.google false cn serial now sk)
  else none

/-- go: rotate.Key (steps in sequence, stopping at the first error; Finalize before DestroyKeyVersion) with
    gcpkms.Manager.CreateNewSigningKeyVersion / DestroyKeyVersion -/
def kRotate (cfg : KCfg) (f : Flags) (e : Env) (s : KState) (cn : String) (serial now : Nat) : KState × Bool :=
  if !s.svc.keys.contains cfg.signKey then (s, false)            -- CreateCryptoKeyVersion: NotFound
  else
    match (waitGen e (s.svc.create e cfg.signKey) (s.svc.nextName cfg.signKey)).2 with
    | false => (⟨(waitGen e (s.svc.create e cfg.signKey) (s.svc.nextName cfg.signKey)).1, s.ca⟩, false)
    | true =>
      match kRotCert (waitGen e (s.svc.create e cfg.signKey) (s.svc.nextName cfg.signKey)).1 s.ca
              (s.svc.nextName cfg.signKey) cn serial now with
      | none => (⟨(waitGen e (s.svc.create e cfg.signKey) (s.svc.nextName cfg.signKey)).1, s.ca⟩, false)
      | some c =>
        if (caAfterRotate caCfg f s.ca (s.svc.nextName cfg.signKey) (some c)).2 then
          if s.ca.primarySigning = noName then
            (⟨(waitGen e (s.svc.create e cfg.signKey) (s.svc.nextName cfg.signKey)).1,
              (caAfterRotate caCfg f s.ca (s.svc.nextName cfg.signKey) (some c)).1⟩, true)
          else
            (⟨((waitGen e (s.svc.create e cfg.signKey) (s.svc.nextName cfg.signKey)).1.destroy s.ca.primarySigning).1,
              (caAfterRotate caCfg f s.ca (s.svc.nextName cfg.signKey) (some c)).1⟩,
             ((waitGen e (s.svc.create e cfg.signKey) (s.svc.nextName cfg.signKey)).1.destroy s.ca.primarySigning).2)
        else
          (⟨(waitGen e (s.svc.create e cfg.signKey) (s.svc.nextName cfg.signKey)).1,
            (caAfterRotate caCfg f s.ca (s.svc.nextName cfg.signKey) (some c)).1⟩, false)

/-- go: rotate.Wipeout (the authority first, then the keys) -/
def kWipeout (s : KState) (wca wkeys : Bool) : KState × Bool :=
  (⟨if wkeys then (wipeKeys s.svc).1 else s.svc, if wca then CA.empty else s.ca⟩,
   if wkeys then (wipeKeys s.svc).2 else true)

/-- what happens to Cloud KMS between commands -/
inductive Ext where
  | settle                -- every pending generation completes
  | disable (n : KName)   -- an operator disables an ENABLED version
  | expire                -- DESTROY_SCHEDULED versions are destroyed
deriving DecidableEq, Repr

def extVer (x : Ext) (n : KName) (v : Ver) : Ver :=
  match x, v.st with
  | .settle, .pending _ => ⟨.enabled, v.mat⟩
  | .disable m, .enabled => if n = m then ⟨.disabled, v.mat⟩ else v
  | .expire, .scheduled => ⟨.destroyed, v.mat⟩
  | _, _ => v

def Svc.ext (s : Svc) (x : Ext) : Svc :=
  { s with ver := fun n => if s.has n then extVer x n (s.ver n) else s.ver n }

inductive KCmd where
  | bootstrap (f : Flags) (a : BootArgs) (e : Env) (signFirst : Bool)
  | rotate (f : Flags) (a : RotArgs) (e : Env)
  | wipeout (f : Flags) (ca keys : Bool)
  | ext (x : Ext)
deriving Repr

def kStep (cfg : KCfg) (s : KState) : KCmd → KState × Bool
  | .bootstrap f a e sf => kBootstrap cfg f a e sf s
  | .rotate f a e =>
    match resolveSerial s.ca a.serial with          -- cmd.RotateCommand.InitContext
    | none => (s, false)
    | some n => kRotate cfg f e s a.cn n a.now
  | .wipeout _ c k => kWipeout s c k
  | .ext x => (⟨s.svc.ext x, s.ca⟩, true)

def kRun (cfg : KCfg) (s : KState) (h : List KCmd) : KState := h.foldl (fun s c => (kStep cfg s c).1) s

/-- the ENABLED versions of one cryptoKey, in order -/
def liveOf (s : Svc) (k : String) : List KName :=
  ((List.range (s.count k)).map fun i => (⟨k, i + 1⟩ : KName)).filter fun n => (s.signer? n).isSome

/-- every version that can sign -/
def Svc.live (s : Svc) : List KName := s.keys.flatMap (liveOf s)

end GceTcb.KeyHistory.KmsH
