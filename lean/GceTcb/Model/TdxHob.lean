import GceTcb.Model.TdxMeta
/-
C05 / C08 (TDX half) — executable model of ovmf.appendTDHobResource, tdxFwParser.getTDHOBList and the
tail of tdxFwParser.parse (ovmf/tdx_data.go), and of the three exported entry points.  The HOB
writers are the C18 codecs (Model/Codecs.lean).  Core-only.
-/
namespace GceTcb.TdxHob
open GceTcb GceTcb.Codec GceTcb.Codecs GceTcb.Intervals GceTcb.TdxMeta

def baseAttrs : Nat := 7                  -- go: ovmf.tdhobBaseAttributes (present | initialized | tested)
def needsEarlyAccept : Nat := 0x10000000  -- go: abi.EFIResourceAttributeNeedsEarlyAccept
def fourGib : Nat := 4 * 1024 * 1024 * 1024

/-- go: ovmf.appendTDHobResource (Owner is the zero GUID) -/
def hobResource (resourceType attrs : Nat) (g : Gpr) : Bytes :=
  resourceWriteTo ⟨⟨3, 48⟩, ⟨0, 0, 0, List.replicate 8 0⟩, resourceType, attrs, g.start, g.len⟩

/-- attribute of an unaccepted-memory descriptor -/
def unacceptedAttrs (disableEarlyAccept : Bool) (g : Gpr) : Nat :=
  if g.end_ ≤ fourGib ∨ ¬ disableEarlyAccept then baseAttrs ||| needsEarlyAccept else baseAttrs

/-- the bytes written to `tdHOBbuf` before the size check -/
def hobContent (hob : Gpr) (priv unaccepted : List Gpr) (disableEarlyAccept : Bool) : Bytes :=
  let n := unaccepted.length + priv.length
  let hobSize := (48 * n) % 2 ^ 32
  let endOff := (56 + hobSize) % 2 ^ 32
  handoffWriteTo ⟨⟨1, 56⟩, 9, 0, 0, 0, 0, 0, (hob.start % 2 ^ 64 + endOff) % 2 ^ 64⟩
    ++ (priv.flatMap (hobResource 0 baseAttrs))
    ++ (unaccepted.flatMap (fun g => hobResource 7 (unacceptedAttrs disableEarlyAccept g) g))
    ++ hobHeaderWriteTo ⟨0xFFFF, 8⟩

/-- go: tdxFwParser.getTDHOBList — the new HostBuffer of the TD HOB region.
    `tdHOBbuf.Grow(int(gpr.Length))` panics when the conversion is negative. -/
def getTDHOBList (hob : Gpr) (priv unaccepted : List Gpr) (disableEarlyAccept : Bool) : Outcome HostBuf :=
  if hob.len % 2 ^ 64 ≥ 2 ^ 63 then .panic "getTDHOBList:Grow"
  else
    let content := hobContent hob priv unaccepted disableEarlyAccept
    if content.length > hob.len % 2 ^ 64 then .err "hoboverflow"
    else .ok ⟨content, hob.len % 2 ^ 64 - content.length⟩   -- make([]byte, int(gpr.Length)-tdHOBbuf.Len())

structure ParserOpts where
  disableEarlyAccept : Bool := false
  measureAll : Bool := false
deriving Repr, DecidableEq

def setBuf : List Region → Nat → HostBuf → List Region
  | [], _, _ => []
  | r :: rs, 0, b => { r with buf := b } :: rs
  | r :: rs, n + 1, b => r :: setBuf rs n b

/-- go: tdxFwParser.parse (parser with empty Regions, as built by the three entry points) -/
def parse (o : ParserOpts) (fw : Bytes) (banks : List Gpr) : Outcome (List Region) :=
  match extractTDXMetadata fw with
  | .ok md =>
    match parseLoop o.measureAll fw md.sections {} with
    | .ok st =>
      match st.hobIndex with
      | none => .err "nohob"
      | some i =>
        -- `int32(index)` then `p.Regions[tdHOBregionIndex.Value]`
        if i % 2 ^ 32 ≥ 2 ^ 31 then .panic "parse:hobIndex"
        else
          match st.regions[i % 2 ^ 32]? with
          | none => .panic "parse:hobIndex"
          | some r =>
            let unaccepted := unacceptedMemRanges st.priv banks
            match getTDHOBList r.gpr st.priv unaccepted o.disableEarlyAccept with
            | .ok b => .ok (setBuf st.regions (i % 2 ^ 32) b)
            | .err c => .err c
            | .panic p => .panic p
    | .err c => .err c
    | .panic p => .panic p
  | .err c => .err c
  | .panic p => .panic p

/-- go: ovmf.ExtractMaterialGuestPhysicalRegionsNoUnacceptedMemory -/
def extractNoUnacceptedMemory (fw : Bytes) (banks : List Gpr) := parse { measureAll := true } fw banks
/-- go: ovmf.ExtractMaterialGuestPhysicalRegionsTDHOBBug -/
def extractTDHOBBug (fw : Bytes) (banks : List Gpr) := parse { disableEarlyAccept := true, measureAll := true } fw banks
/-- go: ovmf.ExtractMaterialGuestPhysicalRegions -/
def extractDefault (fw : Bytes) := parse { disableEarlyAccept := true } fw []

end GceTcb.TdxHob
