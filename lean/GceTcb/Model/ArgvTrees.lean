import GceTcb.Model.Argv
import GceTcb.Model.RpCli
import GceTcb.Model.EndorseCli
import GceTcb.Model.KeyCli
/-
The command trees of the repository's tools in the form `Argv.executeC` takes, BUILT FROM the tables of the three
command-line models (`RpCli.commands` / `RpCli.flagTable`, `EndorseCli.flagTable`, the `KeyCli.*FlagTable`s — each
pinned to the source by its own regenerated obligation), with pflag's NoOptDefVal column derived from the type column
(`Bool` → "true", anything else → none) and no shorthands; `Gen.ArgvFlags` (extractor xargv.go) regenerates those two
columns from the flag-defining calls and Props/CliArgv.lean compares.  The stream `argv` (op=tree) compares the trees
with what the real cobra commands hold.  Core-only.

  rpTree   gcetcbendorsement/cmd.MakeRoot                         (Find; EnableTraverseRunHooks)
  rsTree   the shipped RootCmd: + --auth_token, --timeout, PersistentPreRun, TraverseChildren (cmd/root.go init)
  npTree   cmd.MakeApp over testing/nonprod.localApp               (Find; nearest hook only)
  apTree   cmd.MakeApp over components without flags of their own  (the recording doubles of harness/cli_run.go)

Second half: the GLUE from what tokenising yields to the records the command-line models take — `keyFlagsOf`
(→ KeyCli.CliFlags), `endorseFlagsOf` (→ EndorseCli.CliFlags; pflag's built-in value types, numeral syntax and the CSV
reader as parameters `Numerals`), and the compositions `endorseOfArgv` / `endorseRun` = EndorseCli.cliRun ∘
endorseFlagsOf ∘ Argv.runTool.  Streams `argvend` / `argvkey` run them against the real commands end to end.
-/
namespace GceTcb.ArgvTrees
open GceTcb GceTcb.Argv

/-- split at blanks (command paths of RpCli.commands: "sev validate") -/
def splitWords : List Char → List Tok
  | [] => []
  | c :: cs =>
    if c = ' ' then [] :: splitWords cs
    else
      match splitWords cs with
      | [] => [[c]]
      | w :: ws => (c :: w) :: ws

def pathOf (s : String) : List Tok := if s = "" then [] else splitWords s.toList

/-- back: the command path as the CLI models write it -/
def pathString (p : List Tok) : String := " ".intercalate (p.map String.ofList)

def specOf (name typ : String) : FlagSpec :=
  { name := name.toList, short := none, noOpt := if typ = "Bool" then "true".toList else [] }

/-! ### gcetcbendorsement -/

def rpFlags (cmd scope : String) : List FlagSpec :=
  (RpCli.flagTable.filter (fun r => r.1 == cmd && r.2.1 == scope)).map (fun r => specOf r.2.2.1 r.2.2.2.1)

def rpCmds : List Cmd :=
  RpCli.commands.map fun c =>
    { path := pathOf c.1, lflags := rpFlags c.1 "local", pflags := rpFlags c.1 "persistent",
      runnable := c.2.2.2.2 != "-", hook := c.2.2.2.1 != "-" }

def rpTree : Tree := { cmds := rpCmds, traverse := false, runHooks := RpCli.traverseRunHooks }

/-- gcetcbendorsement/cmd/root.go init(): what the shipped RootCmd adds to MakeRoot's tree. -/
def shippedRootFlags : List FlagSpec := [specOf "auth_token" "String", specOf "timeout" "Duration"]

def rsCmds : List Cmd :=
  rpCmds.map fun c => if c.path = [] then { c with pflags := shippedRootFlags, hook := true } else c

def rsTree : Tree := { cmds := rsCmds, traverse := true, runHooks := RpCli.traverseRunHooks }

/-! ### endorse / bootstrap / rotate / wipeout (the non-production application) -/

def specsOf (t : List (String × String × String × String)) : List FlagSpec := t.map (fun r => specOf r.1 r.2.1)

/-- testing/nonprod/localnonvcs.T.AddFlags (app.Endorse of the non-production application) -/
def localnonvcsFlagTable : List (String × String × String × String) := [("out_root", "String", "\"\"", "t.Root")]

/-- the rows of EndorseCli.flagTable that output.Options.AddFlags defines — on the ROOT command -/
def isOutputFlag (r : String × String × String × String) : Bool := KeyCli.outputFlagTable.any (fun o => o.1 == r.1)

/-- cmd.MakeApp: the root (output.Options.AddFlags + app.Global's flags, persistent) and the four commands, each with
    app.Global's flags, its own and its application component's (`extra`: app.Endorse's on `endorse`). -/
def appCmds (wiring extra : List FlagSpec) : List Cmd :=
  [ { path := [], runnable := false, hook := true,
      pflags := wiring ++ specsOf KeyCli.outputFlagTable },
    { path := ["endorse".toList], hook := true,
      pflags := wiring ++ specsOf (EndorseCli.flagTable.filter (fun r => !isOutputFlag r)) ++ extra },
    { path := ["bootstrap".toList], hook := true,
      pflags := wiring ++ specsOf KeyCli.bootstrapFlagTable },
    { path := ["rotate".toList], hook := true,
      pflags := wiring ++ specsOf KeyCli.rotateFlagTable },
    { path := ["wipeout".toList], hook := true,
      pflags := wiring ++ specsOf KeyCli.wipeoutFlagTable } ]

def npCmds : List Cmd := appCmds (specsOf KeyCli.wiringFlagTable) (specsOf localnonvcsFlagTable)

def npTree : Tree := { cmds := npCmds, traverse := false, runHooks := false }

/-- cmd.MakeApp over components that define no flags of their own (cmd.PartialComponent without FAddFlags): the tree
    the streams c06cli / c15cli run `endorse` on (the recording doubles of harness/cli_run.go). -/
def apTree : Tree := { cmds := appCmds [] [], traverse := false, runHooks := false }

def treeNamed (s : String) : Option Tree :=
  if s = "rp" then some rpTree else if s = "rs" then some rsTree else if s = "np" then some npTree
  else if s = "ap" then some apTree else none

/-! ## glue: what tokenising yields → the records the command-line models take

`keyFlagsOf` (bootstrap / rotate / wipeout → `KeyCli.CliFlags`) and `endorseFlagsOf` (`endorse` →
`EndorseCli.CliFlags`).  pflag semantics of the built-in types: EVERY occurrence is handed to the value's `Set` in
argv order; String / Bool / numeric values keep the last one, `StringSlice` replaces its default by the first
occurrence and appends the later ones; a `Set` that refuses ends the parse (phase `parse`).  The flag types whose
`Set` is repository code (`timeFlag`, `amdProductFlag`, `bigintFlag`) get every occurrence in order — their rules
are in the command-line models.  Numeral syntax (strconv.ParseUint / ParseInt with base 0) and the CSV reader of
`StringSlice` stay PARAMETERS (`Numerals`), as numeral syntax is in Model/EndorseCli.lean ("the number written"). -/

def lastStr (n : String) (dflt : String) (os : List Occ) : String :=
  match lastOcc n.toList os with
  | some v => String.ofList v
  | none => dflt

/-- pflag Bool: the last occurrence (its text was checked by `runTool`), default false. -/
def lastBool (n : String) (os : List Occ) : Bool :=
  match lastOcc n.toList os with
  | some v => (parseBool v).getD false
  | none => false

/-- every occurrence in order -/
def everyOcc (n : String) (os : List Occ) : List String :=
  (os.filter (fun o => o.1 == n.toList)).map (fun o => String.ofList o.2)

/-- The record of Model/KeyCli.lean from what tokenising yields. -/
def keyFlagsOf (sub : KeyCli.Sub) (os : List Occ) (pos : List Tok) : KeyCli.CliFlags :=
  { sub := sub
    rootKeyCn := lastStr "root_key_cn" "GCE-cc-tcb-root" os
    signingKeyCn := lastStr "signing_key_cn" "GCE-uefi-signer" os
    rootKeySerial := everyOcc "root_key_serial" os
    initialSigningKeySerial := everyOcc "initial_signing_key_serial" os
    rotatedKeySerialOverride := everyOcc "rotated_key_serial_override" os
    timestamp := everyOcc "timestamp" os
    forceProdWipeout := lastBool "force_prod_wipeout" os
    overwrite := lastBool "overwrite" os
    keepGoing := lastBool "keep_going" os
    args := pos.map String.ofList
    keyDir := lastStr "key_dir" "private_keys" os
    bucketRoot := lastStr "bucket_root" "" os
    bucket := lastStr "bucket" "certs-dev" os
    certDir := lastStr "cert_dir" "signer_certs" os
    rootPath := lastStr "root_path" "" os }

def subOf (c : List Tok) : Option KeyCli.Sub :=
  if c = ["bootstrap".toList] then some .bootstrap else if c = ["rotate".toList] then some .rotate
  else if c = ["wipeout".toList] then some .wipeout else none

/-- Parameters of `endorseFlagsOf`. -/
structure Numerals where
  /-- strconv.ParseUint(·, 0, n): the number written when the text is a numeral of Go's base-0 syntax (whatever its
      size: the range check is explicit below), `none` when it is not -/
  uint : String → Option Nat
  /-- strconv.ParseInt(·, 0, 64), likewise -/
  int : String → Option Int
  /-- pflag's readAsCSV of one `StringSlice` occurrence (encoding/csv, one record); "" is the empty list -/
  csv : String → Option (List String)

/-- go: unicode.IsSpace -/
def goSpace (c : Char) : Bool :=
  c == '\t' || c == '\n' || c.toNat == 0x0B || c.toNat == 0x0C || c == '\r' || c == ' ' || c.toNat == 0x85 ||
  c.toNat == 0xA0 || c.toNat == 0x1680 || (0x2000 ≤ c.toNat && c.toNat ≤ 0x200A) || c.toNat == 0x2028 ||
  c.toNat == 0x2029 || c.toNat == 0x202F || c.toNat == 0x205F || c.toNat == 0x3000

/-- go: strings.TrimSpace (pflag's bytesHexValue.Set trims before decoding) -/
def trimSpace (s : String) : String :=
  String.ofList ((s.toList.dropWhile goSpace).reverse.dropWhile goSpace).reverse

def uintsOk (N : Numerals) (bound : Nat) (l : List String) : Bool :=
  l.all fun t => match N.uint t with | some v => decide (v < bound) | none => false

def intsOk (N : Numerals) (l : List String) : Bool :=
  l.all fun t => match N.int t with | some v => decide (-(2 ^ 63) ≤ v ∧ v < 2 ^ 63) | none => false

def lastUint (N : Numerals) (n : String) (dflt : Nat) (os : List Occ) : Nat :=
  match lastOcc n.toList os with
  | some v => (N.uint (String.ofList v)).getD dflt
  | none => dflt

def lastInt (N : Numerals) (n : String) (dflt : Int) (os : List Occ) : Int :=
  match lastOcc n.toList os with
  | some v => (N.int (String.ofList v)).getD dflt
  | none => dflt

/-- go: stringSliceValue.Set over all occurrences: the first replaces the default (nil), later ones append. -/
def csvAll (N : Numerals) : List String → Option (List String)
  | [] => some []
  | t :: ts =>
    match N.csv t, csvAll N ts with
    | some a, some b => some (a ++ b)
    | _, _ => none

/-- The record of Model/EndorseCli.lean from the occurrences tokenising yields for `endorse`, or the refusal of a
    built-in value type's `Set` (`parse:<flag>`; which one pflag meets first depends on argv order — only the
    phase is observable).  Positional words are ignored by the command (`Args` is nil, RunE drops them). -/
def endorseFlagsOf (N : Numerals) (os : List Occ) : Outcome EndorseCli.CliFlags :=
  if !uintsOk N (2 ^ 64) (everyOcc "clspec" os) then .err "parse:clspec"
  else if !uintsOk N (2 ^ 32) (everyOcc "snp_launch_vmsas" os) then .err "parse:snp_launch_vmsas"
  else if !intsOk N (everyOcc "commit_retries" os) then .err "parse:commit_retries"
  else if !(everyOcc "commit" os).all (fun t => (hexDecode (trimSpace t)).isSome) then .err "parse:commit"
  else
    match csvAll N (everyOcc "tdx_machine_shapes" os) with
    | none => .err "parse:tdx_machine_shapes"
    | some shapes =>
      .ok { addSnp := lastBool "add_snp" os
            addTdx := lastBool "add_tdx" os
            uefi := lastStr "uefi" "" os
            svsmPath := lastStr "svsm_path" "" os
            svsmSnpMeasurementPath := lastStr "svsm_snp_measurement_path" "" os
            candidateName := lastStr "candidate_name" "" os
            releaseBranch := lastStr "release_branch" "" os
            clspec := lastUint N "clspec" 0 os
            commit := trimSpace (lastStr "commit" "" os)
            commitRetries := lastInt N "commit_retries" 5 os
            outDir := lastStr "out_dir" "" os
            dryRun := lastBool "dry_run" os
            timestamp := everyOcc "timestamp" os
            snpFamilyId := lastStr "snp_family_id" "" os
            snpImageId := lastStr "snp_image_id" "" os
            snpLaunchVmsas := lastUint N "snp_launch_vmsas" 0 os
            snpProduct := everyOcc "snp_product" os
            tdxIncludeEarlyAccept := lastBool "tdx_include_early_accept" os
            tdxMachineShapes := shapes
            measurementOnly := lastBool "measurement_only" os
            snapshotDir := lastStr "snapshot_dir" "" os
            overwrite := lastBool "overwrite" os }

def endorsePath : List Tok := ["endorse".toList]

/-- What a run of `<tool> argv` is for the `endorse` model: the record, a refusal before any hook, usage (exit
    status 0, nothing runs), or another command. -/
inductive EndorseArgv where
  | flags (fl : EndorseCli.CliFlags) (pos : List Tok)
  | refused (cls : String)
  | usage
  | other (cmd : List Tok)

/-- cobra's own commands (`help`, `completion …`, `__complete`): no code of the repository runs. -/
def builtinCmd : List Tok → Bool
  | w :: _ => w == "help".toList || w == "completion".toList || w == completeName
  | [] => false

/-- `T`: `apTree` or `npTree`. -/
def endorseOfArgv (T : Tree) (N : Numerals) (argv : List Tok) : EndorseArgv :=
  match runTool T argv with
  | .err _ _ _ => .refused "parse:argv"
  | .help _ _ _ => .usage
  | .run c os pos _ =>
    if c = endorsePath then
      match endorseFlagsOf N os with
      | .ok fl => .flags fl pos
      | .err e => .refused e
      | .panic s => .refused s
    else if builtinCmd c then .usage
    else .other c

/-- The whole `endorse` command over raw argv: `EndorseCli.cliRun ∘ endorseFlagsOf ∘ tokenise`. -/
def endorseRun (T : Tree) (N : Numerals) (P : EndorseCli.Params) (Pr : Endorse.Prims) (Tb : Endorse.Tables)
    (E : EndorseCli.Env) (keys : Option Endorse.Keys) (vcs : Option (List Commit.Attempt))
    (vcss : List (List Commit.Attempt)) (argv : List String) : VF.Run :=
  match endorseOfArgv T N (argv.map String.toList) with
  | .flags fl _ => EndorseCli.cliRun P Pr Tb E fl keys vcs vcss
  | .refused e => ⟨[], .err e⟩
  | .usage => ⟨[], .ok ()⟩
  | .other _ => ⟨[], .err "other-command"⟩

end GceTcb.ArgvTrees
