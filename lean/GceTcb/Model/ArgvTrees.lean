import GceTcb.Model.Argv
import GceTcb.Model.RpCli
import GceTcb.Model.EndorseCli
import GceTcb.Model.KeyCli
/-
The command trees of the repository's tools in the form `Argv.executeC` takes, BUILT FROM the tables of the three
command-line models (`RpCli.commands` / `RpCli.flagTable`, `EndorseCli.flagTable`, the `KeyCli.*FlagTable`s — each
pinned to the source by its own regenerated obligation), with pflag's NoOptDefVal column derived from the type column
(`Bool` → "true", anything else → none) and no shorthands; `Gen.ArgvFlags` (extractor xargv.go) regenerates those two
columns from the flag-defining calls and Props/CliArgv.lean compares.  The stream `argv` (op=tree) compares the trees
with what the real cobra commands hold.  Core-only.

  rpTree   gcetcbendorsement/cmd.MakeRoot                         (Find; EnableTraverseRunHooks)
  rsTree   the shipped RootCmd: + --auth_token, --timeout, PersistentPreRun, TraverseChildren (cmd/root.go init)
  npTree   cmd.MakeApp over testing/nonprod.localApp               (Find; nearest hook only)
-/
namespace GceTcb.ArgvTrees
open GceTcb GceTcb.Argv

/-- split at blanks (command paths of RpCli.commands: "sev validate") -/
def splitWords : List Char → List Tok
  | [] => []
  | c :: cs =>
    if c = ' ' then [] :: splitWords cs
    else
      match splitWords cs with
      | [] => [[c]]
      | w :: ws => (c :: w) :: ws

def pathOf (s : String) : List Tok := if s = "" then [] else splitWords s.toList

/-- back: the command path as the CLI models write it -/
def pathString (p : List Tok) : String := " ".intercalate (p.map String.ofList)

def specOf (name typ : String) : FlagSpec :=
  { name := name.toList, short := none, noOpt := if typ = "Bool" then "true".toList else [] }

/-! ### gcetcbendorsement -/

def rpFlags (cmd scope : String) : List FlagSpec :=
  (RpCli.flagTable.filter (fun r => r.1 == cmd && r.2.1 == scope)).map (fun r => specOf r.2.2.1 r.2.2.2.1)

def rpCmds : List Cmd :=
  RpCli.commands.map fun c =>
    { path := pathOf c.1, lflags := rpFlags c.1 "local", pflags := rpFlags c.1 "persistent",
      runnable := c.2.2.2.2 != "-", hook := c.2.2.2.1 != "-" }

def rpTree : Tree := { cmds := rpCmds, traverse := false, runHooks := RpCli.traverseRunHooks }

/-- gcetcbendorsement/cmd/root.go init(): what the shipped RootCmd adds to MakeRoot's tree. -/
def shippedRootFlags : List FlagSpec := [specOf "auth_token" "String", specOf "timeout" "Duration"]

def rsCmds : List Cmd :=
  rpCmds.map fun c => if c.path = [] then { c with pflags := shippedRootFlags, hook := true } else c

def rsTree : Tree := { cmds := rsCmds, traverse := true, runHooks := RpCli.traverseRunHooks }

/-! ### endorse / bootstrap / rotate / wipeout (the non-production application) -/

def specsOf (t : List (String × String × String × String)) : List FlagSpec := t.map (fun r => specOf r.1 r.2.1)

/-- testing/nonprod/localnonvcs.T.AddFlags (app.Endorse of the non-production application) -/
def localnonvcsFlagTable : List (String × String × String × String) := [("out_root", "String", "\"\"", "t.Root")]

/-- the rows of EndorseCli.flagTable that output.Options.AddFlags defines — on the ROOT command -/
def isOutputFlag (r : String × String × String × String) : Bool := KeyCli.outputFlagTable.any (fun o => o.1 == r.1)

def npCmds : List Cmd :=
  [ { path := [], runnable := false, hook := true,
      pflags := specsOf KeyCli.wiringFlagTable ++ specsOf KeyCli.outputFlagTable },
    { path := ["endorse".toList], hook := true,
      pflags := specsOf KeyCli.wiringFlagTable ++ specsOf (EndorseCli.flagTable.filter (fun r => !isOutputFlag r))
                ++ specsOf localnonvcsFlagTable },
    { path := ["bootstrap".toList], hook := true,
      pflags := specsOf KeyCli.wiringFlagTable ++ specsOf KeyCli.bootstrapFlagTable },
    { path := ["rotate".toList], hook := true,
      pflags := specsOf KeyCli.wiringFlagTable ++ specsOf KeyCli.rotateFlagTable },
    { path := ["wipeout".toList], hook := true,
      pflags := specsOf KeyCli.wiringFlagTable ++ specsOf KeyCli.wipeoutFlagTable } ]

def npTree : Tree := { cmds := npCmds, traverse := false, runHooks := false }

def treeNamed (s : String) : Option Tree :=
  if s = "rp" then some rpTree else if s = "rs" then some rsTree else if s = "np" then some npTree else none

end GceTcb.ArgvTrees
