import GceTcb.Gen.CertConsts
/-
Model of the key-management commands (C12): rotate.Bootstrap, rotate.Key, rotate.Wipeout with
cmd.RotateCommand.InitContext's serial defaulting, the memkm/localkm key managers over the nonprod
signer, the two certificate templates (sops.GoogleCertificateTemplate, certs.TemplateFromCert) and the
two shipped certificate authorities (memca: mutations apply immediately; gcsca: mutation applied by
Finalize with the no-clobber rule, and — after the two "fix:" commits to gcsca.upload — the refusal of an
object recorded for another key version and of recording an object that keep_going left unwritten;
`Cfg.guard = false` is upload as it was before them).  Core-only.

Abstractions (stated, tied by the correspondence run):
* RSA keys are key ids (a counter); a certificate records the key that signed it (`signerKey`), so
  "verifies under key k" is `signerKey = k`.  x509.CreateCertificate refuses a signer whose public key
  differs from the parent certificate's, so `signerKey = issuerKey` for every certificate created.
* key-version names are `base` or `base_<idx>` (`KName`); memkm.BumpName on such names is `bump`.  The
  string-level function is `bumpNameStr` (compared with the real BumpName on arbitrary strings).
* gcsca object names `<cert_dir>/<CN>-<subject serial>.crt` are the pair `(CN, serial)` (`ObjKey.byCert`;
  injective because the serial is all digits); memca's `Certs[name]` is the object `ObjKey.byName name`
  reached through an entry `name ↦ byName name`.
* time is seconds; durations come from Gen (days × hoursPerDay × 3600).
* the iteration order of gcsca.Finalize over the mutation's certificate map is fixed (root first); the
  two orders differ only when the two certificates of one bootstrap have the same object name.
-/
namespace GceTcb.KeyHistory
open GceTcb.Gen

/-! ### association lists -/

def get {κ α : Type} [DecidableEq κ] : List (κ × α) → κ → Option α
  | [], _ => none
  | (k', v) :: t, k => if k = k' then some v else get t k

/-- replace in place, or append -/
def put {κ α : Type} [DecidableEq κ] : List (κ × α) → κ → α → List (κ × α)
  | [], k, v => [(k, v)]
  | (k', v') :: t, k, v => if k = k' then (k, v) :: t else (k', v') :: put t k v

def erase {κ α : Type} [DecidableEq κ] : List (κ × α) → κ → List (κ × α)
  | [], _ => []
  | (k', v') :: t, k => if k = k' then erase t k else (k', v') :: erase t k

/-! ### names -/

/-- A key-version name `base` (idx = 0) or `base_<idx>`. -/
structure KName where
  base : String
  idx : Nat
deriving DecidableEq, Repr

def KName.show (k : KName) : String :=
  if k.idx = 0 then k.base else k.base ++ "_" ++ toString k.idx

/-- go: memkm.defaultRootKeyName -/
def rootName : KName := ⟨"root", 0⟩
/-- go: memkm.defaultPrimarySigningKeyName -/
def firstName : KName := ⟨"primarySigningKey", 0⟩
/-- the empty key-version name (no primary recorded) -/
def noName : KName := ⟨"", 0⟩

/-- go: memkm.BumpName on `base[_idx]` names -/
def bump (k : KName) : KName := ⟨k.base, k.idx + CertConsts.bumpIncrement⟩

def digitsVal : List Char → Option Nat
  | [] => none
  | cs => if cs.all Char.isDigit then some (cs.foldl (fun a c => a * 10 + (c.toNat - 48)) 0) else none

/-- go: memkm.BumpName (string level; strconv.ParseUint base 10, 64 bits: a syntax error yields 0, a
    range error yields the maximum value — both with the whole name kept as prefix; uint64 addition wraps) -/
def bumpNameStr (name : String) : String :=
  let pieces := name.splitOn "_"
  let plain := name ++ "_" ++ toString CertConsts.bumpIncrement
  if pieces.length > 1 then
    match digitsVal (pieces.getLast!).toList with
    | some n =>
      if n < 2 ^ 64 then
        "_".intercalate pieces.dropLast ++ "_" ++ toString ((n + CertConsts.bumpIncrement) % 2 ^ 64)
      else name ++ "_" ++ toString ((2 ^ 64 - 1 + CertConsts.bumpIncrement) % 2 ^ 64)
    | none => plain
  else plain

/-! ### certificates -/

structure Cert where
  certSerial : Nat
  subjSerial : Nat
  cn : String
  issuerCn : String
  issuerSerial : Nat
  subjectKey : Nat
  issuerKey : Nat      -- subject key of the parent certificate handed to x509.CreateCertificate
  signerKey : Nat      -- key that produced the signature
  isCA : Bool
  keyUsage : Nat
  sigAlg : Nat
  notBefore : Nat
  notAfter : Nat
deriving DecidableEq, Repr

/-- The to-be-signed part (x509 template). -/
structure Tmpl where
  certSerial : Nat
  subjSerial : Nat
  cn : String
  subjectKey : Nat
  isCA : Bool
  keyUsage : Nat
  sigAlg : Nat
  notBefore : Nat
  notAfter : Nat
deriving Repr

def daySeconds : Nat := CertConsts.hoursPerDay * 3600

/-- go: sops.GoogleCertificateTemplate -/
def Tmpl.google (root : Bool) (cn : String) (serial now key : Nat) : Tmpl :=
  { certSerial := if CertConsts.googleSerialIsSubject then serial else 0
    subjSerial := serial
    cn := cn
    subjectKey := key
    isCA := if root then CertConsts.googleRootIsCA else CertConsts.googleSignIsCA
    keyUsage := if root then CertConsts.googleRootKeyUsage else CertConsts.googleSignKeyUsage
    sigAlg := CertConsts.googleSigAlg
    notBefore := now
    notAfter := now + (if root then CertConsts.googleRootDays else CertConsts.googleSignDays) * daySeconds }

/-- go: certs.TemplateFromCert (the copy of `old` with subject, key, serial and validity replaced) -/
def Tmpl.fromCert (old : Cert) (cn : String) (serial now key : Nat) : Tmpl :=
  { certSerial := if CertConsts.fromCertSerialIsSubject then serial else old.certSerial
    subjSerial := serial
    cn := cn
    subjectKey := key
    isCA := old.isCA
    keyUsage := old.keyUsage
    sigAlg := old.sigAlg
    notBefore := now
    notAfter := now + (if old.isCA then CertConsts.fromCertRootDays else CertConsts.fromCertSignDays) * daySeconds }

structure BootArgs where
  rootCn : String
  signCn : String
  rootSerial : Nat
  signSerial : Nat
  now : Nat
deriving Repr

/-- Which rotate context the command context carries (BootstrapContext or SigningKeyContext). -/
inductive CertCtx where
  | boot (a : BootArgs)
  | rot (cn : String) (serial now : Nat)

/-- go: rotate.FromBootstrapContext, root fields -/
def CertCtx.rootInfo : CertCtx → Option (String × Nat × Nat)
  | .boot a => some (a.rootCn, a.rootSerial, a.now)
  | .rot _ _ _ => none

/-- go: certs.SigningKeyContextFrom -/
def CertCtx.signInfo : CertCtx → String × Nat × Nat
  | .boot a => (a.signCn, a.signSerial, a.now)
  | .rot cn serial now => (cn, serial, now)

/-- go: certs.TemplateFromCert (choice of context by `cert.IsCA`) -/
def templateFromCert (ctx : CertCtx) (old : Cert) (key : Nat) : Option Tmpl :=
  if old.isCA then
    match ctx.rootInfo with
    | some (cn, serial, now) => some (Tmpl.fromCert old cn serial now key)
    | none => none
  else
    some (Tmpl.fromCert old ctx.signInfo.1 ctx.signInfo.2.1 ctx.signInfo.2.2 key)

/-! ### state -/

inductive ObjKey where
  | byName (k : KName)
  | byCert (cn : String) (serial : Nat)
deriving DecidableEq, Repr

/-- Certificate authority state (what a fresh authority object reads back). -/
structure CA where
  primaryRoot : KName
  primarySigning : KName
  entries : List (KName × ObjKey)     -- manifest: key version name ↦ object
  objects : List (ObjKey × Cert)      -- certificate objects
  rootObj : Option Cert               -- gcsca: the RootPath object (PEM)
deriving DecidableEq, Repr

def CA.empty : CA := ⟨noName, noName, [], [], none⟩

/-- Key manager / signer state. -/
structure KM where
  live : List (KName × Nat)           -- key versions that can sign ↦ key id
  destroyed : List KName              -- names destroyed since the last key wipeout
  next : Nat                          -- next fresh key id
deriving Repr

structure State where
  km : KM
  ca : CA
deriving Repr

def State.init : State := ⟨⟨[], [], 0⟩, CA.empty⟩

inductive CAKind where | memca | gcsca
deriving DecidableEq, Repr
inductive KMKind where | memkm | localkm
deriving DecidableEq, Repr

structure Cfg where
  ca : CAKind
  km : KMKind
  seq : Bool      -- rotate.Key stops at the first error and finalizes before destroying (Gen.rotateSequential)
  cli : Bool      -- commands go through the nonprod CLI (localca.InitContext pre-check)
  guard : Bool    -- gcsca.upload refuses an object recorded for another key version and never records an
                  -- object it did not write (the code after its two "fix:" commits; false = before them)

structure Flags where
  overwrite : Bool
  keepGoing : Bool
deriving Repr

/-! ### key manager -/

/-- go: nonprod.Signer.GenerateRootKey / GenerateSigningKey (+ localkm.saveKey) -/
def KM.gen (km : KM) (n : KName) : KM :=
  { km with live := put km.live n km.next, next := km.next + 1 }

/-- go: memkm.DestroyKeyVersion / localkm.DestroyKeyVersion (state) -/
def KM.destroy (km : KM) (n : KName) : KM :=
  if (get km.live n).isSome then { km with live := erase km.live n, destroyed := n :: km.destroyed } else km

/-- go: localkm.DestroyKeyVersion returns os.Remove's error when the key file is absent -/
def destroyOk (cfg : Cfg) (km : KM) (n : KName) : Bool :=
  match cfg.km with
  | .memkm => true
  | .localkm => (get km.live n).isSome

/-- go: memkm.Wipeout / localkm.Wipeout -/
def KM.wipe (km : KM) : KM := { live := [], destroyed := [], next := km.next }

/-- go: memkm.keyExists — true when the creation must be refused (os.ErrExist) -/
def keyExists (f : Flags) (km : KM) (n : KName) : Bool :=
  !f.overwrite && (get km.live n).isSome

/-! ### certificate authority reads -/

/-- go: CertificateAuthority.Certificate -/
def certificate (ca : CA) (n : KName) : Option Cert :=
  match get ca.entries n with
  | some p => get ca.objects p
  | none => none

/-- go: CertificateAuthority.CABundle (memca: Certs[RootName]; gcsca: the RootPath object) -/
def bundle (cfg : Cfg) (ca : CA) : Option Cert :=
  match cfg.ca with
  | .memca => certificate ca ca.primaryRoot
  | .gcsca => ca.rootObj

/-- go: memca.Mutation.AddSigningKeyCert / SetRootKeyCert (immediate) -/
def memPut (ca : CA) (n : KName) (c : Cert) : CA :=
  { ca with entries := put ca.entries n (.byName n), objects := put ca.objects (.byName n) c }

/-! ### gcsca.Finalize -/

/-- go: gcsca.certObjectName -/
def certPath (c : Cert) : ObjKey := .byCert c.cn c.subjSerial

/-- go: gcsca.writeIfAllowed on a certificate object (none = AlreadyExists error) -/
def writeIfAllowed (f : Flags) (ca : CA) (p : ObjKey) (c : Cert) : Option CA :=
  if (get ca.objects p).isSome && !f.overwrite then
    (if f.keepGoing then some ca else none)
  else some { ca with objects := put ca.objects p c }

/-- go: gcsca.otherKeyVersionOf — the manifest records object `p` for a key version other than `n` -/
def heldByOther (ca : CA) (p : ObjKey) (n : KName) : Bool :=
  ca.entries.any fun e => e.2 == p && e.1 != n

/-- go: gcsca.upload.  `g` (= `Cfg.guard`): with the two refusals added by the "fix:" commits — an object
    the manifest records for another key version is refused before anything is written; an existing
    object that keep_going (without overwrite) left unwritten is not recorded but reported as an error. -/
def upload (g : Bool) (f : Flags) (ca : CA) (n : KName) (c : Cert) : Option CA :=
  match get ca.entries n with
  | some p =>
    if f.keepGoing then some ca
    else if g && heldByOther ca p n then none
    else writeIfAllowed f ca p c
  | none =>
    if g && heldByOther ca (certPath c) n then none
    else
      match writeIfAllowed f ca (certPath c) c with
      | some ca' =>
        if g && (get ca.objects (certPath c)).isSome && !f.overwrite then none
        else some { ca' with entries := put ca'.entries n (certPath c) }
      | none => none

def uploadAll (g : Bool) (f : Flags) : CA → List (KName × Cert) → CA × Bool
  | ca, [] => (ca, true)
  | ca, (n, c) :: rest =>
    match upload g f ca n c with
    | none => (ca, false)
    | some ca' => uploadAll g f ca' rest

/-- go: gcsca.writeIfAllowed on RootPath -/
def writeRoot (f : Flags) (ca : CA) (c : Cert) : Option CA :=
  if ca.rootObj.isSome && !f.overwrite then
    (if f.keepGoing then some ca else none)
  else some { ca with rootObj := some c }

/-- go: gcsca.certificateAuthorityMutation -/
structure Mut where
  pr : Option KName
  ps : Option KName
  certs : List (KName × Cert)
  root : Option Cert

/-- Objects already written stay written when Finalize aborts; the manifest is not written. -/
def abortTo (stored written : CA) : CA :=
  { stored with objects := written.objects, rootObj := written.rootObj }

/-- go: gcsca.CertificateAuthority.Finalize (the trailing `len(names) > 0` check is unreachable:
    an existing object without overwrite and without keep_going already failed in writeIfAllowed) -/
def gcsFinalize (g : Bool) (f : Flags) (ca : CA) (m : Mut) : CA × Bool :=
  match uploadAll g f { ca with primaryRoot := m.pr.getD ca.primaryRoot,
                                primarySigning := m.ps.getD ca.primarySigning } m.certs with
  | (ca1, false) => (abortTo ca ca1, false)
  | (ca1, true) =>
    match m.root with
    | none => (ca1, true)
    | some r =>
      match writeRoot f ca1 r with
      | none => (abortTo ca ca1, false)
      | some ca2 => (ca2, true)

/-! ### signing -/

/-- go: sops.CreateCertificateFromTemplate → x509.CreateCertificate.  `parent = none` is the
    self-signed case (parent := template).  Fails when the issuer key version is not live
    (cryptoSigner.Public() = nil) or differs from the parent's public key. -/
def signCert (km : KM) (parent : Option Cert) (issuerKeyName : KName) (t : Tmpl) : Option Cert :=
  match get km.live issuerKeyName with
  | none => none
  | some sk =>
    match parent with
    | none =>
      if sk = t.subjectKey then
        some { certSerial := t.certSerial, subjSerial := t.subjSerial, cn := t.cn, issuerCn := t.cn,
               issuerSerial := t.subjSerial, subjectKey := t.subjectKey, issuerKey := t.subjectKey,
               signerKey := sk, isCA := t.isCA, keyUsage := t.keyUsage, sigAlg := t.sigAlg,
               notBefore := t.notBefore, notAfter := t.notAfter }
      else none
    | some p =>
      if sk = p.subjectKey then
        some { certSerial := t.certSerial, subjSerial := t.subjSerial, cn := t.cn, issuerCn := p.cn,
               issuerSerial := p.subjSerial, subjectKey := t.subjectKey, issuerKey := p.subjectKey,
               signerKey := sk, isCA := t.isCA, keyUsage := t.keyUsage, sigAlg := t.sigAlg,
               notBefore := t.notBefore, notAfter := t.notAfter }
      else none

/-- go: memkm.T.rootTemplateFrom (reads the authority as it is at that moment: `view`) -/
def rootTemplate (cfg : Cfg) (view : CA) (ctx : CertCtx) (key : Nat) : Option Tmpl :=
  match bundle cfg view with
  | some r => templateFromCert ctx r key
  | none =>
    match ctx.rootInfo with
    | some (cn, serial, now) => some (Tmpl.google true cn serial now key)
    | none => none

/-- go: memkm.T.signingKeyTemplateFrom -/
def signingTemplate (view : CA) (ctx : CertCtx) (key : Nat) : Option Tmpl :=
  match certificate view view.primarySigning with
  | some p => templateFromCert ctx p key
  | none => some (Tmpl.google false ctx.signInfo.1 ctx.signInfo.2.1 ctx.signInfo.2.2 key)

/-! ### bootstrap -/

/-- The authority as the templates of a bootstrap see it: memca has already applied
    SetPrimaryRootKeyVersion / SetPrimarySigningKeyVersion, gcsca has not. -/
def bootView (cfg : Cfg) (ca : CA) : CA :=
  match cfg.ca with
  | .memca => { ca with primaryRoot := rootName, primarySigning := firstName }
  | .gcsca => ca

def bootPutRoot (cfg : Cfg) (view : CA) (rc : Cert) : CA :=
  match cfg.ca with
  | .memca => memPut view rootName rc
  | .gcsca => view

/-- go: the tail of rotate.Bootstrap once both certificates exist -/
def bootCommit (cfg : Cfg) (f : Flags) (stored view2 : CA) (rc sc : Cert) : CA × Bool :=
  match cfg.ca with
  | .memca => (memPut view2 firstName sc, true)
  | .gcsca => gcsFinalize cfg.guard f stored ⟨some rootName, some firstName, [(rootName, rc), (firstName, sc)], some rc⟩

/-- go: rotate.Bootstrap after both keys were created (`km`: key manager holding them) -/
def bootCerts (cfg : Cfg) (f : Flags) (a : BootArgs) (km : KM) (rootKey firstKey : Nat) (stored : CA) : CA × Bool :=
  match rootTemplate cfg (bootView cfg stored) (.boot a) rootKey with
  | none => (bootView cfg stored, false)
  | some rt =>
    match signCert km none rootName rt with
    | none => (bootView cfg stored, false)
    | some rc =>
      match signingTemplate (bootPutRoot cfg (bootView cfg stored) rc) (.boot a) firstKey with
      | none => (bootPutRoot cfg (bootView cfg stored) rc, false)
      | some st =>
        match signCert km (some rc) rootName st with
        | none => (bootPutRoot cfg (bootView cfg stored) rc, false)
        | some sc => bootCommit cfg f stored (bootPutRoot cfg (bootView cfg stored) rc) rc sc

/-- go: rotate.Bootstrap -/
def bootstrap (cfg : Cfg) (f : Flags) (a : BootArgs) (s : State) : State × Bool :=
  if keyExists f s.km rootName then (s, false)
  else if keyExists f (s.km.gen rootName) firstName then ({ s with km := s.km.gen rootName }, false)
  else
    (⟨(s.km.gen rootName).gen firstName,
      (bootCerts cfg f a ((s.km.gen rootName).gen firstName) s.km.next (s.km.next + 1) s.ca).1⟩,
     (bootCerts cfg f a ((s.km.gen rootName).gen firstName) s.km.next (s.km.next + 1) s.ca).2)

/-! ### rotate -/

/-- go: sops.NextSigningKeySerial through cmd.RotateCommand.InitContext (override 0 = none) -/
def resolveSerial (ca : CA) : Option Nat → Option Nat
  | some n => some n
  | none =>
    match certificate ca ca.primarySigning with
    | some p => some (p.subjSerial + CertConsts.rotateDefaultIncrement)
    | none => none

structure RotArgs where
  cn : String
  serial : Option Nat
  now : Nat
deriving Repr

/-- go: keyRequest.signAndAdd's guard (currentRoot ≠ "", issuer ≠ nil; both unset when getCurrentInfo failed) -/
def rotGuard (cfg : Cfg) (ca : CA) : Bool :=
  (bundle cfg ca).isSome && decide (ca.primaryRoot ≠ noName)

/-- go: keyRequest.signAndAdd → InternalSignAndUpload → signCert: the certificate of the new key
    version `bump primary` (key id `km.next`, created by step 1) -/
def rotCert (cfg : Cfg) (s : State) (cn : String) (serial now : Nat) : Option Cert :=
  if rotGuard cfg s.ca then
    match signingTemplate s.ca (.rot cn serial now) s.km.next with
    | some t => signCert (s.km.gen (bump s.ca.primarySigning)) (bundle cfg s.ca) s.ca.primaryRoot t
    | none => none
  else none

/-- go: AddSigningKeyCert (if a certificate was made) + SetPrimarySigningKeyVersion + Finalize -/
def memAdd (ca : CA) (kver : KName) : Option Cert → CA
  | some c => memPut ca kver c
  | none => ca

def rotCerts (kver : KName) : Option Cert → List (KName × Cert)
  | some c => [(kver, c)]
  | none => []

def caAfterRotate (cfg : Cfg) (f : Flags) (ca : CA) (kver : KName) (c : Option Cert) : CA × Bool :=
  match cfg.ca with
  | .memca => ({ memAdd ca kver c with primarySigning := kver }, true)
  | .gcsca => gcsFinalize cfg.guard f ca ⟨none, some kver, rotCerts kver c, none⟩

/-- go: updatePrimaryAndDestroy's destruction of the previous version (skipped when there is none) -/
def destroyOld (km : KM) (cur : KName) : KM := if cur = noName then km else km.destroy cur

def destroyOldOk (cfg : Cfg) (km : KM) (cur : KName) : Bool :=
  if cur = noName then true else destroyOk cfg km cur

/-- go: rotate.Key with all five steps evaluated (arguments of multierr.Combine) -/
def rotateEager (cfg : Cfg) (f : Flags) (s : State) (cn : String) (serial now : Nat) : State × Bool :=
  if rotGuard cfg s.ca then
    (⟨destroyOld (s.km.gen (bump s.ca.primarySigning)) s.ca.primarySigning,
      (caAfterRotate cfg f s.ca (bump s.ca.primarySigning) (rotCert cfg s cn serial now)).1⟩,
     (rotCert cfg s cn serial now).isSome
       && destroyOldOk cfg (s.km.gen (bump s.ca.primarySigning)) s.ca.primarySigning
       && (caAfterRotate cfg f s.ca (bump s.ca.primarySigning) (rotCert cfg s cn serial now)).2)
  else ({ s with km := s.km.gen (bump s.ca.primarySigning) }, false)

/-- go: rotate.Key stopping at the first error; Finalize before DestroyKeyVersion -/
def rotateSeq (cfg : Cfg) (f : Flags) (s : State) (cn : String) (serial now : Nat) : State × Bool :=
  match rotCert cfg s cn serial now with
  | none => ({ s with km := s.km.gen (bump s.ca.primarySigning) }, false)
  | some c =>
    if (caAfterRotate cfg f s.ca (bump s.ca.primarySigning) (some c)).2 then
      (⟨destroyOld (s.km.gen (bump s.ca.primarySigning)) s.ca.primarySigning,
        (caAfterRotate cfg f s.ca (bump s.ca.primarySigning) (some c)).1⟩,
       destroyOldOk cfg (s.km.gen (bump s.ca.primarySigning)) s.ca.primarySigning)
    else
      (⟨s.km.gen (bump s.ca.primarySigning),
        (caAfterRotate cfg f s.ca (bump s.ca.primarySigning) (some c)).1⟩, false)

/-- go: rotate.Key -/
def rotateKey (cfg : Cfg) (f : Flags) (s : State) (cn : String) (serial now : Nat) : State × Bool :=
  if cfg.seq then rotateSeq cfg f s cn serial now else rotateEager cfg f s cn serial now

/-! ### wipeout, CLI pre-check, commands -/

/-- go: rotate.Wipeout -/
def wipeout (s : State) (wca wkeys : Bool) : State :=
  ⟨if wkeys then s.km.wipe else s.km, if wca then CA.empty else s.ca⟩

/-- go: localca.T.checkCerts (run by the CLI for every command but bootstrap) -/
def checkCerts (cfg : Cfg) (ca : CA) : Bool :=
  decide (ca.primaryRoot ≠ noName) && decide (ca.primarySigning ≠ noName)
    && (bundle cfg ca).isSome && (certificate ca ca.primarySigning).isSome

inductive Cmd where
  | bootstrap (f : Flags) (a : BootArgs)
  | rotate (f : Flags) (a : RotArgs)
  | wipeout (f : Flags) (ca keys : Bool)
deriving Repr

def cliBlocked (cfg : Cfg) (ca : CA) : Bool := cfg.cli && !checkCerts cfg ca

def step (cfg : Cfg) (s : State) : Cmd → State × Bool
  | .bootstrap f a => bootstrap cfg f a s
  | .rotate f a =>
    if cliBlocked cfg s.ca then (s, false)
    else
      match resolveSerial s.ca a.serial with
      | none => (s, false)
      | some n => rotateKey cfg f s a.cn n a.now
  | .wipeout _ c k =>
    if cliBlocked cfg s.ca then (s, false) else (wipeout s c k, true)

def run (cfg : Cfg) (s : State) (h : List Cmd) : State := h.foldl (fun s c => (step cfg s c).1) s

end GceTcb.KeyHistory
