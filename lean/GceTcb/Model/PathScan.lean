import GceTcb.Base.Outcome
/-
Model of gcetcbendorsement/parsepath/scan.go (C19): the scanner of the field-path syntax.  Core-only.

Go strings are byte strings; the model's `Str` is a list of byte values (`Nat`, each < 256 for real
inputs; larger numbers are treated like invalid UTF-8 lead bytes, so the theorems cover a superset).
The six regular expressions of scan.go (all anchored with `^`, Go leftmost-first semantics) are
replaced by hand-written recognisers that return the length of the match:

  identRe   ^[a-zA-Z_][a-zA-Z_0-9]*          matchIdent
  decimalRe ^-?(0|[1-9][0-9]*)               matchDecimal
  octalRe   ^-?(0[0-7]+)                     matchOctal
  hexRe     ^-?(0[xX][0-9a-fA-F]+)           matchHex
  oct13Re   ^[0-7]{1,3}                      oct13
  hex12Re / hex4Re / hex8Re                  hex12 / hex4 / hex8

The scanner state is (buf, pos) as in Go; every function returns the new position explicitly.
Every Go index `buf[i]` and slice `buf[a:b]` is a checked step (`idx`, `slice`: panic unless
`i < len` resp. `a ≤ b ≤ len` — Go's slice rule is `b ≤ cap`, so the model is stricter than Go).
The loop of `scanner.string` runs on fuel = remaining bytes + 1; running out of fuel is reported as a
panic, so that the no-panic theorem also states that the fuel is sufficient.

Not modelled: the Text of `illegal` tokens produced by `scanner.bad` (strconv.QuoteRune); it only
feeds error messages.
-/
namespace GceTcb.Path

abbrev Str := List Nat

/-- ASCII bytes of a Lean string literal (used for readable constants and examples). -/
def asc (s : String) : Str := s.toList.map Char.toNat

-- go: parsepath.tokenKind
inductive TokKind
  | ident | intlit | strlit | dot | oparen | cparen | obrack | cbrack | illegal | eof
deriving DecidableEq, Repr

-- go: parsepath.token
structure Token where
  kind : TokKind
  pos : Nat
  text : Str
deriving DecidableEq, Repr

-- go: parsepath.escapedRune
structure ERune where
  pos : Nat
  rune : Nat
  valid : Bool
deriving DecidableEq, Repr

/-! ### checked Go primitives -/

/-- go: `buf[i]` -/
def idx (buf : Str) (i : Nat) (site : String) : Outcome Nat :=
  match buf[i]? with
  | some c => .ok c
  | none => .panic site

/-- go: `buf[lo:hi]` (checked against len, stricter than Go's cap rule) -/
def slice (buf : Str) (lo hi : Nat) (site : String) : Outcome Str :=
  if lo ≤ hi ∧ hi ≤ buf.length then .ok ((buf.drop lo).take (hi - lo)) else .panic site

/-- go: `buf[lo:]` -/
def sliceFrom (buf : Str) (lo : Nat) (site : String) : Outcome Str :=
  if lo ≤ buf.length then .ok (buf.drop lo) else .panic site

/-! ### character classes and the regular expressions -/

def isDigit (c : Nat) : Bool := decide (48 ≤ c ∧ c ≤ 57)
def isOct (c : Nat) : Bool := decide (48 ≤ c ∧ c ≤ 55)
def isHex (c : Nat) : Bool := decide ((48 ≤ c ∧ c ≤ 57) ∨ (97 ≤ c ∧ c ≤ 102) ∨ (65 ≤ c ∧ c ≤ 70))
def isIdentStart (c : Nat) : Bool := decide ((97 ≤ c ∧ c ≤ 122) ∨ (65 ≤ c ∧ c ≤ 90) ∨ c = 95)
def isIdentCont (c : Nat) : Bool := isIdentStart c || isDigit c

/-- length of the longest prefix whose bytes satisfy `p` (a greedy `[class]*`) -/
def spanLen (p : Nat → Bool) : Str → Nat
  | [] => 0
  | c :: cs => if p c then 1 + spanLen p cs else 0

/-- go: identRe `^[a-zA-Z_][a-zA-Z_0-9]*` -/
def matchIdent : Str → Option Nat
  | c :: cs => if isIdentStart c then some (1 + spanLen isIdentCont cs) else none
  | [] => none

/-- the optional leading `-` of the integer expressions: (bytes consumed, remainder).  When the body
    does not match after the `-`, the alternative without `-` cannot match either (the body starts with
    a digit), so no backtracking is needed. -/
def optMinus : Str → Nat × Str
  | 45 :: r => (1, r)
  | r => (0, r)

def decimalBody : Str → Option Nat
  | [] => none
  | c :: cs =>
    if c = 48 then some 1
    else if 49 ≤ c ∧ c ≤ 57 then some (1 + spanLen isDigit cs)
    else none

def octalBody : Str → Option Nat
  | 48 :: cs => let n := spanLen isOct cs; if 1 ≤ n then some (1 + n) else none
  | _ => none

def hexBody : Str → Option Nat
  | 48 :: x :: cs =>
    if x = 120 ∨ x = 88 then
      let n := spanLen isHex cs; if 1 ≤ n then some (2 + n) else none
    else none
  | _ => none

def withMinus (body : Str → Option Nat) (rest : Str) : Option Nat :=
  match body (optMinus rest).2 with
  | some n => some ((optMinus rest).1 + n)
  | none => none

/-- go: decimalRe `^-?(0|[1-9][0-9]*)` -/
def matchDecimal : Str → Option Nat := withMinus decimalBody
/-- go: octalRe `^-?(0[0-7]+)` -/
def matchOctal : Str → Option Nat := withMinus octalBody
/-- go: hexRe `^-?(0[xX][0-9a-fA-F]+)` -/
def matchHex : Str → Option Nat := withMinus hexBody

/-- `^[class]{lo,hi}` (greedy) -/
def boundedRe (p : Nat → Bool) (lo hi : Nat) (rest : Str) : Option Nat :=
  let n := spanLen p (rest.take hi)
  if lo ≤ n then some n else none

/-- go: oct13Re `^[0-7]{1,3}` -/
def oct13 : Str → Option Nat := boundedRe isOct 1 3
/-- go: hex12Re `^[0-9A-Fa-f]{1,2}` -/
def hex12 : Str → Option Nat := boundedRe isHex 1 2
/-- go: hex4Re `^[0-9A-Fa-f]{4}` -/
def hex4 : Str → Option Nat := boundedRe isHex 4 4
/-- go: hex8Re `^[0-9A-Fa-f]{8}` -/
def hex8 : Str → Option Nat := boundedRe isHex 8 8

/-! ### UTF-8 (unicode/utf8.DecodeRune, bytes.Buffer.WriteRune) -/

def runeError : Nat := 0xFFFD

def isCont (b : Nat) : Bool := decide (0x80 ≤ b ∧ b ≤ 0xBF)

/-- go: utf8.DecodeRune — (rune, size); (RuneError, 1) on any invalid or truncated encoding,
    (RuneError, 0) on empty input. -/
def decodeRune : Str → Nat × Nat
  | [] => (runeError, 0)
  | p0 :: t =>
    if p0 < 0x80 then (p0, 1)
    else if p0 < 0xC2 then (runeError, 1)
    else if p0 < 0xE0 then
      match t with
      | b1 :: _ => if isCont b1 then ((p0 % 32) * 64 + b1 % 64, 2) else (runeError, 1)
      | _ => (runeError, 1)
    else if p0 < 0xF0 then
      match t with
      | b1 :: b2 :: _ =>
        if (if p0 = 0xE0 then 0xA0 else 0x80) ≤ b1 ∧ b1 ≤ (if p0 = 0xED then 0x9F else 0xBF) ∧ isCont b2 = true then
          ((p0 % 16) * 4096 + (b1 % 64) * 64 + b2 % 64, 3)
        else (runeError, 1)
      | _ => (runeError, 1)
    else if p0 < 0xF5 then
      match t with
      | b1 :: b2 :: b3 :: _ =>
        if (if p0 = 0xF0 then 0x90 else 0x80) ≤ b1 ∧ b1 ≤ (if p0 = 0xF4 then 0x8F else 0xBF) ∧ isCont b2 = true
            ∧ isCont b3 = true then
          ((p0 % 8) * 262144 + (b1 % 64) * 4096 + (b2 % 64) * 64 + b3 % 64, 4)
        else (runeError, 1)
      | _ => (runeError, 1)
    else (runeError, 1)

/-- go: bytes.Buffer.WriteRune / utf8.AppendRune (surrogates and values above U+10FFFF are written
    as U+FFFD) -/
def encodeRune (r : Nat) : Str :=
  if r < 0x80 then [r]
  else if r < 0x800 then [0xC0 + r / 64, 0x80 + r % 64]
  else if r > 0x10FFFF ∨ (0xD800 ≤ r ∧ r ≤ 0xDFFF) then [0xEF, 0xBF, 0xBD]
  else if r < 0x10000 then [0xE0 + r / 4096, 0x80 + (r / 64) % 64, 0x80 + r % 64]
  else [0xF0 + r / 262144, 0x80 + (r / 4096) % 64, 0x80 + (r / 64) % 64, 0x80 + r % 64]

/-! ### escapes -/

/-- go: parsepath.escapes -/
def simpleEscape (c : Nat) : Option Nat :=
  if c = 97 then some 7          -- a
  else if c = 98 then some 8     -- b
  else if c = 102 then some 12   -- f
  else if c = 110 then some 10   -- n
  else if c = 114 then some 13   -- r
  else if c = 116 then some 9    -- t
  else if c = 118 then some 11   -- v
  else if c = 92 then some 92    -- \
  else if c = 39 then some 39    -- '
  else if c = 34 then some 34    -- "
  else if c = 63 then some 63    -- ?
  else none

def digitVal (c : Nat) : Nat :=
  if 48 ≤ c ∧ c ≤ 57 then c - 48
  else if 97 ≤ c ∧ c ≤ 102 then c - 87
  else if 65 ≤ c ∧ c ≤ 70 then c - 55
  else 0

/-- value of a digit string in the given base (strconv's accumulation, no overflow in `Nat`) -/
def digitsVal (base : Nat) (ds : Str) : Nat := ds.foldl (fun acc c => acc * base + digitVal c) 0

/-- go: scanner.number — `start` is the position of the escape's `\`; returns the rune and the new
    position.  `strconv.ParseInt(number, base, 32)` fails exactly on values ≥ 2^31. -/
def number (buf : Str) (pos start : Nat) (re : Str → Option Nat) (base : Nat) : Outcome (ERune × Nat) := do
  let rest ← sliceFrom buf pos "number.rest"
  match re rest with
  | none => .ok (⟨start, 0, false⟩, if pos < buf.length then pos + 1 else pos)
  | some numLen => do
    let num ← slice buf pos (pos + numLen) "number.slice"
    let n := digitsVal base num
    if n < 2 ^ 31 then .ok (⟨start, n, true⟩, pos + numLen)
    else .ok (⟨start, 0, false⟩, pos + numLen)

/-- go: scanner.escape — `pos0` is the position of the `\`. -/
def escape (buf : Str) (pos0 : Nat) : Outcome (ERune × Nat) :=
  let pos := pos0 + 1
  if pos ≥ buf.length then .ok (⟨pos, 0, false⟩, pos)
  else do
    let peek ← idx buf pos "escape.peek"
    match simpleEscape peek with
    | some r => .ok (⟨pos0, r, true⟩, pos + 1)
    | none =>
      if 48 ≤ peek ∧ peek ≤ 55 then number buf pos pos0 oct13 8
      else if peek = 117 then number buf (pos + 1) pos0 hex4 16        -- u
      else if peek = 85 then number buf (pos + 1) pos0 hex8 16         -- U
      else if peek = 120 ∨ peek = 88 then number buf (pos + 1) pos0 hex12 16  -- x X
      else .ok (⟨pos0 + 1, 0, false⟩, pos + 1)

/-! ### string literals -/

/-- go: the `for` loop of scanner.string.  `start` = position of the opening quote. -/
def strLoop (buf : Str) (start quote : Nat) : Nat → Nat → Str → Outcome (Token × Nat)
  | 0, _, _ => .panic "string.fuel"
  | fuel + 1, pos, lit =>
    if pos ≥ buf.length then do
      let t ← sliceFrom buf start "string.unterminated"
      .ok (⟨.illegal, pos, t⟩, pos)
    else do
      let peek ← idx buf pos "string.peek"
      if peek = 10 ∨ peek = 0 then .ok (⟨.illegal, pos, []⟩, pos + 1)   -- s.bad
      else if peek = 92 then do
        let r ← escape buf pos
        if r.1.valid = false then do
          let t ← slice buf start (min (r.1.pos + 1) buf.length) "string.badescape"
          .ok (⟨.illegal, r.1.pos, t⟩, r.2)
        else strLoop buf start quote fuel r.2 (lit ++ encodeRune r.1.rune)
      else if peek = quote then .ok (⟨.strlit, start, lit⟩, pos + 1)
      else
        let d := decodeRune (buf.drop pos)
        if d.1 = runeError ∧ d.2 = 1 then .ok (⟨.illegal, pos, []⟩, pos + 1)  -- s.single(illegal)
        else strLoop buf start quote fuel (pos + d.2) (lit ++ encodeRune d.1)

/-- go: scanner.string -/
def scanString (buf : Str) (pos : Nat) : Outcome (Token × Nat) := do
  let quote ← idx buf pos "string.quote"
  strLoop buf pos quote (buf.length - pos) (pos + 1) []

/-- go: the `literal` closure of scanner.scan -/
def literal (buf : Str) (pos : Nat) (k : TokKind) (litLen : Nat) : Outcome (Token × Nat) := do
  let t ← slice buf pos (pos + litLen) "scan.literal"
  .ok (⟨k, pos, t⟩, pos + litLen)

/-- go: scanner.single -/
def single (pos : Nat) (k : TokKind) : Outcome (Token × Nat) := .ok (⟨k, pos, []⟩, pos + 1)

/-- go: scanner.scan — returns the token and the scanner position after it. -/
def scan (buf : Str) (pos : Nat) : Outcome (Token × Nat) :=
  if pos ≥ buf.length then .ok (⟨.eof, pos, []⟩, pos)
  else do
    let rest ← sliceFrom buf pos "scan.rest"
    match matchOctal rest with
    | some n => literal buf pos .intlit n
    | none =>
    match matchHex rest with
    | some n => literal buf pos .intlit n
    | none =>
    match matchDecimal rest with
    | some n => literal buf pos .intlit n
    | none =>
    match matchIdent rest with
    | some n => literal buf pos .ident n
    | none => do
      let c ← idx rest 0 "scan.rest0"
      if c = 40 then single pos .oparen
      else if c = 41 then single pos .cparen
      else if c = 91 then single pos .obrack
      else if c = 93 then single pos .cbrack
      else if c = 46 then single pos .dot
      else if c = 39 ∨ c = 34 then scanString buf pos
      else .ok (⟨.illegal, pos, []⟩, pos + (decodeRune rest).2)   -- s.bad

/-- The token stream the scanner produces (used by the correspondence through the hook):
    (token, position after the token), ending with the first eof or illegal-free exhaustion. -/
def scanAll (buf : Str) : Nat → Nat → List (Token × Nat) → Outcome (List (Token × Nat))
  | 0, _, acc => .ok acc
  | fuel + 1, pos, acc => do
    let r ← scan buf pos
    if r.1.kind = .eof then .ok (acc ++ [r]) else scanAll buf fuel r.2 (acc ++ [r])

end GceTcb.Path
