import GceTcb.Base.Line
import GceTcb.Base.Outcome
/-
Model of the endorsement-verification entry points (C01; the SNP closure is also the object of C09):

  verify/verify.go                       CheckCertificate, SNP, EndorsementProto, Endorsement,
                                         SNPFamilyValidateFunc (the returned closure)
  gcetcbendorsement/sevvalidate.go       extractSevFromAttestation, extractEndorsement, SevValidate
  gcetcbendorsement/tdxvalidate.go       TdxValidate            (with the fix "verify before policy")
  gcetcbendorsement/cmd/{verify,sev,tdx}.go  rootOfTrust, `verify`, `sev validate`, `tdx validate`
  go-sev-guest v0.13.0 validate.go       certTableOptions (modelled concretely from its source)

Core-only.  X.509, RSA-PSS, protobuf and the third-party report/quote validators are fields of `Prims`;
nothing is assumed about them.  The signed payload is ONE opaque byte string: the same value is given to
`unmarshalGolden` and to `checkSigPss256`, so "signature over exactly the bytes carried" is expressible.
-/
namespace GceTcb.Verify
open GceTcb

/-- Entry-point result: `ok ()` = accepted (nil error / exit status 0), `err cls` = an error was returned,
    `panic site` = a Go run-time panic. -/
abbrev Res := Outcome Unit
abbrev accept : Res := Outcome.ok ()
abbrev reject (cls : String) : Res := Outcome.err cls

/-- google.protobuf.Timestamp -/
structure Timestamp where
  secs : Int
  nanos : Int
deriving Repr, DecidableEq

/-- endorsement.VMSevSnp: the fields the verifier reads. `measurements = []` is Go's nil map. -/
structure SevSnp where
  svsmMeasurement : Bytes
  measurements : List (Nat × Bytes)
deriving Repr, DecidableEq

/-- endorsement.VMTdx: (ram_gib, mrtd) rows. -/
structure Tdx where
  measurements : List (Nat × Bytes)
deriving Repr, DecidableEq

/-- endorsement.VMGoldenMeasurement. `other` stands for every field the verifier never reads
    (ca_bundle, release names, ...). -/
structure Golden where
  timestamp : Option Timestamp
  clSpec : Nat
  commit : Bytes
  cert : Bytes
  digest : Bytes
  sevSnp : Option SevSnp
  tdx : Option Tdx
  other : Bytes
deriving Repr, DecidableEq

def Golden.empty : Golden := ⟨none, 0, [], [], [], none, none, []⟩

/-- endorsement.VMLaunchEndorsement: the serialized golden measurement (opaque bytes) and its signature. -/
structure Endorsement where
  payload : Bytes
  signature : Bytes
deriving Repr, DecidableEq

/-- verify.HTTPSGetter: `none` result = the GET failed. -/
abbrev Getter := String → Option Bytes

/-- Abstract primitives.  `Cert` = a parsed certificate, `Roots` = an x509.CertPool, `Time` = time.Time,
    `Policy`/`VOpts` = go-sev-guest / go-tdx-guest policy and validation options. -/
structure Prims (Cert Roots Time : Type) where
  /-- proto.Unmarshal into VMLaunchEndorsement -/
  unmarshalEndorsement : Bytes → Option Endorsement
  /-- proto.Unmarshal into VMGoldenMeasurement -/
  unmarshalGolden : Bytes → Option Golden
  /-- what timeproto.From returns for a nil timestamp; `none` = it panics (nil dereference) -/
  timeFromNil : Option Timestamp
  /-- x509.ParseCertificate -/
  parseCert : Bytes → Option Cert
  /-- Certificate.Verify(VerifyOptions{Roots, CurrentTime}) succeeded -/
  verifyChain : Cert → Roots → Time → Bool
  /-- Certificate.CheckSignature(SHA256WithRSAPSS, msg, sig) succeeded -/
  checkSigPss256 : Cert → Bytes → Bytes → Bool
  /-- verify.GCETcbURL(extractsev.GCETcbObjectName(familyID, measurement)) -/
  objectURL : String → Bytes → String
  /-- cmd.rootOfTrust's pool construction: AppendCertsFromPEM, else ParseCertificate + AddCert -/
  loadRootPool : Bytes → Option Roots
  /-- gcetcbendorsement.SevPolicy then validate.PolicyToOptions (launchVmsas, overwrite, base-policy tag);
      the result names the go-sev-guest validation options, `none` = either step failed -/
  sevPolicyOptions : Endorsement → Nat → Bool → Nat → Option Nat
  /-- go-sev-guest validate.SnpAttestation up to (not including) certTableOptions:
      attestation tag, validation-options tag -/
  snpBaseChecks : Nat → Nat → Bool
  /-- gcetcbendorsement.TdxPolicy then validate.PolicyToOptions (ramGiB, overwrite, base-policy tag) -/
  tdxPolicyOptions : Endorsement → Nat → Bool → Nat → Option Nat
  /-- go-tdx-guest validate.TdxQuote: quote tag, validation-options tag -/
  tdxQuoteChecks : Nat → Nat → Bool
  /-- extract.Endorsement(DefaultOptions with Quote) for a TDX quote: event log, then network -/
  tdxExtractEndorsement : Bytes → Option Bytes

/-- verify.SNPOptions; `measurement = none` is Go's nil slice. -/
structure SNPOptions where
  measurement : Option Bytes
  expectedLaunchVMSAs : Nat
deriving Repr, DecidableEq

/-- verify.Options -/
structure Options (Roots Time : Type) where
  snp : Option SNPOptions
  roots : Option Roots
  expectedUefiSha384 : Bytes
  now : Time
  endorsement : Option Endorsement
  getter : Option Getter

section
variable {Cert Roots Time : Type}

/-- go: verify.uefiReleaseChangeDate = 2024-08-02T00:00:00Z, as Unix seconds. -/
def uefiReleaseChangeDate : Int := 1722556800

/-- go: timeproto.From(ts).After(uefiReleaseChangeDate) for a non-nil timestamp
    (time.Unix normalises nanos; comparing total nanoseconds is the same thing). -/
def Timestamp.afterChangeDate (t : Timestamp) : Bool :=
  decide (t.secs * 1000000000 + t.nanos > uefiReleaseChangeDate * 1000000000)

/-- go: verify.EndorsementProto, `checkProvenance := timeproto.From(golden.GetTimestamp()).After(...)` -/
def checkProvenance (P : Prims Cert Roots Time) (ts : Option Timestamp) : Outcome Bool :=
  match ts with
  | some t => .ok t.afterChangeDate
  | none =>
    match P.timeFromNil with
    | some t => .ok t.afterChangeDate
    | none => .panic "timeproto.From:nil"

/-- go: verify.CheckCertificate -/
def checkCertificate (P : Prims Cert Roots Time) (certder : Bytes) (roots : Option Roots) (now : Time) :
    Except String Cert :=
  if certder.isEmpty then .error "no-cert"
  else
    match roots with
    | none => .error "no-roots"
    | some r =>
      match P.parseCert certder with
      | none => .error "cert-parse"
      | some c => if P.verifyChain c r now then .ok c else .error "chain"

def lookupNat (m : List (Nat × Bytes)) (k : Nat) : Option Bytes :=
  (m.find? (fun p => p.1 == k)).map (·.2)

/-- go: verify.SNP.  `none` = nil error.  `bytes.Equal` does not distinguish nil from empty. -/
def snp (g : Golden) (o : SNPOptions) : Option String :=
  match g.sevSnp with
  | none => some "no-sevsnp"
  | some s =>
    if o.expectedLaunchVMSAs != 0 then
      if s.measurements.isEmpty then some "no-measurements"
      else
        -- a one-VMSA launch matches either the SVSM measurement or the measurement listed for one VMSA
        if o.expectedLaunchVMSAs == 1 && !s.svsmMeasurement.isEmpty && s.svsmMeasurement == o.measurement.getD [] then none
        else
          match lookupNat s.measurements o.expectedLaunchVMSAs with
          | none => some "no-vmsa-measurement"
          | some m => if m == o.measurement.getD [] then none else some "measurement-mismatch"
    else
      match o.measurement with
      | none => none
      | some m =>
        if m == s.svsmMeasurement || s.measurements.any (fun p => p.2 == m) then none
        else some "measurement-not-listed"

/-- go: verify.EndorsementProto, the part after the signature check. -/
def afterSignature (g : Golden) (o : Options Roots Time) : Res :=
  if !o.expectedUefiSha384.isEmpty && o.expectedUefiSha384 != g.digest then reject "digest"
  else
    match o.snp with
    | none => accept
    | some so =>
      match snp g so with
      | some c => reject ("snp:" ++ c)
      | none => accept

/-- go: verify.EndorsementProto, the checks between unmarshalling and the signature check: provenance
    (timestamp, cl_spec, commit), then CheckCertificate (cert).  These four fields are the only parts of
    the golden measurement read before the signature is checked. -/
def beforeSignature (P : Prims Cert Roots Time) (timestamp : Option Timestamp) (clSpec : Nat)
    (commit cert : Bytes) (o : Options Roots Time) : Outcome Cert :=
  match checkProvenance P timestamp with
  | .panic s => .panic s
  | .err c => .err c
  | .ok due =>
    if due && clSpec == 0 && commit.isEmpty then .err "provenance"
    else
      match checkCertificate P cert o.roots o.now with
      | .error c => .err c
      | .ok c => .ok c

/-- go: verify.EndorsementProto up to and including the signature check: the golden measurement, once
    its certificate chains to the caller's roots at the caller's time and the signature over the payload
    bytes verifies.  Reads only `o.roots` and `o.now`. -/
def verifySigned (P : Prims Cert Roots Time) (e : Endorsement) (o : Options Roots Time) : Outcome Golden :=
  match P.unmarshalGolden e.payload with
  | none => .err "golden-unmarshal"
  | some g =>
    match beforeSignature P g.timestamp g.clSpec g.commit g.cert o with
    | .panic s => .panic s
    | .err c => .err c
    | .ok cert =>
      if !P.checkSigPss256 cert e.payload e.signature then .err "signature"
      else .ok g

/-- go: verify.EndorsementProto -/
def endorsementProto (P : Prims Cert Roots Time) (e : Endorsement) (o : Options Roots Time) : Res :=
  match verifySigned P e o with
  | .panic s => .panic s
  | .err c => .err c
  | .ok g => afterSignature g o

/-- go: verify.Endorsement -/
def endorsement (P : Prims Cert Roots Time) (serialized : Bytes) (o : Options Roots Time) : Res :=
  match P.unmarshalEndorsement serialized with
  | none => reject "endorsement-unmarshal"
  | some e => endorsementProto P e o

/-- spb.Attestation as the validators see it: `tag` names everything only third-party code reads,
    `measurement` = GetReport().GetMeasurement(), `extras` = GetCertificateChain().GetExtras(). -/
structure Attestation where
  tag : Nat
  measurement : Bytes
  extras : List (String × Bytes)
deriving Repr, DecidableEq

def lookupStr (m : List (String × Bytes)) (k : String) : Option Bytes :=
  (m.find? (fun p => p.1 == k)).map (·.2)

/-- go: abi.MeasurementSize -/
def measurementSize : Nat := 48

/-- go: sev.GCEUefiFamilyID / sev.GCEFwCertGUID / gcetcbendorsement.testonlyForceGCSGUID -/
def gceUefiFamilyID : String := "f73a6949-e8f3-473b-9553-e40e056fa3a2"
def gceFwCertGUID : String := "9f4116cd-c503-4f5a-8f6f-fb68882f4ce2"
def testonlyForceGCSGUID : String := "cd76f232-42fc-4140-87c2-fb5353a2bb32"

/-- The endorsement source the closure ends up with (`Except.error` = it returned before choosing).
    go: verify.SNPFamilyValidateFunc, the first half of the returned function. -/
def closureSerialized (P : Prims Cert Roots Time) (familyID : String) (o : Options Roots Time)
    (measurement : Bytes) (serialized : Option Bytes) : Except String (Option Bytes) :=
  if serialized.isNone && o.endorsement.isNone then
    match o.getter with
    | none => .error "no-getter"
    | some get =>
      match get (P.objectURL familyID measurement) with
      | none => .error "fetch"
      | some blob => .ok (some blob)
  else .ok serialized

/-- The options the closure verifies with: a PER-CALL copy whose SNP.Measurement is the report's
    measurement (fix for C09: the caller's Options value is not written). -/
def closureCallOpts (o : Options Roots Time) (measurement : Bytes) : Options Roots Time :=
  { o with snp := some { (o.snp.getD ⟨none, 0⟩) with measurement := some measurement } }

/-- go: the function returned by verify.SNPFamilyValidateFunc(familyID, opts). -/
def snpClosure (P : Prims Cert Roots Time) (familyID : String) (o : Options Roots Time)
    (att : Option Attestation) (serialized : Option Bytes) : Res :=
  match att with
  | none => reject "nil-attestation"
  | some a =>
    if a.measurement.length != measurementSize then reject "measurement-size"
    else
      match closureSerialized P familyID o a.measurement serialized with
      | .error c => reject c
      | .ok ser =>
        let co := closureCallOpts o a.measurement
        match co.endorsement with
        | some e => endorsementProto P e co
        | none => endorsement P (ser.getD []) co

inductive CertEntryKind | allowMissing | require
deriving Repr, DecidableEq

/-- go-sev-guest validate.CertEntryOption (Validate is never nil in this repository's use). -/
structure CertEntryOption where
  kind : CertEntryKind
  validate : Option Attestation → Option Bytes → Res

/-- go: go-sev-guest validate.certTableOptions — every registered validator is called with
    `extras[guid]`; the error (or panic) of a `Require` entry propagates, others are logged. -/
def certTableOptions (att : Option Attestation) : List (String × CertEntryOption) → Res
  | [] => accept
  | (guid, opt) :: rest =>
    match opt.validate att (lookupStr ((att.map (·.extras)).getD []) guid) with
    | .ok _ => certTableOptions att rest
    | .panic s => .panic s
    | .err c =>
      match opt.kind with
      | .require => .err c
      | .allowMissing => certTableOptions att rest

/-- gcetcbendorsement.SevValidateOptions (BasePolicy is an opaque tag). -/
structure SevValidateOptions (Roots Time : Type) where
  endorsement : Option Endorsement
  basePolicy : Nat
  overwrite : Bool
  roots : Option Roots
  now : Time
  getter : Option Getter
  expectedLaunchVmsas : Nat
  testonlyForceGCS : Bool

/-- go: gcetcbendorsement.extractSevFromAttestation — `none` when the table is empty or the entry does
    not unmarshal (a missing entry unmarshals, from nil bytes, to the empty endorsement). -/
def extractSevFromAttestation (P : Prims Cert Roots Time) (att : Option Attestation) : Option Endorsement :=
  let extras := (att.map (·.extras)).getD []
  if extras.isEmpty then none
  else P.unmarshalEndorsement ((lookupStr extras gceFwCertGUID).getD [])

/-- go: gcetcbendorsement.extractEndorsement -/
def extractEndorsement (P : Prims Cert Roots Time) (att : Option Attestation)
    (o : SevValidateOptions Roots Time) : Except String Endorsement :=
  match extractSevFromAttestation P att with
  | some e => .ok e
  | none =>
    match o.getter with
    | none => .error "no-endorsement"
    | some get =>
      match get (P.objectURL gceUefiFamilyID ((att.map (·.measurement)).getD [])) with
      | none => .error "fetch"
      | some bin =>
        match P.unmarshalEndorsement bin with
        | none => .error "endorsement-unmarshal"
        | some e => .ok e

/-- The endorsement SevValidate works with. -/
def sevEndorsement (P : Prims Cert Roots Time) (att : Option Attestation)
    (o : SevValidateOptions Roots Time) : Except String Endorsement :=
  match o.endorsement with
  | some e => .ok e
  | none => extractEndorsement P att o

/-- The verify.Options SevValidate hands to verify.SNPValidateFunc. -/
def sevClosureOpts (o : SevValidateOptions Roots Time) (e : Endorsement) : Options Roots Time :=
  { snp := some ⟨none, o.expectedLaunchVmsas⟩, roots := o.roots, expectedUefiSha384 := [],
    now := o.now, endorsement := some e, getter := o.getter }

/-- go: gcetcbendorsement.SevValidate -/
def sevValidate (P : Prims Cert Roots Time) (att : Option Attestation)
    (o : SevValidateOptions Roots Time) : Res :=
  match sevEndorsement P att o with
  | .error c => reject c
  | .ok e =>
    match P.sevPolicyOptions e o.expectedLaunchVmsas o.overwrite o.basePolicy with
    | none => reject "policy"
    | some vopts =>
      if !P.snpBaseChecks ((att.map (·.tag)).getD 0) vopts then reject "report"
      else
        certTableOptions att
          [(if o.testonlyForceGCS then testonlyForceGCSGUID else gceFwCertGUID,
            ⟨.require, snpClosure P gceUefiFamilyID (sevClosureOpts o e)⟩)]

/-- go-tpm-tools attest.Attestation.TeeAttestation after extract.Attestation. -/
inductive TeeAttestation
  | sevSnp (a : Attestation)
  | tdx (quoteTag : Nat)
  | other
deriving Repr, DecidableEq

/-- gcetcbendorsement.TdxValidateOptions -/
structure TdxValidateOptions (Roots Time : Type) where
  endorsement : Option Endorsement
  basePolicy : Nat
  overwrite : Bool
  roots : Option Roots
  now : Time
  expectedRAMGiB : Nat

/-- The endorsement TdxValidate works with. -/
def tdxEndorsement (P : Prims Cert Roots Time) (attestation : Bytes)
    (o : TdxValidateOptions Roots Time) : Except String Endorsement :=
  match o.endorsement with
  | some e => .ok e
  | none =>
    match P.tdxExtractEndorsement attestation with
    | none => .error "no-endorsement"
    | some bytes =>
      match P.unmarshalEndorsement bytes with
      | none => .error "endorsement-unmarshal"
      | some e => .ok e

/-- The verify.Options TdxValidate verifies the endorsement with (the fix). -/
def tdxVerifyOpts (o : TdxValidateOptions Roots Time) : Options Roots Time :=
  { snp := none, roots := o.roots, expectedUefiSha384 := [], now := o.now, endorsement := none,
    getter := none }

/-- go: gcetcbendorsement.TdxValidate; `parse` = extract.Attestation. -/
def tdxValidate (P : Prims Cert Roots Time) (parse : Bytes → Option TeeAttestation) (attestation : Bytes)
    (o : TdxValidateOptions Roots Time) : Res :=
  match parse attestation with
  | none => reject "attestation-parse"
  | some (.tdx q) =>
    match tdxEndorsement P attestation o with
    | .error c => reject c
    | .ok e =>
      match endorsementProto P e (tdxVerifyOpts o) with
      | .panic s => .panic s
      | .err c => .err c
      | .ok _ =>
        match P.tdxPolicyOptions e o.expectedRAMGiB o.overwrite o.basePolicy with
        | none => reject "policy"
        | some vopts => if !P.tdxQuoteChecks q vopts then reject "quote" else accept
  | some _ => reject "unsupported-attestation"

/-- gcetcbendorsement.TdxValidate as it was BEFORE the fix (policy derived straight from the unverified
    endorsement; `roots` and `now` unused).  Not part of the modelled tree: kept only so that the witness
    `C01_tdx_unverified_witness` can show what the fix repairs. -/
def tdxValidateUnverified (P : Prims Cert Roots Time) (parse : Bytes → Option TeeAttestation)
    (attestation : Bytes) (o : TdxValidateOptions Roots Time) : Res :=
  match parse attestation with
  | none => reject "attestation-parse"
  | some (.tdx q) =>
    match tdxEndorsement P attestation o with
    | .error c => reject c
    | .ok e =>
      match P.tdxPolicyOptions e o.expectedRAMGiB o.overwrite o.basePolicy with
      | none => reject "policy"
      | some vopts => if !P.tdxQuoteChecks q vopts then reject "quote" else accept
  | some _ => reject "unsupported-attestation"

/-- gcetcbendorsement/cmd.Backend: file reads, the HTTPS getter, the clock. -/
structure Backend (Time : Type) where
  readFile : String → Option Bytes
  getter : Option Getter
  now : Time

/-- go: gcetcbendorsement.DefaultRootURL -/
def defaultRootURL : String := "https://pki.goog/cloud_integrity/GCE-cc-tcb-root_1.crt"

/-- go: cmd.rootOfTrust -/
def rootOfTrust (P : Prims Cert Roots Time) (b : Backend Time) (root : String) : Except String Roots :=
  let data : Except String Bytes :=
    if root != "" then
      match b.readFile root with
      | some d => .ok d
      | none => .error "root-read"
    else
      match b.getter with
      | none => .error "no-getter"
      | some get =>
        match get defaultRootURL with
        | some d => .ok d
        | none => .error "root-fetch"
  match data with
  | .error c => .error c
  | .ok d =>
    match P.loadRootPool d with
    | none => .error "root-parse"
    | some r => .ok r

/-- go: cmd.ReadProto into a VMLaunchEndorsement -/
def readEndorsement (P : Prims Cert Roots Time) (b : Backend Time) (path : String) : Except String Endorsement :=
  match b.readFile path with
  | none => .error "read"
  | some content =>
    match P.unmarshalEndorsement content with
    | none => .error "endorsement-unmarshal"
    | some e => .ok e

/-- `gcetcbendorsement verify PATH [--root_cert ROOT]` (without --show, which verifies nothing and only
    prints the equivalent openssl commands).  go: verifyCommand.persistentPreRunE + runE. -/
def cliVerify (P : Prims Cert Roots Time) (b : Backend Time) (path root : String) : Res :=
  match readEndorsement P b path with
  | .error c => reject c
  | .ok e =>
    match rootOfTrust P b root with
    | .error c => reject c
    | .ok rot =>
      endorsementProto P e
        { snp := none, roots := some rot, expectedUefiSha384 := [], now := b.now, endorsement := none,
          getter := b.getter }

/-- Flags of `sev validate` / `tdx validate` (paths; "" = flag absent). -/
structure CliValidateArgs where
  attestationPath : String
  endorsementPath : String
  root : String
  basePolicy : Nat        -- tag of the --base policy (0 = none); reading it is not modelled
  overwrite : Bool
  testonlyForceGCS : Bool
deriving Repr

/-- The optional --endorsement file. -/
def cliEndorsement (P : Prims Cert Roots Time) (b : Backend Time) (path : String) :
    Except String (Option Endorsement) :=
  if path != "" then
    match readEndorsement P b path with
    | .error c => .error c
    | .ok e => .ok (some e)
  else .ok none

/-- `gcetcbendorsement sev validate PATH [--endorsement E] [--root_cert ROOT]`.
    go: sevValidateCommand.persistentPreRunE + runE.  (`--launch_vmsas` is not forwarded by the code.) -/
def cliSevValidate (P : Prims Cert Roots Time) (parse : Bytes → Option TeeAttestation) (b : Backend Time)
    (a : CliValidateArgs) : Res :=
  match b.readFile a.attestationPath with
  | none => reject "attestation-read"
  | some content =>
    match cliEndorsement P b a.endorsementPath with
    | .error c => reject c
    | .ok oe =>
      match rootOfTrust P b a.root with
      | .error c => reject c
      | .ok rot =>
        match parse content with
        | none => reject "attestation-parse"
        | some (.sevSnp sa) =>
          sevValidate P (some sa)
            { endorsement := oe, basePolicy := a.basePolicy, overwrite := a.overwrite, roots := some rot,
              now := b.now, getter := b.getter, expectedLaunchVmsas := 0,
              testonlyForceGCS := a.testonlyForceGCS }
        | some _ => reject "unsupported-attestation"

/-- `gcetcbendorsement tdx validate PATH [--endorsement E] [--root_cert ROOT]`.
    go: tdxValidateCommand.persistentPreRunE + runE.  (`--ram_gib` is not forwarded by the code.) -/
def cliTdxValidate (P : Prims Cert Roots Time) (parse : Bytes → Option TeeAttestation) (b : Backend Time)
    (a : CliValidateArgs) : Res :=
  match b.readFile a.attestationPath with
  | none => reject "attestation-read"
  | some content =>
    match cliEndorsement P b a.endorsementPath with
    | .error c => reject c
    | .ok oe =>
      match rootOfTrust P b a.root with
      | .error c => reject c
      | .ok rot =>
        tdxValidate P parse content
          { endorsement := oe, basePolicy := a.basePolicy, overwrite := a.overwrite, roots := some rot,
            now := b.now, expectedRAMGiB := 0 }

/-- go: sign/ops.VerifySignatureFromCA (signer-side self check): VerifyChain of the key's certificate
    against the CA's own pool at `now` (the code-signing key usage is part of `verifyChain` here), then
    VerifySignature (PSS/SHA-256, salt = hash length) by that certificate.  `cert`/`pool` are what the
    CA returns for the key (`none` = the lookup failed). -/
def opsVerifySignatureFromCA (P : Prims Cert Roots Time) (cert : Option Cert) (pool : Option Roots)
    (now : Time) (message signature : Bytes) : Res :=
  match cert with
  | none => reject "certificate"
  | some c =>
    match pool with
    | none => reject "pool"
    | some r =>
      if !P.verifyChain c r now then reject "chain"
      else if !P.checkSigPss256 c message signature then reject "signature"
      else accept

/-! ### Entry points, uniformly -/

/-- Every way this repository accepts a launch endorsement. -/
inductive EntryPoint
  | endorsement        -- verify.Endorsement
  | endorsementProto   -- verify.EndorsementProto
  | snpClosure         -- the function returned by verify.SNP(Family)ValidateFunc, opts.Endorsement unset
  | snpClosurePre      -- the same with a pre-supplied opts.Endorsement
  | sevValidate        -- gcetcbendorsement.SevValidate
  | tdxValidate        -- gcetcbendorsement.TdxValidate
  | cliVerify          -- gcetcbendorsement verify
  | cliSevValidate     -- gcetcbendorsement sev validate
  | cliTdxValidate     -- gcetcbendorsement tdx validate
deriving Repr, DecidableEq

/-- Inputs of the SNP closure: constructor arguments and call arguments. -/
structure ClosureInput (Roots Time : Type) where
  familyID : String
  opts : Options Roots Time
  att : Option Attestation
  serialized : Option Bytes

/-- The input space of each entry point (all arguments and options it takes). -/
def Input (Roots Time : Type) : EntryPoint → Type
  | .endorsement => Bytes × Options Roots Time
  | .endorsementProto => Endorsement × Options Roots Time
  | .snpClosure => ClosureInput Roots Time
  | .snpClosurePre => ClosureInput Roots Time × Endorsement
  | .sevValidate => Option Attestation × SevValidateOptions Roots Time
  | .tdxValidate => (Bytes → Option TeeAttestation) × Bytes × TdxValidateOptions Roots Time
  | .cliVerify => Backend Time × String × String
  | .cliSevValidate => (Bytes → Option TeeAttestation) × Backend Time × CliValidateArgs
  | .cliTdxValidate => (Bytes → Option TeeAttestation) × Backend Time × CliValidateArgs

/-- Run an entry point. -/
def run (P : Prims Cert Roots Time) : (ep : EntryPoint) → Input Roots Time ep → Res
  | .endorsement, (ser, o) => endorsement P ser o
  | .endorsementProto, (e, o) => endorsementProto P e o
  | .snpClosure, i => snpClosure P i.familyID { i.opts with endorsement := none } i.att i.serialized
  | .snpClosurePre, (i, e) => snpClosure P i.familyID { i.opts with endorsement := some e } i.att i.serialized
  | .sevValidate, (att, o) => sevValidate P att o
  | .tdxValidate, (parse, bytes, o) => tdxValidate P parse bytes o
  | .cliVerify, (b, path, root) => cliVerify P b path root
  | .cliSevValidate, (parse, b, a) => cliSevValidate P parse b a
  | .cliTdxValidate, (parse, b, a) => cliTdxValidate P parse b a

def exceptToOption {ε α : Type} : Except ε α → Option α
  | .ok a => some a
  | .error _ => none

/-- The endorsement an entry point decides about (defined from the inputs alone, not from the result). -/
def endorsementUsed (P : Prims Cert Roots Time) : (ep : EntryPoint) → Input Roots Time ep → Option Endorsement
  | .endorsement, (ser, _) => P.unmarshalEndorsement ser
  | .endorsementProto, (e, _) => some e
  | .snpClosure, i =>
    match i.att with
    | none => none
    | some a =>
      match closureSerialized P i.familyID { i.opts with endorsement := none } a.measurement i.serialized with
      | .ok ser => P.unmarshalEndorsement (ser.getD [])
      | .error _ => none
  | .snpClosurePre, (_, e) => some e
  | .sevValidate, (att, o) => exceptToOption (sevEndorsement P att o)
  | .tdxValidate, (_, bytes, o) => exceptToOption (tdxEndorsement P bytes o)
  | .cliVerify, (b, path, _) => exceptToOption (readEndorsement P b path)
  | .cliSevValidate, (parse, b, a) =>
    match b.readFile a.attestationPath, cliEndorsement P b a.endorsementPath, rootOfTrust P b a.root with
    | some content, .ok oe, .ok rot =>
      match parse content with
      | some (.sevSnp sa) =>
        exceptToOption (sevEndorsement P (some sa)
          { endorsement := oe, basePolicy := a.basePolicy, overwrite := a.overwrite, roots := some rot,
            now := b.now, getter := b.getter, expectedLaunchVmsas := 0,
            testonlyForceGCS := a.testonlyForceGCS })
      | _ => none
    | _, _, _ => none
  | .cliTdxValidate, (_, b, a) =>
    match b.readFile a.attestationPath, cliEndorsement P b a.endorsementPath with
    | some content, .ok oe =>
      exceptToOption (tdxEndorsement P content
        { endorsement := oe, basePolicy := a.basePolicy, overwrite := a.overwrite, roots := none,
          now := b.now, expectedRAMGiB := 0 })
    | _, _ => none

/-- The caller's trust roots: the pool passed in, or (CLI) the pool loaded from the caller's root file. -/
def callerRoots (P : Prims Cert Roots Time) : (ep : EntryPoint) → Input Roots Time ep → Option Roots
  | .endorsement, (_, o) => o.roots
  | .endorsementProto, (_, o) => o.roots
  | .snpClosure, i => i.opts.roots
  | .snpClosurePre, (i, _) => i.opts.roots
  | .sevValidate, (_, o) => o.roots
  | .tdxValidate, (_, _, o) => o.roots
  | .cliVerify, (b, _, root) => exceptToOption (rootOfTrust P b root)
  | .cliSevValidate, (_, b, a) => exceptToOption (rootOfTrust P b a.root)
  | .cliTdxValidate, (_, b, a) => exceptToOption (rootOfTrust P b a.root)

/-- The caller's verification time. -/
def callerNow : (ep : EntryPoint) → Input Roots Time ep → Time
  | .endorsement, (_, o) => o.now
  | .endorsementProto, (_, o) => o.now
  | .snpClosure, i => i.opts.now
  | .snpClosurePre, (i, _) => i.opts.now
  | .sevValidate, (_, o) => o.now
  | .tdxValidate, (_, _, o) => o.now
  | .cliVerify, (b, _, _) => b.now
  | .cliSevValidate, (_, b, _) => b.now
  | .cliTdxValidate, (_, b, _) => b.now

end
end GceTcb.Verify
