/-
C05 / C08 — executable model of ovmf/memory.go and of ovmf.unacceptedMemRanges (ovmf/tdx_data.go).
Core-only.

`GuestPhysicalRegion{Start EFIPhysicalAddress; Length uint64}` is `Gpr` with `Nat` fields; every read
of a field goes through `% 2^64` (`Gpr.norm`), every arithmetic result is reduced `% 2^64`, so the
functions below are the Go functions on uint64 for ALL `Nat` inputs (wrap-around included) and are
the identity reading on in-range values (`Gpr.norm_of_inRange`).

`inner` is the literal `for privIndex < len(privateResources)` loop of unacceptedMemRanges: the
state is (the private ranges from `privIndex` on, the current — possibly already shrunk —
`ramResource`); after a shrink the SAME private range is examined again, exactly as in Go.  Lean's
termination checker accepts it with the lexicographic measure (|priv| − privIndex, ramResource.Length)
on the wrap-faithful arithmetic (`decreasing_by` below): that proof is `C08_unaccepted_terminates`.
-/
namespace GceTcb.Intervals

/-- go: ovmf.GuestPhysicalRegion -/
structure Gpr where
  start : Nat
  len : Nat
deriving DecidableEq, Repr, Inhabited

namespace Gpr

def InRange (g : Gpr) : Prop := g.start < 2 ^ 64 ∧ g.len < 2 ^ 64

instance (g : Gpr) : Decidable g.InRange := by unfold InRange; exact inferInstance

/-- the uint64 reading of the two fields -/
def norm (g : Gpr) : Gpr := ⟨g.start % 2 ^ 64, g.len % 2 ^ 64⟩

theorem norm_of_inRange {g : Gpr} (h : g.InRange) : g.norm = g := by
  cases g; simp only [norm, InRange] at *; congr 1 <;> omega

/-- go: GuestPhysicalRegion.end — `uint64(gpr.Start) + gpr.Length`, wraps -/
def end_ (g : Gpr) : Nat := (g.start % 2 ^ 64 + g.len % 2 ^ 64) % 2 ^ 64

end Gpr

/-- go: ovmf.gprRange — `Length: uint64(to) - uint64(from)` -/
def gprRange (from_ to : Nat) : Gpr :=
  ⟨from_ % 2 ^ 64, (to % 2 ^ 64 + 2 ^ 64 - from_ % 2 ^ 64) % 2 ^ 64⟩

/-- go: GuestPhysicalRegion.intersect -/
def intersect (a b : Gpr) : Gpr :=
  if a.start % 2 ^ 64 ≥ b.end_ ∨ b.start % 2 ^ 64 ≥ a.end_ then ⟨0, 0⟩
  else
    if (min a.end_ b.end_ + 2 ^ 64 - max (a.start % 2 ^ 64) (b.start % 2 ^ 64)) % 2 ^ 64 = 0 then ⟨0, 0⟩
    else ⟨max (a.start % 2 ^ 64) (b.start % 2 ^ 64),
          (min a.end_ b.end_ + 2 ^ 64 - max (a.start % 2 ^ 64) (b.start % 2 ^ 64)) % 2 ^ 64⟩

/-- Result of the inner loop for one RAM bank. -/
structure InnerRes where
  /-- `privateResources[privIndex:]` when the loop is left -/
  rest : List Gpr
  /-- `ramResource` when the loop is left (what remains of the bank) -/
  ram : Gpr
  /-- ranges appended to `unacceptedResources` inside the loop, in order -/
  out : List Gpr
  /-- number of loop-condition evaluations that entered the body -/
  ticks : Nat
deriving Repr

/-- the part of `ramResource` before the intersection, when the code appends it -/
def prePiece (r i : Gpr) : List Gpr :=
  if i.start % 2 ^ 64 > r.start % 2 ^ 64 then
    (if (gprRange r.start i.start).len ≠ 0 then [gprRange r.start i.start] else [])
  else []

/-- `ramResource` after "Shrink the current bank to start after the intersection" -/
def shrink (r i : Gpr) : Gpr := ⟨i.end_, (r.end_ + 2 ^ 64 - i.end_) % 2 ^ 64⟩

/-! ### uint64 arithmetic facts behind the termination of the inner loop -/

theorem isect_len_ne_zero (rs rl ps pl : Nat) (_ : rs < 2^64) (_ : rl < 2^64) (_ : ps < 2^64) (_ : pl < 2^64)
    (_ : rl ≠ 0) (_ : pl ≠ 0)
    (_ : ¬ (ps + pl) % 2^64 ≤ rs) (_ : ¬ ps ≥ (rs + rl) % 2^64) :
    (min ((rs + rl) % 2^64) ((ps + pl) % 2^64) + 2^64 - max rs ps) % 2^64 ≠ 0 := by
  omega

theorem isect_end_eq (rs rl ps pl : Nat) (_ : rs < 2^64) (_ : rl < 2^64) (_ : ps < 2^64) (_ : pl < 2^64)
    (_ : rl ≠ 0) (_ : pl ≠ 0)
    (_ : ¬ (ps + pl) % 2^64 ≤ rs) (_ : ¬ ps ≥ (rs + rl) % 2^64) :
    (max rs ps % 2^64 + (min ((rs + rl) % 2^64) ((ps + pl) % 2^64) + 2^64 - max rs ps) % 2^64 % 2^64) % 2^64
      = min ((rs + rl) % 2^64) ((ps + pl) % 2^64) := by
  omega

theorem shrink_lt (rs rl ps pl : Nat) (_ : rs < 2^64) (_ : rl < 2^64) (_ : ps < 2^64) (_ : pl < 2^64)
    (_ : rl ≠ 0) (_ : pl ≠ 0)
    (_ : ¬ (ps + pl) % 2^64 ≤ rs) (_ : ¬ ps ≥ (rs + rl) % 2^64)
    (_ : ((rs + rl) % 2^64 + 2^64 - min ((rs + rl) % 2^64) ((ps + pl) % 2^64)) % 2^64 ≠ 0) :
    ((rs + rl) % 2^64 + 2^64 - min ((rs + rl) % 2^64) ((ps + pl) % 2^64)) % 2^64 < rl := by
  omega

/-- Inside the loop body (both ranges non-empty, neither of the two skip tests fired) the intersection
    is the non-degenerate one, also under wrap-around. -/
theorem intersect_in_body (r p : Gpr) (hr : r.len % 2 ^ 64 ≠ 0) (h0 : ¬ p.len % 2 ^ 64 = 0)
    (h1 : ¬ p.end_ ≤ r.start % 2 ^ 64) (h2 : ¬ p.start % 2 ^ 64 ≥ r.end_) :
    intersect r p = ⟨max (r.start % 2 ^ 64) (p.start % 2 ^ 64),
      (min r.end_ p.end_ + 2 ^ 64 - max (r.start % 2 ^ 64) (p.start % 2 ^ 64)) % 2 ^ 64⟩ := by
  have c1 : ¬ (r.start % 2 ^ 64 ≥ p.end_ ∨ p.start % 2 ^ 64 ≥ r.end_) := by omega
  have c2 : ¬ (min r.end_ p.end_ + 2 ^ 64 - max (r.start % 2 ^ 64) (p.start % 2 ^ 64)) % 2 ^ 64 = 0 := by
    unfold Gpr.end_ at h1 h2 ⊢
    exact isect_len_ne_zero _ _ _ _ (Nat.mod_lt _ (by decide)) (Nat.mod_lt _ (by decide))
      (Nat.mod_lt _ (by decide)) (Nat.mod_lt _ (by decide)) hr h0 h1 h2
  simp only [intersect, c1, c2, if_false]

theorem intersect_end_in_body (r p : Gpr) (hr : r.len % 2 ^ 64 ≠ 0) (h0 : ¬ p.len % 2 ^ 64 = 0)
    (h1 : ¬ p.end_ ≤ r.start % 2 ^ 64) (h2 : ¬ p.start % 2 ^ 64 ≥ r.end_) :
    (intersect r p).end_ = min r.end_ p.end_ := by
  rw [intersect_in_body r p hr h0 h1 h2]
  unfold Gpr.end_ at h1 h2 ⊢
  exact isect_end_eq _ _ _ _ (Nat.mod_lt _ (by decide)) (Nat.mod_lt _ (by decide))
      (Nat.mod_lt _ (by decide)) (Nat.mod_lt _ (by decide)) hr h0 h1 h2

/-- The shrunk bank is strictly shorter: the second component of the termination measure. -/
theorem shrink_len_lt (r p : Gpr) (hr : r.len % 2 ^ 64 ≠ 0) (h0 : ¬ p.len % 2 ^ 64 = 0)
    (h1 : ¬ p.end_ ≤ r.start % 2 ^ 64) (h2 : ¬ p.start % 2 ^ 64 ≥ r.end_)
    (h3 : ¬ (shrink r (intersect r p)).len = 0) :
    (shrink r (intersect r p)).len % 2 ^ 64 < r.len % 2 ^ 64 := by
  simp only [shrink, intersect_end_in_body r p hr h0 h1 h2] at h3 ⊢
  rw [Nat.mod_mod]
  unfold Gpr.end_ at h1 h2 h3 ⊢
  exact shrink_lt _ _ _ _ (Nat.mod_lt _ (by decide)) (Nat.mod_lt _ (by decide))
      (Nat.mod_lt _ (by decide)) (Nat.mod_lt _ (by decide)) hr h0 h1 h2 h3

theorem shrink_len_mod (r i : Gpr) (h : ¬ (shrink r i).len = 0) : (shrink r i).len % 2 ^ 64 ≠ 0 := by
  simp only [shrink] at h ⊢; rw [Nat.mod_mod]; exact h

/-- go: the inner `for privIndex < len(privateResources)` loop of unacceptedMemRanges.  `h` is the
    loop invariant `ramResource.Length != 0` (the loop is entered after the `continue` on empty banks
    and left by `break` as soon as a shrink exhausts the bank). -/
def inner (ps : List Gpr) (r : Gpr) (h : r.len % 2 ^ 64 ≠ 0) : InnerRes :=
  match ps with
  | [] => ⟨[], r.norm, [], 0⟩
  | p :: ps' =>
    if p.len % 2 ^ 64 = 0 then
      let x := inner ps' r h; { x with ticks := x.ticks + 1 }               -- privIndex++; continue
    else if p.end_ ≤ r.start % 2 ^ 64 then
      let x := inner ps' r h; { x with ticks := x.ticks + 1 }               -- privIndex++; continue
    else if p.start % 2 ^ 64 ≥ r.end_ then ⟨p :: ps', r.norm, [], 1⟩        -- break
    else
      if h3 : (shrink r (intersect r p)).len = 0 then
        ⟨p :: ps', shrink r (intersect r p), prePiece r (intersect r p), 1⟩ -- break (bank exhausted)
      else
        let x := inner (p :: ps') (shrink r (intersect r p)) (shrink_len_mod _ _ h3)  -- same private range again
        { x with out := prePiece r (intersect r p) ++ x.out, ticks := x.ticks + 1 }
termination_by (ps.length, r.len % 2 ^ 64)
decreasing_by
  · exact Prod.Lex.left _ _ (by simp)
  · exact Prod.Lex.left _ _ (by simp)
  · rename_i h0 h1 h2
    exact Prod.Lex.right _ (shrink_len_lt r p h h0 h1 h2 h3)

/-- Result of the whole loop over the RAM banks. -/
structure OuterRes where
  out : List Gpr
  ticks : Nat
deriving Repr

/-- go: the `for _, ramResource := range ramResources` loop (both lists already sorted). -/
def outer (ps : List Gpr) : List Gpr → OuterRes
  | [] => ⟨[], 0⟩
  | r :: rs =>
    if h : r.len % 2 ^ 64 = 0 then
      let y := outer ps rs; ⟨y.out, y.ticks + 1⟩
    else
      let x := inner ps r h
      let y := outer x.rest rs
      ⟨x.out ++ (if x.ram.len ≠ 0 then [x.ram] else []) ++ y.out, x.ticks + 1 + y.ticks⟩

/-- go: ovmf.gprCmp < 0 -/
def startLt (a b : Gpr) : Bool := a.start % 2 ^ 64 < b.start % 2 ^ 64

/-- Insertion of `a` (which preceded all of the list in the input) before the first element that does
    not compare smaller: equal keys keep their input order (stable). -/
def insertByStart (a : Gpr) : List Gpr → List Gpr
  | [] => [a]
  | b :: t => if startLt b a then b :: insertByStart a t else a :: b :: t

/-- go: ovmf.sortedGPRsCopy — `slices.SortFunc(b, gprCmp)`.  The Go sort is not stable; it is an
    insertion sort (stable) for at most 12 elements.  The model is the stable sort; the theorems are
    stated for ANY start-sorted permutation, so they do not depend on this choice. -/
def sortByStart : List Gpr → List Gpr
  | [] => []
  | a :: t => insertByStart a (sortByStart t)

/-- the loop on already sorted lists -/
def unacceptedCore (ps rs : List Gpr) : List Gpr := (outer ps rs).out

/-- go: ovmf.unacceptedMemRanges -/
def unacceptedMemRanges (ps rs : List Gpr) : List Gpr :=
  unacceptedCore (sortByStart ps) (sortByStart rs)

/-- loop iterations (outer + inner) of unacceptedMemRanges, not counting the two sorts -/
def unacceptedTicks (ps rs : List Gpr) : Nat := (outer (sortByStart ps) (sortByStart rs)).ticks

end GceTcb.Intervals
