import GceTcb.Model.CA
/-
Model of rotate/rotate.go (Key and its steps, after the "fix:" commit that sequences the steps),
rotate/keys.go (signCert / InternalSignAndUpload), rotate/bootstrap.go, the nonprod key managers
(testing/nonprod/memkm, localkm) and sign/ops.CreateCertificateFromTemplate, as the ordered list of
external calls they make.  Core-only.
-/
namespace GceTcb.CA

structure Req where
  cn : String        -- rotate.SigningKeyContext.SigningKeyCommonName
  serial : Nat       -- rotate.SigningKeyContext.SigningKeySerial
deriving Repr

/-! ### key manager (memkm.T / localkm.T over the nonprod signer) -/

/-- go: nonprod.Signer.generateKey (+ localkm.saveKey): a fresh key under `name` (replacing an older
    key of that name). -/
def genKey (name : String) : Run Unit :=
  modSt fun s => { s with keys := (name, s.nextMat) :: s.keys, nextMat := s.nextMat + 1 }

/-- go: memkm.T.CreateNewSigningKeyVersion / localkm.T.CreateNewSigningKeyVersion -/
def kmCreate (cfg : Cfg) : Run String :=
  wrap .kmCreate (do
    let p ← caPsk cfg
    genKey (cfg.bump p)
    pure (cfg.bump p))

/-- go: memkm.T.DestroyKeyVersion (never fails) / localkm.T.DestroyKeyVersion (os.Remove fails when
    the key file does not exist). -/
def kmDestroy (cfg : Cfg) (k : String) : Run Unit :=
  wrap (.kmDestroy k) (do
    let s ← getSt
    if cfg.km = .localkm ∧ (lookup s.keys k).isNone then throw
    else modSt fun s => { s with keys := erase s.keys k })

/-- go: keyRequest.updatePrimaryAndDestroy, last part: "Destroy the old version if it existed." -/
def destroyOld (cfg : Cfg) (cur : String) : Run Unit :=
  if cur ≠ "" then kmDestroy cfg cur else pure ()

/-- go: memkm.T.signingKeyTemplateFrom — the calls it makes; the template's contents (names, serial,
    validity) come from the request either way, an error of `Certificate` is swallowed. -/
def kmTemplate (cfg : Cfg) : Run Unit := do
  let p ← caPsk cfg
  let _ ← attempt (caCert cfg p)
  pure ()

/-- crypto/x509.CreateCertificate: "provided PrivateKey doesn't match parent's PublicKey" — the public
    key the issuer key reports (last of the calls before signing) against the parent certificate's. -/
def parentMatches (issuer : Option Cert) (pre : List Nat) : Bool :=
  match issuer, pre.getLast? with
  | some i, some p => decide (p = i.pub)
  | _, _ => true

/-- go: sops.CreateCertificateFromTemplate → x509.CreateCertificate with the cryptoSigner: asks the
    issuer key for its public key (`pubPre` times; the library compares it with the parent
    certificate's key), signs, and asks again (`pubPost` times) to check the signature. -/
def createCertificate (cfg : Cfg) (req : Req) (subjPub : Nat) (issuerKey : String) (issuer : Option Cert) : Run Cert := do
  let pre ← repeatRun cfg.pubPre (sgPub issuerKey)
  if !parentMatches issuer pre then throw
  else do
    let by_ ← sgSign issuerKey
    let _ ← repeatRun cfg.pubPost (sgPub issuerKey)
    pure ⟨req.cn, req.serial, subjPub, by_⟩

/-- go: rotate.signCert (issuer ≠ nil: a signing key certificate) -/
def signCert (cfg : Cfg) (req : Req) (mu : Mut) (issuer : Cert) (subject issuerKey : String) : Run (Mut × Cert) := do
  let subjPub ← sgPub subject
  kmTemplate cfg
  let c ← createCertificate cfg req subjPub issuerKey (some issuer)
  let mu' ← mutAddCert cfg mu subject c
  pure (mu', c)

/-- go: keyRequest.getCurrentInfo -/
def getCurrentInfo (cfg : Cfg) : Run (String × String × Cert) := do
  let cur ← caPsk cfg
  let root ← caPrk cfg
  let issuer ← caIssuer cfg
  pure (cur, root, issuer)

/-- go: rotate.Key — createNewSigningKeyVersion; getCurrentInfo; signAndAdd; updatePrimaryAndDestroy
    (SetPrimarySigningKeyVersion, Finalize, then DestroyKeyVersion of the old key), stopping at the
    first error. -/
def rotateKey (cfg : Cfg) (req : Req) : Run String := do
  -- createNewSigningKeyVersion
  let kver ← kmCreate cfg
  -- getCurrentInfo
  let (cur, root, issuer) ← getCurrentInfo cfg
  -- signAndAdd
  if root = "" ∨ kver = "" then throw
  else do
    let (mu, _) ← signCert cfg req {} issuer kver root
    -- updatePrimaryAndDestroy
    let mu ← mutSetPrimary cfg mu kver
    caFinalize cfg mu mu.certs
    destroyOld cfg cur
    pure kver

/-- rotate.Key (fixed order) over gcsca.upload as it was before it refused objects recorded for other
    key versions (`C10_old_upload_clobbers_primary`). -/
def rotateKeyNoGuard (cfg : Cfg) (req : Req) : Run String := do
  let kver ← kmCreate cfg
  let (cur, root, issuer) ← getCurrentInfo cfg
  if root = "" ∨ kver = "" then throw
  else do
    let (mu, _) ← signCert cfg req {} issuer kver root
    let mu ← mutSetPrimary cfg mu kver
    caFinalizeNoGuard cfg mu mu.certs
    destroyOld cfg cur
    pure kver

/-- The order of rotate.Key BEFORE the fix: all five steps are evaluated as arguments of one
    multierr.Combine, each guarding only on the intermediate results it needs (`kver`, `mu`, …); the
    old key is destroyed before Finalize.  Kept to make the dependence of the theorems on the order
    explicit (`C10_old_order_breaks`). -/
def rotateKeyOld (cfg : Cfg) (req : Req) : Run String := do
  let kver ← attempt (kmCreate cfg)
  let info ← attempt (getCurrentInfo cfg)
  let kv := kver.getD ""
  let cur := (info.map (·.1)).getD ""
  -- signAndAdd: `r.mu = r.ca.NewMutation()` is assigned before signing is attempted
  let (mutOpt, signedOk) ← (match info with
    | some (_, root, issuer) =>
      if root = "" ∨ kv = "" then pure ((none : Option Mut), false)
      else do
        let r ← attempt (signCert cfg req {} issuer kv root)
        match r with
        | some (m, _) => pure (some m, true)
        | none => pure (some {}, false)
    | none => pure (none, false))
  -- updatePrimaryAndDestroy: runs whenever kver and mu are set
  let (mut2, updOk) ← (match mutOpt with
    | some m =>
      if kv = "" then pure (mutOpt, false)
      else do
        let m' ← mutSetPrimary cfg m kv
        let d ← attempt (destroyOld cfg cur)
        pure (some m', d.isSome)
    | none => pure (none, false))
  -- finalize: always called, also with a nil mutation
  let fin ← attempt (match mut2 with
    | some m => caFinalize cfg m m.certs
    | none => wrap .caFin (match cfg.ca with
      | .gcsca => throw
      | .memca => pure ()))
  if kver.isSome && info.isSome && signedOk && updOk && fin.isSome then pure kv else throw

/-! ### bootstrap (rotate.Bootstrap with the memkm manager) -/

/-- go: rotate.Bootstrap — CreateNewRootKey, CreateFirstSigningKey, root certificate (self-signed),
    first signing certificate, Finalize.  `perm` selects the order in which Finalize visits the two
    pending certificates (`false`: root first).  The calls of the certificate templates
    (rootTemplateFrom / signingKeyTemplateFrom) are not numbered here: bootstrap runs are only used
    fault-free (initial states of C10, write logs of C11). -/
def bootstrap (cfg : Cfg) (rootKey signKey : String) (rootReq signReq : Req) (perm : Bool) : Run Unit := do
  genKey rootKey
  genKey signKey
  let mu ← mutSetRoot cfg {} rootKey
  let mu ← mutSetPrimary cfg mu signKey
  -- root: InternalSignAndUpload with Issuer = nil
  let rootPub ← sgPub rootKey
  let rc ← createCertificate cfg rootReq rootPub rootKey none
  let mu ← mutAddCert cfg mu rootKey rc
  let mu ← mutSetRootCert cfg mu rc
  -- first signing key
  let sPub ← sgPub signKey
  let sc ← createCertificate cfg signReq sPub rootKey (some rc)
  let mu ← mutAddCert cfg mu signKey sc
  let order := if perm then [(signKey, sc), (rootKey, rc)] else [(rootKey, rc), (signKey, sc)]
  caFinalize cfg mu order

/-- go: memkm.BumpName on names without a decimal suffix after the last '_' appends "_1", otherwise
    increments the suffix. -/
def bumpName (name : String) : String :=
  let pieces := name.splitOn "_"
  match pieces.getLast?, pieces.length with
  | some last, n + 2 =>
    match last.toNat? with
    | some k => "_".intercalate (pieces.take (n + 1)) ++ "_" ++ toString (k + 1)
    | none => name ++ "_1"
  | _, _ => name ++ "_1"

end GceTcb.CA
