import GceTcb.Model.Manifest
/-
Model of the commit half of endorse/commit.go: `changeEndorsements` (manifest mode and snapshot
mode, with and without dry-run), `tryChange`, `RetrySubmit` (C14, C15).  Core-only.

The version-control backend is the environment.  Its behaviour during one attempt is an `Attempt`
record: which backend call of the attempt fails (by ordinal: 0 = GetChangeOps, 1.. = the ChangeOps
calls of the change function in program order, last = TryCommit), what it answers to
`RetriableError` for the attempt's error, and what the attempt's workspace contains (the manifest as
read in THAT workspace, whether the endorsement file exists there).  A run is a list of such records
(one per attempt, consumed in order); the model's output is the list of calls the code makes on the
backend (`Ev`) and the class of the returned error.

Names: `Cfg.cand`, `outDir`, `snapDir`, `imageName`, `root` are ARBITRARY texts. Every path argument is
computed the way the Go code computes it — `relOut` = ReleasePath(path.Join(OutDir, name)), `relSnap`,
`basename` = path.Clean(candidate + ".binarypb") with the name test of defaultGenerateBasename (`nameOk`,
`fix: refuse candidate names …`) — through the model of Go's package path in Model/Paths.lean.

Dry-run (fixed code, `fix: dry run ...`): `tryChange` hands the change function a no-op ChangeOps
(`dryRunOps`): reads answer "not found", writes and mode changes succeed without effect.  Calls on
it are not backend calls and are therefore not events.
-/
namespace GceTcb.Commit
open GceTcb.Manifest

inductive Kind where
  | getOps | readManifest | readFile | writeFiles | chmod | writeManifest | commit | destroy
  | retriable | result
deriving Repr, DecidableEq

/-- One call on the VersionControl / ChangeOps double.  `ws` is the workspace the call was made on
    (for `retriable`: the attempt whose error is classified; for `result`: the commit handed over),
    `ok` the double's answer (`retriable`: the answer; `result`: whether a commit was handed over),
    `arg` the path argument(s), `manifest` the decoded payload of a manifest write. -/
structure Ev where
  ws : Nat
  kind : Kind
  ok : Bool
  arg : String
  manifest : List Entry
deriving Repr, DecidableEq

/-- What reading the manifest file yields in a workspace. -/
inductive MRead where
  | notFound
  | ok (m : List Entry)
  | garbage            -- present but not a parseable VMEndorsementMap
deriving Repr, DecidableEq

def MRead.entries : MRead → List Entry
  | .ok m => m
  | _ => []

structure Attempt where
  failAt : Option Nat
  retriable : Bool
  manifest : MRead
  fileExists : Bool
deriving Repr, DecidableEq

/-- The request-side inputs of the commit phase (endorse.Context + output options). -/
structure Cfg where
  dryRun : Bool
  snapshot : Bool          -- SnapshotDir ≠ ""
  overwrite : Bool
  svsm : Bool              -- len(SvsmImage) ≠ 0
  scrtm : Bool             -- SVN ≠ 0: the S_CRTM version file is snapshotted too
  cand : String
  root : String            -- VCS.ReleasePath prefix
  outDir : String
  snapDir : String
  imageName : String
deriving Repr

/-- go: path.Join(dir, base) — arbitrary texts (model of path.Join in Model/Paths.lean). -/
def joinDir (dir b : String) : String := Paths.pjoin [dir, b]

/-- go: endorse.releasePath — `VCS.ReleasePath(path.Join(OutDir, basename))`, the ReleasePath of the
    scripted double of streams c14/c15 being `root + "/" + p`. -/
def relOut (c : Cfg) (b : String) : String := Paths.outPath .concat c.root c.outDir b
/-- go: `VCS.ReleasePath(path.Join(SnapshotDir, name))` -/
def relSnap (c : Cfg) (b : String) : String := Paths.release .concat c.root (joinDir c.snapDir b)

/-- A planned ChangeOps call. -/
structure Call where
  kind : Kind
  arg : String
  manifest : List Entry
deriving Repr, DecidableEq

def joinArgs (l : List String) : String := "+".intercalate l

/-- go: endorse.snapshotEndorsement — writeEndorsement(signature paths) then the snapshot files. -/
def snapshotCalls (c : Cfg) : List Call :=
  let fw := relSnap c c.imageName
  let sv := relSnap c "svsm.igvm"
  let sigs := Paths.snapSigs fw sv c.svsm
  let files := Paths.snapFiles fw sv c.svsm c.scrtm
  [⟨.writeFiles, joinArgs sigs, []⟩] ++ sigs.map (fun p => ⟨.chmod, p, []⟩) ++
  [⟨.writeFiles, joinArgs files, []⟩] ++ files.map (fun p => ⟨.chmod, p, []⟩)

structure Plan where
  calls : List Call       -- ChangeOps calls in program order, assuming none fails
  internalErr : Bool      -- after them the change function itself returns an error
  certPath : String

def cReadManifest (c : Cfg) : Call := ⟨.readManifest, relOut c manifestFile, []⟩
def cReadFile (c : Cfg) : Call := ⟨.readFile, relOut c (basename c.cand), []⟩
def cWriteFile (c : Cfg) : Call := ⟨.writeFiles, relOut c (basename c.cand), []⟩
def cChmod (c : Cfg) : Call := ⟨.chmod, relOut c (basename c.cand), []⟩
def cWriteManifest (c : Cfg) (m : List Entry) : Call := ⟨.writeManifest, relOut c manifestFile, m⟩

/-- go: endorse.changeEndorsements / addEndorsement / defaultGenerateBasename / writeEndorsement,
    manifest mode on a real workspace: read the manifest (a read error other than not-found is the
    call's failure; unparseable contents are an internal error), refuse a candidate name whose cleaned
    basename is rooted or climbs (internal error, nothing probed or written), probe the endorsement file (exists
    without --overwrite is an internal error), write it, make it binary, merge the entry into the
    manifest read HERE and write the manifest. -/
def planManifest (c : Cfg) (e : Entry) (a : Attempt) : Plan :=
  if a.manifest = .garbage then ⟨[cReadManifest c], true, ""⟩
  else if !nameOk c.cand then ⟨[cReadManifest c], true, ""⟩
  else if a.fileExists && !c.overwrite then ⟨[cReadManifest c, cReadFile c], true, ""⟩
  else ⟨[cReadManifest c, cReadFile c, cWriteFile c, cChmod c,
         cWriteManifest c (addEntry a.manifest.entries e)], false, basename c.cand⟩

/-- Same function under dry-run: the manifest is not read (empty map), the probe / write / mode
    change go to the no-op ops (absent, succeed), the manifest is not written. -/
def planDry (c : Cfg) : Plan :=
  if !nameOk c.cand then ⟨[], true, ""⟩
  else ⟨[cReadFile c, cWriteFile c, cChmod c], false, basename c.cand⟩

/-- go: endorse.changeEndorsements for one workspace. -/
def plan (c : Cfg) (e : Entry) (a : Attempt) : Plan :=
  if c.snapshot then ⟨snapshotCalls c, false, ""⟩
  else if c.dryRun then planDry c
  else planManifest c e a

/-- Runs planned calls on workspace `ws` from ordinal `k`; the call with ordinal `failAt` fails and
    stops the run.  Returns the events and whether every call succeeded. -/
def runCalls (ws : Nat) (failAt : Option Nat) : Nat → List Call → List Ev × Bool
  | _, [] => ([], true)
  | k, c :: cs =>
    if failAt = some k then ([⟨ws, c.kind, false, c.arg, c.manifest⟩], false)
    else
      let r := runCalls ws failAt (k + 1) cs
      (⟨ws, c.kind, true, c.arg, c.manifest⟩ :: r.1, r.2)

def evGetOps (i : Nat) (ok : Bool) : Ev := ⟨i, .getOps, ok, "", []⟩
def evDestroy (i : Nat) : Ev := ⟨i, .destroy, true, "", []⟩
def evCommit (i : Nat) (ok : Bool) : Ev := ⟨i, .commit, ok, "", []⟩
def evResult (i : Nat) (committed : Bool) (p : String) : Ev := ⟨i, .result, committed, p, []⟩
def evRetriable (i : Nat) (ans : Bool) : Ev := ⟨i, .retriable, ans, "", []⟩

/-- go: endorse.tryChange — one attempt with index `i`.  Returns the backend calls and success. -/
def attempt (c : Cfg) (e : Entry) (i : Nat) (a : Attempt) : List Ev × Bool :=
  if c.dryRun then
    -- no workspace, the change runs on the no-op ops, no commit; Result(nil, certPath)
    let p := plan c e a
    if p.internalErr then ([], false) else ([evResult 0 false p.certPath], true)
  else if a.failAt = some 0 then ([evGetOps i false], false)
  else
    let p := plan c e a
    let r := runCalls i a.failAt 1 p.calls
    if !r.2 || p.internalErr then (evGetOps i true :: (r.1 ++ [evDestroy i]), false)
    else if a.failAt = some (1 + p.calls.length) then
      (evGetOps i true :: (r.1 ++ [evCommit i false, evDestroy i]), false)
    else (evGetOps i true :: (r.1 ++ [evCommit i true, evResult i true p.certPath]), true)

inductive Res where
  | ok           -- nil
  | err          -- the attempt's own error (not retriable)
  | noRetries    -- ErrNoRetries
  | exhausted    -- the environment script ended before the loop did (never, see C14_never_exhausted)
deriving Repr, DecidableEq

/-- go: endorse.RetrySubmit — `tries` failed attempts so far; the environment supplies one `Attempt`
    per loop iteration. -/
def retryLoop (c : Cfg) (e : Entry) (budget : Int) : Nat → List Attempt → List Ev × Res
  | _, [] => ([], .exhausted)
  | tries, a :: rest =>
    let r := attempt c e tries a
    if r.2 then (r.1, .ok)
    else if !a.retriable then (r.1 ++ [evRetriable tries false], .err)
    else if budget - ((tries : Int) + 1) < 0 then (r.1 ++ [evRetriable tries true], .noRetries)
    else
      let n := retryLoop c e budget (tries + 1) rest
      (r.1 ++ evRetriable tries true :: n.1, n.2)

def retrySubmit (c : Cfg) (e : Entry) (budget : Int) (script : List Attempt) : List Ev × Res :=
  retryLoop c e budget 0 script

end GceTcb.Commit
