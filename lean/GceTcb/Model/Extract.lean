import GceTcb.Base.Line
import GceTcb.Base.Outcome
import GceTcb.Gen.Names
/-
C16 — model of endorsement discovery (package `extract` and the two other fetch sites).

* object names and bucket URLs as string functions over the REGENERATED naming constants
  (`Gen.Names`: base URL, bucket, family prefixes, technology segments, extension);
* `extract.Endorsement` as decision logic over evidence sources given as abstract results:
  the parsed event log (list of events with manufacturer / locator type / locator bytes), the result
  of `extract.Attestation` on the supplied quote and on the provider's quote (`Tee`), the provider,
  the getter, the ForceFetch switch.  It produces the returned bytes or an error class, the list of
  URLs handed to the getter, the list of variable paths opened and the number of provider calls;
* `exel.Locate`, `variableLocatorDecode`, `EfiVarFSReader.ReadVariable`, `varBasename`, `ucs2toUTF8`
  (the x/text UTF-16 decoder is modelled rune by rune) with `securejoin.SecureJoin`, `os.ReadFile`
  and the getter as PARAMETERS (`Env`);
* `secureJoinLex`: the behaviour of filepath-securejoin v0.2.5 on a root without symbolic links, used
  by the driver as the instance of the `secureJoin` parameter (and shown to meet its contract).

The model describes the code AFTER the two `fix:` commits of this property (D10: the object name is
derived from the quote's measurement only when it is full length, also on a certificate-table hit;
a fetch is never issued without an object name.  D17: `extractEndorsement` gates on the length).
`endorsementOld` keeps the previous object-name logic for the witness theorem.
Core-only.
-/
namespace GceTcb.Extract
open GceTcb

/-! ## Object names and URLs -/

/-- go: extractsev.GCETcbObjectName / extracttdx.GCETcbObjectName (with gceTcbObjectPath inlined):
    `<family prefix>/<technology>/<hex(measurement)><ext>` -/
def objectName (familyPrefix tech ext : String) (measurement : Bytes) : String :=
  familyPrefix ++ "/" ++ tech ++ "/" ++ hexEncode measurement ++ ext

/-- go: extractsev.familyIDObjectPrefix -/
def familyIDObjectPrefix (familyID : String) : String :=
  if Gen.Names.knownFamilyIDs.contains familyID then Gen.Names.familyPrefixKnown
  else Gen.Names.familyPrefixUnknown

/-- go: extractsev.GCETcbObjectName -/
def sevObjectName (familyID : String) (measurement : Bytes) : String :=
  objectName (familyIDObjectPrefix familyID) Gen.Names.sevTech Gen.Names.sevExt measurement

/-- go: extracttdx.GCETcbObjectName -/
def tdxObjectName (measurement : Bytes) : String :=
  objectName Gen.Names.tdxFamilyPrefix Gen.Names.tdxTech Gen.Names.tdxExt measurement

/-- go: verify.GCETcbURL -/
def gceTcbURL (obj : String) : String :=
  Gen.Names.gcsBaseURL ++ "/" ++ Gen.Names.bucket ++ "/" ++ obj

/-- A URL handed to the getter: built by the extraction code from an object name, or the bytes of an
    event-log URI locator passed on verbatim (`Getter.Get(string(loc))`). -/
inductive Url where
  | derived (s : String)
  | verbatim (loc : Bytes)
deriving DecidableEq, Repr

/-! ## UEFI variable reader -/

/-- go: oabi.FromEFIGUID / oabi.PutUUID — the EFI_GUID byte order swaps the first three fields. The
    permutation is its own inverse. Inputs that are not 16 bytes are left alone. -/
def efiSwap : Bytes → Bytes
  | [a0, a1, a2, a3, a4, a5, a6, a7, a8, a9, a10, a11, a12, a13, a14, a15] =>
    [a3, a2, a1, a0, a5, a4, a7, a6, a8, a9, a10, a11, a12, a13, a14, a15]
  | g => g

/-- go: uuid.UUID.String -/
def uuidString (g : Bytes) : String :=
  hexEncode (g.take 4) ++ "-" ++ hexEncode ((g.drop 4).take 2) ++ "-" ++ hexEncode ((g.drop 6).take 2)
    ++ "-" ++ hexEncode ((g.drop 8).take 2) ++ "-" ++ hexEncode ((g.drop 10).take 6)

def isSurrogate (u : Nat) : Bool := 0xD800 ≤ u && u ≤ 0xDFFF
def isLowSurrogate (u : Nat) : Bool := 0xDC00 ≤ u && u ≤ 0xDFFF

/-- go: x/text unicode.UTF16(LittleEndian, IgnoreBOM).NewDecoder().Transform with atEOF — code points
    produced for a byte string (v0.14.0: a surrogate followed by a unit in DC00..DFFF consumes both and
    yields the pair's code point, or U+FFFD if the first is not a lead surrogate; any other surrogate
    and a trailing single byte yield U+FFFD). -/
def decodeUtf16 : Bytes → List Nat
  | [] => []
  | [_] => [0xFFFD]
  | a :: b :: rest =>
    if isSurrogate (a.toNat + 256 * b.toNat) then
      match rest with
      | c :: d :: rest' =>
        if isLowSurrogate (c.toNat + 256 * d.toNat) then
          (if a.toNat + 256 * b.toNat < 0xDC00
            then 0x10000 + (a.toNat + 256 * b.toNat - 0xD800) * 0x400 + (c.toNat + 256 * d.toNat - 0xDC00)
            else 0xFFFD) :: decodeUtf16 rest'
        else 0xFFFD :: decodeUtf16 (c :: d :: rest')
      | rest => 0xFFFD :: decodeUtf16 rest
    else (a.toNat + 256 * b.toNat) :: decodeUtf16 rest
termination_by l => l.length

/-- go: eventlog.ucs2toUTF8 (with validateUCS2Codepoints). `utf8encoding[len-1]` panics on an empty
    decoding; exactly one trailing NUL is removed; code points above U+FFFF are rejected. -/
def ucs2toUTF8 (name : Bytes) : Outcome String :=
  match (decodeUtf16 name).getLast? with
  | none => .panic "ucs2toUTF8/index"
  | some l =>
    if ((if l == 0 then (decodeUtf16 name).dropLast else decodeUtf16 name).any (fun c => c > 0xFFFF)) then .err "ucs2"
    else .ok (String.ofList ((if l == 0 then (decodeUtf16 name).dropLast else decodeUtf16 name).map Char.ofNat))

/-- go: eventlog.variableLocatorDecode — 16-byte EFI GUID followed by a 00 00-terminated UCS-2 name. -/
def variableLocatorDecode (loc : Bytes) : Option (Bytes × Bytes) :=
  if loc.length ≤ 18 then none
  else if (loc.drop 16).length % 2 ≠ 0 then none
  else if ((loc.drop 16).reverse.take 2).all (· == 0) then some (efiSwap (loc.take 16), loc.drop 16)
  else none

/-- The external world of one extraction: parameters of the model. -/
structure Env where
  /-- github.com/cyphar/filepath-securejoin SecureJoin(root, unsafePath); `none` = error -/
  secureJoin : String → String → Option String
  /-- os.ReadFile; `none` = error -/
  readFile : String → Option Bytes
  /-- Getter.Get of a non-nil getter; `none` = error -/
  get : Url → Option Bytes

/-- go: EfiVarFSReader.varBasename -/
def varBasename (env : Env) (root : String) (guid name : Bytes) : Outcome String :=
  match ucs2toUTF8 name with
  | .ok basename =>
    match env.secureJoin root (basename ++ "-" ++ uuidString guid) with
    | some p => .ok p
    | none => .err "illegalpath"
  | .err c => .err c
  | .panic s => .panic s

/-- Observable result of a step: outcome, URLs handed to the getter, variable paths opened,
    calls to the quote provider (all in order). -/
structure Res where
  out : Outcome Bytes
  urls : List Url := []
  paths : List String := []
  provCalls : Nat := 0
deriving Repr

/-- go: EfiVarFSReader.ReadVariable -/
def readVariable (env : Env) (root : String) (guid name : Bytes) : Res :=
  match varBasename env root guid name with
  | .ok p =>
    match env.readFile p with
    | none => { out := .err "read", paths := [p] }
    | some c => if c.length < 4 then { out := .err "illformed", paths := [p] } else { out := .ok (c.drop 4), paths := [p] }
  | .err c => { out := .err c }
  | .panic s => { out := .panic s }

/-! ## Event log -/

/-- An SP800-155 Event3 as far as extraction looks at it. -/
structure RimEvent where
  manufacturer : Bytes
  locType : Nat
  locator : Bytes
deriving DecidableEq, Repr

/-- One TCG_PCR_EVENT2 of the parsed log: its event type and, when the event data is an SP800-155
    Event3, that event. -/
structure LogEvent where
  eventType : Nat
  rim : Option RimEvent
deriving Repr

/-- Result of elFromFile. -/
inductive EventLog where
  | unreadable
  | parsed (events : List LogEvent)
deriving Repr

/-- What `extract.Attestation` made of a quote: technology, measurement, and for SEV-SNP the GCE
    entry of the certificate table if present. -/
inductive Tee where
  | sev (measurement : Bytes) (extra : Option Bytes)
  | tdx (mrtd : Bytes)
deriving DecidableEq, Repr

/-- The object name a quote stands for (used when its measurement is full length). -/
def teeObjectName : Tee → String
  | .sev m _ => sevObjectName Gen.Names.gceUefiFamilyID m
  | .tdx m => tdxObjectName m

def teeMeasurement : Tee → Bytes
  | .sev m _ => m
  | .tdx m => m

/-- go: extract.Options (sources as abstract results). -/
structure Options where
  /-- `none`: Provider == nil; `some none`: GetRawQuote fails; `some (some t)`: what Attestation
      makes of the provider's quote (`t = none`: unreadable). -/
  provider : Option (Option (Option Tee))
  hasGetter : Bool
  manufacturer : Bytes
  /-- `none`: EventLogLocation == "" -/
  eventLog : Option EventLog
  /-- efivarfs root of the UEFIVariableReader; `none`: nil reader -/
  reader : Option String
  /-- what Attestation makes of opts.Quote; `none`: empty or unreadable -/
  quote : Option Tee
  forceFetch : Bool

/-- go: exel.RIMEventsFromEventLog (log order kept; the per-type split is done by `selectEvent`). -/
def rimEvents (evs : List LogEvent) : List RimEvent :=
  evs.filterMap (fun e => if e.eventType == Gen.Names.evNoAction then e.rim else none)

def manufacturerMatches (mfr : Bytes) (e : RimEvent) : Bool :=
  mfr.isEmpty || e.manufacturer == mfr

/-- go: the two nested loops of extract.fromEventLog: locator types in the regenerated precedence
    order, events of one type in log order, first one whose manufacturer matches. -/
def selectEventBy (prec : List Nat) (mfr : Bytes) (evs : List LogEvent) : Option RimEvent :=
  prec.findSome? (fun t => ((rimEvents evs).filter (fun e => e.locType == t)).find? (manufacturerMatches mfr))

def selectEvent (mfr : Bytes) (evs : List LogEvent) : Option RimEvent :=
  selectEventBy Gen.Names.locatorPrecedence mfr evs

/-- go: exel.Locate -/
def locate (env : Env) (o : Options) (e : RimEvent) : Res :=
  if e.locType = Gen.Names.rimLocationRaw then { out := .ok e.locator }
  else if e.locType = Gen.Names.rimLocationURI then
    if o.hasGetter then
      match env.get (.verbatim e.locator) with
      | some b => { out := .ok b, urls := [.verbatim e.locator] }
      | none => { out := .err "get", urls := [.verbatim e.locator] }
    else { out := .err "locategetternil" }
  else if e.locType = Gen.Names.rimLocationVariable then
    match variableLocatorDecode e.locator with
    | none => { out := .err "varloc" }
    | some (guid, name) =>
      match o.reader with
      | none => { out := .err "locatereadernil" }
      | some root => readVariable env root guid name
  else { out := .err "unsupported" }

/-- go: Options.fromEventLog -/
def fromEventLog (env : Env) (o : Options) : Res :=
  match o.eventLog with
  | none => { out := .err "eventlogpathempty" }
  | some .unreadable => { out := .err "eventlog" }
  | some (.parsed evs) =>
    match selectEvent o.manufacturer evs with
    | some e => locate env o e
    | none => { out := .err "nomatch" }

/-! ## Quotes -/

/-- go: Options.fromQuote after extract.Attestation (fixed code): endorsement bytes ([] = nil) and
    the object name, known only for a full-length measurement. `none` = error. -/
def fromQuote (t : Option Tee) : Option (Bytes × Option String) :=
  match t with
  | none => none
  | some (.sev m x) =>
    some (x.getD [], if m.length = Gen.Names.sevMeasurementSize then some (sevObjectName Gen.Names.gceUefiFamilyID m) else none)
  | some (.tdx m) =>
    some ([], if m.length = Gen.Names.tdxMrTdSize then some (tdxObjectName m) else none)

/-- The object-name logic BEFORE the D10 fix: no name on a certificate-table hit, a name from a
    measurement of any length otherwise. -/
def fromQuoteOld (t : Option Tee) : Option (Bytes × Option String) :=
  match t with
  | none => none
  | some (.sev _ (some x)) => some (x, none)
  | some (.sev m none) => some ([], some (sevObjectName Gen.Names.gceUefiFamilyID m))
  | some (.tdx m) => some ([], some (tdxObjectName m))

/-- go: the tail of extract.Endorsement ("Then try the internet").  `rootWhenNoName` selects the old
    behaviour of fetching `GCETcbURL("")`. -/
def fetchPhase (rootWhenNoName : Bool) (env : Env) (o : Options) (name : Option String)
    (urls : List Url) (paths : List String) (prov : Nat) : Res :=
  if o.hasGetter then
    match (if rootWhenNoName then some (name.getD "") else name) with
    | none => { out := .err "final", urls := urls, paths := paths, provCalls := prov }
    | some n =>
      match env.get (.derived (gceTcbURL n)) with
      | some b => { out := .ok b, urls := urls ++ [.derived (gceTcbURL n)], paths := paths, provCalls := prov }
      | none => { out := .err "final", urls := urls ++ [.derived (gceTcbURL n)], paths := paths, provCalls := prov }
  else { out := .err "final", urls := urls, paths := paths, provCalls := prov }

/-- go: the provider step of extract.Endorsement (entered when Provider != nil and no object name is
    known yet). -/
def providerPhase (fq : Option Tee → Option (Bytes × Option String)) (rootWhenNoName : Bool)
    (env : Env) (o : Options) (p : Option (Option Tee)) (urls : List Url) (paths : List String) : Res :=
  match p with
  | none => { out := .err "provider", urls := urls, paths := paths, provCalls := 1 }
  | some t =>
    match fq t with
    | none => { out := .err "provquote", urls := urls, paths := paths, provCalls := 1 }
    | some (b, name) =>
      if !b.isEmpty && !o.forceFetch then { out := .ok b, urls := urls, paths := paths, provCalls := 1 }
      else fetchPhase rootWhenNoName env o name urls paths 1

/-- go: extract.Endorsement from "If the verbatim quote is provided, try that next" on. -/
def quotePhase (fq : Option Tee → Option (Bytes × Option String)) (rootWhenNoName : Bool)
    (env : Env) (o : Options) (urls : List Url) (paths : List String) : Res :=
  match fq o.quote with
  | some (b, some name) =>
    if !b.isEmpty && !o.forceFetch then { out := .ok b, urls := urls, paths := paths }
    else fetchPhase rootWhenNoName env o (some name) urls paths 0
  | some (b, none) =>
    if !b.isEmpty && !o.forceFetch then { out := .ok b, urls := urls, paths := paths }
    else
      match o.provider with
      | some p => providerPhase fq rootWhenNoName env o p urls paths
      | none => fetchPhase rootWhenNoName env o none urls paths 0
  | none =>
    match o.provider with
    | some p => providerPhase fq rootWhenNoName env o p urls paths
    | none => fetchPhase rootWhenNoName env o none urls paths 0

/-- go: extract.Endorsement (opts != nil). -/
def endorsementWith (fq : Option Tee → Option (Bytes × Option String)) (rootWhenNoName : Bool)
    (env : Env) (o : Options) : Res :=
  if o.eventLog.isSome && !o.forceFetch then
    match (fromEventLog env o).out with
    | .ok _ => fromEventLog env o
    | .panic _ => fromEventLog env o
    | .err _ => quotePhase fq rootWhenNoName env o (fromEventLog env o).urls (fromEventLog env o).paths
  else quotePhase fq rootWhenNoName env o [] []

/-- The code as it is now (with the fix commits). -/
def endorsement (env : Env) (o : Options) : Res := endorsementWith fromQuote false env o

/-- The object-name logic before the D10 fix (witness model). -/
def endorsementOld (env : Env) (o : Options) : Res := endorsementWith fromQuoteOld true env o

/-! ## The two other fetch sites -/

/-- go: the fetch inside the closure of verify.SNPFamilyValidateFunc: URLs requested from the getter.
    `measurement = none`: nil attestation; `hasSerialized`: a serialized endorsement was passed in;
    `hasEndorsement`: opts.Endorsement is set. -/
def closureFetch (familyID : String) (measurement : Option Bytes) (hasSerialized hasEndorsement hasGetter : Bool) :
    List Url :=
  match measurement with
  | none => []
  | some m =>
    if m.length ≠ Gen.Names.sevMeasurementSize then []
    else if !hasSerialized && !hasEndorsement then
      if hasGetter then [.derived (gceTcbURL (sevObjectName familyID m))] else []
    else []

/-- go: gcetcbendorsement.extractEndorsement (with the D17 length gate): URLs requested.
    `extraParses`: the attestation's certificate table carries the GCE entry (any bytes unmarshal or
    the error is dropped: a non-nil endorsement results whenever the entry parses). -/
def sevValidateFetch (measurement : Bytes) (extraParses hasGetter : Bool) : List Url :=
  if extraParses then []
  else if !hasGetter then []
  else if measurement.length ≠ Gen.Names.sevMeasurementSize then []
  else [.derived (gceTcbURL (sevObjectName Gen.Names.gceUefiFamilyID measurement))]

/-- The same site BEFORE the D17 fix: no length gate. -/
def sevValidateFetchOld (measurement : Bytes) (extraParses hasGetter : Bool) : List Url :=
  if extraParses then []
  else if !hasGetter then []
  else [.derived (gceTcbURL (sevObjectName Gen.Names.gceUefiFamilyID measurement))]

/-! ## filepath-securejoin on a root without symbolic links -/

/-- Split at '/' (every component is '/'-free; "a//b" gives an empty component). -/
def splitSlash : List Char → List (List Char)
  | [] => [[]]
  | c :: cs =>
    if c = '/' then [] :: splitSlash cs
    else
      match splitSlash cs with
      | [] => [[c]]
      | p :: ps => (c :: p) :: ps

/-- One iteration of SecureJoinVFS's loop when no component is a symbolic link: "" and "." keep the
    current path, ".." drops its last component (stopping at the root), any other component is appended
    after Lstat — which fails for a NUL byte (EINVAL) or a component longer than NAME_MAX. -/
def sjStep (cur : List String) (part : String) : Option (List String) :=
  if part = "" ∨ part = "." then some cur
  else if part = ".." then some cur.dropLast
  else if part.toList.contains (Char.ofNat 0) || part.utf8ByteSize > 255 then none
  else some (cur ++ [part])

def sjFold : List String → List String → Option (List String)
  | cur, [] => some cur
  | cur, p :: ps =>
    match sjStep cur p with
    | none => none
    | some cur' => sjFold cur' ps

def joinUnder (root : String) (comps : List String) : String :=
  root ++ String.join (comps.map (fun c => "/" ++ c))

/-- securejoin.SecureJoin(root, unsafePath) for a clean `root` below which nothing is a symlink. -/
def secureJoinLex (root unsafePath : String) : Option String :=
  (sjFold [] ((splitSlash unsafePath.toList).map String.ofList)).map (joinUnder root)

/-- "Lexically inside root": root followed by '/'-separated components none of which is empty, ".",
    ".." or contains a '/'. This is the contract of the `secureJoin` parameter. -/
def Inside (root p : String) : Prop :=
  ∃ comps : List String, p = joinUnder root comps ∧
    ∀ c ∈ comps, c ≠ "" ∧ c ≠ "." ∧ c ≠ ".." ∧ '/' ∉ c.toList

end GceTcb.Extract
