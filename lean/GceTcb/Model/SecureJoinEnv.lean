import GceTcb.Model.SecureJoin
import GceTcb.Model.Extract
/-
C16 (confinement clause): the external world of the extraction model (`Extract.Env`) with the
`secureJoin` and `readFile` parameters INSTANTIATED by the models of filepath-securejoin and of the
kernel over an abstract file system — the file system as it is when SecureJoin walks it (`fsJoin`)
and as it is when os.ReadFile opens the path (`fsRead`); the theorems say what follows when the two
agree and exhibit what happens when they do not (TOCTOU). Also the three historic variants of
`varBasename` (seeded changes C16-B/F and C16-C) on decoded name texts. Core-only.
-/
namespace GceTcb.SecureJoin
open GceTcb GceTcb.Extract

/-- go: the world EfiVarFSReader runs in. `content id`: the bytes of regular file `id`. -/
def envOf (fsJoin fsRead : FS) (klim lim : Nat) (cwd : List Name) (content : Nat → Bytes)
    (get : Url → Option Bytes) : Env where
  secureJoin := fun root u =>
    match secureJoin fsJoin klim lim cwd root.toList u.toList with
    | .ok p => some (String.ofList p)
    | .err _ => none
  readFile := fun p =>
    match readFile fsRead klim cwd p.toList with
    | .data _ i => some (content i)
    | _ => none
  get := get

/-- go: EfiVarFSReader.varBasename after ucs2toUTF8: `SecureJoin(Root, name + "-" + guid)`. -/
def varPath (fs : FS) (klim lim : Nat) (cwd : List Name) (root name guidText : PathStr) : Joined :=
  secureJoin fs klim lim cwd root (name ++ '-' :: guidText)

/-- Seeded changes C16-B / C16-F: `SecureJoin(Root, name) + "-" + guid`. -/
def varPathSuffixAfterJoin (fs : FS) (klim lim : Nat) (cwd : List Name) (root name guidText : PathStr) : Joined :=
  match secureJoin fs klim lim cwd root name with
  | .ok p => .ok (p ++ '-' :: guidText)
  | .err e => .err e

/-- Seeded change C16-C: an entry without a separator is joined lexically, without SecureJoin. -/
def varPathNoJoin (fs : FS) (klim lim : Nat) (cwd : List Name) (root name guidText : PathStr) : Joined :=
  if '/' ∈ name ++ '-' :: guidText then secureJoin fs klim lim cwd root (name ++ '-' :: guidText)
  else .ok (goJoin root ('/' :: (name ++ '-' :: guidText)))

/-! ## The historic variants as variants of `Extract.varBasename` (on name bytes) -/

/-- Seeded changes C16-B / C16-F as a variant of go: EfiVarFSReader.varBasename. -/
def varBasenameSuffixAfterJoin (env : Env) (root : String) (guid name : Bytes) : Outcome String :=
  match ucs2toUTF8 name with
  | .ok basename =>
    match env.secureJoin root basename with
    | some p => .ok (p ++ "-" ++ uuidString guid)
    | none => .err "illegalpath"
  | .err c => .err c
  | .panic s => .panic s

/-- Seeded change C16-C as a variant of go: EfiVarFSReader.varBasename. -/
def varBasenameNoJoin (env : Env) (root : String) (guid name : Bytes) : Outcome String :=
  match ucs2toUTF8 name with
  | .ok basename =>
    if '/' ∈ (basename ++ "-" ++ uuidString guid).toList then
      match env.secureJoin root (basename ++ "-" ++ uuidString guid) with
      | some p => .ok p
      | none => .err "illegalpath"
    else .ok (String.ofList (goJoin root.toList ('/' :: (basename ++ "-" ++ uuidString guid).toList)))
  | .err c => .err c
  | .panic s => .panic s

/-- go: EfiVarFSReader.ReadVariable with the path function as a parameter
    (`readVariableVia varBasename = Extract.readVariable`). -/
def readVariableVia (vb : Env → String → Bytes → Bytes → Outcome String) (env : Env) (root : String)
    (guid name : Bytes) : Extract.Res :=
  match vb env root guid name with
  | .ok p =>
    match env.readFile p with
    | none => { out := .err "read", paths := [p] }
    | some c => if c.length < 4 then { out := .err "illformed", paths := [p] } else { out := .ok (c.drop 4), paths := [p] }
  | .err c => { out := .err c }
  | .panic s => { out := .panic s }

/-- file contents used by the witnesses: a 4-byte attribute header, then the file's number -/
def contentW (i : Nat) : Bytes := [7, 0, 0, 0, UInt8.ofNat i]

/-- the GUID of `guidT` as bytes, and the names "..", "Var", "Rel", "abs/Var" in UCS-2 with terminator -/
def guidB : Bytes := [0x6a, 0x7b, 0x68, 0x85, 0x92, 0xbc, 0x40, 0xcd, 0x9f, 0xb5, 0x30, 0x0f, 0x9d, 0x1e, 0xb0, 0xed]
def nameDotDot : Bytes := [0x2e, 0, 0x2e, 0, 0, 0]
def nameVar : Bytes := [0x56, 0, 0x61, 0, 0x72, 0, 0, 0]
def nameRel : Bytes := [0x52, 0, 0x65, 0, 0x6c, 0, 0, 0]
def nameAbsVar : Bytes := [0x61, 0, 0x62, 0, 0x73, 0, 0x2f, 0, 0x56, 0, 0x61, 0, 0x72, 0, 0, 0]

/-! ## Concrete file systems of the witness theorems and examples (Props/C16Fs.lean) -/

def tableOf (l : List (List String × Entry)) : Table := l.map fun pe => (pe.1.map String.toList, pe.2)

/-- text of a real GUID as uuid.UUID.String() prints it -/
def guidT : PathStr := "6a7b6885-92bc-40cd-9fb5-300f9d1eb0ed".toList

/-- /efi is the efivarfs root; the sibling /efi-<guid> (file 7) lies outside it. -/
def fsSibling : FS := (tableOf [
  (["efi"], .dir),
  (["efi", "Var-6a7b6885-92bc-40cd-9fb5-300f9d1eb0ed"], .file 1),
  (["efi-6a7b6885-92bc-40cd-9fb5-300f9d1eb0ed"], .file 7)]).toFS

/-- The variable's entry is a symbolic link with an absolute target outside the root; a second one
    with a relative target that climbs out. /secret (file 9) lies outside. -/
def fsFinalLink : FS := (tableOf [
  (["efi"], .dir),
  (["efi", "Var-6a7b6885-92bc-40cd-9fb5-300f9d1eb0ed"], .link "/secret".toList),
  (["efi", "Rel-6a7b6885-92bc-40cd-9fb5-300f9d1eb0ed"], .link "../secret".toList),
  (["secret"], .file 9)]).toFS

/-- Join time: the variable is a regular file. -/
def fsBefore : FS := (tableOf [
  (["efi"], .dir),
  (["efi", "Var-6a7b6885-92bc-40cd-9fb5-300f9d1eb0ed"], .file 1),
  (["secret"], .file 9)]).toFS

/-- One location of a file system replaced (what a concurrent rename(2)/symlink(2) does). -/
def FS.update (fs : FS) (x : List Name) (v : Look) : FS where
  look := fun l => if l = x then v else fs.look l
  reject := fs.reject

/-- Read time: the same entry has been replaced by a symbolic link to /secret. -/
def fsAfter : FS :=
  fsBefore.update ["efi".toList, "Var-6a7b6885-92bc-40cd-9fb5-300f9d1eb0ed".toList] (.ent (.link "/secret".toList))

/-- A root text whose meaning Clean changes: /a/l -> /x/y, so the kernel takes "/a/l/../r" to /x/r
    while Clean makes it "/a/r" — where the entry v is a link out. -/
def fsUncleanRoot : FS := (tableOf [
  (["a"], .dir), (["a", "l"], .link "/x/y".toList), (["a", "r"], .dir),
  (["a", "r", "v"], .link "/secret".toList),
  (["x"], .dir), (["x", "y"], .dir), (["x", "r"], .dir),
  (["secret"], .file 9)]).toFS

/-- Links inside the root that point outside it (absolute, relative with "..", a chain), a link
    inside, a dangling one, a loop; copies of the variable outside the root (files 8, 9). -/
def fsLinks : FS := (tableOf [
  (["efi"], .dir),
  (["efi", "sub"], .dir),
  (["efi", "sub", "Var-6a7b6885-92bc-40cd-9fb5-300f9d1eb0ed"], .file 3),
  (["efi", "abs"], .link "/sub".toList),
  (["efi", "up"], .link "../../sub".toList),
  (["efi", "c1"], .link "c2".toList),
  (["efi", "c2"], .link "./up/.".toList),
  (["efi", "in"], .link "sub".toList),
  (["efi", "dangling"], .link "nowhere".toList),
  (["efi", "loop"], .link "loop".toList),
  (["sub"], .dir),
  (["sub", "Var-6a7b6885-92bc-40cd-9fb5-300f9d1eb0ed"], .file 9),
  (["Var-6a7b6885-92bc-40cd-9fb5-300f9d1eb0ed"], .file 8)]).toFS

end GceTcb.SecureJoin
