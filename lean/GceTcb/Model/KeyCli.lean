import GceTcb.Model.KeyHistory
import GceTcb.Model.CliFlagTypes
/-
Model of the command-line wiring of `bootstrap`, `rotate` and `wipeout` (C12): cmd/bootstrap.go
(`BootstrapCommand.AddFlags` / `PersistentPreRunE` / `InitContext`, `makeBootstrapCmd`), cmd/rotate.go
(`RotateCommand.…`, `makeRotateCmd`), cmd/wipeout.go (`wipeoutBase`, `makeWipeoutCmd` with its own RunE), the flag
helpers of cmd/flags.go (`bigintFlag`, `bigintVar`, `timeFlag`, `addTimeFlag`, `addSigningKeyCommonNameFlag`), the
`--overwrite` / `--keep_going` options of cmd/output, the composition of cmd/compose.go, and the components the
non-production application puts around them (testing/nonprod.localApp: `Global = Compose(localkm.T, localca.T)`;
localkm.T `--key_dir` + os.Stat; localca.T → gcsca.CertificateAuthority `--bucket_root`, `--bucket`, `--cert_dir`,
`--root_path` with the derivation of the root path from the bootstrap's root common name, MustBeNonempty ×3;
localca.InitContext's checkCerts; and the same commands over memkm.T / memca).  Core-only.

    command line × environment × stored state ──cmdOf──▶ the context handed to rotate.Bootstrap / rotate.Key /
        rotate.Wipeout (`LibCmd`)  ──libStep──▶ new state

`libStep` IS `KeyHistory.step` on the command `toCmd` names (`libStep_eq_step`), for every context the certificate
library accepts; a context it refuses (negative serial number, a validity that ASN.1 cannot represent) is the same
code with the refusal made explicit (`bootCertsX`, `rotCertX`: x509.CreateCertificate fails AFTER the keys were made).

What is not modelled: cobra / pflag tokenising of argv (the model starts from the value(s) each flag was given; for
the two flag types whose `Set` is repository code it takes EVERY occurrence in command-line order), pflag's
built-in Bool / String parsing, flags that are not registered on the sub-command (an unknown flag is a cobra parse
error).  `time.Parse(time.RFC3339, ·)` is a parameter.  `os.Stat(--key_dir)` is the environment's `statDir`.
The store a command line addresses (`Site`: bucket root, bucket, certificate directory, root path) is an OUTPUT of
the model; the state is that of ONE store and ONE key directory — the theorems about histories assume that the
accepted command lines of a history address the same ones (`sameStore`), as the harness does.
-/
namespace GceTcb.KeyCli
open GceTcb GceTcb.KeyHistory GceTcb.CliFlagTypes

/-! ## flag tables (regenerated: Gen.KeyFlags; obligations C12_cli_flag_tables) -/

/-- cmd.BootstrapCommand.AddFlags: (flag, type, default as written, destination) -/
def bootstrapFlagTable : List (String × String × String × String) :=
  [ ("root_key_cn", "String", "\"GCE-cc-tcb-root\"", "bc.RootKeyCommonName"),
    ("signing_key_cn", "String", "\"GCE-uefi-signer\"", "bc.SigningKeyCommonName"),
    ("root_key_serial", "bigintFlag", "\"1\"", "bc.RootKeySerial"),
    ("initial_signing_key_serial", "bigintFlag", "\"2\"", "bc.SigningKeySerial"),
    ("timestamp", "timeFlag", "\"\"", "bc.Now") ]

/-- cmd.RotateCommand.AddFlags -/
def rotateFlagTable : List (String × String × String × String) :=
  [ ("signing_key_cn", "String", "\"GCE-uefi-signer\"", "skc.SigningKeyCommonName"),
    ("rotated_key_serial_override", "bigintFlag", "\"0\"", "skc.SigningKeySerial"),
    ("timestamp", "timeFlag", "\"\"", "skc.Now") ]

/-- cmd.wipeoutBase().FAddFlags -/
def wipeoutFlagTable : List (String × String × String × String) :=
  [ ("force_prod_wipeout", "Bool", "false", "w.Force") ]

/-- output.Options.AddFlags (registered on the root command; persistent, so every sub-command has them) -/
def outputFlagTable : List (String × String × String × String) :=
  [ ("quiet", "Bool", "false", "opts.Quiet"),
    ("verbose", "Bool", "false", "opts.Verbose"),
    ("use_logs", "Bool", "false", "opts.UseLogs"),
    ("overwrite", "Bool", "false", "opts.Overwrite"),
    ("keep_going", "Bool", "false", "opts.KeepGoing") ]

/-- localkm.T.AddFlags; localca.T.AddFlags followed by gcsca.CertificateAuthority.AddFlags -/
def wiringFlagTable : List (String × String × String × String) :=
  [ ("key_dir", "String", "\"private_keys\"", "k.KeyDir"),
    ("bucket_root", "String", "\"\"", "ca.CA.Storage.(*local.StorageClient).Root"),
    ("bucket", "String", "\"certs-dev\"", "ca.PrivateBucket"),
    ("cert_dir", "String", "\"signer_certs\"", "ca.SigningCertDirInGCS"),
    ("root_path", "String", "\"\"", "ca.RootPath") ]

/-! ## inputs -/

inductive Sub where
  | bootstrap | rotate | wipeout
deriving DecidableEq, Repr

/-- One command line as cobra hands it to the flag values.  Fields of flags that the sub-command does not register
    are ignored. -/
structure CliFlags where
  sub : Sub
  rootKeyCn : String := "GCE-cc-tcb-root"
  signingKeyCn : String := "GCE-uefi-signer"
  rootKeySerial : List String := []              -- every occurrence of --root_key_serial, in order
  initialSigningKeySerial : List String := []
  rotatedKeySerialOverride : List String := []
  timestamp : List String := []
  forceProdWipeout : Bool := false
  overwrite : Bool := false
  keepGoing : Bool := false
  args : List String := []                       -- positional arguments
  keyDir : String := "private_keys"
  bucketRoot : String := ""
  bucket : String := "certs-dev"
  certDir : String := "signer_certs"
  rootPath : String := ""
deriving Repr

/-- The defaults of the record as (flag, rendering) rows, compared with the tables' default column. -/
def renderDefaults (f : CliFlags) : List (String × String) :=
  let b (x : Bool) : String := if x then "true" else "false"
  let s (x : String) : String := "\"" ++ x ++ "\""
  [ ("root_key_cn", s f.rootKeyCn), ("signing_key_cn", s f.signingKeyCn),
    ("timestamp", if f.timestamp = [] then "\"\"" else "set"),
    ("force_prod_wipeout", b f.forceProdWipeout), ("overwrite", b f.overwrite), ("keep_going", b f.keepGoing),
    ("key_dir", s f.keyDir), ("bucket_root", s f.bucketRoot), ("bucket", s f.bucket), ("cert_dir", s f.certDir),
    ("root_path", s f.rootPath) ]

/-- defaults of the three big.Int flags (bigintVar stores them when the flag is DEFINED) -/
def rootSerialDefault : Int := 1
def signSerialDefault : Int := 2
def overrideDefault : Int := 0

/-- Which components the application composes around the core commands (cmd.AppComponents.Global). -/
structure Wiring where
  ca : CAKind            -- memca | gcsca behind localca.T
  km : KMKind            -- memkm.T | localkm.T
  seq : Bool             -- Gen.CertConsts.rotateSequential
  guard : Bool := true   -- gcsca.upload after its two "fix:" commits
deriving Repr

/-- localca.T.InitContext runs checkCerts for every command but bootstrap (`Cfg.cli`). -/
def Wiring.cfg (W : Wiring) : Cfg := ⟨W.ca, W.km, W.seq, W.ca == .gcsca, W.guard⟩

structure Env where
  now : Int × Nat                      -- time.Now() when PersistentPreRunE runs
  statDir : String → Option Bool       -- os.Stat(path): none = error, some b = exists, b = IsDir()

/-! ## phase 1: flag parsing (cobra calls the flag values' Set) -/

structure Parsed where
  rootSerial : Int
  signSerial : Int
  override : Int
  ts : Int × Nat
deriving Repr, DecidableEq

def parseFlags (pt : String → Option (Int × Nat)) (f : CliFlags) : Outcome Parsed :=
  match f.sub with
  | .bootstrap =>
    match bigintSetAll rootSerialDefault f.rootKeySerial with
    | .err e => .err e
    | .panic s => .panic s
    | .ok rs =>
      match bigintSetAll signSerialDefault f.initialSigningKeySerial with
      | .err e => .err e
      | .panic s => .panic s
      | .ok ss =>
        match timeSetAll pt zeroTime f.timestamp with
        | .err e => .err e
        | .panic s => .panic s
        | .ok ts => .ok ⟨rs, ss, overrideDefault, ts⟩
  | .rotate =>
    match bigintSetAll overrideDefault f.rotatedKeySerialOverride with
    | .err e => .err e
    | .panic s => .panic s
    | .ok ov =>
      match timeSetAll pt zeroTime f.timestamp with
      | .err e => .err e
      | .panic s => .panic s
      | .ok ts => .ok ⟨rootSerialDefault, signSerialDefault, ov, ts⟩
  | .wipeout => .ok ⟨rootSerialDefault, signSerialDefault, overrideDefault, zeroTime⟩

/-! ## phase 2: PersistentPreRunE of Compose(app.Global, core command, app.<Command>) -/

/-- go: localkm.T.PersistentPreRunE -/
def keyDirCheck (W : Wiring) (E : Env) (f : CliFlags) : Outcome Unit :=
  match W.km with
  | .memkm => .ok ()
  | .localkm =>
    match E.statDir f.keyDir with
    | none => .err "prerun:key_dir-stat"
    | some false => .err "prerun:key_dir-not-a-directory"
    | some true => .ok ()

/-- go: gcsca.CertificateAuthority.PersistentPreRunE, first statement: `--root_path` may be derived from the
    bootstrap's root common name (only a bootstrap has a BootstrapContext). -/
def resolvedRootPath (f : CliFlags) : String :=
  if f.rootPath ≠ "" then f.rootPath
  else if f.sub = .bootstrap ∧ f.rootKeyCn ≠ "" then f.rootKeyCn ++ ".crt"
  else ""

/-- The store a command line addresses. -/
structure Site where
  bucketRoot : String
  bucket : String
  certDir : String
  rootPath : String
deriving DecidableEq, Repr

def b01 (b : Bool) : String := if b then "1" else "0"

/-- go: gcsca.CertificateAuthority.PersistentPreRunE — multierr.Combine of the three MustBeNonempty checks (all
    three are evaluated; the class names which were empty: bucket, root_path, cert_dir). -/
def siteCheck (W : Wiring) (f : CliFlags) : Outcome (Option Site) :=
  match W.ca with
  | .memca => .ok none
  | .gcsca =>
    if f.bucket = "" ∨ resolvedRootPath f = "" ∨ f.certDir = "" then
      .err ("prerun:nonempty-" ++ b01 (f.bucket == "") ++ b01 (resolvedRootPath f == "") ++ b01 (f.certDir == ""))
    else .ok (some ⟨f.bucketRoot, f.bucket, f.certDir, resolvedRootPath f⟩)

/-- go: BootstrapCommand.PersistentPreRunE / RotateCommand.PersistentPreRunE: `if Now.IsZero() { Now = time.Now() }` -/
def nowOf (E : Env) (ts : Int × Nat) : Int × Nat := if ts = zeroTime then E.now else ts

/-- ComposedComponent.PersistentPreRunE: app.Global (key manager, then certificate authority), the core command,
    the application's command component (nothing in the nonprod application). -/
def preRun (W : Wiring) (E : Env) (f : CliFlags) (p : Parsed) : Outcome (Option Site × (Int × Nat)) :=
  match keyDirCheck W E f with
  | .err e => .err e
  | .panic s => .panic s
  | .ok _ =>
    match siteCheck W f with
    | .err e => .err e
    | .panic s => .panic s
    | .ok site => .ok (site, nowOf E p.ts)

/-! ## phase 3: InitContext, and what the library is handed -/

structure BootCtx where
  rootCn : String
  signCn : String
  rootSerial : Int
  signSerial : Int
  now : Int × Nat
deriving Repr, DecidableEq

structure RotCtx where
  cn : String
  serial : Int         -- after RotateCommand.InitContext (never 0 when the default was available)
  now : Int × Nat
deriving Repr, DecidableEq

structure WipeCtx where
  force : Bool
  ca : Bool
  keys : Bool
deriving Repr, DecidableEq

/-- The context rotate.Bootstrap / rotate.Key / rotate.Wipeout run in: output options (`Flags`), the command's own
    context, the store and key directory of the wiring. -/
inductive LibCmd where
  | bootstrap (o : Flags) (c : BootCtx)
  | rotate (o : Flags) (c : RotCtx)
  | wipeout (o : Flags) (c : WipeCtx)

structure Handed where
  cmd : LibCmd
  site : Option Site
  keyDir : String

/-- go: RotateCommand.InitContext — `if skc.SigningKeySerial.Cmp(big.NewInt(0)) == 0 { … sops.NextSigningKeySerial }` -/
def rotateSerial (ca : CA) (override : Int) : Option Int :=
  if override = 0 then (resolveSerial ca none).map Int.ofNat else some override

/-- go: makeWipeoutCmd's RunE: `if len(args) == 0 || args[0] == "ca" { wc.CA = true }`, the same for "keys". -/
def wipeSel (args : List String) (what : String) : Bool :=
  match args with
  | [] => true
  | a :: _ => a == what

/-- ComposeRun / makeWipeoutCmd.RunE up to the call of the library: app.Global.InitContext (localkm.Init and
    memkm.InitContext cannot fail on a key directory written by localkm; localca.InitContext: checkCerts unless
    bootstrapping), the core command's InitContext, the application's. -/
def initCtx (W : Wiring) (s : State) (f : CliFlags) (p : Parsed) (now : Int × Nat) : Outcome LibCmd :=
  match f.sub with
  | .bootstrap => .ok (.bootstrap ⟨f.overwrite, f.keepGoing⟩ ⟨f.rootKeyCn, f.signingKeyCn, p.rootSerial, p.signSerial, now⟩)
  | .rotate =>
    if cliBlocked W.cfg s.ca then .err "init:check-certs"
    else
      match rotateSerial s.ca p.override with
      | none => .err "init:next-serial"
      | some n => .ok (.rotate ⟨f.overwrite, f.keepGoing⟩ ⟨f.signingKeyCn, n, now⟩)
  | .wipeout =>
    if cliBlocked W.cfg s.ca then .err "init:check-certs"
    else .ok (.wipeout ⟨f.overwrite, f.keepGoing⟩ ⟨f.forceProdWipeout, wipeSel f.args "ca", wipeSel f.args "keys"⟩)

/-- The context with which the library is entered, or the rejection.  Error classes carry the phase:
    `parse:…` (cobra), `prerun:…`, `init:…`. -/
def cmdOf (W : Wiring) (pt : String → Option (Int × Nat)) (E : Env) (s : State) (f : CliFlags) : Outcome Handed :=
  match parseFlags pt f with
  | .err e => .err e
  | .panic x => .panic x
  | .ok p =>
    match preRun W E f p with
    | .err e => .err e
    | .panic x => .panic x
    | .ok (site, now) =>
      match initCtx W s f p now with
      | .err e => .err e
      | .panic x => .panic x
      | .ok c => .ok ⟨c, site, f.keyDir⟩

/-! ## phase 4: the library, with the refusals of crypto/x509 explicit -/

/-- seconds from 0000-01-01T00:00:00Z to the Unix epoch: model time is seconds since year 0 (every RFC 3339 time
    whose UTC year is not negative is a natural number) -/
def epochShift : Int := 62167219200
/-- 10000-01-01T00:00:00Z in model time: encoding/asn1 cannot represent years above 9999 -/
def y10k : Nat := 315569520000

def modelTime (t : Int × Nat) : Nat := (t.1 + epochShift).toNat

/-- x509.CreateCertificate refuses a negative serial number ("serial number must be positive"); asn1.Marshal of
    the validity refuses a UTC year below 0 or above 9999 ("cannot represent time as GeneralizedTime"). -/
def refused (serial : Int) (now : Int × Nat) (t : Tmpl) : Bool :=
  decide (serial < 0) || decide (now.1 + epochShift < 0) || decide (y10k ≤ t.notAfter)

def bootArgs (c : BootCtx) : BootArgs := ⟨c.rootCn, c.signCn, c.rootSerial.toNat, c.signSerial.toNat, modelTime c.now⟩

/-- go: rotate.Bootstrap after both keys were created — `KeyHistory.bootCerts` with the refusal of each of the two
    x509.CreateCertificate calls explicit. -/
def bootCertsX (cfg : Cfg) (f : Flags) (c : BootCtx) (km : KM) (rootKey firstKey : Nat) (stored : CA) : CA × Bool :=
  match rootTemplate cfg (bootView cfg stored) (.boot (bootArgs c)) rootKey with
  | none => (bootView cfg stored, false)
  | some rt =>
    if refused c.rootSerial c.now rt then (bootView cfg stored, false)
    else
      match signCert km none rootName rt with
      | none => (bootView cfg stored, false)
      | some rc =>
        match signingTemplate (bootPutRoot cfg (bootView cfg stored) rc) (.boot (bootArgs c)) firstKey with
        | none => (bootPutRoot cfg (bootView cfg stored) rc, false)
        | some st =>
          if refused c.signSerial c.now st then (bootPutRoot cfg (bootView cfg stored) rc, false)
          else
            match signCert km (some rc) rootName st with
            | none => (bootPutRoot cfg (bootView cfg stored) rc, false)
            | some sc => bootCommit cfg f stored (bootPutRoot cfg (bootView cfg stored) rc) rc sc

/-- go: rotate.Bootstrap -/
def bootstrapX (cfg : Cfg) (f : Flags) (c : BootCtx) (s : State) : State × Bool :=
  if keyExists f s.km rootName then (s, false)
  else if keyExists f (s.km.gen rootName) firstName then ({ s with km := s.km.gen rootName }, false)
  else
    (⟨(s.km.gen rootName).gen firstName,
      (bootCertsX cfg f c ((s.km.gen rootName).gen firstName) s.km.next (s.km.next + 1) s.ca).1⟩,
     (bootCertsX cfg f c ((s.km.gen rootName).gen firstName) s.km.next (s.km.next + 1) s.ca).2)

/-- go: keyRequest.signAndAdd — `KeyHistory.rotCert` with the refusal explicit -/
def rotCertX (cfg : Cfg) (s : State) (c : RotCtx) : Option Cert :=
  if rotGuard cfg s.ca then
    match signingTemplate s.ca (.rot c.cn c.serial.toNat (modelTime c.now)) s.km.next with
    | some t =>
      if refused c.serial c.now t then none
      else signCert (s.km.gen (bump s.ca.primarySigning)) (bundle cfg s.ca) s.ca.primaryRoot t
    | none => none
  else none

/-- go: rotate.Key, all five steps evaluated, for the certificate `oc` step 2 produced (`KeyHistory.rotateEager`) -/
def rotateEagerWith (cfg : Cfg) (f : Flags) (s : State) (oc : Option Cert) : State × Bool :=
  if rotGuard cfg s.ca then
    (⟨destroyOld (s.km.gen (bump s.ca.primarySigning)) s.ca.primarySigning,
      (caAfterRotate cfg f s.ca (bump s.ca.primarySigning) oc).1⟩,
     oc.isSome
       && destroyOldOk cfg (s.km.gen (bump s.ca.primarySigning)) s.ca.primarySigning
       && (caAfterRotate cfg f s.ca (bump s.ca.primarySigning) oc).2)
  else ({ s with km := s.km.gen (bump s.ca.primarySigning) }, false)

/-- go: rotate.Key stopping at the first error (`KeyHistory.rotateSeq`) -/
def rotateSeqWith (cfg : Cfg) (f : Flags) (s : State) (oc : Option Cert) : State × Bool :=
  match oc with
  | none => ({ s with km := s.km.gen (bump s.ca.primarySigning) }, false)
  | some c =>
    if (caAfterRotate cfg f s.ca (bump s.ca.primarySigning) (some c)).2 then
      (⟨destroyOld (s.km.gen (bump s.ca.primarySigning)) s.ca.primarySigning,
        (caAfterRotate cfg f s.ca (bump s.ca.primarySigning) (some c)).1⟩,
       destroyOldOk cfg (s.km.gen (bump s.ca.primarySigning)) s.ca.primarySigning)
    else
      (⟨s.km.gen (bump s.ca.primarySigning),
        (caAfterRotate cfg f s.ca (bump s.ca.primarySigning) (some c)).1⟩, false)

def rotateKeyX (cfg : Cfg) (f : Flags) (s : State) (c : RotCtx) : State × Bool :=
  if cfg.seq then rotateSeqWith cfg f s (rotCertX cfg s c) else rotateEagerWith cfg f s (rotCertX cfg s c)

/-- The library call.  (The checkCerts pre-check and the serial default already happened in `initCtx`.) -/
def libStep (cfg : Cfg) (s : State) : LibCmd → State × Bool
  | .bootstrap f c => bootstrapX cfg f c s
  | .rotate f c => rotateKeyX cfg f s c
  | .wipeout _ c => (wipeout s c.ca c.keys, true)

/-- The context is one crypto/x509 accepts: serial numbers are not negative, the validity can be encoded. -/
def representable : LibCmd → Bool
  | .bootstrap _ c =>
    decide (0 ≤ c.rootSerial) && decide (0 ≤ c.signSerial) && decide (0 ≤ c.now.1 + epochShift) &&
      decide (modelTime c.now + Gen.CertConsts.rootValidDays * daySeconds < y10k)
  | .rotate _ c =>
    decide (0 ≤ c.serial) && decide (0 ≤ c.now.1 + epochShift) &&
      decide (modelTime c.now + Gen.CertConsts.rootValidDays * daySeconds < y10k)
  | .wipeout _ _ => true

/-- The command of the KeyHistory model that a context names. -/
def toCmd : LibCmd → Cmd
  | .bootstrap f c => .bootstrap f (bootArgs c)
  | .rotate f c => .rotate f ⟨c.cn, some c.serial.toNat, modelTime c.now⟩
  | .wipeout f c => .wipeout f c.ca c.keys

/-- One command line. -/
def cliStep (W : Wiring) (pt : String → Option (Int × Nat)) (E : Env) (s : State) (f : CliFlags) : State × Bool :=
  match cmdOf W pt E s f with
  | .ok h => libStep W.cfg s h.cmd
  | .err _ => (s, false)
  | .panic _ => (s, false)

/-- A history of command lines, each with the environment it ran in. -/
def cliRun (W : Wiring) (pt : String → Option (Int × Nat)) (s : State) (h : List (Env × CliFlags)) : State :=
  h.foldl (fun s l => (cliStep W pt l.1 s l.2).1) s

end GceTcb.KeyCli
