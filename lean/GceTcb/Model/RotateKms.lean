import GceTcb.Model.Rotate
/-
Model of key rotation on the Cloud KMS stack: keys/gcpkms/rotate.go (CreateNewSigningKeyVersion,
DestroyKeyVersion), keys/gcpkms/bootstrap.go (waitForKeyVersionGen), keys/gcpkms/sign.go (Signer.PublicKey,
Signer.Sign with its integrity handshake), keys/gcpkms/keys.go (CertificateTemplate =
rotate.GoogleCertificateTemplate: no external call) under rotate/rotate.go (Key) and the certificate
authorities of Model/CA.lean, as the ordered list of external calls.  Core-only.

Cloud KMS itself is a parameter: a cryptoKey is a list of versions numbered 1, 2, … in creation order
(numbers are never reused).  What state CreateCryptoKeyVersion creates the version in is part of the
environment (`KmsEnv.created`): PENDING_GENERATION for `gen` polls and then `final` (ENABLED unless the
environment says otherwise) — the behaviour documented for asymmetric keys —, or directly ENABLED, DISABLED or
GENERATION_FAILED with no generation phase.  The state the RESPONSE of CreateCryptoKeyVersion reports is the
created state unless the environment overrides it (`KmsEnv.resp`); the Go code never looks at it.  An ENABLED
version answers GetPublicKey / AsymmetricSign; whether (and with which key) GetPublicKey answers for a
DISABLED version is a parameter of the environment (`KmsEnv.pubDisabled`: Cloud KMS's real answer is not
known here); AsymmetricSign is refused for every state but ENABLED.  DestroyCryptoKeyVersion moves an ENABLED
or DISABLED version to DESTROY_SCHEDULED and is refused in every other state.  ENABLED versions are the
entries of `St.keys` (name ↦ key material), all other versions are in `St.kdead`.
-/
namespace GceTcb.CA

/-- what a poll reports — go: the `switch updated.GetState()` of waitForKeyVersionGen; also what the
    response of CreateCryptoKeyVersion reports (`key.GetState()`, which the Go code does not read) -/
inductive KObs where
  | enabled | pending | other
deriving DecidableEq, Repr

/-- the state CreateCryptoKeyVersion creates the new version in -/
inductive KInit where
  | pending      -- PENDING_GENERATION with countdown `gen`, then `final`
  | enabled      -- ENABLED at once, usable
  | disabled     -- DISABLED at once (has key material, is not usable)
  | genFailed    -- GENERATION_FAILED at once
deriving DecidableEq, Repr

/-- the environment of one run on the Cloud KMS stack -/
structure KmsEnv where
  parent : String                  -- gcpkms.Manager.FullKeyName(SigningKeyContext.SigningKeyID)
  gen : Nat := 0                   -- polls that still answer PENDING_GENERATION for a new version
  final : Option KState := none    -- what a new version becomes after generation (`none`: ENABLED)
  deadline : Bool := false         -- the context expires while waitForKeyVersionGen sleeps
  corrupt : Bool := false          -- AsymmetricSign's response fails one of the three integrity checks
  created : KInit := .pending      -- the state a new version is created in
  resp : Option KObs := none       -- state reported by CreateCryptoKeyVersion's response (`none`: the created state)
  pubDisabled : Option Nat := none -- GetPublicKey on a DISABLED version: refused (`none`) or answered with this key
deriving Repr

/-- the created state as a poll / a response would report it -/
def KInit.obs : KInit → KObs
  | .pending => .pending
  | .enabled => .enabled
  | .disabled => .other
  | .genFailed => .other

/-- the created state is one in which the version is or becomes usable -/
def KInit.good : KInit → Bool
  | .pending => true
  | .enabled => true
  | _ => false

/-- an environment in which Cloud KMS itself does nothing wrong (what the response of
    CreateCryptoKeyVersion says and what GetPublicKey does with DISABLED versions play no role) -/
def KmsEnv.benign (env : KmsEnv) : Bool :=
  env.final.isNone && !env.deadline && !env.corrupt && env.created.good

/-- the state the response of CreateCryptoKeyVersion reports -/
def KmsEnv.respObs (env : KmsEnv) : KObs := env.resp.getD env.created.obs

/-- Cloud KMS resource name of version `n` of cryptoKey `parent` -/
def verName (parent : String) (n : Nat) : String :=
  parent ++ "/cryptoKeyVersions/" ++ toString n

/-! ### the Cloud KMS client (kmspb.KeyManagementServiceClient) -/

/-- the service's state after CreateCryptoKeyVersion handed out the name `k` -/
def createVer (env : KmsEnv) (k : String) (s : St) : St :=
  match env.created with
  | .pending => { s with kcount := s.kcount + 1, kdead := (k, .pending env.gen) :: s.kdead }
  | .enabled => { s with kcount := s.kcount + 1, keys := (k, s.nextMat) :: s.keys, nextMat := s.nextMat + 1 }
  | .disabled => { s with kcount := s.kcount + 1, kdead := (k, .disabled) :: s.kdead }
  | .genFailed => { s with kcount := s.kcount + 1, kdead := (k, .genFailed) :: s.kdead }

/-- CreateCryptoKeyVersion, the service's side: the next version number, in the state the environment
    creates versions in -/
def kmsCreateVer (env : KmsEnv) : Run String :=
  wrap .kmsCreate (do
    let s ← getSt
    modSt (createVer env (verName env.parent (s.kcount + 1)))
    pure (verName env.parent (s.kcount + 1)))

/-- CreateCryptoKeyVersion as the client sees it: the name and the state the response reports -/
def kmsCreate (env : KmsEnv) : Run (String × KObs) := do
  let k ← kmsCreateVer env
  pure (k, env.respObs)

/-- GetCryptoKeyVersion: reports the state; generation completes when the countdown has run out -/
def kmsGet (env : KmsEnv) (k : String) : Run KObs :=
  wrap (.kmsGet k) (do
    let s ← getSt
    match lookup s.keys k with
    | some _ => pure .enabled
    | none =>
      match lookup s.kdead k with
      | none => throw
      | some (.pending 0) =>
        (match env.final with
        | none => do
          modSt fun s => { s with keys := (k, s.nextMat) :: s.keys, nextMat := s.nextMat + 1 }
          pure .enabled
        | some st => do
          modSt fun s => { s with kdead := (k, st) :: s.kdead }
          pure .other)
      | some (.pending (n + 1)) => do
        modSt fun s => { s with kdead := (k, .pending n) :: s.kdead }
        pure .pending
      | some _ => pure .other)

/-- GetPublicKey: an ENABLED version has a retrievable public key; a DISABLED one when the environment says so -/
def kmsPub (env : KmsEnv) (k : String) : Run Nat :=
  wrap (.kmsPub k) (do
    let s ← getSt
    match lookup s.keys k with
    | some m => pure m
    | none =>
      match lookup s.kdead k with
      | some .disabled => ofOption env.pubDisabled
      | _ => throw)

/-- AsymmetricSign: returns the material that signed -/
def kmsSign (k : String) : Run Nat :=
  wrap (.kmsSign k) (do let s ← getSt; ofOption (lookup s.keys k))

/-- DestroyCryptoKeyVersion: ENABLED / DISABLED → DESTROY_SCHEDULED, refused otherwise -/
def kmsDestroy (k : String) : Run Unit :=
  wrap (.kmsDestroy k) (do
    let s ← getSt
    match lookup s.keys k with
    | some _ => modSt fun s => { s with keys := erase s.keys k, kdead := (k, .scheduled) :: s.kdead }
    | none =>
      match lookup s.kdead k with
      | some .disabled => modSt fun s => { s with kdead := (k, .scheduled) :: s.kdead }
      | _ => throw)

/-! ### keys/gcpkms -/

/-- go: Manager.waitForKeyVersionGen — poll until ENABLED; PENDING_GENERATION: wait 5 s (or give up when
    the context is done); any other state or a failed poll is an error.  The Go loop has no bound; `fuel`
    is the number of polls this model follows (a version created with countdown `gen` needs `gen + 1`). -/
def kmsWait (env : KmsEnv) (k : String) : Nat → Run String
  | 0 => throw
  | fuel + 1 => do
    let o ← kmsGet env k
    match o with
    | .enabled => pure k
    | .pending => if env.deadline then throw else kmsWait env k fuel
    | .other => throw

/-- go: gcpkms.Manager.CreateNewSigningKeyVersion — the state in the response is not looked at: the
    version is always polled -/
def kmCreateK (env : KmsEnv) : Run String :=
  wrap .kmCreate (do
    let r ← kmsCreate env
    kmsWait env r.1 (env.gen + 1))

/-- CreateNewSigningKeyVersion as changed by seeded/C10-G: "the response already reports the state, so the
    wait is only needed while the key is still being generated" -/
def kmCreateKTrust (env : KmsEnv) : Run String :=
  wrap .kmCreate (do
    let r ← kmsCreate env
    if r.2 = .pending then kmsWait env r.1 (env.gen + 1) else pure r.1)

/-- go: gcpkms.Manager.DestroyKeyVersion -/
def kmDestroyK (k : String) : Run Unit :=
  wrap (.kmDestroy k) (kmsDestroy k)

/-- go: keyRequest.updatePrimaryAndDestroy, last part -/
def destroyOldK (cur : String) : Run Unit :=
  if cur ≠ "" then kmDestroyK cur else pure ()

/-- go: gcpkms.Signer.PublicKey -/
def sgPubK (env : KmsEnv) (k : String) : Run Nat :=
  wrap (.sgPub k) (kmsPub env k)

/-- go: gcpkms.Signer.Sign — the signer options are the ones crypto/x509 passes for SHA256-RSAPSS; after
    the call the signature CRC and the two `verified` flags are checked. -/
def sgSignK (env : KmsEnv) (k : String) : Run Nat :=
  wrap (.sgSign k) (do
    let m ← kmsSign k
    if env.corrupt then throw else pure m)

/-- go: sops.CreateCertificateFromTemplate → x509.CreateCertificate over the Cloud KMS signer -/
def createCertificateK (cfg : Cfg) (env : KmsEnv) (req : Req) (subjPub : Nat) (issuerKey : String)
    (issuer : Option Cert) : Run Cert := do
  let pre ← repeatRun cfg.pubPre (sgPubK env issuerKey)
  if !parentMatches issuer pre then throw
  else do
    let by_ ← sgSignK env issuerKey
    let _ ← repeatRun cfg.pubPost (sgPubK env issuerKey)
    pure ⟨req.cn, req.serial, subjPub, by_⟩

/-- go: rotate.signCert with the Cloud KMS manager: Manager.CertificateTemplate is
    rotate.GoogleCertificateTemplate, which makes no external call -/
def signCertK (cfg : Cfg) (env : KmsEnv) (req : Req) (mu : Mut) (issuer : Cert) (subject issuerKey : String) :
    Run (Mut × Cert) := do
  let subjPub ← sgPubK env subject
  let c ← createCertificateK cfg env req subjPub issuerKey (some issuer)
  let mu' ← mutAddCert cfg mu subject c
  pure (mu', c)

/-- go: rotate.Key with keys.Context{Manager: *gcpkms.Manager, Signer: *gcpkms.Signer} -/
def rotateKeyKms (cfg : Cfg) (env : KmsEnv) (req : Req) : Run String := do
  -- createNewSigningKeyVersion
  let kver ← kmCreateK env
  -- getCurrentInfo
  let (cur, root, issuer) ← getCurrentInfo cfg
  -- signAndAdd
  if root = "" ∨ kver = "" then throw
  else do
    let (mu, _) ← signCertK cfg env req {} issuer kver root
    -- updatePrimaryAndDestroy
    let mu ← mutSetPrimary cfg mu kver
    caFinalize cfg mu mu.certs
    destroyOldK cur
    pure kver

/-- A variant that destroys the old version BEFORE Finalize (the order of rotate.Key before its fix),
    kept to show that the theorems depend on the order also on this stack. -/
def rotateKeyKmsEarlyDestroy (cfg : Cfg) (env : KmsEnv) (req : Req) : Run String := do
  let kver ← kmCreateK env
  let (cur, root, issuer) ← getCurrentInfo cfg
  if root = "" ∨ kver = "" then throw
  else do
    let (mu, _) ← signCertK cfg env req {} issuer kver root
    let mu ← mutSetPrimary cfg mu kver
    destroyOldK cur
    caFinalize cfg mu mu.certs
    pure kver

/-- rotate.Key over the changed CreateNewSigningKeyVersion (`kmCreateKTrust`), kept for the witness
    `C10_kms_trust_response_breaks` -/
def rotateKeyKmsTrustResponse (cfg : Cfg) (env : KmsEnv) (req : Req) : Run String := do
  let kver ← kmCreateKTrust env
  let (cur, root, issuer) ← getCurrentInfo cfg
  if root = "" ∨ kver = "" then throw
  else do
    let (mu, _) ← signCertK cfg env req {} issuer kver root
    let mu ← mutSetPrimary cfg mu kver
    caFinalize cfg mu mu.certs
    destroyOldK cur
    pure kver

end GceTcb.CA
