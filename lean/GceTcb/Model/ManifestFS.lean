import GceTcb.Model.Manifest
/-
C13 over full paths: an endorse run (manifest mode and snapshot mode) on the files visible through the
version-control abstraction, for ARBITRARY root, --out_dir, --snapshot_dir, image name and candidate
name. Every path is computed the way endorse/commit.go computes it, through the model of Go's
path.Clean / path.Join (Model/Paths.lean): `defaultGenerateBasename` (clean + name test), `releasePath`
(`fullOut`), the manifest path, the snapshot paths (`snapTargets`). Core-only.

The file system is a finite map from path texts to contents (file granularity: a write to a path
succeeds and replaces what was there; a path is never both a file and a directory).
-/
namespace GceTcb.Manifest
open GceTcb.Paths

/-- The directories of a history: how the back end's ReleasePath works, its root, --out_dir. -/
structure Dirs where
  mode : RelMode
  root : String
  outDir : String
deriving Repr

/-- What a file holds, as far as the property looks: a serialized signed endorsement (with the firmware
    digest its golden measurement carries), a manifest text (with its entries), anything else (firmware
    image, event log, S_CRTM version). -/
inductive Content where
  | endorsement (digest : String)
  | manifest (m : List Entry)
  | blob
deriving Repr, DecidableEq

abbrev FS := List (String × Content)

def look (fs : FS) (p : String) : Option Content := (fs.find? (fun q => q.1 == p)).map (·.2)

def put (fs : FS) (p : String) (c : Content) : FS := (p, c) :: fs.filter (fun q => q.1 != p)

/-- One endorse run: candidate name, firmware digest, time, --overwrite, --snapshot_dir ("" = manifest
    mode, as in `if ec.SnapshotDir != ""`), image name, whether an SVSM image and an S_CRTM version
    are snapshotted too. -/
structure RunP where
  cand : String
  digest : String
  time : String
  overwrite : Bool
  snapDir : String := ""
  imageName : String := ""
  svsm : Bool := false
  scrtm : Bool := false
deriving Repr

/-- go: endorse.releasePath(ctx, b) -/
def fullOut (d : Dirs) (b : String) : String := outPath d.mode d.root d.outDir b

/-- go: prototext.Unmarshal of what ReadFile(manifest path) returned: absent = empty map; anything
    but a manifest text does not parse. -/
def readM (fs : FS) (p : String) : Option (List Entry) :=
  match look fs p with
  | none => some []
  | some (.manifest m) => some m
  | some _ => none

/-- go: endorse.snapshotEndorsement — the files written, in order, with what they hold. -/
def snapTargets (d : Dirs) (r : RunP) : List (String × Content) :=
  let fw := release d.mode d.root (pjoin [r.snapDir, r.imageName])
  let sv := release d.mode d.root (pjoin [r.snapDir, "svsm.igvm"])
  (snapSigs fw sv r.svsm).map (fun p => (p, Content.endorsement r.digest)) ++
  (snapFiles fw sv r.svsm r.scrtm).map (fun p => (p, Content.blob))

def putAll (fs : FS) (ts : List (String × Content)) : FS := ts.foldl (fun fs t => put fs t.1 t.2) fs

/-- go: endorse.changeEndorsements (not dry-run) with a back end that commits every write:
    snapshot mode writes the snapshot files and nothing else; manifest mode reads and parses the
    manifest, computes and tests the cleaned basename, probes the file (existing without --overwrite
    is an error), writes the endorsement, merges the entry and writes the manifest. -/
def endorseRunP (d : Dirs) (fs : FS) (r : RunP) : FS × Bool :=
  if r.snapDir != "" then (putAll fs (snapTargets d r), true)
  else
    match readM fs (fullOut d manifestFile) with
    | none => (fs, false)
    | some m =>
      if !nameOk r.cand then (fs, false)
      else if (look fs (fullOut d (basename r.cand))).isSome && !r.overwrite then (fs, false)
      else
        (put (put fs (fullOut d (basename r.cand)) (.endorsement r.digest)) (fullOut d manifestFile)
          (.manifest (addEntry m ⟨basename r.cand, r.digest, r.time⟩)), true)

def runAllP (d : Dirs) (fs : FS) (rs : List RunP) : FS := rs.foldl (fun fs r => (endorseRunP d fs r).1) fs

/-- The same run on the code BEFORE `fix: refuse candidate names …` (no name test), kept to show that
    the test is what makes the invariant hold (`C13_name_test_needed`). -/
def endorseRunNoTest (d : Dirs) (fs : FS) (r : RunP) : FS × Bool :=
  if r.snapDir != "" then (putAll fs (snapTargets d r), true)
  else
    match readM fs (fullOut d manifestFile) with
    | none => (fs, false)
    | some m =>
      if (look fs (fullOut d (basename r.cand))).isSome && !r.overwrite then (fs, false)
      else
        (put (put fs (fullOut d (basename r.cand)) (.endorsement r.digest)) (fullOut d manifestFile)
          (.manifest (addEntry m ⟨basename r.cand, r.digest, r.time⟩)), true)

end GceTcb.Manifest
