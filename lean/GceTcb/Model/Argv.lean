/-
Model of argv tokenising as the repository's tools get it from spf13/pflag v1.0.5 and spf13/cobra v1.8.0 (the versions
pinned by go.mod / gcetcbendorsement/go.mod; `Gen.ArgvFlags.versions`).  Core-only.

    argv ──Find | Traverse──▶ command  ──ParseFlags (pflag parseArgs)──▶ flag occurrences in order + positionals
         ──help? runnable? Args validator──▶  `Res`: the hooks run on (command, occurrences, positionals) | help | error

pflag (flag.go): `FlagSet.parseArgs`, `parseLongArg`, `parseShortArg`, `parseSingleShortArg`, transcribed branch for
branch (including `-test.*` being skipped, `--help` / `-h` of a set WITHOUT a help flag yielding `ErrHelp`, and
`parseShortArg` handing the ORIGINAL rest to every shorthand of a group).  cobra (command.go, args.go, completions.go):
`stripFlags`, `argsMinusFirstX`, `hasNoOptDefVal`, `shortHasNoOptDefVal`, `isFlagArg`, `Find`, `findNext`, `legacyArgs`,
`Traverse`, `ParseFlags`, `mergePersistentFlags` (as a lookup order), `InitDefaultHelpFlag`, `InitDefaultHelpCmd`,
`InitDefaultCompletionCmd`, `initCompleteCmd`, `ExecuteC`, `execute` up to the hooks, `ValidateArgs` with `NoArgs`,
`MinimumNArgs`, `ArbitraryArgs`.

A token is a `List Char`.  Go compares BYTES: `len(s) == 2` in `stripFlags` / `Traverse` / `argsMinusFirstX` is a byte
length, so `-é` is not a one-letter shorthand there although pflag itself then reports the unknown shorthand 'Ã';
`asciiShort` makes that explicit.  ASSUMPTIONS (stated where used): argv is valid UTF-8 (a Lean `String`); registered
shorthands are ASCII (pflag panics on others when the flag is defined); no flag is named `help` or has the shorthand `h`
(cobra's `InitDefaultHelpFlag` would keep the program's own / panic); the command tree is FRESH — one `Execute` per
process, as the shipped binaries do (cobra's heuristics consult flag sets that earlier calls may have extended by
merging or by the help flag); `cobra.EnablePrefixMatching`, `EnableCaseInsensitive`, normalisation functions,
`FParseErrWhitelist`, `SetInterspersed(false)`, `DisableFlagParsing` (except on cobra's own `__complete`), `Version`,
required flags and flag groups are not used by the repository (`Gen.ArgvFlags.settings` pins that).

What a flag's `Set` does with a value text is NOT part of tokenising: `Res` carries the occurrences up to the point where
tokenising stopped, and `firstBad` (below) puts the first refused `Set` in front of whatever tokenising says later — the
order pflag observes.
-/
namespace GceTcb.Argv

abbrev Tok := List Char

/-- One row of a flag set: pflag.Flag's Name, Shorthand, NoOptDefVal ("" = the flag needs a value). -/
structure FlagSpec where
  name : Tok
  short : Option Char := none
  noOpt : Tok := []
deriving DecidableEq, Repr

abbrev Occ := Tok × Tok

/-- Error classes (the texts pflag / cobra format; the harness classifies by these substrings). -/
inductive Err where
  | badSyntax         -- "bad flag syntax: %s"
  | unknownFlag       -- "unknown flag: --%s"
  | unknownShorthand  -- "unknown shorthand flag: %q in -%s"
  | needsArg          -- "flag needs an argument: …"
  | helpRequested     -- pflag.ErrHelp from a flag set that has no help flag (cobra: a parent during Traverse)
  | unknownCommand    -- legacyArgs / NoArgs: "unknown command %q for %q"
  | tooFewArgs        -- MinimumNArgs: "requires at least %d arg(s), only received %d"
  | badValue          -- a flag's Set refused: "invalid argument %q for %q flag: …"
deriving DecidableEq, Repr

def Err.tag : Err → String
  | .badSyntax => "bs" | .unknownFlag => "uf" | .unknownShorthand => "us" | .needsArg => "na"
  | .helpRequested => "eh" | .unknownCommand => "uc" | .tooFewArgs => "av" | .badValue => "iv"

/-! ## pflag -/

/-- go: f.formal[name] -/
def lookupLong (fs : List FlagSpec) (n : Tok) : Option FlagSpec := fs.find? (fun f => f.name == n)

/-- go: f.shorthands[c] -/
def lookupShort (fs : List FlagSpec) (c : Char) : Option FlagSpec := fs.find? (fun f => f.short == some c)

/-- go: strings.SplitN(name, "=", 2) -/
def splitEq : Tok → Tok × Option Tok
  | [] => ([], none)
  | c :: cs => if c = '=' then ([], some cs) else ((c :: (splitEq cs).1), (splitEq cs).2)

def helpName : Tok := "help".toList
def testPrefix : Tok := "test.".toList

/-- What one argv word (with sight of the next word) amounts to. -/
inductive Step where
  | pos                                   -- a positional argument
  | dashdash                              -- "--"
  | flags (os : List Occ) (took : Bool)   -- occurrences; `took`: the next word was consumed as a value
  | err (os : List Occ) (e : Err)         -- occurrences set before the error
deriving DecidableEq, Repr

/-- go: FlagSet.parseLongArg on `--name…` (`name` = s[2:], not empty). -/
def parseLong (fs : List FlagSpec) (name : Tok) (next : Option Tok) : Step :=
  match name with
  | [] => .err [] .badSyntax
  | c :: _ =>
    if c = '-' ∨ c = '=' then .err [] .badSyntax
    else
      match lookupLong fs (splitEq name).1 with
      | none => if (splitEq name).1 = helpName then .err [] .helpRequested else .err [] .unknownFlag
      | some f =>
        match (splitEq name).2 with
        | some v => .flags [(f.name, v)] false
        | none =>
          if f.noOpt ≠ [] then .flags [(f.name, f.noOpt)] false
          else
            match next with
            | some v => .flags [(f.name, v)] true
            | none => .err [] .needsArg

/-- prepend an occurrence to what the rest of a shorthand group yields -/
def Step.cons (o : Occ) : Step → Step
  | .flags os t => .flags (o :: os) t
  | .err os e => .err (o :: os) e
  | s => s

/-- go: FlagSet.parseShortArg — the loop over `parseSingleShortArg` on s[1:]. -/
def parseShorts (fs : List FlagSpec) (next : Option Tok) : List Char → Step
  | [] => .flags [] false
  | c :: outs =>
    if testPrefix.isPrefixOf (c :: outs) then .flags [] false
    else
      match lookupShort fs c with
      | none => if c = 'h' then .err [] .helpRequested else .err [] .unknownShorthand
      | some f =>
        match outs with
        | '=' :: v :: vs => .flags [(f.name, v :: vs)] false          -- '-f=arg'
        | _ =>
          if f.noOpt ≠ [] then (parseShorts fs next outs).cons (f.name, f.noOpt)   -- '-f' (arg was optional)
          else if outs ≠ [] then .flags [(f.name, outs)] false         -- '-farg'
          else
            match next with
            | some v => .flags [(f.name, v)] true                       -- '-f arg'
            | none => .err [] .needsArg

/-- go: the head of the loop of FlagSet.parseArgs: `len(s) == 0 || s[0] != '-' || len(s) == 1` is a positional. -/
def classify (fs : List FlagSpec) (s : Tok) (next : Option Tok) : Step :=
  match s with
  | ['-', '-'] => .dashdash
  | '-' :: '-' :: name => parseLong fs name next
  | '-' :: c :: cs => parseShorts fs next (c :: cs)
  | _ => .pos

/-- The state pflag is left in: occurrences in the order `Set` was called, `FlagSet.Args()`, the error. -/
structure Parse where
  occs : List Occ := []
  pos : List Tok := []
  err : Option Err := none
deriving DecidableEq, Repr

def Parse.addOccs (os : List Occ) (p : Parse) : Parse := { p with occs := os ++ p.occs }
def Parse.addPos (s : Tok) (p : Parse) : Parse := { p with pos := s :: p.pos }

/-- go: FlagSet.parseArgs (`inter` = f.interspersed; cobra leaves it true). -/
def parseArgs (fs : List FlagSpec) (inter : Bool) : List Tok → Parse
  | [] => {}
  | s :: rest =>
    match classify fs s rest.head? with
    | .pos => if inter then (parseArgs fs inter rest).addPos s else { pos := s :: rest }
    | .dashdash => { pos := rest }
    | .err os e => { occs := os, err := some e }
    | .flags os false => (parseArgs fs inter rest).addOccs os
    | .flags os true =>
      match rest with
      | [] => { occs := os }
      | _ :: rest' => (parseArgs fs inter rest').addOccs os

/-! ## cobra: the command tree -/

inductive ArgsV where
  | legacy            -- Args == nil
  | noArgs            -- cobra.NoArgs
  | minN (n : Nat)    -- cobra.MinimumNArgs(n)
deriving DecidableEq, Repr

/-- One command: its path of names from the root (the root: []). -/
structure Cmd where
  path : List Tok
  aliases : List Tok := []
  lflags : List FlagSpec := []      -- defined through cmd.Flags()
  pflags : List FlagSpec := []      -- defined through cmd.PersistentFlags()
  runnable : Bool := true           -- Run != nil || RunE != nil
  args : ArgsV := .legacy
  noParse : Bool := false           -- DisableFlagParsing
  hook : Bool := false              -- PersistentPreRunE != nil || PersistentPreRun != nil
deriving DecidableEq, Repr

structure Tree where
  cmds : List Cmd
  traverse : Bool := false          -- root.TraverseChildren
  runHooks : Bool := false          -- cobra.EnableTraverseRunHooks
deriving Repr

def Tree.cmd (T : Tree) (p : List Tok) : Option Cmd := T.cmds.find? (fun c => c.path == p)

/-- the prefixes of a path, longest first: the command, its parent, …, the root -/
def upward : List Tok → List (List Tok)
  | [] => [[]]
  | a :: l => (upward l).map (a :: ·) ++ [[]]

def Tree.pflagsOf (T : Tree) (p : List Tok) : List FlagSpec :=
  match T.cmd p with
  | some c => c.pflags
  | none => []

def Tree.lflagsOf (T : Tree) (p : List Tok) : List FlagSpec :=
  match T.cmd p with
  | some c => c.lflags
  | none => []

/-- go: c.Flags() after mergePersistentFlags: the command's own flags, its persistent flags, then the persistent
    flags of the parents, nearest first; a name already present is not added again (`lookupLong` takes the first). -/
def Tree.merged (T : Tree) (p : List Tok) : List FlagSpec :=
  T.lflagsOf p ++ (upward p).flatMap T.pflagsOf

/-- go: InitDefaultHelpFlag: `--help` / `-h`, Bool, unless the set has a flag named help. -/
def helpSpec : FlagSpec := { name := helpName, short := some 'h', noOpt := "true".toList }

def Tree.withHelp (T : Tree) (p : List Tok) : List FlagSpec :=
  if (lookupLong (T.merged p) helpName).isSome then T.merged p else T.merged p ++ [helpSpec]

def hasSubs (T : Tree) (p : List Tok) : Bool := T.cmds.any (fun c => c.path != [] && c.path.dropLast == p)

/-- go: Command.findNext (no prefix matching): the first child whose name or alias is the word. -/
def findNext (T : Tree) (p : List Tok) (w : Tok) : Option Cmd :=
  T.cmds.find? (fun c => c.path != [] && c.path.dropLast == p && (c.path.getLast? == some w || c.aliases.contains w))

/-! ## cobra: looking for the command -/

def hasDash : Tok → Bool
  | '-' :: _ => true
  | _ => false

def hasDashDash : Tok → Bool
  | '-' :: '-' :: _ => true
  | _ => false

def hasEq (s : Tok) : Bool := s.contains '='

/-- go: hasNoOptDefVal(s[2:], flags) -/
def longNoOpt (fs : List FlagSpec) (s : Tok) : Bool :=
  match lookupLong fs (s.drop 2) with
  | some f => f.noOpt != []
  | none => false

/-- go: `len(s) == 2 && !shortHasNoOptDefVal(s[1:], flags)` for a word that starts with "-": two BYTES. -/
def shortTakesValue (fs : List FlagSpec) (s : Tok) : Bool :=
  match s with
  | [_, c] =>
    c.toNat < 128 &&
      (match lookupShort fs c with
       | some f => f.noOpt == []
       | none => true)
  | _ => false

/-- The first two `case`s of stripFlags / argsMinusFirstX: the word is a flag that (cobra guesses) takes the next
    word as its value. -/
def takesNext (fs : List FlagSpec) (s : Tok) : Bool :=
  (hasDashDash s && !hasEq s && !longNoOpt fs s) || (hasDash s && !hasEq s && shortTakesValue fs s)

/-- go: stripFlags: the words cobra takes for command names / arguments. -/
def stripFlags (fs : List FlagSpec) : List Tok → List Tok
  | [] => []
  | s :: rest =>
    if s = ['-', '-'] then []
    else if takesNext fs s then
      match rest with
      | _ :: r :: rest' => stripFlags fs (r :: rest')     -- `len(args) <= 1` after the flag: the loop ends
      | _ => []
    else if s ≠ [] ∧ !hasDash s then s :: stripFlags fs rest
    else stripFlags fs rest

/-- go: Command.argsMinusFirstX: remove the first occurrence of the command word that is not a flag value. -/
def argsMinusFirstX (fs : List FlagSpec) (x : Tok) : List Tok → List Tok
  | [] => []
  | s :: rest =>
    if s = ['-', '-'] then s :: rest
    else if takesNext fs s then
      match rest with
      | [] => [s]
      | v :: rest' => s :: v :: argsMinusFirstX fs x rest'
    else if !hasDash s ∧ s = x then rest
    else s :: argsMinusFirstX fs x rest

/-- go: the closure `innerfind` of Command.Find; also yields the commands it went through (on each of them
    `stripFlags` has merged the persistent flags into `c.Flags()`). -/
def innerFind (T : Tree) : Nat → List Tok → List Tok → List (List Tok) → (List Tok × List Tok × List (List Tok))
  | 0, p, a, vis => (p, a, p :: vis)
  | fuel + 1, p, a, vis =>
    match stripFlags (T.merged p) a with
    | [] => (p, a, p :: vis)
    | w :: _ =>
      match findNext T p w with
      | some c => innerFind T fuel c.path (argsMinusFirstX (T.merged p) w a) (p :: vis)
      | none => (p, a, p :: vis)

def argsOf (T : Tree) (p : List Tok) : ArgsV :=
  match T.cmd p with
  | some c => c.args
  | none => .legacy

/-- go: legacyArgs(cmd, stripFlags(a, cmd)) -/
def legacyErr (T : Tree) (p a : List Tok) : Bool :=
  hasSubs T p && p == [] && !(stripFlags (T.merged p) a).isEmpty

structure Found where
  path : List Tok
  rest : List Tok
  visited : List (List Tok)
  err : Option Err := none
deriving Repr, DecidableEq

/-- go: Command.Find on the root. -/
def find (T : Tree) (args : List Tok) : Found :=
  let r := innerFind T (args.length + 1) [] args []
  { path := r.1, rest := r.2.1, visited := r.2.2,
    err := if argsOf T r.1 = .legacy ∧ legacyErr T r.1 r.2.1 then some .unknownCommand else none }

/-- go: isFlagArg -/
def isFlagArg : Tok → Bool
  | '-' :: '-' :: _ :: _ => true
  | '-' :: c :: _ => c != '-'
  | _ => false

/-- The flag set `Traverse` consults for its value guess is `c.Flags()` WITHOUT a merge of its own: only what was
    defined through `cmd.Flags()`, unless the `Find` of `initCompleteCmd` went through the command before. -/
def Tree.seen (T : Tree) (vis : List (List Tok)) (p : List Tok) : List FlagSpec :=
  if vis.contains p then T.merged p else T.lflagsOf p

/-- The loop of Command.Traverse on one command: the flag words collected so far (reversed) and `inFlag`; yields
    (flag words of this command, the child found with the words after it) or the end of the words. -/
def traverseScan (fs : List FlagSpec) (T : Tree) (p : List Tok) :
    List Tok → Bool → List Tok → (List Tok × Option (Cmd × List Tok))
  | acc, _, [] => (acc.reverse, none)
  | acc, inFlag, arg :: rest =>
    if hasDashDash arg && !hasEq arg then traverseScan fs T p (arg :: acc) (!longNoOpt fs arg) rest
    else if hasDash arg && !hasEq arg && shortTakesValue fs arg then traverseScan fs T p (arg :: acc) true rest
    else if inFlag then traverseScan fs T p (arg :: acc) false rest
    else if isFlagArg arg then traverseScan fs T p (arg :: acc) false rest
    else
      match findNext T p arg with
      | none => (acc.reverse, none)
      | some c => (acc.reverse, some (c, rest))

structure Traversed where
  path : List Tok
  rest : List Tok
  occs : List Occ          -- what the parents' ParseFlags set, in order
  err : Option Err := none
deriving Repr, DecidableEq

/-- go: Command.Traverse (the recursion goes down one command per step and shortens the words).  On an error `path`
    is the command whose ParseFlags refused (cobra itself then reports on the root: Traverse returns a nil command). -/
def traverse (T : Tree) (vis : List (List Tok)) : Nat → List Tok → List Tok → Traversed
  | 0, p, args => { path := p, rest := args, occs := [] }
  | fuel + 1, p, args =>
    match traverseScan (T.seen vis p) T p [] false args with
    | (_, none) => { path := p, rest := args, occs := [] }
    | (flags, some (c, rest)) =>
      let pr := parseArgs (T.merged p) true flags
      match pr.err with
      | some e => { path := p, rest := args, occs := pr.occs, err := some e }
      | none =>
        let t := traverse T vis fuel c.path rest
        { t with occs := pr.occs ++ t.occs }

/-! ## cobra: ExecuteC -/

def completeName : Tok := "__complete".toList
def completeNoDesc : Tok := "__completeNoDesc".toList

/-- go: the hidden command of initCompleteCmd -/
def completeCmd : Cmd :=
  { path := [completeName], aliases := [completeNoDesc], noParse := true, args := .minN 1 }

def noDescSpec : FlagSpec := { name := "no-descriptions".toList, noOpt := "true".toList }

/-- go: InitDefaultHelpCmd + InitDefaultCompletionCmd: what cobra adds to a root that has sub-commands. -/
def builtins : List Cmd :=
  [ { path := ["help".toList] },
    { path := ["completion".toList], runnable := false, args := .noArgs },
    { path := ["completion".toList, "bash".toList], args := .noArgs, lflags := [noDescSpec] },
    { path := ["completion".toList, "zsh".toList], args := .noArgs, lflags := [noDescSpec] },
    { path := ["completion".toList, "fish".toList], args := .noArgs, lflags := [noDescSpec] },
    { path := ["completion".toList, "powershell".toList], args := .noArgs, lflags := [noDescSpec] } ]

/-- The tree as ExecuteC sees it. -/
def Tree.full (T : Tree) : Tree := if hasSubs T [] then { T with cmds := T.cmds ++ builtins } else T

/-- go: initCompleteCmd: `__complete` stays in the tree only when Find resolves the words to it. -/
def Tree.withComplete (T : Tree) (args : List Tok) : Tree :=
  let T' : Tree := { T with cmds := T.cmds ++ [completeCmd] }
  if (find T' args).err = none ∧ (find T' args).path = [completeName] then T' else T

/-- What a run of the tool amounts to as far as cobra is concerned. -/
inductive Res where
  /-- the hooks of `hooks` (PersistentPreRunE, outermost first as cobra calls them) and then Run(E) of `cmd` are
      called with `pos`; the flags hold what `occs` set -/
  | run (cmd : List Tok) (occs : List Occ) (pos : List Tok) (hooks : List (List Tok))
  /-- usage is printed, exit status 0: the help flag, or the command is not runnable -/
  | help (cmd : List Tok) (occs : List Occ) (pos : List Tok)
  /-- an error before any hook; `occs`: what was set before -/
  | err (cmd : List Tok) (occs : List Occ) (e : Err)
deriving Repr, DecidableEq

/-- go: strconv.ParseBool -/
def parseBool (s : Tok) : Option Bool :=
  if s = ['1'] ∨ s = ['t'] ∨ s = ['T'] ∨ s = "TRUE".toList ∨ s = "true".toList ∨ s = "True".toList then some true
  else if s = ['0'] ∨ s = ['f'] ∨ s = ['F'] ∨ s = "FALSE".toList ∨ s = "false".toList ∨ s = "False".toList then some false
  else none

/-- the last occurrence of a flag -/
def lastOcc (n : Tok) : List Occ → Option Tok
  | [] => none
  | (m, v) :: rest =>
    match lastOcc n rest with
    | some x => some x
    | none => if m = n then some v else none

/-- go: `helpVal, _ := c.Flags().GetBool("help")` -/
def helpVal (occs : List Occ) : Bool :=
  match lastOcc helpName occs with
  | some v => (parseBool v).getD false
  | none => false

def hookOf (T : Tree) (p : List Tok) : Bool :=
  match T.cmd p with
  | some c => c.hook
  | none => false

/-- go: the `parents` loop of execute: with EnableTraverseRunHooks every persistent pre-run from the root down,
    otherwise the nearest one only. -/
def hooksFor (T : Tree) (p : List Tok) : List (List Tok) :=
  if T.runHooks then ((upward p).filter (hookOf T)).reverse else ((upward p).filter (hookOf T)).take 1

def argsErr : ArgsV → List Tok → Option Err
  | .legacy, _ => none
  | .noArgs, pos => if pos.isEmpty then none else some .unknownCommand
  | .minN n, pos => if pos.length < n then some .tooFewArgs else none

/-- go: Command.execute(a) up to the hooks; `pre`: what the parents' ParseFlags set during Traverse. -/
def execute (T : Tree) (p : List Tok) (pre : List Occ) (a : List Tok) : Res :=
  match T.cmd p with
  | none => .err p pre .unknownCommand
  | some c =>
    let pr : Parse := if c.noParse then { pos := a } else parseArgs (T.withHelp p) true a
    match pr.err with
    | some e => .err p (pre ++ pr.occs) e
    | none =>
      if helpVal (pre ++ pr.occs) then .help p (pre ++ pr.occs) pr.pos
      else if !c.runnable then .help p (pre ++ pr.occs) pr.pos
      else
        match argsErr c.args pr.pos with
        | some e => .err p (pre ++ pr.occs) e
        | none => .run p (pre ++ pr.occs) pr.pos (hooksFor T p)

/-- go: Command.ExecuteC on the root of a fresh tree. -/
def executeC (T0 : Tree) (args : List Tok) : Res :=
  let T := (T0.full).withComplete args
  if T.traverse then
    let t := traverse T (find T args).visited (args.length + 1) [] args
    match t.err with
    | some e => .err t.path t.occs e
    | none => execute T t.path t.occs t.rest
  else
    let f := find T args
    match f.err with
    | some e => .err f.path [] e
    | none => execute T f.path [] f.rest

/-! ## a flag's `Set` may refuse -/

/-- The first occurrence whose `Set` refuses ends the parse there: pflag reports "invalid argument" and nothing
    after it is looked at.  `ok` is the predicate "Set accepts this text given the occurrences before it". -/
def firstBad (ok : List Occ → Occ → Bool) : List Occ → List Occ → Option (List Occ)
  | _, [] => none
  | seen, o :: rest => if ok seen o then firstBad ok (seen ++ [o]) rest else some (seen ++ [o])

def Res.cmd : Res → List Tok
  | .run c _ _ _ => c | .help c _ _ => c | .err c _ _ => c

def Res.occs : Res → List Occ
  | .run _ o _ _ => o | .help _ o _ => o | .err _ o _ => o

/-- The run with the flags' `Set` taken into account. -/
def Res.withSet (ok : List Occ → Occ → Bool) (r : Res) : Res :=
  match firstBad ok [] r.occs with
  | some os => .err r.cmd os .badValue
  | none => r

/-- pflag's Bool: the flags with a NoOptDefVal in these trees are exactly the Bool flags (`C01_argv_trees_flags`);
    their `Set` is strconv.ParseBool.  Every other type's `Set` belongs to the CLI models. -/
def boolOk (fs : List FlagSpec) (_ : List Occ) (o : Occ) : Bool :=
  match lookupLong fs o.1 with
  | some f => f.noOpt == [] || (parseBool o.2).isSome
  | none => true

/-- The whole: ExecuteC with Bool texts checked (the flag set is the one visible from the command the result names). -/
def runTool (T : Tree) (args : List Tok) : Res :=
  let r := executeC T args
  r.withSet (boolOk ((T.full.withComplete args).withHelp r.cmd))

end GceTcb.Argv
