import GceTcb.Base.Outcome
/-
The two flag types of cmd/flags.go whose `Set` is repository code and that the key-management commands use
(`bigintFlag`, `timeFlag`), independent of any command.  Core-only.  Shared: Model/KeyCli.lean uses both;
Model/EndorseCli.lean has its own copy of the time flag (`EndorseCli.timeSet`), proved equal to this one in
Props/C12Cli.lean (`C12_cli_time_flag_shared`).  The statement skeletons of `bigintFlag.Set`, `bigintVar` and
`timeFlag.Set` the transcription was made from are in Model/KeyCliSource.lean.

`math/big (*Int).SetString(s, 10)` is transcribed (`parseBigDec`): an optional sign, then at least one ASCII
digit, then the end of the string — no blanks, no underscores (those are accepted for base 0 only), no base
prefix.  `time.Parse(time.RFC3339, ·)` stays a parameter (a function to (Unix seconds, nanoseconds)).
-/
namespace GceTcb.CliFlagTypes

/-- Go's zero `time.Time` (January 1, year 1, 00:00:00 UTC) as (Unix seconds, nanoseconds). -/
def zeroTime : Int × Nat := (-62135596800, 0)

/-! ### bigintFlag -/

def digitsToNat (cs : List Char) : Nat := cs.foldl (fun a c => a * 10 + (c.toNat - 48)) 0

def allDigits (cs : List Char) : Bool := !cs.isEmpty && cs.all Char.isDigit

/-- go: new(big.Int).SetString(value, 10) — `none` when it reports !ok -/
def parseBigDec (s : String) : Option Int :=
  match s.toList with
  | '-' :: ds => if allDigits ds then some (-(Int.ofNat (digitsToNat ds))) else none
  | '+' :: ds => if allDigits ds then some (Int.ofNat (digitsToNat ds)) else none
  | ds => if allDigits ds then some (Int.ofNat (digitsToNat ds)) else none

/-- go: cmd.bigintFlag.Set — one occurrence of the flag; an empty value keeps what is stored. -/
def bigintSet (cur : Int) (v : String) : Outcome Int :=
  if v = "" then .ok cur
  else
    match parseBigDec v with
    | some n => .ok n
    | none => .err "parse:bigint"

/-- every occurrence, in command-line order (the last non-empty one wins; the first malformed one fails) -/
def bigintSetAll : Int → List String → Outcome Int
  | cur, [] => .ok cur
  | cur, v :: vs =>
    match bigintSet cur v with
    | .ok n => bigintSetAll n vs
    | .err e => .err e
    | .panic s => .panic s

/-! ### timeFlag -/

/-- go: cmd.timeFlag.Set — one occurrence of `--timestamp`: refused once a non-zero time is stored; an empty
    value leaves the stored time alone. -/
def timeSet (parseTime : String → Option (Int × Nat)) (cur : Int × Nat) (v : String) : Outcome (Int × Nat) :=
  if cur = zeroTime then
    if v = "" then .ok cur
    else
      match parseTime v with
      | some t => .ok t
      | none => .err "parse:timestamp"
  else .err "parse:time-already-set"

def timeSetAll (parseTime : String → Option (Int × Nat)) : Int × Nat → List String → Outcome (Int × Nat)
  | cur, [] => .ok cur
  | cur, v :: vs =>
    match timeSet parseTime cur v with
    | .ok t => timeSetAll parseTime t vs
    | .err e => .err e
    | .panic s => .panic s

end GceTcb.CliFlagTypes
