import GceTcb.Model.Codecs
/-
C18 — executable model of the TCG event-log codecs: eventlog/{unmarshal,marshal,tpm,event,tcg2}.go.
Core-only.

Readers.  The Go decoders read from an `io.Reader`.  Two behaviours of `Read` matter and are the
`RKind` parameter: at end of input a *zero-length* `Read` returns `0, nil` for `*bytes.Buffer` and
`*os.File` (`buffer`) but `0, io.EOF` for `*bytes.Reader` / `*strings.Reader` (`reader`).  In every
other respect the three behave alike: `Read(p)` copies `min(len p, remaining)` bytes, and returns
`0, io.EOF` when nothing remains and `len p > 0`.

Errors.  `Res.eof` is an error for which `errors.Is(err, io.EOF)` holds (the only distinction the
code itself makes: `CryptoAgileLog.Unmarshal` takes it as the end of the log); `Res.fail` is any other
error.  Which one a site produces follows the `%w` / `%v` verbs of the Go sources.

`Cfg.strict` (the task's `strictShortRead`) selects between the two versions of the readers:
`false` = the code before the event-log repair: `r.Read(result)` with the byte count ignored
(`readSizedArray`) or compared (`TCGEventData.Unmarshal`), a zero-length Read issued for size 0, the
log loop ending on any error that wraps io.EOF; `true` = the repaired code (commits 0790b01, 0f6de9c,
78982fd, bff5b71): `readExact` (`io.ReadFull` into a buffer grown in bounded steps, no Read at all for
size 0; `io.EOF` iff not one byte of the body was there, `io.ErrUnexpectedEOF` for a partial body),
the digest array grown by `append`, and the log ending only where no byte of a further event remains.
Everything else is common.  The VALUES of the repaired size-prefixed readers are those of `readFull`;
what the bounded growth changes is the allocation, which is the subject of Model/EventLogCost.lean (C07).
With `strict = true` no zero-length Read is ever issued, so the result does not depend on `kind`
(`EventLog.readLog_kind_irrelevant`).
-/
namespace GceTcb.EventLog
open GceTcb GceTcb.Codec GceTcb.Codecs

inductive RKind where
  | buffer   -- *bytes.Buffer, *os.File
  | reader   -- *bytes.Reader, *strings.Reader
deriving DecidableEq, Repr

structure Cfg where
  strict : Bool
  kind : RKind
deriving DecidableEq, Repr

/-- Result of reading from the front of the remaining input. -/
inductive Res (α : Type) where
  | ok (a : α) (rest : Bytes)
  | eof
  | fail
deriving DecidableEq, Repr

namespace Res
variable {α β : Type}

/-- sequencing: run `f` on the value and the remaining input; errors propagate with their class -/
def andThen (r : Res α) (f : α → Bytes → Res β) : Res β :=
  match r with
  | ok a rest => f a rest
  | eof => eof
  | fail => fail

def map (f : α → β) (r : Res α) : Res β :=
  match r with
  | ok a rest => ok (f a) rest
  | eof => eof
  | fail => fail

/-- error wrapped with `%v` (or a fresh error): never `io.EOF` any more -/
def noEof (r : Res α) : Res α :=
  match r with
  | eof => fail
  | x => x

def isOk : Res α → Bool
  | ok _ _ => true
  | _ => false

end Res

/-! ## primitive reads -/

/-- go: io.ReadFull(r, buf) with `len(buf) = n` (also `binary.Read` of an n-byte integer, and the
    idiom `i, err := r.Read(p); err != nil || i != len(p)` wrapped with `%w`): all n bytes, or
    `io.EOF` if nothing remains, or another error (`io.ErrUnexpectedEOF`, or a nil-wrapping error). -/
def readFull (n : Nat) (b : Bytes) : Res Bytes :=
  if n ≤ b.length then .ok (b.take n) (b.drop n)
  else if b.isEmpty then .eof
  else .fail

/-- go: littleRead(r, name, &uintN) / binary.Read(r, binary.LittleEndian, &uintN) -/
def readLE (n : Nat) (b : Bytes) : Res Nat := (readFull n b).map leVal

/-- Does `r.Read(p)` with `len(p) = n` return `io.EOF`?  (nothing remains, except the zero-length read
    of a bytes.Buffer / os.File) -/
def rawReadEof (k : RKind) (n : Nat) (b : Bytes) : Bool :=
  b.isEmpty && !(k == .buffer && n == 0)

/-- The body bytes of a size-prefixed item of declared size `size`.
    `zeroFill` distinguishes the two non-strict call sites: readSizedArray ignores the byte count (a
    short read leaves the zeros of `make`), TCGEventData.Unmarshal compares it (`uint32(n) != size`). -/
def readBody (cfg : Cfg) (zeroFill : Bool) (size : Nat) (rest : Bytes) : Res Bytes :=
  if cfg.strict then
    -- go (repaired): readExact — size 0 succeeds without reading; else io.ReadFull semantics (an io.EOF
    -- after some bytes were read is turned into io.ErrUnexpectedEOF), `%w` / returned raw
    if size = 0 then .ok [] rest else readFull size rest
  else
    -- go (original): result := make([]byte, size); n, err := r.Read(result)
    if rawReadEof cfg.kind size rest then .eof
    else if zeroFill then .ok (rest.take size ++ zeros (size - rest.length)) (rest.drop size)
    else if rest.length < size then .fail
    else .ok (rest.take size) (rest.drop size)

/-! ## eventlog/unmarshal.go, eventlog/marshal.go -/

/-- go: eventlog.readSizedArray (size prefix of `w` bytes: 1 for *byte, 4 for *uint32) -/
def readSizedArray (cfg : Cfg) (w : Nat) (b : Bytes) : Res Bytes :=
  (readLE w b).andThen fun size rest => readBody cfg true size rest

/-- go: eventlog.writeSizedArray, reached with `size = len(data)` converted to the prefix type;
    `n != isize` catches a length that did not fit -/
def writeSizedArray (w : Nat) (data : Bytes) : Option Bytes :=
  if data.length < 256 ^ w then some (leBytes w data.length ++ data) else none

/-- go: ByteSizedCStr.Unmarshal -/
def readCStr (cfg : Cfg) (b : Bytes) : Res Bytes :=
  (readSizedArray cfg 1 b).andThen fun data rest =>
    if data.isEmpty || data.getLast? != some 0 then .fail else .ok data.dropLast rest

/-- go: ByteSizedCStr.Marshal (`len(Data)+1 > 255` is an error) -/
def writeCStr (s : Bytes) : Option Bytes :=
  if s.length + 1 > 255 then none else some (leBytes 1 (s.length + 1) ++ (s ++ [0]))

/-- go: Uint32SizedArray.Unmarshal -/
def readU32Array (cfg : Cfg) (b : Bytes) : Res Bytes := readSizedArray cfg 4 b
/-- go: Uint32SizedArray.Marshal -/
def writeU32Array (d : Bytes) : Option Bytes := writeSizedArray 4 d

/-- go: EfiGUID.Unmarshal — 16 bytes (`%w`), then abi.FromEFIGUID -/
def readGuid (b : Bytes) : Res Bytes :=
  (readFull 16 b).map fun raw => uuidRec.ofVals (decF uuidRec.ws raw)
/-- go: EfiGUID.Marshal — abi.PutUUID into 16 bytes -/
def writeGuid (u : Bytes) : Bytes := uuidRec.enc u

/-! ## eventlog/tpm.go -/

/-- go: eventlog.tpmAlgoSize -/
def tpmAlgoSize (alg : Nat) : Option Nat :=
  if alg = 0x0004 then some 20 else if alg = 0x000B then some 32 else if alg = 0x000C then some 48 else none

/-- go: eventlog.TaggedDigest -/
structure Digest where
  alg : Nat
  digest : Bytes
deriving DecidableEq, Repr

/-- go: TaggedDigest.Unmarshal (AlgID through littleRead `%w`; unknown algorithm and the digest read
    are fresh / `%v` errors) -/
def readDigest (b : Bytes) : Res Digest :=
  (readLE 2 b).andThen fun alg rest =>
    match tpmAlgoSize alg with
    | none => .fail
    | some sz => ((readFull sz rest).noEof).map fun d => ⟨alg, d⟩

/-- go: TaggedDigest.Marshal -/
def writeDigest (d : Digest) : Option Bytes :=
  match tpmAlgoSize d.alg with
  | none => none
  | some sz => if d.digest.length = sz then some (leBytes 2 d.alg ++ d.digest) else none

/-- the element loop of Uint32SizedArrayT[*TaggedDigest].Unmarshal (`%v`: never EOF) -/
def readDigests : Nat → Bytes → Res (List Digest)
  | 0, b => .ok [] b
  | n + 1, b => ((readDigest b).noEof).andThen fun d rest => (readDigests n rest).map (d :: ·)

/-- go: Uint32SizedArrayT[*TaggedDigest].Unmarshal (count read wrapped with `%v`) -/
def readDigestArray (b : Bytes) : Res (List Digest) :=
  ((readLE 4 b).noEof).andThen fun n rest => if n = 0 then .ok [] rest else readDigests n rest

def writeDigests : List Digest → Option Bytes
  | [] => some []
  | d :: ds =>
    match writeDigest d, writeDigests ds with
    | some x, some y => some (x ++ y)
    | _, _ => none

/-- go: Uint32SizedArrayT.Marshal (`uint32(len)`; fewer than 2^32 elements) -/
def writeDigestArray (ds : List Digest) : Option Bytes :=
  match writeDigests ds with
  | some x => some (leBytes 4 ds.length ++ x)
  | none => none

/-! ## eventlog/tcg2.go: SP800-155 Event3 -/

/-- go: eventlog.TcgSP800155Event3Signature = "SP800-155 Event3" -/
def event3Signature : Bytes :=
  [0x53, 0x50, 0x38, 0x30, 0x30, 0x2d, 0x31, 0x35, 0x35, 0x20, 0x45, 0x76, 0x65, 0x6e, 0x74, 0x33]

/-- go: eventlog.SP800155Event3 -/
structure Event3 where
  platformManufacturerId : Nat
  referenceManifestGuid : Bytes
  platformManufacturerStr : Bytes
  platformModel : Bytes
  platformVersion : Bytes
  firmwareManufacturerStr : Bytes
  firmwareManufacturerId : Nat
  firmwareVersion : Bytes
  rimLocatorType : Nat
  rimLocator : Bytes
  platformCertLocatorType : Nat
  platformCertLocator : Bytes
deriving DecidableEq, Repr

def allZero (b : Bytes) : Bool := b.all (· == 0)

/-- The twelve littleRead calls of SP800155Event3.UnmarshalFromBytes (over a bytes.Buffer). -/
def readEvent3Fields (cfg : Cfg) (b : Bytes) : Res Event3 :=
  (readLE 4 b).andThen fun pmid b =>
  (readGuid b).andThen fun guid b =>
  (readCStr cfg b).andThen fun pmstr b =>
  (readCStr cfg b).andThen fun model b =>
  (readCStr cfg b).andThen fun ver b =>
  (readCStr cfg b).andThen fun fmstr b =>
  (readLE 4 b).andThen fun fmid b =>
  (readCStr cfg b).andThen fun fver b =>
  (readLE 4 b).andThen fun rimt b =>
  (readU32Array cfg b).andThen fun rim b =>
  (readLE 4 b).andThen fun certt b =>
  (readU32Array cfg b).andThen fun cert b =>
  .ok ⟨pmid, guid, pmstr, model, ver, fmstr, fmid, fver, rimt, rim, certt, cert⟩ b

/-- go: SP800155Event3.UnmarshalFromBytes — `bytes.NewBuffer(data)`, the fields, then the remaining
    bytes must all be zero (HOB padding tolerance). The result's `rest` is always empty. -/
def unmarshalEvent3 (strict : Bool) (data : Bytes) : Res Event3 :=
  (readEvent3Fields ⟨strict, .buffer⟩ data).andThen fun e rest =>
    if allZero rest then .ok e [] else .fail

def optAppend (a b : Option Bytes) : Option Bytes :=
  match a, b with
  | some x, some y => some (x ++ y)
  | _, _ => none

/-- the twelve littleWrite calls of SP800155Event3.MarshalToBytes (after the signature) -/
def writeEvent3Fields (e : Event3) : Option Bytes :=
  optAppend (some (leBytes 4 e.platformManufacturerId))
  (optAppend (some (writeGuid e.referenceManifestGuid))
  (optAppend (writeCStr e.platformManufacturerStr)
  (optAppend (writeCStr e.platformModel)
  (optAppend (writeCStr e.platformVersion)
  (optAppend (writeCStr e.firmwareManufacturerStr)
  (optAppend (some (leBytes 4 e.firmwareManufacturerId))
  (optAppend (writeCStr e.firmwareVersion)
  (optAppend (some (leBytes 4 e.rimLocatorType))
  (optAppend (writeU32Array e.rimLocator)
  (optAppend (some (leBytes 4 e.platformCertLocatorType))
  (writeU32Array e.platformCertLocator)))))))))))

/-- go: SP800155Event3.MarshalToBytes (larger than abi.MaxGUIDHOBDataSize is an error) -/
def marshalEvent3 (e : Event3) : Option Bytes :=
  match writeEvent3Fields e with
  | some f => if (event3Signature ++ f).length > maxGuidHobDataSize then none else some (event3Signature ++ f)
  | none => none

/-! ## eventlog/event.go -/

/-- go: eventlog.TCGEventData — `UnknownEvent{Data}` (a nil Event marshals like empty data) or the
    one registered factory, SP800155Event3 -/
inductive EventData where
  | raw (d : Bytes)
  | event3 (e : Event3)
deriving DecidableEq, Repr

/-- go: TCGEventData.Unmarshal -/
def readEventData (cfg : Cfg) (b : Bytes) : Res EventData :=
  (readLE 4 b).andThen fun size rest =>        -- `return err` (raw): io.EOF or io.ErrUnexpectedEOF
  (readBody cfg false size rest).andThen fun chunk rest =>
    if size ≥ 16 && chunk.take 16 == event3Signature then
      match unmarshalEvent3 cfg.strict (chunk.drop 16) with   -- `return d.Event.UnmarshalFromBytes(…)`
      | .ok e _ => .ok (.event3 e) rest
      | .eof => .eof
      | .fail => .fail
    else .ok (.raw chunk) rest

/-- go: TCGEventData.Marshal — `uint32(len(dat))` then the payload (no check that the length fits) -/
def writeEventData (d : EventData) : Option Bytes :=
  match d with
  | .raw x => some (leBytes 4 x.length ++ x)
  | .event3 e =>
    match marshalEvent3 e with
    | some x => some (leBytes 4 x.length ++ x)
    | none => none

/-- go: eventlog.TCGPCClientPCREvent -/
structure PcrEvent where
  pcrIndex : Nat
  eventType : Nat
  sha1 : Bytes
  data : EventData
deriving DecidableEq, Repr

/-- go: TCGPCClientPCREvent.Unmarshal -/
def readPcrEvent (cfg : Cfg) (b : Bytes) : Res PcrEvent :=
  (readLE 4 b).andThen fun pcr b =>
  (readLE 4 b).andThen fun et b =>
  (readFull 20 b).andThen fun sha b =>
  (readEventData cfg b).andThen fun d b =>
  .ok ⟨pcr, et, sha, d⟩ b

/-- go: TCGPCClientPCREvent.Marshal -/
def writePcrEvent (e : PcrEvent) : Option Bytes :=
  optAppend (some (leBytes 4 e.pcrIndex ++ leBytes 4 e.eventType ++ e.sha1)) (writeEventData e.data)

/-- go: eventlog.TCGPCREvent2 -/
structure Event2 where
  pcrIndex : Nat
  eventType : Nat
  digests : List Digest
  data : EventData
deriving DecidableEq, Repr

/-- go: TCGPCREvent2.Unmarshal -/
def readEvent2 (cfg : Cfg) (b : Bytes) : Res Event2 :=
  (readLE 4 b).andThen fun pcr b =>
  (readLE 4 b).andThen fun et b =>
  (readDigestArray b).andThen fun ds b =>
  (readEventData cfg b).andThen fun d b =>
  .ok ⟨pcr, et, ds, d⟩ b

/-- go: TCGPCREvent2.Marshal -/
def writeEvent2 (e : Event2) : Option Bytes :=
  optAppend (some (leBytes 4 e.pcrIndex ++ leBytes 4 e.eventType))
    (optAppend (writeDigestArray e.digests) (writeEventData e.data))

/-- go: eventlog.CryptoAgileLog -/
structure Log where
  header : PcrEvent
  events : List Event2
deriving DecidableEq, Repr

/-- The `for` loop of CryptoAgileLog.Unmarshal. Original code (`strict = false`): an error for which
    `errors.Is(err, io.EOF)` holds ends the log *successfully*; any other error fails. Repaired code
    (`strict = true`): each event is read through a `countingReader`; an `io.EOF` error ends the log
    only if the event reader consumed no byte (`cr.n == 0`, i.e. nothing remained: the first read of
    an event takes at least one byte whenever one is there), otherwise it is the fresh error
    "event log is truncated in event N" (`%v`). `fuel` bounds the iterations (an event consumes at
    least 16 bytes, so `length + 1` is never exhausted: `EventLog.readEvents_fuel`). -/
def readEvents (cfg : Cfg) : Nat → Bytes → Res (List Event2)
  | 0, _ => .fail
  | fuel + 1, b =>
    match readEvent2 cfg b with
    | .eof => if cfg.strict then (if b.isEmpty then .ok [] [] else .fail) else .ok [] []
    | .fail => .fail
    | .ok e rest => (readEvents cfg fuel rest).map (e :: ·)

/-- go: CryptoAgileLog.Unmarshal -/
def readLog (cfg : Cfg) (b : Bytes) : Res Log :=
  (readPcrEvent cfg b).andThen fun hdr rest =>
    (readEvents cfg (rest.length + 1) rest).map fun es => ⟨hdr, es⟩

def writeEvents : List Event2 → Option Bytes
  | [] => some []
  | e :: es => optAppend (writeEvent2 e) (writeEvents es)

/-- go: CryptoAgileLog.Marshal -/
def writeLog (l : Log) : Option Bytes := optAppend (writePcrEvent l.header) (writeEvents l.events)

end GceTcb.EventLog
