import GceTcb.Model.Verify
import GceTcb.Model.Policy
/-
Model of the command line of the relying-party tool `gcetcbendorsement` (C01 / C02 / C17 at the command line):
gcetcbendorsement/cmd/root.go (`MakeRoot`: the command tree, `cobra.EnableTraverseRunHooks`), verify.go
(`verifyCommand.persistentPreRunE`, `runE`, `rootOfTrust`), sev.go / tdx.go (`sevCommand`, `sevPolicyCommand`,
`sevValidateCommand`, `tdxCommand`, `tdxPolicyCommand`, `tdxValidateCommand`: `persistentPreRunE` and `runE` of each),
proto.go (`ReadProto`), output.go (`IO`).  Core-only.

    command line × files × getter × clock  ──callOf──▶  the library call with its options record  ──exec──▶  result + effects

`callOf` is the flag wiring: which command each flag is DEFINED on and which commands inherit it (persistent flags
of `sev` / `tdx` reach `validate` and `policy`; the local `--root_cert` of `validate` does not reach `policy`), pflag's
range checks, the chain of PersistentPreRunE hooks from the root down (`sev` reads `--base`, then `validate` reads the
attestation and `--endorsement`), then the RunE body up to the library call.  Its result is EXACTLY the record the
library models consume: `Verify.Options`, `SevValidateOptions` / `TdxValidateOptions` (mapped onto the records of
Model/Verify.lean by `toVerify`, and interpreted for the measurement half by Model/Policy.lean),
`Policy.SevPolicyOptions`, `Policy.TdxPolicyOptions`; `exec` then is `Verify.endorsementProto`, `Verify.sevValidate`,
`Verify.tdxValidate`, `Policy.sevPolicy`, `Policy.tdxPolicy` followed by the output step.

PARAMETERS (nothing is assumed about them): everything `Verify.Prims` holds (protobuf, X.509, RSA-PSS, third-party
validators), `pemCerts` (the certificates `CertPool.AppendCertsFromPEM` adds) and `poolOf` (a pool holding exactly
these), `proto.Unmarshal` into the two policy types, `extract.Attestation`, `pem.Decode`, numeral syntax
(`strconv.ParseUint(s, 0, ·)` / `ParseInt(s, 0, ·)`: the VALUE written, the size limit is explicit here).  cobra's
tokenising of argv is not modelled: the model starts from the command cobra resolves, the flag occurrences in
order (name, value text) and the positional arguments; that a flag may stand before or after the sub-command name is
exercised by the correspondence stream.

There is NO flag for the verification time and none for several roots: the time is `Backend.Now` (the shipped
binary: `time.Now()` when the process starts), the roots are the certificates of ONE file (`--root_cert`) or of the
object fetched from the pinned `DefaultRootURL`.
-/
namespace GceTcb.RpCli
open GceTcb

/-! ## the command tree and the flag table -/

/-- (command path, parent path, constructor, PersistentPreRunE, RunE) in construction order; the root has path "".
    Pinned to the source by `C01_cli_command_tree`. -/
def commands : List (String × String × String × String × String) :=
  [("", "-", "MakeRoot", "-", "-"),
   ("extract", "", "makeExtract", "extractCommand.persistentPreRunE", "extractCommand.runE"),
   ("inspect", "", "makeInspect", "inspectCommand.persistentPreRunE", "Run:func {}"),
   ("inspect signature", "inspect", "makeSignatureCmd", "-", "func {inspect,ok := cmd.Context().Value(inspectKey).(*inspectCommand); if !ok {return errNoInspect}; ctx := gcetcbendorsement.WithInspect(cmd.Context(), &gcetcbendorsement.Inspect{Writer: inspect.out, Form: inspect.bytesForm}); defer inspect.outDefer(); return gcetcbendorsement.InspectSignature(ctx, inspect.endorsement)}"),
   ("inspect payload", "inspect", "makePayloadCmd", "-", "func {inspect,ok := cmd.Context().Value(inspectKey).(*inspectCommand); if !ok {return errNoInspect}; ctx := gcetcbendorsement.WithInspect(cmd.Context(), &gcetcbendorsement.Inspect{Writer: inspect.out, Form: inspect.bytesForm}); defer inspect.outDefer(); return gcetcbendorsement.InspectPayload(ctx, inspect.endorsement)}"),
   ("inspect mask", "inspect", "makeMaskCmd", "-", "maskSubCommand.runE"),
   ("verify", "", "makeVerify", "verifyCommand.persistentPreRunE", "verifyCommand.runE"),
   ("sev", "", "makeSevCommand", "sevCommand.persistentPreRunE", "func {return errNoSevCommand}"),
   ("sev validate", "sev", "makeSevValidateCommand", "sevValidateCommand.persistentPreRunE", "sevValidateCommand.runE"),
   ("sev policy", "sev", "makeSevPolicyCommand", "sevPolicyCommand.persistentPreRunE", "sevPolicyCommand.runE"),
   ("tdx", "", "makeTdxCommand", "tdxCommand.persistentPreRunE", "func {return errNoTdxCommand}"),
   ("tdx validate", "tdx", "makeTdxValidateCommand", "tdxValidateCommand.persistentPreRunE", "tdxValidateCommand.runE"),
   ("tdx policy", "tdx", "makeTdxPolicyCommand", "tdxPolicyCommand.persistentPreRunE", "tdxPolicyCommand.runE")]

/-- (command the flag is DEFINED on, scope, flag, pflag type, default as written, Go destination).  A `persistent`
    flag is inherited by every command below the one it is defined on; a `local` one is not.  Pinned to the source
    by `C01_cli_flag_table`. -/
def flagTable : List (String × String × String × String × String × String) :=
  [("extract", "local", "out", "String", "\"endorsement.binarypb\"", "extractCommand.output"),
   ("extract", "local", "eventlog", "String", "\"/sys/kernel/security/tpm0/binary_bios_measurements\"", "extractCommand.eventlogpath"),
   ("extract", "local", "firmware_manufacturer", "String", "extract.GCEFirmwareManufacturer", "extractCommand.manufacturer"),
   ("extract", "local", "efivarfs", "String", "\"/sys/firmware/efi/efivars\"", "extractCommand.efivarloc"),
   ("extract", "local", "force_fetch", "Bool", "false", "extractCommand.forceFetch"),
   ("extract", "local", "default_vmpl", "Uint", "0", "extractCommand.vmpl"),
   ("inspect", "persistent", "out", "String", "\"-\"", "inspectCommand.output"),
   ("inspect", "persistent", "bytesform", "String", "\"auto\"", "inspectCommand.form"),
   ("inspect mask", "local", "path", "StringSlice", "nil", "maskSubCommand.paths"),
   ("verify", "persistent", "root_cert", "String", "\"\"", "verifyCommand.root"),
   ("verify", "persistent", "show", "Bool", "false", "verifyCommand.show"),
   ("sev", "persistent", "overwrite", "Bool", "false", "sevCommand.overwrite"),
   ("sev", "persistent", "base", "String", "\"\"", "sevCommand.base"),
   ("sev", "persistent", "launch_vmsas", "Uint32", "0", "sevCommand.launchVmsas"),
   ("sev", "persistent", "allow_unspecified_vmsas", "Bool", "false", "sevCommand.allowUnspecifiedVmsas"),
   ("sev validate", "local", "endorsement", "String", "\"\"", "sevValidateCommand.endorsementPath"),
   ("sev validate", "local", "root_cert", "String", "\"\"", "sevValidateCommand.root"),
   ("sev validate", "local", "testonly_force_gcs", "Bool", "false", "sevValidateCommand.testonlyForceGCS"),
   ("sev policy", "local", "out", "String", "\"-\"", "sevPolicyCommand.out"),
   ("sev policy", "local", "outform", "String", "\"auto\"", "sevPolicyCommand.outform"),
   ("tdx", "persistent", "overwrite", "Bool", "false", "tdxCommand.overwrite"),
   ("tdx", "persistent", "base", "String", "\"\"", "tdxCommand.base"),
   ("tdx", "persistent", "ram_gib", "Int", "0", "tdxCommand.ramGiB"),
   ("tdx validate", "local", "endorsement", "String", "\"\"", "tdxValidateCommand.endorsementPath"),
   ("tdx validate", "local", "root_cert", "String", "\"\"", "tdxValidateCommand.root"),
   ("tdx policy", "local", "out", "String", "\"-\"", "tdxPolicyCommand.out"),
   ("tdx policy", "local", "outform", "String", "\"auto\"", "tdxPolicyCommand.outform")]

/-- go: MakeRoot sets `cobra.EnableTraverseRunHooks = true`: every PersistentPreRunE from the root down runs. -/
def traverseRunHooks : Bool := true

def isCommand (cmd : String) : Bool := commands.any (fun c => c.1 == cmd)

/-- parent path; `none` for the root and for unknown paths -/
def parentOf (cmd : String) : Option String :=
  match commands.find? (fun c => c.1 == cmd) with
  | some c => if c.2.1 == "-" then none else some c.2.1
  | none => none

/-- the table row of flag `name` defined on `cmd` itself (`self`: either scope; otherwise persistent only) -/
def rowOn (cmd name : String) (self : Bool) : Option (String × String × String × String × String × String) :=
  flagTable.find? (fun r => r.1 == cmd && r.2.2.1 == name && (self || r.2.1 == "persistent"))

/-- The row of the flag `name` as seen from `cmd`: its own flags first, then the persistent flags of its ancestors
    (cobra merges persistent flags of the parents into a command's flag set unless the name is taken). -/
def rowFrom : Nat → String → String → Bool → Option (String × String × String × String × String × String)
  | 0, _, _, _ => none
  | fuel + 1, cmd, name, self =>
    match rowOn cmd name self with
    | some r => some r
    | none =>
      match parentOf cmd with
      | some p => rowFrom fuel p name false
      | none => none

def visibleRow (cmd name : String) : Option (String × String × String × String × String × String) :=
  rowFrom 4 cmd name true

/-- the command on which the flag `name`, as seen from `cmd`, is defined -/
def ownerOf (cmd name : String) : Option String := (visibleRow cmd name).map (·.1)

/-- its pflag type; cobra adds a Bool `help` to every command -/
def kindOf (cmd name : String) : Option String :=
  match visibleRow cmd name with
  | some r => some r.2.2.2.1
  | none => if name == "help" then some "Bool" else none

/-! ## the command line -/

/-- A command line as cobra resolves it: the command found, every flag occurrence in argv order with its value
    text (a Bool flag written without a value carries "true"), the positional arguments. -/
structure CmdLine where
  cmd : String
  flags : List (String × String) := []
  args : List String := []
deriving Repr, DecidableEq

/-- Numeral syntax (`strconv.ParseUint(s, 0, 64)` etc. accept 0x / 0o / 0b prefixes and underscores): the VALUE
    written, `none` when the text is not a numeral.  The size limits are explicit in `flagOk`. -/
structure Lex where
  parseUint : String → Option Nat
  parseInt : String → Option Int

/-- go: strconv.ParseBool -/
def parseBool (s : String) : Option Bool :=
  if s == "1" || s == "t" || s == "T" || s == "TRUE" || s == "true" || s == "True" then some true
  else if s == "0" || s == "f" || s == "F" || s == "FALSE" || s == "false" || s == "False" then some false
  else none

/-- the value of the last occurrence (pflag's built-in types keep the last value set) -/
def lastOf (name : String) : List (String × String) → Option String
  | [] => none
  | (n, v) :: rest =>
    match lastOf name rest with
    | some x => some x
    | none => if n == name then some v else none

/-- One flag occurrence is accepted by the command's flag set: the flag is visible from the command and the value
    text is in the range of its type. -/
def flagOk (L : Lex) (cmd : String) (nv : String × String) : Bool :=
  match kindOf cmd nv.1 with
  | none => false
  | some k =>
    if k == "Bool" then (parseBool nv.2).isSome
    else if k == "Uint32" then (match L.parseUint nv.2 with | some n => decide (n < 2 ^ 32) | none => false)
    else if k == "Uint" then (match L.parseUint nv.2 with | some n => decide (n < 2 ^ 64) | none => false)
    else if k == "Int" then
      (match L.parseInt nv.2 with | some i => decide (-(2 ^ 63 : Int) ≤ i ∧ i < 2 ^ 63) | none => false)
    else true

/-- the value text of flag `name` DEFINED on `owner`, when that flag is what `name` means on this command line -/
def flagVal (cl : CmdLine) (owner name : String) : Option String :=
  if ownerOf cl.cmd name == some owner then lastOf name cl.flags else none

/-- the value of a Bool flag from its last value text (absent: false; the text was checked by `flagOk`) -/
def optBool : Option String → Bool
  | some v => (parseBool v).getD false
  | none => false

def boolFlag (cl : CmdLine) (owner name : String) : Bool := optBool (flagVal cl owner name)

def strFlag (cl : CmdLine) (owner name dflt : String) : String := (flagVal cl owner name).getD dflt

/-- `--help` / `-h` (cobra's automatic flag; the last occurrence counts) -/
def helpFlag (cl : CmdLine) : Bool := optBool (lastOf "help" cl.flags)

/-- What cobra's flag parsing leaves in the command structs (Go destination → value), defaults from the table. -/
structure Parsed where
  help : Bool
  verifyRoot : String
  verifyShow : Bool
  sevOverwrite : Bool
  sevBase : String
  sevLaunchVmsas : Nat
  sevAllowUnspecifiedVmsas : Bool
  sevValidateEndorsementPath : String
  sevValidateRoot : String
  sevValidateTestonlyForceGCS : Bool
  sevPolicyOut : String
  sevPolicyOutform : String
  tdxOverwrite : Bool
  tdxBase : String
  tdxRamGiB : Int
  tdxValidateEndorsementPath : String
  tdxValidateRoot : String
  tdxPolicyOut : String
  tdxPolicyOutform : String
deriving Repr, DecidableEq

def parsed (L : Lex) (cl : CmdLine) : Parsed :=
  { help := helpFlag cl
    verifyRoot := strFlag cl "verify" "root_cert" ""
    verifyShow := boolFlag cl "verify" "show"
    sevOverwrite := boolFlag cl "sev" "overwrite"
    sevBase := strFlag cl "sev" "base" ""
    sevLaunchVmsas := ((flagVal cl "sev" "launch_vmsas").bind L.parseUint).getD 0
    sevAllowUnspecifiedVmsas := boolFlag cl "sev" "allow_unspecified_vmsas"
    sevValidateEndorsementPath := strFlag cl "sev validate" "endorsement" ""
    sevValidateRoot := strFlag cl "sev validate" "root_cert" ""
    sevValidateTestonlyForceGCS := boolFlag cl "sev validate" "testonly_force_gcs"
    sevPolicyOut := strFlag cl "sev policy" "out" "-"
    sevPolicyOutform := strFlag cl "sev policy" "outform" "auto"
    tdxOverwrite := boolFlag cl "tdx" "overwrite"
    tdxBase := strFlag cl "tdx" "base" ""
    tdxRamGiB := ((flagVal cl "tdx" "ram_gib").bind L.parseInt).getD 0
    tdxValidateEndorsementPath := strFlag cl "tdx validate" "endorsement" ""
    tdxValidateRoot := strFlag cl "tdx validate" "root_cert" ""
    tdxPolicyOut := strFlag cl "tdx policy" "out" "-"
    tdxPolicyOutform := strFlag cl "tdx policy" "outform" "auto" }

/-- The model's defaults as (destination, rendering) rows, to be compared with the table's default column. -/
def renderDefaults (p : Parsed) : List (String × String) :=
  let b (x : Bool) : String := if x then "true" else "false"
  let s (x : String) : String := "\"" ++ x ++ "\""
  [ ("verifyCommand.root", s p.verifyRoot), ("verifyCommand.show", b p.verifyShow),
    ("sevCommand.overwrite", b p.sevOverwrite), ("sevCommand.base", s p.sevBase),
    ("sevCommand.launchVmsas", toString p.sevLaunchVmsas),
    ("sevCommand.allowUnspecifiedVmsas", b p.sevAllowUnspecifiedVmsas),
    ("sevValidateCommand.endorsementPath", s p.sevValidateEndorsementPath),
    ("sevValidateCommand.root", s p.sevValidateRoot),
    ("sevValidateCommand.testonlyForceGCS", b p.sevValidateTestonlyForceGCS),
    ("sevPolicyCommand.out", s p.sevPolicyOut), ("sevPolicyCommand.outform", s p.sevPolicyOutform),
    ("tdxCommand.overwrite", b p.tdxOverwrite), ("tdxCommand.base", s p.tdxBase),
    ("tdxCommand.ramGiB", toString p.tdxRamGiB),
    ("tdxValidateCommand.endorsementPath", s p.tdxValidateEndorsementPath),
    ("tdxValidateCommand.root", s p.tdxValidateRoot),
    ("tdxPolicyCommand.out", s p.tdxPolicyOut), ("tdxPolicyCommand.outform", s p.tdxPolicyOutform) ]

/-! ## the world -/

/-- gcetcbendorsement/cmd.Backend (files, getter, clock) and the writer side of its `IO`. -/
structure Env (Time : Type) where
  readFile : String → Option Bytes
  getter : Option Verify.Getter
  now : Time
  /-- `IO.Create(path)` succeeds -/
  createOk : String → Bool := fun _ => true
  /-- the writer it returns is a terminal -/
  isTerminal : String → Bool := fun _ => false
  /-- writing to it succeeds -/
  writeOk : String → Bool := fun _ => true

def Env.backend {Time : Type} (E : Env Time) : Verify.Backend Time := ⟨E.readFile, E.getter, E.now⟩

/-- The primitives: those of Model/Verify.lean (its `loadRootPool` field is NOT used: the pool construction of
    `rootOfTrust` is modelled below from `pemCerts`, `parseCert` and `poolOf`), and the decoders of the files the
    command line names. -/
structure Prims (Cert Roots Time R Q : Type) where
  v : Verify.Prims Cert Roots Time
  /-- the certificates `CertPool.AppendCertsFromPEM(data)` adds, in order (CERTIFICATE blocks that parse) -/
  pemCerts : Bytes → List Cert
  /-- `x509.NewCertPool()` followed by `AddCert` of each -/
  poolOf : List Cert → Roots
  /-- proto.Unmarshal into go-sev-guest check.Policy / go-tdx-guest checkconfig.Policy -/
  unmarshalSevPolicy : Bytes → Option (Policy.SevPolicy R)
  unmarshalTdxPolicy : Bytes → Option (Policy.TdxPolicy Q R)
  /-- extract.Attestation (format detection of the attestation file) -/
  parseAttestation : Bytes → Option Verify.TeeAttestation

section
variable {Cert Roots Time R Q : Type}

/-- go: cmd.rootOfTrust, the pool construction: `rot := x509.NewCertPool(); if !rot.AppendCertsFromPEM(data) {
    rootCert, err := x509.ParseCertificate(data); if err != nil { return error }; rot.AddCert(rootCert) }`.
    AppendCertsFromPEM reports whether at least one certificate was added, so the pool returned is never empty and
    never nil: data holding no certificate is an error. -/
def loadRootPool (P : Prims Cert Roots Time R Q) (data : Bytes) : Option Roots :=
  if (P.pemCerts data).isEmpty then
    match P.v.parseCert data with
    | some c => some (P.poolOf [c])
    | none => none
  else some (P.poolOf (P.pemCerts data))

/-- The `Verify.Prims` the library model runs with: `loadRootPool` as the command builds it. -/
def Prims.vp (P : Prims Cert Roots Time R Q) : Verify.Prims Cert Roots Time :=
  { P.v with loadRootPool := loadRootPool P }

/-! ## the option records handed to the library -/

/-- gcetcbendorsement.SevValidateOptions, with the base policy as decoded from the `--base` file. -/
structure SevValidateOptions (Roots Time R : Type) where
  endorsement : Option Verify.Endorsement
  basePolicy : Option (Policy.SevPolicy R)
  overwrite : Bool
  roots : Option Roots
  now : Time
  getter : Option Verify.Getter
  expectedLaunchVmsas : Nat
  testonlyForceGCS : Bool

/-- gcetcbendorsement.TdxValidateOptions -/
structure TdxValidateOptions (Roots Time R Q : Type) where
  endorsement : Option Verify.Endorsement
  basePolicy : Option (Policy.TdxPolicy Q R)
  overwrite : Bool
  roots : Option Roots
  now : Time
  getter : Option Verify.Getter
  expectedRAMGiB : Int

/-- Go `int` as the tag Model/Verify.lean names the RAM size with (two's complement; injective on int64) -/
def ramTag (i : Int) : Nat := (i % 2 ^ 64).toNat

/-- the record of Model/Verify.lean (`tag` names the base policy for the abstract policy primitive) -/
def SevValidateOptions.toVerify (o : SevValidateOptions Roots Time R) (tag : Option (Policy.SevPolicy R) → Nat) :
    Verify.SevValidateOptions Roots Time :=
  { endorsement := o.endorsement, basePolicy := tag o.basePolicy, overwrite := o.overwrite, roots := o.roots,
    now := o.now, getter := o.getter, expectedLaunchVmsas := o.expectedLaunchVmsas,
    testonlyForceGCS := o.testonlyForceGCS }

def TdxValidateOptions.toVerify (o : TdxValidateOptions Roots Time R Q) (tag : Option (Policy.TdxPolicy Q R) → Nat) :
    Verify.TdxValidateOptions Roots Time :=
  { endorsement := o.endorsement, basePolicy := tag o.basePolicy, overwrite := o.overwrite, roots := o.roots,
    now := o.now, expectedRAMGiB := ramTag o.expectedRAMGiB }

/-- go: gcetcbendorsement.BytesForm constants (pinned by `C17_cli_bytes_forms`) -/
def bytesRaw : Nat := 0
def bytesHex : Nat := 1
def bytesBase64 : Nat := 3
def bytesAuto : Nat := 4

/-- go: gcetcbendorsement.ParseBytesForm -/
def parseBytesForm (s : String) : Option Nat :=
  if s == "bin" then some bytesRaw
  else if s == "hex" then some bytesHex
  else if s == "base64" then some bytesBase64
  else if s == "auto" then some bytesAuto
  else none

/-- `--out` / `--outform` as the policy commands keep them: destination, `c.textproto`, `c.bytesform`. -/
structure OutSpec where
  path : String
  textproto : Bool
  bytesform : Nat
deriving Repr, DecidableEq

/-- The library call a command line amounts to. -/
inductive Call (Roots Time R Q : Type) where
  /-- `--help`, or the root command (not runnable): usage is printed, nothing else happens, exit status 0 -/
  | help
  /-- `sev` / `tdx` without a sub-command: RunE returns an error (after `--base` was read) -/
  | noSubcommand
  /-- `extract`, `inspect …`: not modelled here (C16, C19) -/
  | unmodelled
  /-- `verify --show`: prints the equivalent openssl commands for (path, root text); verifies nothing -/
  | showCmds (path root : String)
  | verify (e : Verify.Endorsement) (o : Verify.Options Roots Time)
  | sevValidate (content : Bytes) (o : SevValidateOptions Roots Time R)
  | tdxValidate (content : Bytes) (o : TdxValidateOptions Roots Time R Q)
  | sevPolicy (e : Verify.Endorsement) (o : Policy.SevPolicyOptions R) (out : OutSpec)
  | tdxPolicy (e : Verify.Endorsement) (o : Policy.TdxPolicyOptions Q R) (out : OutSpec)

/-! ## PersistentPreRunE / RunE, command by command -/

/-- go: gcetcbendorsement.DefaultRootCmd -/
def defaultRootCmd : String := "<(curl https://pki.goog/cloud_integrity/GCE-cc-tcb-root_1.crt)"

/-- go: verifyCommand.persistentPreRunE then verifyCommand.runE up to the library call. -/
def verifyCall (P : Prims Cert Roots Time R Q) (E : Env Time) (p : Parsed) (args : List String) :
    Outcome (Call Roots Time R Q) :=
  match args with
  | [path] =>
    if !p.verifyShow then
      match Verify.readEndorsement P.vp E.backend path with
      | .error c => .err c
      | .ok e =>
        match Verify.rootOfTrust P.vp E.backend p.verifyRoot with
        | .error c => .err c
        | .ok rot =>
          .ok (.verify e { snp := none, roots := some rot, expectedUefiSha384 := [], now := E.now,
                           endorsement := none, getter := E.getter })
    else .ok (.showCmds path (if p.verifyRoot == "" then defaultRootCmd else p.verifyRoot))
  | _ => .err "args"

/-- go: sevCommand.persistentPreRunE — `--base` is read with ReadProto as a BINARY check.Policy (no other format is
    detected); an empty file is the empty policy, not "no base". -/
def sevBase (P : Prims Cert Roots Time R Q) (E : Env Time) (p : Parsed) : Outcome (Option (Policy.SevPolicy R)) :=
  if p.sevBase != "" then
    match E.readFile p.sevBase with
    | none => .err "base-read"
    | some b =>
      match P.unmarshalSevPolicy b with
      | none => .err "base-unmarshal"
      | some q => .ok (some q)
  else .ok none

/-- go: tdxCommand.persistentPreRunE -/
def tdxBase (P : Prims Cert Roots Time R Q) (E : Env Time) (p : Parsed) : Outcome (Option (Policy.TdxPolicy Q R)) :=
  if p.tdxBase != "" then
    match E.readFile p.tdxBase with
    | none => .err "base-read"
    | some b =>
      match P.unmarshalTdxPolicy b with
      | none => .err "base-unmarshal"
      | some q => .ok (some q)
  else .ok none

/-- go: sevValidateCommand.persistentPreRunE then runE up to the library call (after sevCommand's hook). -/
def sevValidateCall (P : Prims Cert Roots Time R Q) (E : Env Time) (p : Parsed) (args : List String) :
    Outcome (Call Roots Time R Q) :=
  match sevBase P E p with
  | .err c => .err c
  | .panic s => .panic s
  | .ok base =>
    match args with
    | [att] =>
      match E.readFile att with
      | none => .err "attestation-read"
      | some content =>
        match Verify.cliEndorsement P.vp E.backend p.sevValidateEndorsementPath with
        | .error c => .err c
        | .ok oe =>
          match Verify.rootOfTrust P.vp E.backend p.sevValidateRoot with
          | .error c => .err c
          | .ok rot =>
            .ok (.sevValidate content
              { endorsement := oe, basePolicy := base, overwrite := p.sevOverwrite, roots := some rot,
                now := E.now, getter := E.getter, expectedLaunchVmsas := p.sevLaunchVmsas,
                testonlyForceGCS := p.sevValidateTestonlyForceGCS })
    | _ => .err "args"

/-- go: tdxValidateCommand.persistentPreRunE then runE up to the library call (after tdxCommand's hook). -/
def tdxValidateCall (P : Prims Cert Roots Time R Q) (E : Env Time) (p : Parsed) (args : List String) :
    Outcome (Call Roots Time R Q) :=
  match tdxBase P E p with
  | .err c => .err c
  | .panic s => .panic s
  | .ok base =>
    match args with
    | [att] =>
      match E.readFile att with
      | none => .err "attestation-read"
      | some content =>
        match Verify.cliEndorsement P.vp E.backend p.tdxValidateEndorsementPath with
        | .error c => .err c
        | .ok oe =>
          match Verify.rootOfTrust P.vp E.backend p.tdxValidateRoot with
          | .error c => .err c
          | .ok rot =>
            .ok (.tdxValidate content
              { endorsement := oe, basePolicy := base, overwrite := p.tdxOverwrite, roots := some rot,
                now := E.now, getter := E.getter, expectedRAMGiB := p.tdxRamGiB })
    | _ => .err "args"

/-- go: the `--outform` step of sevPolicyCommand / tdxPolicyCommand.persistentPreRunE -/
def outSpecOf (out outform : String) : Option OutSpec :=
  if outform == "textproto" then some ⟨out, true, bytesRaw⟩
  else
    match parseBytesForm outform with
    | some bf => some ⟨out, false, bf⟩
    | none => none

/-- go: sevPolicyCommand.persistentPreRunE then runE up to the library call (after sevCommand's hook). -/
def sevPolicyCall (P : Prims Cert Roots Time R Q) (E : Env Time) (p : Parsed) (args : List String) :
    Outcome (Call Roots Time R Q) :=
  match sevBase P E p with
  | .err c => .err c
  | .panic s => .panic s
  | .ok base =>
    match args with
    | [path] =>
      match outSpecOf p.sevPolicyOut p.sevPolicyOutform with
      | none => .err "outform"
      | some out =>
        match Verify.readEndorsement P.vp E.backend path with
        | .error c => .err c
        | .ok e => .ok (.sevPolicy e ⟨base, p.sevLaunchVmsas, p.sevOverwrite, p.sevAllowUnspecifiedVmsas⟩ out)
    | _ => .err "args"

/-- go: tdxPolicyCommand.persistentPreRunE then runE up to the library call (after tdxCommand's hook). -/
def tdxPolicyCall (P : Prims Cert Roots Time R Q) (E : Env Time) (p : Parsed) (args : List String) :
    Outcome (Call Roots Time R Q) :=
  match tdxBase P E p with
  | .err c => .err c
  | .panic s => .panic s
  | .ok base =>
    match args with
    | [path] =>
      match outSpecOf p.tdxPolicyOut p.tdxPolicyOutform with
      | none => .err "outform"
      | some out =>
        match Verify.readEndorsement P.vp E.backend path with
        | .error c => .err c
        | .ok e => .ok (.tdxPolicy e ⟨base, p.tdxRamGiB, p.tdxOverwrite⟩ out)
    | _ => .err "args"

/-- `sev` / `tdx` without a sub-command: the persistent hook runs, then RunE refuses. -/
def sevBareCall (P : Prims Cert Roots Time R Q) (E : Env Time) (p : Parsed) : Outcome (Call Roots Time R Q) :=
  match sevBase P E p with
  | .err c => .err c
  | .panic s => .panic s
  | .ok _ => .ok .noSubcommand

def tdxBareCall (P : Prims Cert Roots Time R Q) (E : Env Time) (p : Parsed) : Outcome (Call Roots Time R Q) :=
  match tdxBase P E p with
  | .err c => .err c
  | .panic s => .panic s
  | .ok _ => .ok .noSubcommand

/-- The flag set accepts the command line: the command exists and every flag occurrence is visible from it and in
    range (otherwise cobra reports a usage error before any hook runs). -/
def wellFormed (L : Lex) (cl : CmdLine) : Bool := isCommand cl.cmd && cl.flags.all (flagOk L cl.cmd)

/-- The command line up to the library call.  Error classes: `parse` (cobra: unknown command / unknown or
    malformed flag), `args` (positional arguments), `base-read` / `base-unmarshal`, `read` /
    `endorsement-unmarshal`, `attestation-read`, `root-read` / `root-fetch` / `no-getter` / `root-parse`, `outform`. -/
def callOf (P : Prims Cert Roots Time R Q) (L : Lex) (E : Env Time) (cl : CmdLine) : Outcome (Call Roots Time R Q) :=
  if !wellFormed L cl then .err "parse"
  else if cl.cmd == "" && !cl.args.isEmpty then .err "parse"   -- cobra: unknown command, found before any flag is read
  else if helpFlag cl then .ok .help
  else if cl.cmd == "verify" then verifyCall P E (parsed L cl) cl.args
  else if cl.cmd == "sev validate" then sevValidateCall P E (parsed L cl) cl.args
  else if cl.cmd == "sev policy" then sevPolicyCall P E (parsed L cl) cl.args
  else if cl.cmd == "tdx validate" then tdxValidateCall P E (parsed L cl) cl.args
  else if cl.cmd == "tdx policy" then tdxPolicyCall P E (parsed L cl) cl.args
  else if cl.cmd == "sev" then sevBareCall P E (parsed L cl)
  else if cl.cmd == "tdx" then tdxBareCall P E (parsed L cl)
  else if cl.cmd == "" then .ok .help
  else .ok .unmodelled

/-- The wiring as it was BEFORE the repair of D2b (commit 2362f53): `sev validate` / `tdx validate` did not forward
    the persistent `--launch_vmsas` / `--ram_gib` to the options.  Not the modelled tree: kept for the witnesses
    `C02_cli_prerepair_*`. -/
def dropNamedConfig : Call Roots Time R Q → Call Roots Time R Q
  | .sevValidate c o => .sevValidate c { o with expectedLaunchVmsas := 0 }
  | .tdxValidate c o => .tdxValidate c { o with expectedRAMGiB := 0 }
  | c => c

def callOfPreRepair (P : Prims Cert Roots Time R Q) (L : Lex) (E : Env Time) (cl : CmdLine) :
    Outcome (Call Roots Time R Q) :=
  match callOf P L E cl with
  | .ok c => .ok (dropNamedConfig c)
  | .err c => .err c
  | .panic s => .panic s

/-! ## execution: the library call and the output step -/

inductive OutForm | text | raw | hex | base64
deriving Repr, DecidableEq

/-- What is written. -/
inductive Written (R Q : Type) where
  | openssl (path root : String)
  | sevPolicy (form : OutForm) (q : Policy.SevPolicy R)
  | tdxPolicy (form : OutForm) (q : Policy.TdxPolicy Q R)

/-- Effects on the Backend's IO: `Create(path)` (creates or truncates) and the write to what it returned. -/
inductive Effect (R Q : Type) where
  | create (path : String)
  | write (path : String) (w : Written R Q)

def Effect.path {R Q : Type} : Effect R Q → String
  | .create p => p
  | .write p _ => p

structure Run (R Q : Type) where
  effects : List (Effect R Q)
  result : Verify.Res

/-- go: the tail of sevPolicyCommand / tdxPolicyCommand.runE: `c.textproto || (c.bytesform == BytesAuto &&
    out.IsTerminal())` selects prototext, otherwise WriteBytesForm(bin, c.bytesform, out). -/
def outFormOf (out : OutSpec) (terminal : Bool) : OutForm :=
  if out.textproto || (out.bytesform == bytesAuto && terminal) then .text
  else if out.bytesform == bytesHex then .hex
  else if out.bytesform == bytesBase64 then .base64
  else .raw

/-- `out, cleanup, err := backend.IO.Create(path)` … write … -/
def emit (E : Env Time) (path : String) (w : Written R Q) : Run R Q :=
  if !E.createOk path then ⟨[], .err "create"⟩
  else if !E.writeOk path then ⟨[.create path], .err "write"⟩
  else ⟨[.create path, .write path w], Verify.accept⟩

/-- The decoders of the payload the policy derivation needs, and the constants of Model/Policy.lean. -/
structure PolicyPrims (R Q : Type) where
  pem : Policy.Pem
  dflt : Policy.SevPolicy R
  emptyQ : Q
  emptyR : R
  /-- proto.Unmarshal of the payload into VMGoldenMeasurement, its sev_snp section (inner none: absent) -/
  goldenSev : Verify.Endorsement → Option (Option Policy.SevSnp)
  goldenTdx : Verify.Endorsement → Option (Option (List Policy.TdxRow))

/-- Everything `exec` is parametric in. -/
structure World (Cert Roots Time R Q : Type) where
  P : Prims Cert Roots Time R Q
  L : Lex
  G : PolicyPrims R Q
  tagS : Option (Policy.SevPolicy R) → Nat
  tagT : Option (Policy.TdxPolicy Q R) → Nat

/-- go: the library call of each RunE and what follows it. -/
def exec (W : World Cert Roots Time R Q) (E : Env Time) : Call Roots Time R Q → Run R Q
  | .help => ⟨[], Verify.accept⟩
  | .noSubcommand => ⟨[], .err "no-subcommand"⟩
  | .unmodelled => ⟨[], .err "unmodelled"⟩
  | .showCmds path root => emit E "-" (.openssl path root)
  | .verify e o => ⟨[], Verify.endorsementProto W.P.vp e o⟩
  | .sevValidate content o =>
    ⟨[], match W.P.parseAttestation content with
         | none => Verify.reject "attestation-parse"
         | some (.sevSnp sa) => Verify.sevValidate W.P.vp (some sa) (o.toVerify W.tagS)
         | some _ => Verify.reject "unsupported-attestation"⟩
  | .tdxValidate content o => ⟨[], Verify.tdxValidate W.P.vp W.P.parseAttestation content (o.toVerify W.tagT)⟩
  | .sevPolicy e o out =>
    match W.G.goldenSev e with
    | none => ⟨[], .err "golden-unmarshal"⟩
    | some g =>
      match Policy.sevPolicy W.G.pem W.G.dflt g o with
      | none => ⟨[], .err "policy"⟩
      | some q => emit E out.path (.sevPolicy (outFormOf out (E.isTerminal out.path)) q)
  | .tdxPolicy e o out =>
    match W.G.goldenTdx e with
    | none => ⟨[], .err "golden-unmarshal"⟩
    | some rows =>
      match Policy.tdxPolicy W.G.emptyQ W.G.emptyR rows o with
      | none => ⟨[], .err "policy"⟩
      | some q => emit E out.path (.tdxPolicy (outFormOf out (E.isTerminal out.path)) q)

/-- One run of the tool. -/
def run (W : World Cert Roots Time R Q) (E : Env Time) (cl : CmdLine) : Run R Q :=
  match callOf W.P W.L E cl with
  | .ok c => exec W E c
  | .err c => ⟨[], .err c⟩
  | .panic s => ⟨[], .panic s⟩

/-- The same with the pre-repair wiring. -/
def runPreRepair (W : World Cert Roots Time R Q) (E : Env Time) (cl : CmdLine) : Run R Q :=
  match callOfPreRepair W.P W.L E cl with
  | .ok c => exec W E c
  | .err c => ⟨[], .err c⟩
  | .panic s => ⟨[], .panic s⟩

/-- The files after a run: `Create` truncates, the write puts the document there (`render` = its bytes). -/
def fsAfter (render : Written R Q → Bytes) (fs : String → Option Bytes) : List (Effect R Q) → String → Option Bytes
  | [] => fs
  | .create p :: rest => fsAfter render (fun x => if x == p then some [] else fs x) rest
  | .write p w :: rest => fsAfter render (fun x => if x == p then some (render w) else fs x) rest

/-! ## the measurement half of the validate commands (C02): the same call read by Model/Policy.lean -/

/-- What the measurement reading needs from the files: the report's measurement / the quote's MRTD, the endorsement
    SevValidate / TdxValidate end up with when none is pre-supplied, the golden measurement's sections and digest,
    and the verdict of every other third-party check. -/
structure MeasurePrims where
  reportMeasurement : Bytes → Option Bytes
  quoteMrtd : Bytes → Option Bytes
  extracted : Bytes → Option Verify.Endorsement
  digest : Verify.Endorsement → Bytes
  otherChecks : Bytes → Verify.Endorsement → Bool

/-- go: SevValidate, measurement path, on the options the command line produced. -/
def measureSev (G : PolicyPrims R Q) (M : MeasurePrims) (content : Bytes) (o : SevValidateOptions Roots Time R) : Bool :=
  match M.reportMeasurement content with
  | none => false
  | some rm =>
    match (match o.endorsement with | some e => some e | none => M.extracted content) with
    | none => false
    | some e =>
      match G.goldenSev e with
      | none => false
      | some g =>
        Policy.sevValidateMeasurement G.pem G.dflt g (M.digest e) rm o.basePolicy o.overwrite
          o.expectedLaunchVmsas (M.otherChecks content e)

/-- go: TdxValidate, measurement path, on the options the command line produced. -/
def measureTdx (G : PolicyPrims R Q) (M : MeasurePrims) (content : Bytes) (o : TdxValidateOptions Roots Time R Q) : Bool :=
  match M.quoteMrtd content with
  | none => false
  | some mrtd =>
    match (match o.endorsement with | some e => some e | none => M.extracted content) with
    | none => false
    | some e =>
      match G.goldenTdx e with
      | none => false
      | some rows =>
        Policy.tdxValidateMeasurement G.emptyQ G.emptyR rows mrtd o.basePolicy o.overwrite o.expectedRAMGiB
          (M.otherChecks content e)

/-- The measurement verdict of a validate call (`false` for every other call). -/
def measureCall (G : PolicyPrims R Q) (M : MeasurePrims) : Call Roots Time R Q → Bool
  | .sevValidate content o => measureSev G M content o
  | .tdxValidate content o => measureTdx G M content o
  | _ => false

def measure (W : World Cert Roots Time R Q) (M : MeasurePrims) (E : Env Time) (cl : CmdLine) : Bool :=
  match callOf W.P W.L E cl with
  | .ok c => measureCall W.G M c
  | _ => false

def measurePreRepair (W : World Cert Roots Time R Q) (M : MeasurePrims) (E : Env Time) (cl : CmdLine) : Bool :=
  match callOfPreRepair W.P W.L E cl with
  | .ok c => measureCall W.G M c
  | _ => false

end

/-! ## the source the model was written from

Statement skeletons of the modelled functions with the options literals written out in full (the extractor
regenerates them: `Gen.RpFlags`), and the field wiring of every options literal as a table. -/
namespace Skeleton

def readProtoSteps : List String :=
  ["backend,err := backendFrom(ctx)",
   "if err != nil {return err}",
   "content,err := backend.IO.ReadFile(path)",
   "if err != nil {return <error>}",
   "if err := proto.Unmarshal(content, m); err != nil {return <error>}",
   "return nil"]
def rootOfTrustSteps : List String :=
  ["backend,err := backendFrom(ctx)",
   "if err != nil {return nil,err}",
   "rot := x509.NewCertPool()",
   "var data []byte",
   "if root != \"\" {data,err = backend.IO.ReadFile(root)} else {if backend.Getter == nil {return nil,errNoGetter}; data,err = backend.Getter.Get(gcetcbendorsement.DefaultRootURL)}",
   "if err != nil {return nil,<error>}",
   "if !rot.AppendCertsFromPEM(data) {rootCert,err := x509.ParseCertificate(data); if err != nil {return nil,<error>}; rot.AddCert(rootCert)}",
   "return rot,nil"]
def verifyPreRunSteps : List String :=
  ["if len(args) != 1 {return <error>}",
   "if !c.show {c.endorsement = &epb.VMLaunchEndorsement{}; return ReadProto(cmd.Context(), args[0], c.endorsement)}",
   "return nil"]
def verifyRunSteps : List String :=
  ["backend,err := backendFrom(cmd.Context())",
   "if err != nil {return err}",
   "if c.show {if c.root == \"\" {c.root = gcetcbendorsement.DefaultRootCmd}; out,done,err := backend.IO.Create(\"-\"); if err != nil {return err}; defer done(); _,err = fmt.Fprintf(out, \"%s \\\\\\n&& \\\\\\n%s\\n\", gcetcbendorsement.OpensslVerifyCertShellCmd(os.Args[0], args[0], c.root), gcetcbendorsement.OpensslVerifyShellCmd(os.Args[0], args[0])); return err}",
   "rot,err := rootOfTrust(cmd.Context(), c.root)",
   "if err != nil {return err}",
   "return verify.EndorsementProto(c.endorsement, &verify.Options{Now: backend.Now, Getter: backend.Getter, RootsOfTrust: rot})"]
def sevPreRunSteps : List String :=
  ["if c.base != \"\" {c.basePolicy = &cpb.Policy{}; return ReadProto(cmd.Context(), c.base, c.basePolicy)}",
   "return nil"]
def sevPolicyPreRunSteps : List String :=
  ["if len(args) != 1 {return <error>}",
   "if c.outform == \"textproto\" {c.textproto = true} else if c.bytesform,err = gcetcbendorsement.ParseBytesForm(c.outform); err != nil {return err}",
   "endorsement := args[0]",
   "c.endorsement = &epb.VMLaunchEndorsement{}",
   "return ReadProto(cmd.Context(), endorsement, c.endorsement)"]
def sevPolicyRunSteps : List String :=
  ["backend,err := backendFrom(cmd.Context())",
   "if err != nil {return err}",
   "s,err := sevFrom(cmd.Context())",
   "if err != nil {return err}",
   "policy,err := gcetcbendorsement.SevPolicy(cmd.Context(), c.endorsement, &gcetcbendorsement.SevPolicyOptions{Base: s.basePolicy, Overwrite: s.overwrite, LaunchVmsas: s.launchVmsas, AllowUnspecifiedVmsas: s.allowUnspecifiedVmsas})",
   "if err != nil {return <error>}",
   "out,cleanup,err := backend.IO.Create(c.out)",
   "if err != nil {return err}",
   "defer cleanup()",
   "if c.textproto || (c.bytesform == gcetcbendorsement.BytesAuto && out.IsTerminal()) {text,err := prototext.MarshalOptions{Multiline: true, Indent: \" \"}.Marshal(policy); if err != nil {return <error>}; _,err = out.Write(text); return err}",
   "bin,err := proto.Marshal(policy)",
   "if err != nil {return <error>}",
   "return gcetcbendorsement.WriteBytesForm(bin, c.bytesform, out)"]
def sevValidatePreRunSteps : List String :=
  ["backend,err := backendFrom(cmd.Context())",
   "if err != nil {return err}",
   "if len(args) != 1 {return <error>}",
   "attestation := args[0]",
   "content,err := backend.IO.ReadFile(attestation)",
   "if err != nil {return <error>}",
   "c.content = content",
   "if c.endorsementPath != \"\" {c.endorsement = &epb.VMLaunchEndorsement{}; return ReadProto(cmd.Context(), c.endorsementPath, c.endorsement)}",
   "return nil"]
def sevValidateRunSteps : List String :=
  ["backend,err := backendFrom(cmd.Context())",
   "if err != nil {return err}",
   "s,err := sevFrom(cmd.Context())",
   "if err != nil {return err}",
   "rot,err := rootOfTrust(cmd.Context(), c.root)",
   "if err != nil {return err}",
   "tpmat,err := extract.Attestation(c.content)",
   "if err != nil {return err}",
   "switch at := tpmat.TeeAttestation.(type) {case *tpmpb.Attestation_SevSnpAttestation: {return gcetcbendorsement.SevValidate(cmd.Context(), at.SevSnpAttestation, &gcetcbendorsement.SevValidateOptions{Now: backend.Now, Getter: backend.Getter, Endorsement: c.endorsement, Overwrite: s.overwrite, BasePolicy: s.basePolicy, RootsOfTrust: rot, TestonlyForceGCS: c.testonlyForceGCS, ExpectedLaunchVmsas: s.launchVmsas})}}",
   "return <error>"]
def tdxPreRunSteps : List String :=
  ["if c.base != \"\" {c.basePolicy = &tcpb.Policy{}; return ReadProto(cmd.Context(), c.base, c.basePolicy)}",
   "return nil"]
def tdxPolicyPreRunSteps : List String :=
  ["if len(args) != 1 {return <error>}",
   "if c.outform == \"textproto\" {c.textproto = true} else if c.bytesform,err = gcetcbendorsement.ParseBytesForm(c.outform); err != nil {return err}",
   "endorsement := args[0]",
   "c.endorsement = &epb.VMLaunchEndorsement{}",
   "return ReadProto(cmd.Context(), endorsement, c.endorsement)"]
def tdxPolicyRunSteps : List String :=
  ["backend,err := backendFrom(cmd.Context())",
   "if err != nil {return err}",
   "s,err := tdxFrom(cmd.Context())",
   "if err != nil {return err}",
   "policy,err := gcetcbendorsement.TdxPolicy(cmd.Context(), c.endorsement, &gcetcbendorsement.TdxPolicyOptions{Base: s.basePolicy, Overwrite: s.overwrite, RAMGiB: s.ramGiB})",
   "if err != nil {return <error>}",
   "out,cleanup,err := backend.IO.Create(c.out)",
   "if err != nil {return err}",
   "defer cleanup()",
   "if c.textproto || (c.bytesform == gcetcbendorsement.BytesAuto && out.IsTerminal()) {text,err := prototext.MarshalOptions{Multiline: true, Indent: \" \"}.Marshal(policy); if err != nil {return <error>}; _,err = out.Write(text); return err}",
   "bin,err := proto.Marshal(policy)",
   "if err != nil {return <error>}",
   "return gcetcbendorsement.WriteBytesForm(bin, c.bytesform, out)"]
def tdxValidatePreRunSteps : List String :=
  ["backend,err := backendFrom(cmd.Context())",
   "if err != nil {return err}",
   "if len(args) != 1 {return <error>}",
   "attestation := args[0]",
   "content,err := backend.IO.ReadFile(attestation)",
   "if err != nil {return <error>}",
   "c.content = content",
   "if c.endorsementPath != \"\" {c.endorsement = &epb.VMLaunchEndorsement{}; return ReadProto(cmd.Context(), c.endorsementPath, c.endorsement)}",
   "return nil"]
def tdxValidateRunSteps : List String :=
  ["backend,err := backendFrom(cmd.Context())",
   "if err != nil {return err}",
   "s,err := tdxFrom(cmd.Context())",
   "if err != nil {return err}",
   "rot,err := rootOfTrust(cmd.Context(), c.root)",
   "if err != nil {return err}",
   "return gcetcbendorsement.TdxValidate(cmd.Context(), c.content, &gcetcbendorsement.TdxValidateOptions{Now: backend.Now, Getter: backend.Getter, Endorsement: c.endorsement, Overwrite: s.overwrite, BasePolicy: s.basePolicy, RootsOfTrust: rot, ExpectedRAMGiB: s.ramGiB})"]

/-- (function, options type, field, expression): how each options record handed to the library is filled.
    `backend` = the Backend of the context, `rot` = the result of rootOfTrust(c.root), `c` = the sub-command's
    struct, `s` = the parent `sev` / `tdx` command's struct (where the persistent flags land). -/
def wiring : List (String × String × String × String) :=
  [("verifyCommand.runE", "verify.Options", "Now", "backend.Now"),
   ("verifyCommand.runE", "verify.Options", "Getter", "backend.Getter"),
   ("verifyCommand.runE", "verify.Options", "RootsOfTrust", "rot"),
   ("sevPolicyCommand.runE", "gcetcbendorsement.SevPolicyOptions", "Base", "s.basePolicy"),
   ("sevPolicyCommand.runE", "gcetcbendorsement.SevPolicyOptions", "Overwrite", "s.overwrite"),
   ("sevPolicyCommand.runE", "gcetcbendorsement.SevPolicyOptions", "LaunchVmsas", "s.launchVmsas"),
   ("sevPolicyCommand.runE", "gcetcbendorsement.SevPolicyOptions", "AllowUnspecifiedVmsas", "s.allowUnspecifiedVmsas"),
   ("sevValidateCommand.runE", "gcetcbendorsement.SevValidateOptions", "Now", "backend.Now"),
   ("sevValidateCommand.runE", "gcetcbendorsement.SevValidateOptions", "Getter", "backend.Getter"),
   ("sevValidateCommand.runE", "gcetcbendorsement.SevValidateOptions", "Endorsement", "c.endorsement"),
   ("sevValidateCommand.runE", "gcetcbendorsement.SevValidateOptions", "Overwrite", "s.overwrite"),
   ("sevValidateCommand.runE", "gcetcbendorsement.SevValidateOptions", "BasePolicy", "s.basePolicy"),
   ("sevValidateCommand.runE", "gcetcbendorsement.SevValidateOptions", "RootsOfTrust", "rot"),
   ("sevValidateCommand.runE", "gcetcbendorsement.SevValidateOptions", "TestonlyForceGCS", "c.testonlyForceGCS"),
   ("sevValidateCommand.runE", "gcetcbendorsement.SevValidateOptions", "ExpectedLaunchVmsas", "s.launchVmsas"),
   ("tdxPolicyCommand.runE", "gcetcbendorsement.TdxPolicyOptions", "Base", "s.basePolicy"),
   ("tdxPolicyCommand.runE", "gcetcbendorsement.TdxPolicyOptions", "Overwrite", "s.overwrite"),
   ("tdxPolicyCommand.runE", "gcetcbendorsement.TdxPolicyOptions", "RAMGiB", "s.ramGiB"),
   ("tdxValidateCommand.runE", "gcetcbendorsement.TdxValidateOptions", "Now", "backend.Now"),
   ("tdxValidateCommand.runE", "gcetcbendorsement.TdxValidateOptions", "Getter", "backend.Getter"),
   ("tdxValidateCommand.runE", "gcetcbendorsement.TdxValidateOptions", "Endorsement", "c.endorsement"),
   ("tdxValidateCommand.runE", "gcetcbendorsement.TdxValidateOptions", "Overwrite", "s.overwrite"),
   ("tdxValidateCommand.runE", "gcetcbendorsement.TdxValidateOptions", "BasePolicy", "s.basePolicy"),
   ("tdxValidateCommand.runE", "gcetcbendorsement.TdxValidateOptions", "RootsOfTrust", "rot"),
   ("tdxValidateCommand.runE", "gcetcbendorsement.TdxValidateOptions", "ExpectedRAMGiB", "s.ramGiB")]

/-- the rows of one options literal -/
def wiringOf (w : List (String × String × String × String)) (fn : String) : List (String × String) :=
  (w.filter (fun r => r.1 == fn)).map (fun r => (r.2.2.1, r.2.2.2))

end Skeleton

end GceTcb.RpCli
