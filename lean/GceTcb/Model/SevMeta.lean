import GceTcb.Model.GuidTable
/-
C04 / C08 — executable model of ovmf/sev_data.go (SEV-ES reset block, SEV-SNP metadata sections and
their validation).  Core-only.  Same Go semantics as Model/GuidTable.lean; uint32 arithmetic that can
wrap is written with the wrap explicit.

Models the REPAIRED code (three `fix:` commits of this property):
* extractSevOvmfMetadata refuses an offset below the 16-byte header (was: slice panic),
* the Length/Sections consistency check is computed in 64 bits (was: `Sections*12+16` in uint32),
* validateSections computes a section's end in 64 bits (was: uint32, overlaps near 4 GiB hidden).
`sort.Slice` is library code: it is modelled by `List.mergeSort` on the start address; the verdict
of the overlap check does not depend on which sorted permutation the library produces
(Proofs/SnpSections.lean, `overlapSorted_perm_invariant`).
-/
namespace GceTcb.SevMeta
open GceTcb GceTcb.Codec GceTcb.Codecs GceTcb.GuidTable

/-- uuid bytes of abi.SevEsResetBlockGUID 00f771de-1a7e-4fcb-890e-68c77e2fb44e -/
def sevEsResetBlockGuid : Bytes :=
  [0x00, 0xf7, 0x71, 0xde, 0x1a, 0x7e, 0x4f, 0xcb, 0x89, 0x0e, 0x68, 0xc7, 0x7e, 0x2f, 0xb4, 0x4e]
/-- uuid bytes of abi.SevMetadataOffsetGUID dc886566-984a-4798-a75e-5585a7bf67cc -/
def sevMetadataOffsetGuid : Bytes :=
  [0xdc, 0x88, 0x65, 0x66, 0x98, 0x4a, 0x47, 0x98, 0xa7, 0x5e, 0x55, 0x85, 0xa7, 0xbf, 0x67, 0xcc]

def sevSnpMetadataSignature : Nat := 0x56455341

/-- go: ovmf.extractGUIDBlockFromMap -/
def extractGUIDBlockFromMap (m : BlockMap) (guid : Bytes) (blockSize : Nat) : Outcome Bytes :=
  match m.lookup guid with
  | none => .err "no-block"
  | some entry => if entry.length % 2 ^ 32 ≠ blockSize then .err "block-size" else .ok entry

/-- go: abi.SevEsResetBlockFromBytes — `len(data) != 22` is an error; then `data[6:22]`, `data[0:4]`,
    `data[4:6]` (three slice sites, in range once the length is 22). -/
def sevEsResetBlockFromBytes (data : Bytes) : Outcome ResetBlock :=
  if data.length ≠ 22 then .err "reset-size"
  else
    match slice "abi.SevEsResetBlockFromBytes#0:slice" data 6 22 with
    | .ok _ =>
      match slice "abi.SevEsResetBlockFromBytes#1:slice" data 0 4 with
      | .ok _ =>
        match slice "abi.SevEsResetBlockFromBytes#2:slice" data 4 6 with
        | .ok _ => .ok (resetBlockRec.ofVals (decF resetBlockRec.ws data))
        | .err c => .err c
        | .panic s => .panic s
      | .err c => .err c
      | .panic s => .panic s
    | .err c => .err c
    | .panic s => .panic s

/-- go: ovmf.extractSevEsResetBlock -/
def extractSevEsResetBlock (m : BlockMap) : Outcome ResetBlock :=
  match extractGUIDBlockFromMap m sevEsResetBlockGuid 22 with
  | .ok blk => sevEsResetBlockFromBytes blk
  | .err c => .err c
  | .panic s => .panic s

/-- go: abi.MetadataOffsetFromBytes — `guidBlock[0:4]`, `guidBlock[4:22]`, then PopulateFromBytes -/
def metadataOffsetFromBytes (blk : Bytes) : Outcome MetadataOffset :=
  match slice "abi.MetadataOffsetFromBytes#0:slice" blk 0 4 with
  | .ok o =>
    match slice "abi.MetadataOffsetFromBytes#1:slice" blk 4 22 with
    | .ok eb =>
      match populateFromBytes eb with
      | .ok e => .ok ⟨leVal o, e⟩
      | .err c => .err c
      | .panic s => .panic s
    | .err c => .err c
    | .panic s => .panic s
  | .err c => .err c
  | .panic s => .panic s

/-- go: abi.SevMetadataFromBytes — `guidBlock[0:4]`, `[4:8]`, `[8:12]`, `[12:16]` -/
def sevMetadataFromBytes (b : Bytes) : Outcome SevMetadata :=
  match slice "abi.SevMetadataFromBytes#0:slice" b 0 4 with
  | .ok s0 =>
    match slice "abi.SevMetadataFromBytes#1:slice" b 4 8 with
    | .ok s1 =>
      match slice "abi.SevMetadataFromBytes#2:slice" b 8 12 with
      | .ok s2 =>
        match slice "abi.SevMetadataFromBytes#3:slice" b 12 16 with
        | .ok s3 => .ok ⟨leVal s0, leVal s1, leVal s2, leVal s3⟩
        | .err c => .err c
        | .panic s => .panic s
      | .err c => .err c
      | .panic s => .panic s
    | .err c => .err c
    | .panic s => .panic s
  | .err c => .err c
  | .panic s => .panic s

/-- go: abi.SevMetadataSectionFromBytes — `guidBlock[0:4]`, `[4:8]`, `[8:12]` -/
def sevMetadataSectionFromBytes (b : Bytes) : Outcome SevMetadataSection :=
  match slice "abi.SevMetadataSectionFromBytes#0:slice" b 0 4 with
  | .ok s0 =>
    match slice "abi.SevMetadataSectionFromBytes#1:slice" b 4 8 with
    | .ok s1 =>
      match slice "abi.SevMetadataSectionFromBytes#2:slice" b 8 12 with
      | .ok s2 => .ok ⟨leVal s0, leVal s1, leVal s2⟩
      | .err c => .err c
      | .panic s => .panic s
    | .err c => .err c
    | .panic s => .panic s
  | .err c => .err c
  | .panic s => .panic s

/-- The section loop of extractSevOvmfMetadata: `for it := 0; it < int(Sections); it++`, reading
    `firmware[metadataStart+it*12:]` (a slice site) — structural recursion on the remaining count. -/
def readSections (fw : Bytes) (start : Int) : (count : Nat) → (it : Nat) → Outcome (List SevMetadataSection)
  | 0, _ => .ok []
  | k + 1, it =>
    match slice "ovmf.extractSevOvmfMetadata#1:slice" fw (start + it * 12) fw.length with
    | .ok blk =>
      match sevMetadataSectionFromBytes blk with
      | .ok s =>
        match readSections fw start k (it + 1) with
        | .ok rest => .ok (s :: rest)
        | .err c => .err c
        | .panic p => .panic p
      | .err c => .err c
      | .panic p => .panic p
    | .err c => .err c
    | .panic p => .panic p

/-- iterations of the section loop that are started (each reads one 12-byte descriptor) -/
def readSectionsTicks (fw : Bytes) (start : Int) : (count : Nat) → (it : Nat) → Nat
  | 0, _ => 0
  | k + 1, it =>
    match slice "ovmf.extractSevOvmfMetadata#1:slice" fw (start + it * 12) fw.length with
    | .ok blk =>
      match sevMetadataSectionFromBytes blk with
      | .ok _ => 1 + readSectionsTicks fw start k (it + 1)
      | _ => 1
    | _ => 1

/-- The checks of extractSevOvmfMetadata up to the section loop: the section count and the
    `metadataStart` offset. -/
def sevMetadataHeader (m : BlockMap) (fw : Bytes) : Outcome (Nat × Int) :=
  match extractGUIDBlockFromMap m sevMetadataOffsetGuid 22 with
  | .ok blk =>
    match metadataOffsetFromBytes blk with
    | .ok mo =>
      if fw.length < mo.offset then .err "fw-small-offset"
      else if mo.offset < 16 then .err "offset-small"             -- fix: D5a
      else
        match slice "ovmf.extractSevOvmfMetadata#0:slice" fw ((fw.length : Int) - mo.offset) fw.length with
        | .ok hb =>
          match sevMetadataFromBytes hb with
          | .ok md =>
            if md.signature ≠ sevSnpMetadataSignature then .err "signature"
            else if md.length ≠ md.sections * 12 + 16 then .err "length-mismatch"   -- fix: D5b (64-bit)
            else if mo.offset < md.length then .err "offset-lt-length"
            else .ok (md.sections, (fw.length : Int) - mo.offset + 16)
          | .err c => .err c
          | .panic s => .panic s
        | .err c => .err c
        | .panic s => .panic s
    | .err c => .err c
    | .panic s => .panic s
  | .err c => .err c
  | .panic s => .panic s

/-- go: ovmf.extractSevOvmfMetadata -/
def extractSevOvmfMetadata (m : BlockMap) (fw : Bytes) : Outcome (List SevMetadataSection) :=
  match sevMetadataHeader m fw with
  | .ok (count, start) => readSections fw start count 0
  | .err c => .err c
  | .panic s => .panic s

def extractSevOvmfMetadataTicks (m : BlockMap) (fw : Bytes) : Nat :=
  match sevMetadataHeader m fw with
  | .ok (count, start) => readSectionsTicks fw start count 0
  | _ => 0

/-- go: SevData.ExtractFromFirmware on a fresh `SevData{SevEs: sevEs, SevSnp: sevSnp}`: the reset block
    and the sections it stores (none when the respective flag is off). -/
def extractFromFirmware (sevEs sevSnp : Bool) (fw : Bytes) :
    Outcome (Option ResetBlock × Option (List SevMetadataSection)) :=
  if !sevEs then (if sevSnp then .err "snp-without-es" else .ok (none, none))
  else
    match getFwGUIDToBlockMap fw with
    | .ok m =>
      match extractSevEsResetBlock m with
      | .ok rb =>
        if sevSnp then
          match extractSevOvmfMetadata m fw with
          | .ok secs => .ok (some rb, some secs)
          | .err c => .err c
          | .panic s => .panic s
        else .ok (some rb, none)
      | .err c => .err c
      | .panic s => .panic s
    | .err c => .err c
    | .panic s => .panic s

def extractFromFirmwareTicks (sevEs sevSnp : Bool) (fw : Bytes) : Nat :=
  if !sevEs then 0
  else
    getFwGUIDToBlockMapTicks fw +
    match getFwGUIDToBlockMap fw with
    | .ok m =>
      match extractSevEsResetBlock m with
      | .ok _ => if sevSnp then extractSevOvmfMetadataTicks m fw else 0
      | _ => 0
    | _ => 0

/-! ## validateSections -/

def kindUnmeasured : Nat := 1
def kindSecret : Nat := 2
def kindCpuid : Nat := 3
def kindSvsmCaa : Nat := 4

/-- The first loop of validateSections: duplicate secret/CPUID kinds, lengths; `seen` is the key set
    of `allocatedTypeAddress`. Returns the kinds seen. -/
def checkSections : List SevMetadataSection → List Nat → Outcome (List Nat)
  | [], seen => .ok seen
  | s :: rest, seen =>
    if seen.contains s.kind ∧ (s.kind = kindSecret ∨ s.kind = kindCpuid) then .err "dup-kind"
    else if s.length % 4096 ≠ 0 ∨ s.length = 0 then .err "section-length"
    else checkSections rest (s.kind :: seen)

/-- `checkData[i].end > checkData[i+1].start` for some adjacent pair (ends in 64 bits: fix D16) -/
def overlapSorted : List SevMetadataSection → Bool
  | a :: b :: rest => (a.address + a.length > b.address) || overlapSorted (b :: rest)
  | _ => false

def startLe (a b : SevMetadataSection) : Bool := a.address ≤ b.address

/-- go: SevData.validateSections (the sections were set by ExtractFromFirmware; `nil` iff none read) -/
def validateSections (secs : List SevMetadataSection) : Outcome Unit :=
  if secs = [] then .err "no-metadata"
  else
    match checkSections secs [] with
    | .ok seen =>
      if !seen.contains kindUnmeasured then .err "no-unmeasured"
      else if !seen.contains kindSecret then .err "no-secret"
      else if !seen.contains kindCpuid then .err "no-cpuid"
      else if overlapSorted (secs.mergeSort startLe) then .err "overlap"
      else .ok ()
    | .err c => .err c
    | .panic s => .panic s

/-- loop iterations of validateSections: the checking loop (up to the first error) and the overlap
    loop; the comparisons inside sort.Slice (library, O(n log n)) are not counted. -/
def validateSectionsTicks (secs : List SevMetadataSection) : Nat := secs.length + (secs.length - 1)

/-- go: ovmf.GetRipAndCsBaseFromSevEsResetBlock -/
def ripAndCsBase (rb : ResetBlock) : Nat × Nat := (rb.addr % 2 ^ 16, rb.addr - rb.addr % 2 ^ 16)

end GceTcb.SevMeta
