import GceTcb.Model.EventLog
/-
C18 — the RECEIVER of every event-log decoder inside the model.

The Go decoders of eventlog/ decode INTO a value the caller supplies (`func (b *T) Unmarshal(r io.Reader) error`).
Model/EventLog.lean is functional (`Bytes → Res Value`: a decode into a fresh value).  Here every decoder is
`…Into (recv : Value) (input : Bytes) : RRes Value`: it takes what the receiver holds before the call and
returns, on EVERY path (success, `io.EOF`-class error, other error), what the receiver holds after it —
following the Go code assignment by assignment: which field is stored on which path, including the stores
made before an error is returned.

The readers are those of the tree (`strict = true` in the terms of Model/EventLog.lean: readExact, append-grown
digest array, log ending only at a clean end of input); `k : RKind` is the reader kind as before.

`Variant` selects code versions that differ only in their stores:
  * `tree`         — the code in the repository (after the repair of CryptoAgileLog.Unmarshal, see below);
  * `keepOnEmpty`  — seeded change C18-G: `readSizedArray` returns early for a declared size 0 without the
                     store `*data = result`;
  * `digestsAppend`— `Uint32SizedArrayT.Unmarshal` without its `d.Array = nil`;
  * `logAppends`   — `CryptoAgileLog.Unmarshal` as it was before the repair: `cel.Events = append(cel.Events, evt)`
                     on top of whatever the receiver held (no `cel.Events = nil`);
  * `event3Reuse`  — `TCGEventData.Unmarshal` decoding into the SP800155Event3 the receiver already holds instead of
                     `factory()` (a skipped reset of an optional field).
Props/C18Recv.lean proves the receiver-independence theorems for `tree` and refutes them, by concrete inputs, for
each of the others.
-/
namespace GceTcb.EventLog
open GceTcb GceTcb.Codec GceTcb.Codecs

/-- which version of the stores -/
structure Variant where
  keepOnEmpty : Bool
  digestsAppend : Bool
  logAppends : Bool
  event3Reuse : Bool
deriving DecidableEq, Repr

/-- the code in the tree -/
def Variant.tree : Variant := ⟨false, false, false, false⟩

/-- Result of a decode into a receiver: the state of the receiver after the call on every path. -/
inductive RRes (α : Type) where
  | ok (recv : α) (rest : Bytes)
  | eof (recv : α)     -- an error for which errors.Is(err, io.EOF) holds
  | fail (recv : α)    -- any other error
deriving DecidableEq, Repr

namespace RRes
variable {α β : Type}

/-- what the receiver holds after the call -/
def recv : RRes α → α
  | ok a _ => a
  | eof a => a
  | fail a => a

/-- the result as the functional model reports it (the receiver of a failed decode is forgotten) -/
def toRes : RRes α → Res α
  | ok a rest => .ok a rest
  | eof _ => .eof
  | fail _ => .fail

def isOk : RRes α → Bool
  | ok _ _ => true
  | _ => false

/-- A decoder that computes its result in locals and stores it with ONE assignment on the success
    path (`*data = result`, `b.Data = …`, `g.UUID = result`, `binary.Read(r, …, &x)`): an error leaves
    the receiver as it was. -/
def ofRes (recv : α) : Res α → RRes α
  | .ok a rest => ok a rest
  | .eof => eof recv
  | .fail => fail recv

/-- A sub-decoder ran IN PLACE on one field of the receiver (`littleRead(r, name, &e.Field)`): whatever it
    left in the field is in the receiver, on every path; after a success the decoder goes on with `k`. -/
def thenStore (r : RRes β) (recv : α) (set : α → β → α) (k : α → Bytes → RRes α) : RRes α :=
  match r with
  | ok x rest => k (set recv x) rest
  | eof x => eof (set recv x)
  | fail x => fail (set recv x)

/-- error wrapped with `%v` (or a fresh error): never `io.EOF` any more -/
def noEof : RRes α → RRes α
  | eof a => fail a
  | x => x

end RRes

/-- the readers of the tree -/
def treeCfg (k : RKind) : Cfg := ⟨true, k⟩

/-- go: binary.Read(r, binary.LittleEndian, &x) for an n-byte integer `x` of the receiver (through littleRead):
    the bytes are read into a scratch buffer first; `x` is assigned only when all n bytes were there. -/
def readLEInto (n : Nat) (recv : Nat) (b : Bytes) : RRes Nat := RRes.ofRes recv (readLE n b)

/-! ## eventlog/unmarshal.go -/

/-- go: eventlog.readSizedArray(r, size, data *[]byte).  `size` is a local of the caller.  The only store
    into the receiver is `*data = result` after readExact succeeded; for a declared size 0 readExact yields
    nil and the store makes the receiver empty.  Variant `keepOnEmpty` (seeded C18-G): `if n == 0 { return nil }`
    before readExact — no store. -/
def readSizedArrayInto (v : Variant) (k : RKind) (w : Nat) (recv : Bytes) (b : Bytes) : RRes Bytes :=
  match readLE w b with
  | .eof => .eof recv
  | .fail => .fail recv
  | .ok size rest =>
    if v.keepOnEmpty && size == 0 then .ok recv rest
    else
      match readBody (treeCfg k) true size rest with
      | .eof => .eof recv
      | .fail => .fail recv
      | .ok result rest => .ok result rest      -- *data = result

/-- go: ByteSizedCStr.Unmarshal — `var data []byte` is a fresh local receiver of readSizedArray; `b.Data` is
    assigned once, after the terminator check. -/
def readCStrInto (v : Variant) (k : RKind) (recv : Bytes) (b : Bytes) : RRes Bytes :=
  match readSizedArrayInto v k 1 [] b with
  | .eof _ => .eof recv
  | .fail _ => .fail recv
  | .ok data rest =>
    if data.isEmpty || data.getLast? != some 0 then .fail recv else .ok data.dropLast rest

/-- go: Uint32SizedArray.Unmarshal — `readSizedArray(r, &size, &b.Data)` -/
def readU32ArrayInto (v : Variant) (k : RKind) (recv : Bytes) (b : Bytes) : RRes Bytes :=
  readSizedArrayInto v k 4 recv b

/-- go: EfiGUID.Unmarshal — reads into the local `efiguid [16]byte`; `g.UUID = result` on success only -/
def readGuidInto (recv : Bytes) (b : Bytes) : RRes Bytes := RRes.ofRes recv (readGuid b)

/-! ## eventlog/tpm.go -/

/-- go: TaggedDigest.Unmarshal.
    1. `littleRead(r, "AlgID", &d.AlgID)`: stored when both bytes were there;
    2. unknown algorithm: error, `d.AlgID` already holds the new id, `d.Digest` the old digest;
    3. `d.Digest = make([]byte, algSize)`; `r.Read(d.Digest)` copies what remains (at most algSize bytes) over the
       zeros: after a SHORT read the receiver holds the new id and the bytes that were there completed with zeros —
       a value Marshal accepts (`C18_recv_Digest_failed_reencodes`). -/
def readDigestInto (recv : Digest) (b : Bytes) : RRes Digest :=
  match readLE 2 b with
  | .eof => .eof recv
  | .fail => .fail recv
  | .ok alg rest =>
    match tpmAlgoSize alg with
    | none => .fail { recv with alg := alg }
    | some sz =>
      if sz ≤ rest.length then .ok ⟨alg, rest.take sz⟩ (rest.drop sz)
      else .fail ⟨alg, rest ++ zeros (sz - rest.length)⟩

/-- the zero value `&TaggedDigest{}` that `elem.Create()` returns -/
def Digest.zero : Digest := ⟨0, []⟩

/-- the element loop of Uint32SizedArrayT[*TaggedDigest].Unmarshal; `acc` is `d.Array` so far.  Each element is
    decoded into a FRESH value (`elem.Create()`), appended only after it decoded; an element error (`%v`: never
    io.EOF) leaves the elements read so far in the receiver. -/
def readDigestsInto : Nat → List Digest → Bytes → RRes (List Digest)
  | 0, acc, b => .ok acc b
  | n + 1, acc, b =>
    match readDigestInto Digest.zero b with
    | .ok d rest => readDigestsInto n (acc ++ [d]) rest     -- d.Array = append(d.Array, elem)
    | .eof _ => .fail acc
    | .fail _ => .fail acc

/-- go: Uint32SizedArrayT[*TaggedDigest].Unmarshal — a failed count read (`%v`) leaves the receiver; then
    `d.Array = nil` (not in variant `digestsAppend`) and the loop. -/
def readDigestArrayInto (v : Variant) (recv : List Digest) (b : Bytes) : RRes (List Digest) :=
  match readLE 4 b with
  | .eof => .fail recv
  | .fail => .fail recv
  | .ok n rest => readDigestsInto n (if v.digestsAppend then recv else []) rest

/-! ## eventlog/tcg2.go -/

/-- the zero value `&SP800155Event3{}` (uuid.UUID is a [16]byte array) -/
def Event3.zero : Event3 := ⟨0, zeros 16, [], [], [], [], 0, [], 0, [], 0, []⟩

/-- The twelve `littleRead(r, name, &evt.Field)` calls of SP800155Event3.UnmarshalFromBytes: each decodes in place
    into its field; the first error returns with the fields before it updated and the others as they were. -/
def readEvent3FieldsInto (v : Variant) (k : RKind) (e : Event3) (b : Bytes) : RRes Event3 :=
  (readLEInto 4 e.platformManufacturerId b).thenStore e (fun e x => { e with platformManufacturerId := x }) fun e b =>
  (readGuidInto e.referenceManifestGuid b).thenStore e (fun e x => { e with referenceManifestGuid := x }) fun e b =>
  (readCStrInto v k e.platformManufacturerStr b).thenStore e (fun e x => { e with platformManufacturerStr := x }) fun e b =>
  (readCStrInto v k e.platformModel b).thenStore e (fun e x => { e with platformModel := x }) fun e b =>
  (readCStrInto v k e.platformVersion b).thenStore e (fun e x => { e with platformVersion := x }) fun e b =>
  (readCStrInto v k e.firmwareManufacturerStr b).thenStore e (fun e x => { e with firmwareManufacturerStr := x }) fun e b =>
  (readLEInto 4 e.firmwareManufacturerId b).thenStore e (fun e x => { e with firmwareManufacturerId := x }) fun e b =>
  (readCStrInto v k e.firmwareVersion b).thenStore e (fun e x => { e with firmwareVersion := x }) fun e b =>
  (readLEInto 4 e.rimLocatorType b).thenStore e (fun e x => { e with rimLocatorType := x }) fun e b =>
  (readU32ArrayInto v k e.rimLocator b).thenStore e (fun e x => { e with rimLocator := x }) fun e b =>
  (readLEInto 4 e.platformCertLocatorType b).thenStore e (fun e x => { e with platformCertLocatorType := x }) fun e b =>
  (readU32ArrayInto v k e.platformCertLocator b).thenStore e (fun e x => { e with platformCertLocator := x }) fun e b =>
  .ok e b

/-- go: SP800155Event3.UnmarshalFromBytes — the fields over `bytes.NewBuffer(data)`, then the remaining bytes must
    all be zero; that last check fails with ALL twelve fields already stored. -/
def unmarshalEvent3Into (v : Variant) (e : Event3) (data : Bytes) : RRes Event3 :=
  match readEvent3FieldsInto v .buffer e data with
  | .ok e rest => if allZero rest then .ok e [] else .fail e
  | .eof e => .eof e
  | .fail e => .fail e

/-! ## eventlog/event.go -/

/-- the SP800155Event3 that TCGEventData.Unmarshal decodes into: `factory()` — a fresh zero value; in variant
    `event3Reuse` the event the receiver already holds, when it holds one -/
def event3Target (v : Variant) (recv : EventData) : Event3 :=
  match v.event3Reuse, recv with
  | true, .event3 old => old
  | _, _ => Event3.zero

/-- go: TCGEventData.Unmarshal.  `size`, `chunk` are locals: the two read errors leave `d.Event`.  Then one of
    `d.Event = &UnknownEvent{Data: chunk}` or `d.Event = factory()` (a FRESH SP800155Event3) followed by
    `d.Event.UnmarshalFromBytes(…)` in place: when that fails `d.Event` is the partly filled fresh event.
    Variant `event3Reuse`: an SP800155Event3 the receiver already holds is decoded into instead of a fresh one. -/
def readEventDataInto (v : Variant) (k : RKind) (recv : EventData) (b : Bytes) : RRes EventData :=
  match readLE 4 b with
  | .eof => .eof recv
  | .fail => .fail recv
  | .ok size rest =>
    match readBody (treeCfg k) false size rest with
    | .eof => .eof recv
    | .fail => .fail recv
    | .ok chunk rest =>
      if size ≥ 16 && chunk.take 16 == event3Signature then
        match unmarshalEvent3Into v (event3Target v recv) (chunk.drop 16) with
        | .ok e _ => .ok (.event3 e) rest
        | .eof e => .eof (.event3 e)
        | .fail e => .fail (.event3 e)
      else .ok (.raw chunk) rest

/-- go: `r.Read(e.SHA1Digest[:])` in TCGPCClientPCREvent.Unmarshal — the read goes straight into the receiver's
    [20]byte array: a short read overwrites the first `len(remaining)` bytes and leaves the others. -/
def readSha1Into (recv : Bytes) (b : Bytes) : RRes Bytes :=
  if 20 ≤ b.length then .ok (b.take 20) (b.drop 20)
  else if b.isEmpty then .eof recv
  else .fail (b ++ recv.drop b.length)

/-- go: TCGPCClientPCREvent.Unmarshal -/
def readPcrEventInto (v : Variant) (k : RKind) (e : PcrEvent) (b : Bytes) : RRes PcrEvent :=
  (readLEInto 4 e.pcrIndex b).thenStore e (fun e x => { e with pcrIndex := x }) fun e b =>
  (readLEInto 4 e.eventType b).thenStore e (fun e x => { e with eventType := x }) fun e b =>
  (readSha1Into e.sha1 b).thenStore e (fun e x => { e with sha1 := x }) fun e b =>
  (readEventDataInto v k e.data b).thenStore e (fun e x => { e with data := x }) fun e b =>
  .ok e b

/-- go: TCGPCREvent2.Unmarshal -/
def readEvent2Into (v : Variant) (k : RKind) (e : Event2) (b : Bytes) : RRes Event2 :=
  (readLEInto 4 e.pcrIndex b).thenStore e (fun e x => { e with pcrIndex := x }) fun e b =>
  (readLEInto 4 e.eventType b).thenStore e (fun e x => { e with eventType := x }) fun e b =>
  (readDigestArrayInto v e.digests b).thenStore e (fun e x => { e with digests := x }) fun e b =>
  (readEventDataInto v k e.data b).thenStore e (fun e x => { e with data := x }) fun e b =>
  .ok e b

/-- the zero value `&TCGPCREvent2{}` (nil Event = empty raw data) -/
def Event2.zero : Event2 := ⟨0, 0, [], .raw []⟩

/-- The `for` loop of CryptoAgileLog.Unmarshal; `acc` is `cel.Events` so far.  Each event is decoded into a fresh
    `&TCGPCREvent2{}` and appended only after it decoded; the log ends (successfully) where no byte of a further
    event remains; any other error returns with the events read so far in the receiver. -/
def readEventsInto (v : Variant) (k : RKind) : Nat → List Event2 → Bytes → RRes (List Event2)
  | 0, acc, _ => .fail acc
  | fuel + 1, acc, b =>
    match readEvent2Into v k Event2.zero b with
    | .eof _ => if b.isEmpty then .ok acc [] else .fail acc
    | .fail _ => .fail acc
    | .ok e rest => readEventsInto v k fuel (acc ++ [e]) rest     -- cel.Events = append(cel.Events, evt)

/-- go: CryptoAgileLog.Unmarshal — the header in place (`&cel.Header`); then `cel.Events = nil` (the repair; not in
    variant `logAppends`) and the loop. -/
def readLogInto (v : Variant) (k : RKind) (l : Log) (b : Bytes) : RRes Log :=
  match readPcrEventInto v k l.header b with
  | .eof h => .eof { l with header := h }
  | .fail h => .fail { l with header := h }
  | .ok h rest =>
    match readEventsInto v k (rest.length + 1) (if v.logAppends then l.events else []) rest with
    | .ok es r => .ok ⟨h, es⟩ r
    | .eof es => .eof ⟨h, es⟩
    | .fail es => .fail ⟨h, es⟩

/-! ## ovmf/abi: the one decoder with a pointer receiver, and the buffer of the Put encoders -/

/-- go: (*abi.FwGUIDEntry).PopulateFromBytes — `f.Size = …Uint16(data[0:2])` is stored BEFORE `data[2:18]` is sliced:
    for 2 ≤ len(data) < 18 (cap == len) the call panics with `f.Size` already overwritten.  FromEFIGUID of exactly
    16 bytes cannot fail.  Returns the outcome and the receiver after the call. -/
def fwGuidEntryPopulateInto (recv : FwGuidEntry) (b : Bytes) : Outcome Unit × FwGuidEntry :=
  if b.length < 2 then (.panic "slice", recv)
  else
    let r1 : FwGuidEntry := { recv with size := leVal (b.take 2) }
    if b.length < fwGuidEntryRec.size then (.panic "slice", r1)
    else
      match fromEFIGUID ((b.drop 2).take 16) with
      | .ok g => (.ok (), { r1 with guid := g })
      | .err e => (.err e, { r1 with guid := zeros 16 })     -- unreachable: the slice has 16 bytes
      | .panic s => (.panic s, r1)

/-- go: abi.PutSevEsResetBlock with the buffer on every path: the length and Size checks come before any write, but
    `data[0:4]`, `data[4:6]` are written BEFORE `uuid.FromBytes(s.Guid)` is checked: a refused Guid leaves a buffer
    whose first six bytes are already overwritten. -/
def putSevEsResetBlockInto (r : ResetBlock) (data : Bytes) : Outcome Unit × Bytes :=
  if data.length < resetBlockRec.size then (.err "short", data)
  else if r.size ≥ 2 ^ 16 then (.err "range", data)
  else
    let d1 := leBytes 4 r.addr ++ leBytes 2 r.size ++ data.drop 6
    if r.guid.length ≠ 16 then (.err "guid", d1)
    else (.ok (), resetBlockRec.enc r ++ data.drop resetBlockRec.size)

end GceTcb.EventLog

/-! ## the Put encoders store by store -/
namespace GceTcb.Codecs
open GceTcb GceTcb.Codec

/-- one store of the Go encoders into the caller's buffer: `PutUintN(data[off:off+w], …)`, `copy(data[off:off+w], …)`,
    `data[off] = …` — the w bytes `bs` replace `data[off:off+w]`, everything else stays -/
def storeAt (buf : Bytes) (off : Nat) (bs : Bytes) : Bytes := buf.take off ++ bs ++ buf.drop (off + bs.length)

/-- a `Put` as the Go code performs it: its stores (offset, bytes written) one after the other -/
def putStores : List (Nat × Bytes) → Bytes → Bytes
  | [], buf => buf
  | (off, bs) :: rest, buf => putStores rest (storeAt buf off bs)

/-- the stores cover a range without holes or overlap, in order, starting at `start` -/
def storesContiguousFrom : Nat → List (Nat × Bytes) → Bool
  | _, [] => true
  | start, (off, bs) :: rest => off == start && storesContiguousFrom (start + bs.length) rest

def storesImage : List (Nat × Bytes) → Bytes
  | [] => []
  | (_, bs) :: rest => bs ++ storesImage rest

/-- the store list of a `Put` from its layout table (offset, width, what): entry i writes the image `imgs[i]` of its
    field at its offset -/
def layoutStores : List (Nat × Nat × String) → List Bytes → List (Nat × Bytes)
  | (off, _, _) :: l, img :: imgs => (off, img) :: layoutStores l imgs
  | _, _ => []

/-- one image per entry, of the entry's width -/
def ImagesFit : List (Nat × Nat × String) → List Bytes → Prop
  | [], [] => True
  | (_, w, _) :: l, img :: imgs => img.length = w ∧ ImagesFit l imgs
  | _, _ => False

/-- the images of a record's fields: the little-endian bytes each store of its `Put` writes (missing values as
    zero, like `encF`) -/
def fieldImages : List Nat → List Nat → List Bytes
  | [], _ => []
  | w :: ws, [] => leBytes w 0 :: fieldImages ws []
  | w :: ws, v :: vs => leBytes w v :: fieldImages ws vs

end GceTcb.Codecs
