import GceTcb.Model.KeyCli
import GceTcb.Model.EndorseCli
import GceTcb.Model.RpCli
/-
Composition of the three command-line models (C03 at the level of the shipped TOOLS):

    bootstrap / rotate / wipeout  (Model/KeyCli.lean,     `KeyCli.cliStep`)        — the CA store and the key directory
    endorse                       (Model/EndorseCli.lean, `EndorseCli.cliRun`)     — reads the CA store, writes out_dir
    gcetcbendorsement verify | sev validate | tdx validate  (Model/RpCli.lean, `RpCli.run`) — reads files only

over ONE shared world.  Nothing of the three models is re-stated here: this file only says what each tool READS from
what another one WROTE, through small explicit adapters:

* `keysOf`      what `endorse` finds in its keys.Context (app.Global.InitContext of the nonprod application: localkm +
                localca→gcsca over the SAME key directory and store the key-management commands write):
                `PrimarySigningKeyVersion` = the primary of the `KeyHistory` state, `Certificate(primary)` = the DER of
                the certificate recorded for it, `CABundle` = the root object (PEM), `Signer.Sign(primary, toSign)` =
                RSA-PSS by the key the key directory holds under that name (`KM.live`);
* `globalPre` / `globalInit`   the two hooks of app.Global as `EndorseCli.Env` sees them: the `--key_dir` / store-name
                checks of `KeyCli.preRun`, and localca.InitContext's checkCerts (`KeyHistory.cliBlocked`);
* `endorseWrites`  the file an accepted `endorse` leaves in out_dir: path `Commit.relOut … (basename candidate)`, contents
                proto.Marshal(VMLaunchEndorsement{serialized_uefi_golden = the bytes that were signed, signature});
* `exportRoot`  `cp <bucket_root>/<bucket>/<root_path> <file>`: the relying party keeps a copy of the root object;
* the relying party's `Env.readFile` is the world's file map, its clock is the step's `now`, it has no getter.

What is a PARAMETER: everything that is a parameter of the three models, plus the byte-level encoders the models
leave abstract on the WRITING side (`Codec`: DER / PEM of a certificate of the KeyHistory model, RSA-PSS signing by key
id, proto.Marshal of the golden measurement and of the endorsement).  How they agree with the decoders of the
READING side (`RpCli.Prims`) is the explicit hypothesis `Agree` of Props/C03Tools.lean — never an axiom.

Model time: `KeyHistory` certificates carry seconds since year 0 (`KeyCli.modelTime`); the relying party's `Time` is
instantiated by the same `Nat` (the harness converts Unix seconds with `KeyCli.epochShift`).

Core-only.
-/
namespace GceTcb.ToolChain
open GceTcb

/-- The byte-level encoders of the writing side. -/
structure Codec (Cert : Type) where
  /-- x509 DER of a certificate of the store (what `CertificateAuthority.Certificate` returns) -/
  certDer : KeyHistory.Cert → Bytes
  /-- the root object as gcsca stores it at `--root_path` (PEM), = `CABundle` -/
  rootPem : KeyHistory.Cert → Bytes
  /-- the parsed certificate the relying party's crypto/x509 works with -/
  certOf : KeyHistory.Cert → Cert
  /-- RSA-PSS / SHA-256 / salt 32 by the key with this id -/
  signPss : Nat → Bytes → Bytes
  /-- proto.Marshal of the VMGoldenMeasurement endorse.SignDoc holds -/
  marshalGolden : Endorse.Golden → Bytes
  /-- proto.Marshal of the VMLaunchEndorsement -/
  marshalEndorsement : Verify.Endorsement → Bytes

/-- Everything the composed run is parametric in. -/
structure Kit (Cert Roots R Q : Type) where
  W : KeyCli.Wiring
  pt : String → Option (Int × Nat)
  EP : EndorseCli.Params
  Pr : Endorse.Prims
  T : Endorse.Tables
  RW : RpCli.World Cert Roots Nat R Q
  C : Codec Cert

/-- The shared world: key directory + CA store (the state of Model/KeyHistory.lean), every other file (firmware images,
    out_dir, the relying party's copies), and the manifest of out_dir as the next `endorse` reads it. -/
structure World where
  keys : KeyHistory.State
  files : List (String × Bytes)
  manifest : Commit.MRead

def World.init : World := ⟨KeyHistory.State.init, [], .notFound⟩

def World.read (w : World) (p : String) : Option Bytes := KeyHistory.get w.files p

/-- The parts of the environment of an `endorse` run that are not the shared world. -/
structure EndorseEnv where
  now : Int × Nat
  rndImageId : String
  root : String                       -- `--out_root` (localnonvcs.ReleasePath prefix)

inductive Step where
  /-- one bootstrap / rotate / wipeout command line with the environment it runs in -/
  | key (E : KeyCli.Env) (f : KeyCli.CliFlags)
  /-- `cp <store>/<root_path> path` -/
  | exportRoot (path : String)
  /-- one `endorse` command line: the wiring flags (`--key_dir`, `--bucket…`) as a KeyCli record, the rest as an
      EndorseCli record -/
  | endorse (KE : KeyCli.Env) (wf : KeyCli.CliFlags) (E : EndorseEnv) (fl : EndorseCli.CliFlags)
  /-- one `gcetcbendorsement …` command line at clock reading `now` (model time) -/
  | rp (now : Nat) (cl : RpCli.CmdLine)

section
variable {Cert Roots R Q : Type}

/-! ## adapter: the CA store and key directory as `endorse` sees them -/

/-- go: keys.Context{CA: gcsca over the store, Signer: nonprod.Signer over the key directory}. -/
def keysOf (C : Codec Cert) (cfg : KeyHistory.Cfg) (s : KeyHistory.State) : Endorse.Keys :=
  { ca := some
      { primary := .ok s.ca.primarySigning.show
        certificate := fun key =>
          if key = s.ca.primarySigning.show then
            match KeyHistory.certificate s.ca s.ca.primarySigning with
            | some c => .ok (C.certDer c)
            | none => .err "ca:certificate"
          else .err "ca:unknown-key-version"
        bundle := fun _ =>
          match KeyHistory.bundle cfg s.ca with
          | some r => .ok (C.rootPem r)
          | none => .err "ca:bundle" }
    signer := some fun key d =>
      if key = s.ca.primarySigning.show then
        match KeyHistory.get s.km.live s.ca.primarySigning with
        | some k => .ok (C.signPss k (C.marshalGolden d))
        | none => .err "sign:no-key"
      else .err "sign:unknown-key-version" }

/-- go: app.Global.PersistentPreRunE = localkm.T (`--key_dir` is a directory) then gcsca (`--bucket`, `--root_path`,
    `--cert_dir` not empty; `endorse` has no bootstrap context, so the root path is not derived). -/
def globalPre (W : KeyCli.Wiring) (KE : KeyCli.Env) (wf : KeyCli.CliFlags) : Bool :=
  (KeyCli.keyDirCheck W KE wf).isOk && (KeyCli.siteCheck W { wf with sub := .rotate }).isOk

/-- go: app.Global.InitContext: localca.T.InitContext runs checkCerts for every command but bootstrap. -/
def globalInit (W : KeyCli.Wiring) (s : KeyHistory.State) : Bool := !KeyHistory.cliBlocked W.cfg s.ca

def endorseEnvOf (K : Kit Cert Roots R Q) (w : World) (KE : KeyCli.Env) (wf : KeyCli.CliFlags) (E : EndorseEnv) :
    EndorseCli.Env :=
  { readFile := w.read, now := E.now, rndImageId := E.rndImageId, root := E.root,
    globalPre := globalPre K.W KE wf, appPre := true, globalInit := globalInit K.W w.keys, appInit := true }

/-! ## adapter: out_dir -/

/-- where the endorsement goes: ReleasePath(path.Join(out_dir, basename(candidate))) -/
def outPathOf (c : Commit.Cfg) : String := Commit.relOut c (Manifest.basename c.cand)

/-- What the version-control backend (localnonvcs: the plain file system, no retries) answers during the one attempt. -/
def attemptOf (w : World) (c : Commit.Cfg) : Commit.Attempt :=
  ⟨none, false, w.manifest, (w.read (outPathOf c)).isSome⟩

def scriptOf (K : Kit Cert Roots R Q) (w : World) (env : EndorseCli.Env) (fl : EndorseCli.CliFlags) :
    List Commit.Attempt :=
  match EndorseCli.contextOf K.EP K.Pr.parseUuid env fl with
  | .ok r => [attemptOf w r.fl.cfg]
  | _ => []

/-- The `endorse` command line on the shared world: `EndorseCli.cliRun` with the keys context of the store, the
    world's files and the backend script of the world's out_dir. -/
def endorseRun (K : Kit Cert Roots R Q) (w : World) (KE : KeyCli.Env) (wf : KeyCli.CliFlags) (E : EndorseEnv)
    (fl : EndorseCli.CliFlags) : VF.Run :=
  EndorseCli.cliRun K.EP K.Pr K.T (endorseEnvOf K w KE wf E) fl (some (keysOf K.C K.W.cfg w.keys))
    (some (scriptOf K w (endorseEnvOf K w KE wf E) fl)) []

/-- The file an `endorse` run leaves in out_dir (manifest mode, not dry-run, not measurement-only; a snapshot-mode
    run writes under its snapshot directory only, which no relying-party step of this model reads). -/
def endorseWrites (K : Kit Cert Roots R Q) (w : World) (KE : KeyCli.Env) (wf : KeyCli.CliFlags) (E : EndorseEnv)
    (fl : EndorseCli.CliFlags) : Option (String × Bytes) :=
  match EndorseCli.contextOf K.EP K.Pr.parseUuid (endorseEnvOf K w KE wf E) fl with
  | .ok r =>
    if r.fl.measurementOnly || r.fl.cfg.dryRun || r.fl.cfg.snapshot then none
    else
      match (endorseRun K w KE wf E fl).result, Endorse.goldenMeasurement K.Pr K.T r.ctx with
      | .ok _, .ok g =>
        match Endorse.signDoc (some (keysOf K.C K.W.cfg w.keys)) r.ts g with
        | .ok (d, sig) => some (outPathOf r.fl.cfg, K.C.marshalEndorsement ⟨K.C.marshalGolden d, sig⟩)
        | _ => none
      | _, _ => none
  | _ => none

/-- the manifest after the run: the payload of the last successful manifest write -/
def manifestAfter : List VF.Eff → Commit.MRead → Commit.MRead
  | [], m => m
  | .vcs _ ⟨_, .writeManifest, true, _, es⟩ :: rest, _ => manifestAfter rest (.ok es)
  | _ :: rest, m => manifestAfter rest m

/-! ## the relying party -/

def rpEnv (w : World) (now : Nat) : RpCli.Env Nat := { readFile := w.read, getter := none, now := now }

def rpRun (K : Kit Cert Roots R Q) (w : World) (now : Nat) (cl : RpCli.CmdLine) : RpCli.Run R Q :=
  RpCli.run K.RW (rpEnv w now) cl

/-! ## one step, a history -/

/-- coarse result class of a step: `ok` = exit status 0 -/
def clsOf {α : Type} : Outcome α → String
  | .ok _ => "ok"
  | .err _ => "err"
  | .panic _ => "panic"

def exportRoot (K : Kit Cert Roots R Q) (w : World) (path : String) : World × String :=
  match KeyHistory.bundle K.W.cfg w.keys.ca with
  | some r => ({ w with files := KeyHistory.put w.files path (K.C.rootPem r) }, "ok")
  | none => (w, "none")

def step (K : Kit Cert Roots R Q) (w : World) : Step → World × String
  | .key E f =>
    let r := KeyCli.cliStep K.W K.pt E w.keys f
    ({ w with keys := r.1 }, if r.2 then "ok" else "err")
  | .exportRoot p => exportRoot K w p
  | .endorse KE wf E fl =>
    let r := endorseRun K w KE wf E fl
    let w1 : World := { w with manifest := manifestAfter r.effects w.manifest }
    match endorseWrites K w KE wf E fl with
    | some (p, b) => ({ w1 with files := KeyHistory.put w.files p b }, clsOf r.result)
    | none => (w1, clsOf r.result)
  | .rp now cl => (w, clsOf (rpRun K w now cl).result)

def run (K : Kit Cert Roots R Q) : World → List Step → World × List String
  | w, [] => (w, [])
  | w, s :: rest =>
    let r := step K w s
    let n := run K r.1 rest
    (n.1, r.2 :: n.2)

/-- `gcetcbendorsement verify --root_cert q p` -/
def verifyLine (q p : String) : RpCli.CmdLine := ⟨"verify", [("root_cert", q)], [p]⟩

/-- a history of key-management command lines as steps -/
def keySteps (h : List (KeyCli.Env × KeyCli.CliFlags)) : List Step := h.map fun l => .key l.1 l.2

end

end GceTcb.ToolChain
